"""C08: the option parser assigns exactly what the command line says and nothing else (OptParse.tla)."""
import os, json, time
from vlib import build
from vlib.core import tok, untok, Broken, log
from vlib.tlc import run_tlc
from vlib.replay import run_scripts

PROPERTY = "C08"
LEVEL = "model_checking"
LEVEL_TEXT = ("TLC explores OptParse.tla - the ideal reading of a command line as a step machine, one action per spelling - over "
              "ALL argument vectors up to a length bound built from a token alphabet covering every spelling, for two option tables "
              "and the four combinations of {pre-parse, remove-args}, checking the reference laws (bits only by their own option, "
              "other pass untouched, non-option words untouched in order, strictly advancing cursor, compaction = filter). Every "
              "behaviour TLC generates (expected targets, argv, bad count, flags per pass) is then executed on spifopt_parse in an "
              "ASan build of the current tree (fresh exact-size heap argv, guarded targets, CPU watchdog) and compared.")
LEVEL_NOTE = ("Bounded scope: all argv of <= 3 words over 15 tokens and <= 2 words over the full 35-token alphabet (quick); <= 4 words "
              "over 11 tokens, <= 3 words over 28 and <= 2 over all 35 (thorough); two family scopes (all boolean words x {=WORD, next "
              "word}; long names that are prefixes of each other / of the typed name; a third table with every subset of the modifier "
              "bits PREPARSE/DEPRECATED/ARRAY per kind; ALL histories of 3 (thorough also 4) spifopt_parse calls over the same "
              "argv/argc with every settings combination per call, <= 3 words over 4 tokens); 2 option tables x the 4 usual "
              "histories elsewhere; beyond the bound "
              "seeded samples of 4-8 words and a size sweep (n-1, n, n+1 around powers of two for words in a list, letters in a "
              "bundle, words on the line, characters in a value) - TLC computes the expectation of those too. Every behaviour is "
              "run fresh and after 4 adversarial preludes (stale errno, an earlier refused parse); results must be identical. "
              "Points DESIGN.md 8a marks E are accepted either way (boolean word after a short boolean, lone '-' / bare '--', "
              "whether unknown-option words stay in argv, exact count for a missing value); spellings marked X end the comparison "
              "and are run for termination, memory safety and purity only. The bad-option count is compared as the 8-bit quantity "
              "the API exposes (saturating at 255). Heap balance is not judged when a string/list option is given twice nor on X "
              "lines. Case-insensitive matching only through a few mixed-case tokens; spifopt_usage output and the bad-option limit "
              "(which exits) are not covered. Trusted: TLC, harness/opt_replay.c, the comparison in checks/c08.py, ASan.")
TECHNIQUE = "TLA+ spec + TLC exhaustive enumeration of behaviours replayed on the implementation"
DESIGN_REF = "DESIGN.md section 6 C08, 8a Options"

CFGS = {"quick": ["OptParse_quick.cfg", "OptParse_quick2.cfg", "OptParse_bool.cfg", "OptParse_prefix.cfg", "OptParse_lattice.cfg",
                  "OptParse_hist.cfg"],
        "thorough": ["OptParse_thorough.cfg", "OptParse_thorough2.cfg", "OptParse_quick2.cfg", "OptParse_bool.cfg",
                     "OptParse_prefix3.cfg", "OptParse_lattice.cfg", "OptParse_hist2.cfg", "OptParse_hist4.cfg"]}
SETBITS = {"PRE": 1, "REM": 2}


def harness(ctx):
    libdir, cflags = build.build_lib(ctx.repo)
    return build.build_harness("opt_replay", ["opt_replay.c"], libdir, cflags)


def text(codes):
    return "".join(chr(c) for c in codes)


def write_tables(ctx, hdr):
    p = os.path.join(ctx.rundir, "opt_tables.txt")
    with open(p, "w") as f:
        for t, table in enumerate(hdr["tables"], 1):
            f.write("I %d %d %d\n" % (t, sum(1 << b for b in hdr["flags0"][t - 1]), hdr["int0"]))
            for o in table:
                f.write("O %d %d %s %d %d %d %d %s\n" % (t, o["sh"], o["kind"], int(o["pp"]), int(o["dep"]), int(o["arr"]), o["bit"],
                                                        tok(o["lg"])))
    return p


# every behaviour is run in a fresh state (0) and again after each adversarial prelude: the result must be the same
PRELUDES = ["fresh", "errno=ERANGE", "errno=EINTR", "errno=EAGAIN", "earlier-refused-parse"]
NP = len(PRELUDES)


def script_text(sid, b, prelude=0):
    lines = ["S %d" % sid]
    for c, cs in enumerate(b["calls"]):         # one spifopt_parse() call per element of the history, same argv, same argc
        st = sum(SETBITS[x] for x in cs)
        if c == 0:
            lines.append("parse %d %d %s %s %d = ? ?" % (b["tb"], st, tok(b["argv"]), tok(bool(b["re"]) or not b["strict"]), prelude))
        else:
            lines.append("parse %d %d - F %d = ? ?" % (b["tb"], st, prelude))
    lines.append("E")
    return "\n".join(lines) + "\n"


def match_argv(exp_words, keep, got):
    """exp_words with keep modes (1 must stay, 0 must be gone, 2 either), got = words found.  Order preserved."""
    cand = [(w, k) for w, k in zip(exp_words, keep) if k != 0]

    def rec(ci, gi):
        if ci == len(cand):
            return gi == len(got)
        w, k = cand[ci]
        if gi < len(got) and got[gi] == w and rec(ci + 1, gi + 1):
            return True
        return k == 2 and rec(ci + 1, gi)
    return rec(0, 0)


def compare(hdr, b, pi, got):
    """Mismatches of one pass: list of (kind, field, expected, got)."""
    out = []
    if got["hang"]:
        return [("hang", "spifopt_parse", "returns", "still running after 0.3 s CPU")]
    if not b["strict"]:
        return out
    e = b["passes"][pi]
    table = hdr["tables"][b["tb"] - 1]
    fl = sum(1 << x for x in e["fl"])
    if got["fl"] != fl:
        out.append(("value", "boolword", "0x%x" % fl, "0x%x" % got["fl"]))
    delta = {j: v for j, v in e["tv"]}
    for j, o in enumerate(table, 1):
        k = o["kind"]
        ev = delta.get(j, {"n": hdr["int0"] if k == "int" else 0, "has": False, "s": [], "ws": []})
        gv = got["tv"][j - 1]
        if k == "int":
            ok = gv["n"] == ev["n"]
        elif k == "str":
            ok = gv["has"] == ev["has"] and gv["s"] == ev["s"]
        elif k == "args":
            ok = gv["has"] == ev["has"] and gv["ws"] == ev["ws"]
        elif k == "abst":
            ok = gv["n"] == ev["n"] and gv["has"] == ev["has"] and gv["s"] == ev["s"]
        elif k == "cnt":
            ok = gv["n"] == ev["n"]             # I: counted once per occurrence
        else:
            ok = True
        if not ok:
            out.append(("value", "target:%s%s" % (k, "(pp)" if o["pp"] else ""), tok(ev), tok(gv)))
    if not (got["bad"] >= e["badLo"] and (e["badOpen"] or got["bad"] <= e["badHi"])):
        out.append(("value", "badcount", "%d..%s" % (e["badLo"], "*" if e["badOpen"] else e["badHi"]), str(got["bad"])))
    sf = sum(SETBITS[s] for s in e["sf"])
    if got["sf"] != sf:
        out.append(("value", "settings", str(sf), str(got["sf"])))
    if got["help"]:
        out.append(("value", "helpcalls", "0", str(got["help"])))
    if not got["term"]:
        out.append(("value", "argv", "NULL-terminated", "no NULL within argc"))
    elif not match_argv(b["argv"] if e["same"] else e["inw"], e["keep"], got["argv"]):
        out.append(("value", "argv", tok([[text(w), k] for w, k in zip(b["argv"] if e["same"] else e["inw"], e["keep"])]).replace(" ", "_"),
                    tok([text(w) for w in got["argv"]]).replace(" ", "_")))
    return out


def show_argv(argv):
    """Words of a vector for keys and messages; long words and long vectors abbreviated (deterministically)."""
    ws = []
    for w in argv:
        t = text(w).replace(" ", "_")
        ws.append(t if len(t) <= 24 else "%s..(%d_chars)" % (t[:10], len(t)))
    if len(ws) > 8:
        ws = ws[:3] + ["..(%d_words)" % len(ws)]
    return "[%s]" % ",".join(ws)


CANON = ("none", "REM", "PRE>none", "PRE+REM>REM")


def hist_str(calls):
    """A history as text: the settings of each call, e.g. PRE+REM>REM (pre-parse pass, then removing normal pass)."""
    return ">".join("+".join(sorted(c)) or "none" for c in calls)


def pass_label(b, k):
    """pre / main for the call k (0-based) of the four usual histories, pre@3 / main@2 ... for the others."""
    nm = "pre" if "PRE" in b["calls"][k] else "main"
    return nm if hist_str(b["calls"]) in CANON else "%s@%d" % (nm, k + 1)


def bkey(b):
    return (b["tb"], hist_str(b["calls"]), tuple(tuple(w) for w in b["argv"]))


def run_cfg(ctx, exe, cfg, state, module="MC_OptParse.tla", specdir=None, vacuity=True):
    raw = []        # behaviours as compact JSON text (hundreds of thousands in the thorough tier)
    hdrs = []

    def on_line(d):
        if d.get("header"):
            hdrs.append(d)
        else:
            raw.append(json.dumps(d, separators=(",", ":")))
    workers = min(4, int(os.environ.get("VERIF_JOBS", "4")))
    kw = {"specdir": specdir} if specdir else {}
    # SplitWords recurses once per word of an "--exec=VALUE" list (up to ~1000 words in the size sweep): deep Java stack
    res = run_tlc(module, cfg, ctx.rundir, on_edge=on_line, workers=workers, timeout=3000, heap="8g",
                  env={"JAVA_TOOL_OPTIONS": "-Xss1g"}, **kw)
    nb = len(raw)
    ctx.add("states", res.distinct)
    ctx.add("transitions", res.generated)
    ctx.add("behaviours_emitted", nb)
    acts = {a: list(v) for a, v in sorted(res.coverage.items()) if a.startswith("Op")}
    ctx.cov.setdefault("tlc_runs", []).append({"module": module, "cfg": cfg, "distinct_states": res.distinct,
                                               "states_generated": res.generated, "depth": res.depth, "behaviours": nb,
                                               "wall_s": round(res.wall, 1), "actions": acts})
    if not res.ok:
        ctx.report("spec:%s" % cfg, "TLC reports a violated property of the specification itself: %s" % (res.violation or "")[:600],
                   {"tlc": res.violation, "cfg": cfg})
    for a, (d, g) in res.coverage.items():
        if a.startswith("Op") and vacuity:
            state["taken"][a] = state["taken"].get(a, 0) + g
    if not hdrs or not nb:
        raise Broken("TLC emitted no header/behaviours for %s" % cfg)
    hdr = hdrs[0]
    tables = write_tables(ctx, hdr)
    t0 = time.time()
    # behaviours already executed under an earlier cfg of this run are not repeated
    todo = []
    texts = []
    for r in raw:
        b = json.loads(r)
        kb = bkey(b)
        if kb in state["seen"]:
            continue
        state["seen"].add(kb)
        todo.append(r)
        for p in range(NP):
            texts.append(script_text((len(todo) - 1) * NP + p + 1, b, p))
    del raw
    jobs = min(4, int(os.environ.get("VERIF_JOBS", "4")))
    fails, recs, ns, nt = [], [], 0, 0
    CH = 4000 * NP
    for c0 in range(0, len(texts), CH):
        f_, r_, ns_, nt_ = run_scripts(exe, [tables], texts[c0:c0 + CH], ctx.rundir, jobs=jobs, env={"VH_WATCHDOG": "30"}, tag="opt")
        fails += f_
        recs += r_
        ns += ns_
        nt += nt_
        nhard = sum(1 for f in fails if f.kind in ("crash", "hang", "exit")) + sum(1 for r in r_ if ",hang=T," in r[3])
        state["hard"] = state.get("hard", 0) + nhard
        if state["hard"] > 400 and c0 + CH < len(texts):
            ctx.notes.append("%s: stopped after %d of %d behaviours: more than 400 crashes/hangs so far" % (cfg, c0 + CH, len(texts)))
            todo = todo[:(c0 + CH) // NP]
            texts = texts[:c0 + CH]
            state["stopped"] = True
            break
    ctx.add("traces_validated_against_impl", ns)
    ctx.add("evaluations", nt)
    by = {}
    for sid, step, ret, st in recs:
        by.setdefault(sid, {})[step] = st
    hard = {}
    for f in fails:
        hard.setdefault(f.sid, []).append(f)
    # verdict per behaviour: list of (kind, field, pass, exp, got, detail), one per mismatching field of the first
    # pass that mismatches (later passes start from a state the specification does not describe)
    verdict = {}
    nstrict = npasses = 0
    longest = None
    for k, r in enumerate(todo):
        b = json.loads(r)
        if b["strict"] and len(b["passes"]) > 1 and (longest is None or len(b["argv"]) > len(longest["argv"]) or
                                                (len(b["argv"]) == len(longest["argv"]) and k % 97 == 0)):
            longest = b
        sid = k * NP + 1
        vs = []
        npass = len(b["calls"])
        ncmp = len(b["passes"]) if b["strict"] else npass       # calls behind an undetermined continuation (E) are not compared
        nstrict += 1 if b["strict"] else 0
        for f in hard.get(sid, []):
            if f.kind in ("crash", "hang", "exit", "inv"):
                d = f.sig if f.kind != "inv" else f.got
                vs.append((f.kind, d, pass_label(b, min(f.step, npass - 1)), "", d, f.detail))
                break
        if not vs:
            for pi in range(npass):
                st = by.get(sid, {}).get(pi)
                if st is None:
                    vs.append(("missing", "record", str(pi), "", "", ""))
                    break
                if pi >= ncmp:
                    if ",hang=T," in st:
                        vs.append(("hang", "spifopt_parse", pass_label(b, pi), "returns", "still running after 0.3 s CPU", ""))
                        break
                    continue
                mm = compare(hdr, b, pi, untok(st))
                npasses += 1
                if mm:
                    pn = pass_label(b, pi)
                    for kind, field, exp, got in mm:
                        vs.append((kind, field, pn, exp, got, ""))
                    break
        if not vs:
            for f in hard.get(sid, []):
                if f.kind == "heap":
                    vs.append(("heap", "imbalance", "end", f.exp, f.got, ""))
        vtext = texts[k * NP]
        # the runs after an adversarial prelude must give exactly the fresh run's result (purity: needs no oracle, so
        # it also covers the command lines outside the argument universe)
        if not vs:
            for p in range(1, NP):
                sp = sid + p
                pv = []
                for f in hard.get(sp, []):
                    if f.kind in ("crash", "hang", "exit", "inv", "heap"):
                        d = f.sig if f.kind not in ("inv", "heap") else f.got
                        pv.append(("stale-state", "after-%s:%s" % (PRELUDES[p], f.kind), pass_label(b, npass - 1), "as the fresh run", d, f.detail))
                        break
                if not pv:
                    for pi in range(npass):
                        a, g = by.get(sid, {}).get(pi), by.get(sp, {}).get(pi)
                        if a != g:
                            mm = compare(hdr, b, pi, untok(g)) if g is not None and pi < ncmp else []
                            fld = mm[0][1] if mm else "result"
                            pv.append(("stale-state", "after-%s:%s" % (PRELUDES[p], fld), pass_label(b, pi),
                                       (a or "-")[:300], (g or "-")[:300], ""))
                            break
                if pv:
                    vs += pv
                    vtext = texts[k * NP + p]
                    break
        if vs:
            verdict[bkey(b)] = (vs, b, vtext)
    state["verdicts"].update(verdict)
    ctx.add("behaviours_strict", nstrict)
    ctx.add("passes_compared", npasses)
    ctx.cov.setdefault("replay", {})[cfg] = {"behaviours": len(todo), "scripts": ns, "calls": nt, "failing": len(verdict),
                                             "wall_s": round(time.time() - t0, 1)}
    if longest is not None:
        b = longest
        ctx.sample({"cfg": cfg, "table": b["tb"], "history": hist_str(b["calls"]), "argv": [text(w) for w in b["argv"]],
                    "expected_main": {"boolword": sorted(b["passes"][-1]["fl"]), "keep": b["passes"][-1]["keep"],
                                      "targets_changed": [[j, tok(v)] for j, v in b["passes"][-1]["tv"]],
                                      "bad": [b["passes"][-1]["badLo"], b["passes"][-1]["badHi"]]}})
    return hdr


def long_vectors(ctx, exe, state):
    """Beyond the exhaustive bound: seeded random vectors of 4-8 words over the full alphabet.  TLC still computes the
    expectation of every one of them (Init chooses from the sampled set instead of from all bounded vectors)."""
    import random, shutil
    from vlib.tlc import SPEC
    rnd = random.Random(ctx.seed)
    n, lo, hi = (400, 4, 6) if ctx.tier == "quick" else (3000, 5, 8)
    ntok = state["hdr"]["nfull"]
    plain = [k + 1 for k, w in enumerate(state["hdr"]["toktext"][:ntok]) if w and w[0] != 45]
    vecs = set()
    while len(vecs) < n:
        ln = rnd.randint(lo, hi)
        vecs.add(tuple(rnd.choice(plain) if rnd.random() < 0.35 else rnd.randint(1, ntok) for _ in range(ln)))
    d = os.path.join(ctx.rundir, "spec-long")
    os.makedirs(d, exist_ok=True)
    for f in ("OptParse.tla", "MC_OptParse.tla"):
        shutil.copy(os.path.join(SPEC, f), d)
    cfg = open(os.path.join(SPEC, "OptParse_quick.cfg")).read()
    cfg = cfg.replace("TokSets <- TokCore", "TokSets <- TokFull").replace("MaxArgs = 3", "MaxArgs = %d" % hi)
    cfg = cfg.replace("Argvs <- ArgvsBounded", "Argvs <- ArgvsSampled")
    if "ArgvsSampled" not in cfg or "TokFull" not in cfg:
        raise Broken("cannot derive the sampled-vector cfg from OptParse_quick.cfg")

    toktext = [list(w) for w in state["hdr"]["toktext"]]      # grows by the size-sweep tokens
    nbase = len(toktext)

    def run_vectors(vs, tag):
        with open(os.path.join(d, "MC_OptParseLong.tla"), "w") as f:
            f.write("---- MODULE MC_OptParseLong ----\nEXTENDS MC_OptParse\n")
            need = max([nbase] + [t for v in vs for t in v])          # sweep tokens only when a vector uses them
            f.write("LongTokText == <<\n%s\n>>\n" % ",\n".join("<<%s>>" % ", ".join(str(c) for c in w) for w in toktext[:need]))
            f.write("Sampled == {\n")
            f.write(",\n".join("<<%s>>" % ", ".join(str(t) for t in v) for v in sorted(vs)))
            f.write("\n}\nArgvsSampled(t) == Sampled\n====\n")
        name = "OptParse_%s.cfg" % tag
        with open(os.path.join(d, name), "w") as f:
            f.write(cfg.replace("TokText <- MCTokText", "TokText <- LongTokText"))
        run_cfg(ctx, exe, name, state, module="MC_OptParseLong.tla", specdir=d, vacuity=False)

    run_vectors(vecs, "long")
    ctx.add("sampled_long_vectors", len(vecs))

    # ---- size sweep: every spelling that has a size (words in a list, letters in a bundle, characters in a value, words
    # on the line) at n-1, n, n+1 around the powers of two (and 127/128), in four position classes.  The tokens are
    # outside the static alphabet: they are appended to the alphabet of the generated module, so TLC computes the
    # expectation of every one of these lines with the same actions.
    def tk(txt):
        w = [ord(c) for c in txt]
        toktext.append(w)
        return len(toktext)
    base = {"".join(chr(c) for c in w): k + 1 for k, w in enumerate(toktext[:nbase])}
    quick = ctx.tier == "quick"
    pw = [8, 16, 32, 64] if quick else [8, 16, 32, 64, 128, 256, 512, 1024]      # words inside one --exec=VALUE word
    pl = [8, 16, 32, 64] if quick else [8, 16, 32, 64, 128]                      # words on the line
    pb = [8, 16, 32, 64] if quick else [8, 16, 32, 64, 128, 256, 512]            # letters in a bundle
    pc = [8, 16, 32, 64, 128, 256] if quick else [8, 16, 32, 64, 128, 256, 512, 1024, 2048, 4096, 8192]
    around = lambda ps: sorted({m for q in ps for m in (q - 1, q, q + 1)} | ({126, 127} if max(ps) >= 128 else set()))
    sweep = set()

    def contexts(t):
        sweep.update([(t,), (base["x"], t, base["7"])])              # alone / in the middle
    for m in around(pw):
        words = [("'q %d'" % k if k % 5 == 4 else "w%d" % (k % 10)) for k in range(m)]
        contexts(tk("--exec=" + " ".join(words)))                                   # ArgListEq: m words inside one argv word
    for m in around(pb):
        contexts(tk("-" + "".join("ab"[k % 2] for k in range(m))))                  # bundle of m known letters
        contexts(tk("-" + "".join("abz"[k % 3] for k in range(m))))                 # ... with unknown letters in it
    for m in (255, 256, 257) + (() if quick else (511, 512, 513)):
        contexts(tk("-" + "z" * m))                                                 # more bad options than the 8-bit counter holds
    for m in around(pl):
        cyc = [base["x"], base["7"], base["on"], base["-a"], base["--num"]]
        for opt in ("-e", "--exec"):                                                # ArgListRest: m words on the line
            sweep.add((base[opt],) + tuple(cyc[k % 5] for k in range(m)))
            sweep.add((base["-ab"], base[opt]) + tuple(cyc[k % 5] for k in range(m)))
        sweep.add(tuple(base["x"] if k % 3 else base["7"] for k in range(m)))         # m non-option words
        sweep.add(tuple(base["x"] for k in range(m - 1)) + (base["-ab"],))
    for m in around(pc):
        val = "".join("abcdefghij"[k % 10] for k in range(m))
        for spell in ("--file=%s", "-f%s", "-bf%s", "--theme=%s", "-t%s", "-e%s", "--zap%s", "%s"):
            contexts(tk(spell % val))
        t = tk(val)
        sweep.update([(base["-f"], t), (base["--num"], base["7"], base["-bf"], t), (base["-t"], t, base["x"])])   # value in the next word
        contexts(tk("--agony=" + "o" * m))                                          # X: over-long non-boolean word
    # ---- value corners: the value of EVERY value-taking spelling (-xV, -x V, --long=V, --long V, a bundle ending in -xV,
    # for string, list and abstract options) ranges over the special characters of every OTHER spelling: '=', a '-'
    # inside, a leading '-' / "--" (X after a next-word spelling, 8a; strict after '='), an embedded blank, the empty value;
    # and '=' inside a bundle of flags.  Same generated module, same actions, TLC computes the expectation.
    nsweep = len(sweep)
    specials = ["key=val", "=", "a=b=c", "x=", "=x", "a b", "a-b", "-", "--", "-x", "--x", ""]
    for v in specials:
        vt = tk(v) if v not in base else base[v]
        for opener in ("-f", "--file", "-bf", "-t", "--theme", "-e", "--exec", "--agony", "-a"):
            o = base[opener] if opener in base else tk(opener)
            base[opener] = o
            sweep.update([(o, vt), (o, vt, base["x"]), (base["x"], o, vt)])           # -x V / --long V
        for attach in ("-f%s", "-bf%s", "--file=%s", "-t%s", "--theme=%s", "-e%s", "--exec=%s", "--agony=%s", "-n%s", "--num=%s"):
            if v == "" and "=" not in attach:
                continue                                                              # -x with nothing attached is the plain option
            t = tk(attach % v)
            sweep.update([(t,), (t, base["x"]), (base["x"], t, base["7"])])           # -xV / --long=V
    for bundle in ("-ab=on", "-a=b", "-ab=", "-vb=0", "-=", "-b=-a"):
        t = tk(bundle)
        sweep.update([(t,), (t, base["on"]), (base["x"], t)])
    ctx.add("value_corner_vectors", len(sweep) - nsweep)
    run_vectors(sweep, "sizes")
    ctx.add("size_sweep_vectors", nsweep)
    ctx.add("size_sweep_tokens", len(toktext) - nbase)
    # failing sampled vectors are reduced the same way as the others: their sub-vectors are explored too (TLC computes
    # the expectation of each), round by round, until every failing vector has all its one-word deletions explored
    index = {tuple(w): k + 1 for k, w in enumerate(toktext)}
    for rnd_no in range(hi):
        cands = set()
        for key in list(state["verdicts"]):
            (tbn, st, av) = key
            if len(av) <= 1 or len(av) > 10 or all(minimise(state["verdicts"], key, v) != key for v in state["verdicts"][key][0]):
                continue        # already explained by a shorter explored vector
            for k in range(len(av)):
                sub = av[:k] + av[k + 1:]
                if (tbn, st, sub) not in state["seen"]:
                    cands.add(tuple(index[w] for w in sub))
        if not cands:
            break
        run_vectors(cands, "reduce%d" % rnd_no)
        ctx.add("reduction_vectors", len(cands))


def has_mismatch(verdicts, key, v):
    w = verdicts.get(key)
    return w is not None and any(x[0] == v[0] and x[1] == v[1] and x[2] == v[2] for x in w[0])


def minimise(verdicts, key, v):
    """The shortest explored sub-vector (words dropped, order kept, same table and settings) that shows the same
    mismatch; ties broken by position.  The vector itself if none is shorter."""
    import itertools
    tbn, st, av = key
    n = len(av)
    for ln in range(0, n if n <= 10 else 3):
        for idx in itertools.combinations(range(n), ln):
            cand = (tbn, st, tuple(av[k] for k in idx))
            if has_mismatch(verdicts, cand, v):
                return cand
    return key


def run(ctx):
    exe = harness(ctx)
    state = {"seen": set(), "verdicts": {}, "taken": {}}
    for cfg in CFGS[ctx.tier]:
        if not state.get("stopped"):
            state["hdr"] = run_cfg(ctx, exe, cfg, state)
    if not state.get("stopped"):
        long_vectors(ctx, exe, state)
    unt = sorted(a for a, n in state["taken"].items() if n == 0)
    if (unt or len(state["taken"]) < 20) and not state.get("stopped"):
        raise Broken("vacuity: actions never taken in any scope of this tier: %s (%d actions seen)" % (unt, len(state["taken"])))
    verdicts = state["verdicts"]
    byf = {}        # finding key -> {minimal vector key: number of explored vectors that reduce to it}
    for key in sorted(verdicts):
        for v in verdicts[key][0]:
            m = minimise(verdicts, key, v)
            (_vs, b, _t) = verdicts[m]
            argv_s = show_argv(b["argv"])
            fkey = "%s:%s pass=%s tb=%d argv=%s" % (v[0], v[1], v[2], b["tb"], argv_s)
            d = byf.setdefault(fkey, {})
            d[m] = d.get(m, 0) + 1
    for fkey in sorted(byf):
        ms = sorted(byf[fkey])
        (vs, b, txt) = verdicts[ms[0]]
        v = [x for x in vs if fkey.startswith("%s:%s pass=%s " % (x[0], x[1], x[2]))][0]
        kind, field, pas, exp, got, detail = v
        argv_s = show_argv(b["argv"])
        sts = ["{%s}" % hist_str(verdicts[m][1]["calls"]) for m in ms]
        what = "table %d argv %s histories %s: %s %s in the %s pass: expected %s, got %s (%d explored vectors reduce to this) %s" % (
            b["tb"], argv_s, " ".join(sts), kind, field, pas, exp, got, sum(byf[fkey].values()), detail[:700])
        ctx.report(fkey, what, {"harness_args": ["@tables"], "script_text": txt, "behaviour": b})
    ctx.cov["failing_behaviours"] = len(verdicts)
    ctx.cov["failing_minimal_vectors"] = len(byf)
    ctx.cov["exhaustive"] = True
    ctx.cov["rule"] = ("every behaviour (table x settings x argument vector) TLC generates in the bounded scope is executed once on "
                       "spifopt_parse (pre-parse pass + normal pass as one script); targets, argv up to and including the NULL, bad-option "
                       "count and settings flags are compared after every pass with the values the specification computed")
    ctx.assumptions += ["help handler returns; bad-option limit 255, the largest the 8-bit field holds (limit handling, which exits, is out of scope)",
                        "integer targets are long-sized cells initialised to 5, written through int*",
                        "ASan build of the current tree (clang -O1)"]


def replay(ctx, path):
    d = json.load(open(path))
    rp = d.get("replay") or {}
    txt = rp.get("script_text")
    b = rp.get("behaviour")
    if not txt or not b:
        print("replay file has no script")
        return 2
    exe = harness(ctx)
    # the tables come from the specification: ask TLC for the header (smallest cfg)
    hdrs = []
    run_tlc("MC_OptParse.tla", "OptParse_header.cfg", ctx.rundir, on_edge=lambda x: hdrs.append(x) if x.get("header") else None,
            workers=1, timeout=300, coverage=False)
    if not hdrs:
        print("cannot obtain the option tables from TLC")
        return 2
    hdr = hdrs[0]
    tables = write_tables(ctx, hdr)
    fails, recs, ns, nt = run_scripts(exe, [tables], [txt], ctx.rundir, jobs=1, env={"VH_WATCHDOG": "30"}, tag="replay")
    bad = 0
    for f in fails:
        print("REPRODUCED", f)
        if f.detail:
            print(f.detail)
        bad += 1
    for sid, step, ret, st in sorted(recs):
        got = untok(st)
        mm = compare(hdr, b, step, got) if (b["strict"] or got["hang"]) and (step < len(b["passes"]) or got["hang"]) else []
        print("call %d: %s" % (step, st))
        for m in mm:
            print("REPRODUCED %s %s expected %s got %s" % m)
            bad += 1
    if not bad:
        print("not reproduced: behaviour conforms")
    return 1 if bad else 0
