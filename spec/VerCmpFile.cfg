SPECIFICATION FileSpec
CONSTANTS
  RawSyms = {}
  RawMax = 0
  NumVals = {}
  MaxNums = 1
  SuffixWords = {}
  SuffixNums = {}
  TransMax = 0
  MaxClaimedRun = 127
  Obs <- ObsEmitFile
INVARIANTS FileLaws
CHECK_DEADLOCK FALSE
