/* Extension X06 (beyond the listed properties): replays UsageLayout.tla on the real spifopt_usage() (src/options.c).
 * usage: usage_replay - <scriptfile> [first]
 * Step:  usage <name> <version> <nopts> { <short|-> <long> <flags> <desc|-> }*   (texts as byte lists)
 * Result token: {exit=<status>,out=<bytes written to fd 1>}.  spifopt_usage() ends the process, so the call runs in a
 * forked child with fd 1 redirected into a file; the parent reads the file and the wait status.  A child killed by a
 * signal (or by a sanitizer report, exit 99) is reported as such.  The table, its texts and the name/version are exact-size
 * heap blocks (redzones right behind them) and live until the end of the script.
 */
#include "common.h"
#include <sys/wait.h>
#include <fcntl.h>

static spifopt_t *table; static int ntable;
static void *blocks[64]; static int nblocks;
static char capfile[256];

static void vh_begin(void) { table = NULL; ntable = 0; nblocks = 0; }
static void vh_end(void) {
    int i;
    SPIFOPT_OPTLIST_SET(NULL); SPIFOPT_NUMOPTS_SET(0);
    libast_set_program_name("usage_replay"); libast_set_program_version("0");
    for (i = 0; i < nblocks; i++) free(blocks[i]);
    nblocks = 0;
    if (table) { free(table); table = NULL; }
}
static char *text_arg(const char *t) {
    char *p;
    if (!strcmp(t, "-")) return NULL;
    p = (char *) vh_bytes(t, NULL, 1);
    blocks[nblocks++] = p;
    return p;
}
static const char *vh_step(const vh_step_t *st, vh_sb *ret, vh_sb *state) {
    int n, i, status = 0, fd; pid_t pid; char *name, *ver; static unsigned char buf[1 << 16]; ssize_t got, tot = 0;
    sb_puts(state, "-");                      /* a pure function of the table: no state token */
    if (strcmp(st->op, "usage") || st->nargs < 3) return "unknown_op";
    name = text_arg(st->args[0]); ver = text_arg(st->args[1]); n = atoi(st->args[2]);
    if (st->nargs != 3 + 4 * n) return "bad_arity";
    table = (spifopt_t *) malloc(sizeof(spifopt_t) * (size_t) (n ? n : 1)); ntable = n;
    memset(table, 0, sizeof(spifopt_t) * (size_t) (n ? n : 1));
    for (i = 0; i < n; i++) {
        char *s = text_arg(st->args[3 + 4 * i]), *d;
        table[i].short_opt = s ? s[0] : 0;
        table[i].long_opt = (spif_charptr_t) text_arg(st->args[4 + 4 * i]);
        table[i].flags = (spif_uint16_t) atol(st->args[5 + 4 * i]);
        d = text_arg(st->args[6 + 4 * i]);
        if (!d) { d = (char *) malloc(1); d[0] = 0; blocks[nblocks++] = d; }
        table[i].desc = (spif_charptr_t) d;
    }
    libast_set_program_name(name ? name : ""); libast_set_program_version(ver ? ver : "");
    SPIFOPT_OPTLIST_SET(table); SPIFOPT_NUMOPTS_SET(n);
    fflush(stdout); fflush(stderr);
    pid = fork();
    if (pid < 0) return "fork_failed";
    if (pid == 0) {
        fd = open(capfile, O_WRONLY | O_CREAT | O_TRUNC, 0600);
        if (fd < 0) _exit(98);
        dup2(fd, 1); close(fd);
        vh_in_script = 0;                       /* the child's exit is the expected outcome, not a harness death */
        alarm(10);
        spifopt_usage();
        fflush(stdout);
        _exit(97);                              /* spifopt_usage() returned: the reference says it ends the process */
    }
    if (waitpid(pid, &status, 0) != pid) return "waitpid_failed";
    fd = open(capfile, O_RDONLY);
    if (fd >= 0) { while ((got = read(fd, buf + tot, sizeof(buf) - (size_t) tot)) > 0) tot += got; close(fd); }
    unlink(capfile);
    if (WIFSIGNALED(status)) sb_printf(ret, "{signal=%d,out=", WTERMSIG(status));
    else sb_printf(ret, "{exit=%d,out=", WEXITSTATUS(status));
    sb_bytes(ret, buf, (size_t) tot);
    sb_putc(ret, '}');
    return NULL;
}
int main(int argc, char **argv) {
    if (argc < 3) return 2;
    snprintf(capfile, sizeof(capfile), "%s.cap.%ld", argv[2], (long) getpid());
    libast_set_program_name("usage_replay"); libast_set_program_version("0");
    return vh_main(argc, argv, 2);
}
