"""C04: every vector implementation is the same sorted multiset (VecBag.tla)."""
import re, json
from vlib import build, objcheck
from vlib.core import tok

PROPERTY = "C04"
LEVEL = "model_checking"
LEVEL_TEXT = ("TLC explores VecBag.tla exhaustively in a small scope (all insert/remove/find histories over 3-5 element values with "
              "duplicates, size <= 4-6, probes below the minimum and above the maximum, a live copy and an iterator) checking the "
              "multiset laws (Sorted, BagConservation, FindIffPresent, slot independence); EVERY transition TLC generates is then "
              "executed on each of the three vector classes (ASan build of the current tree) with a full read-back (iterator, "
              "to_array, find/contains of every value and of both out-of-range probes), the link/allocation/order invariants of the "
              "public structs and the heap balance compared after every step, plus random walks and TLC trace validation of long "
              "recorded histories on vectors of up to 300 elements.")
LEVEL_NOTE = ("Bounded scope for the exhaustive part (thorough: copy and original differ in at most two occurrences while both "
              "live); beyond it sampled histories only. Trusted: TLC, the harness projection (harness/vector_replay.c), ASan. "
              "Elements are spif_str objects compared by value (equal elements are interchangeable); NULL elements are outside the "
              "argument universe (DESIGN.md 8a).")
TECHNIQUE = "TLA+ spec + TLC exhaustive transition cover replayed on the implementation + TLC trace validation"
DESIGN_REF = "DESIGN.md section 6 C04"
CLASSES = ["array", "linked_list", "dlinked_list"]
INIT = {"a": [], "b": {"live": False, "s": []}, "it": -1}
SCOPE = {"quick": 3, "thorough": 5}      # NE of the cfg files
BIG_NE = 40                              # element values of the random histories of direction B
BIG_LEN = 300
SWEEP_SIZES = {"quick": [8, 16, 32, 64, 128, 256, 512, 1024], "thorough": [8, 16, 32, 64, 128, 256, 512, 1024, 2048, 4096, 8192]}
SWEEP_NE = {"quick": 2400, "thorough": 16800}      # <= NE of VecBagTrace.cfg


def argclass(e):
    """Coarse but specific description of where in the argument/state space an edge lies."""
    op = e["op"]
    onb = op.startswith("b_")
    s = e["pre"]["b"]["s"] if onb else e["pre"]["a"]
    n = len(s)
    parts = ["size=0" if n == 0 else ("size=1" if n == 1 else "size>1")]
    if e["pre"]["b"]["live"] and not onb:
        parts.append("copy-live")
    if op in ("insert", "remove", "find", "contains", "b_insert", "b_remove", "b_find", "remove_own"):
        v = e["args"][0]
        if v in s:
            c = s.count(v)
            pos = "only" if n == c else ("minimum" if v == s[0] else ("maximum" if v == s[-1] else "inner"))
            if c > 1:
                pos += "-duplicated"
        elif not s:
            pos = "absent"
        elif v < s[0]:
            pos = "absent-below-min"
        elif v > s[-1]:
            pos = "absent-above-max"
        else:
            pos = "absent-between"
        parts.append("elem:" + pos)
    if op in ("insert", "remove", "find", "contains") and len(e["args"]) > 1 and e["args"][1] == 2:
        parts.append("url-arg")
    return ",".join(parts)


def keyfn(variant, e, f):
    d = ""
    if f.kind == "inv":
        d = re.sub(r"\d+", "N", f.got)
    elif f.kind in ("crash", "hang", "exit"):
        d = f.sig
    op = e["op"] if e else f.op
    return "%s.%s [%s] %s%s" % (variant, op, argclass(e) if e else "-", f.kind, ("/" + d) if d else "")


def harness(ctx):
    libdir, cflags = build.build_lib(ctx.repo)
    return build.build_harness("vector_replay", ["vector_replay.c"], libdir, cflags)


def gen_history(rnd, nops, ne, maxlen):
    """A random program over the vector API.  The mirror below only steers the choice of arguments and keeps the caller's
    discipline; it is NOT the oracle - TLC evaluating VecBagTrace is."""
    have = []           # rough mirror of A
    bhave = None
    it = False
    lines = []
    grow = rnd.random() < 0.7
    target = rnd.choice([maxlen, maxlen, maxlen // 2, 30, 3])
    lo, hi = rnd.choice([(1, ne), (1, ne), (1, 3), (ne // 2, ne)])    # narrow ranges give many duplicates
    while len(lines) < nops:
        r = rnd.random()
        e = rnd.randint(lo, hi)
        p = rnd.choice([0, ne + 1, e, e, rnd.randint(0, ne + 1)] + ([min(have), max(have), min(have) - 1, max(have) + 1] if have else []))
        p = max(0, min(ne + 1, p))
        if it:
            c = rnd.choice(["iter_next", "iter_next", "iter_next", "iter_has_next", "iter_del", "find %d" % p, "count"])
            if c == "iter_del":
                it = False
            lines.append(c)
            continue
        if grow and len(have) < target and r < 0.85:
            c = "insert %d" % e
            have.append(e)
        elif r < 0.30 and len(have) < maxlen:
            c = "insert %d" % e
            have.append(e)
        elif r < 0.34 and have and bhave is None:
            p = rnd.choice([min(have), max(have), rnd.choice(have)])
            c = "remove_own %d" % p            # aliased argument: the probe is the stored element itself
            have.remove(p)
        elif r < 0.55:
            c = "remove %d" % p
            if p in have:
                have.remove(p)
            if len(have) < target // 2:
                grow = rnd.random() < 0.5
        elif r < 0.56:
            c = "done"
            have = []
        elif r < 0.80:
            c = rnd.choice(["find %d" % p, "find %d" % p, "contains %d" % p, "count", "to_array"])
        elif r < 0.84:
            if bhave is None:
                c = "iter_new"
                it = True
            else:
                c = "b_find %d" % p
        elif r < 0.92:
            if bhave is None:
                c = "dup"
                bhave = list(have)
            else:
                c = rnd.choice(["b_del", "adopt", "b_insert %d" % e, "b_remove %d" % p, "b_remove %d" % (max(bhave) if bhave else 0),
                                "b_remove %d" % (min(bhave) if bhave else 0)])
                if c == "b_del":
                    bhave = None
                elif c == "adopt":
                    have, bhave = bhave, None
                elif c.startswith("b_insert"):
                    if len(bhave) >= maxlen:
                        c = "b_find %d" % p
                    else:
                        bhave.append(e)
                elif c.startswith("b_remove"):
                    q = int(c.split()[1])
                    if q in bhave:
                        bhave.remove(q)
        else:
            c = "count"
        lines.append(c)
    from vlib import x_c03
    return x_c03.add_classes(lines, lambda: rnd.randint(1, 2))


def gen_sweep(sizes, ne):
    """Size-sweep family (direction B, deterministic): ONE execution that grows a vector through the sizes n-1, n, n+1 for
    every n in `sizes` and at each of these sizes runs every operation of the model at the position classes first / second /
    middle / next-to-last / last / absent (below, between, above), with and without duplicates of the end elements.
    `have` mirrors the content only to pick arguments; TLC evaluating VecBagTrace on the recorded events is the oracle."""
    lines = []
    have = set()
    base = 200
    state = {"nextfill": base, "front": base - 1}

    def battery():
        ks = sorted(have)
        n = len(ks)
        pos = [ks[0], ks[min(1, n - 1)], ks[n // 2], ks[max(0, n - 2)], ks[-1]]
        gap = next((k + 1 for k in ks if k + 1 not in have and k + 1 < ks[-1]), None)
        absent = [0, ne + 1, ks[0] - 1, ks[-1] + 1] + ([gap] if gap else [])
        out = []
        for k in pos + absent:
            out += ["find %d" % k, "contains %d" % k]
        out += ["count", "to_array"]
        for k in (pos[0], pos[2], pos[4]):       # content restored each time
            out += ["insert %d" % k, "find %d" % k, "remove %d" % k, "contains %d" % k, "remove_own %d" % k, "find %d" % k, "insert %d" % k]
        for k in absent:
            out += ["remove %d" % k]
        out += ["iter_new", "iter_next", "iter_has_next", "iter_next", "find %d" % pos[4], "iter_del"]
        # duplicates of both ends and of the middle while a copy is made
        out += ["insert %d" % pos[0], "insert %d" % pos[4], "insert %d" % pos[2], "insert %d" % pos[4], "dup",
                "b_find %d" % pos[4], "b_remove %d" % pos[4], "b_find %d" % pos[4], "find %d" % pos[4], "b_insert %d" % pos[4],
                "b_remove %d" % pos[0], "b_find %d" % pos[0], "b_insert %d" % pos[0]]
        out += ["adopt"] if n % 2 else ["b_del"]
        out += ["remove %d" % pos[0], "remove %d" % pos[4], "remove_own %d" % pos[2], "remove %d" % pos[4], "find %d" % pos[4]]
        return out

    for n in sizes:
        need = (n - 2) - len(have)
        if need > 0:
            lo = state["nextfill"]
            hi = lo + 2 * (need - 1)
            lines.append("fill %d %d 2" % (lo, hi))
            have |= set(range(lo, hi + 1, 2))
            state["nextfill"] = hi + 2
        for where in ("front", "middle", "back"):
            ks = sorted(have)
            if where == "front" or not ks:
                k = state["front"]
                state["front"] -= 1
            elif where == "middle":
                k = next(x + 1 for x in ks[len(ks) // 2:] if x + 1 not in have)
            else:
                k = state["nextfill"]
                state["nextfill"] += 2
            lines.append("insert %d" % k)
            have.add(k)
            lines += battery()
    assert max(have) + 2 <= ne and state["front"] > 1
    from vlib import x_c03
    import itertools
    rot = itertools.cycle([1, 2, 2, 1, 2, 1, 1])
    return x_c03.add_classes(lines, lambda: next(rot))


def trace_validation(ctx, exe, corrupt=None, sweep=True):
    """Direction (B): long random histories on vectors of up to 300 elements (text family of the objects and element kind
    - plain str / objpair(value, unique tag) - chosen per history) and the size sweep, recorded on each class and validated
    by TLC."""
    import random, time
    from vlib import x_c03
    rnd = random.Random(ctx.seed)
    nexec, nops = (6, 600) if ctx.tier == "quick" else (42, 1000)
    hist = [gen_history(rnd, nops, BIG_NE, BIG_LEN) for k in range(nexec)]
    total = 0
    maxsize = 0
    t0 = time.time()
    for cls in CLASSES:
        n, mx, ok = x_c03.record_validate(ctx, exe, cls, [cls, str(BIG_NE), "-1", "-1", "full"], hist, INIT, "VecBagTrace.tla",
                                          "VecBagTrace.cfg", corrupt=corrupt)
        total += n
        maxsize = max(maxsize, mx)
    ctx.cov["trace_max_vector_size"] = maxsize
    ctx.cov["trace_wall_s"] = round(time.time() - t0, 1)
    if sweep:
        t1 = time.time()
        sne = SWEEP_NE[ctx.tier]
        sw = [gen_sweep(SWEEP_SIZES[ctx.tier], sne)]
        smax = 0
        for ci, cls in enumerate(CLASSES):
            # tagged (equal yet distinguishable) elements with mixed high-bit texts for two classes, plain digit strs for one
            plain = (ci + ctx.seed) % 3 == 0
            n, mx, ok = x_c03.record_validate(ctx, exe, cls, [cls, str(sne), "0" if plain else "1", "0" if plain else "1", "compact"],
                                              sw, INIT, "VecBagTrace.tla", "VecBagTrace.cfg", tag="sweep-" + cls, env={"VH_WATCHDOG": "1500"})      # one long script: the per-script watchdog of 20 s does not fit
            total += n
            smax = max(smax, mx)
        ctx.cov["sweep_sizes"] = [m for n_ in SWEEP_SIZES[ctx.tier] for m in (n_ - 1, n_, n_ + 1)]
        ctx.cov["sweep_max_vector_size"] = smax
        ctx.cov["sweep_wall_s"] = round(time.time() - t1, 1)
    ctx.add("trace_events_validated", total)
    ctx.add("traces_validated_against_impl", (nexec + (1 if sweep else 0)) * len(CLASSES))


def run(ctx):
    exe = harness(ctx)
    cfg = "VecBag_quick.cfg" if ctx.tier == "quick" else "VecBag_thorough.cfg"
    ne = SCOPE[ctx.tier]
    g, res = objcheck.tlc_graph(ctx, "MC_VecBag.tla", cfg, workers=4)
    walks = (300, 40) if ctx.tier == "quick" else (4000, 60)
    for cls in CLASSES:
        # plain digit strs, and objpair(value, unique tag) elements (EQUAL under comp yet distinguishable) whose value texts
        # mix ASCII and high-bit first bytes
        objcheck.replay_cover(ctx, g, [tok(INIT)], exe, cls, [cls, str(ne), "0", "0", "full"], keyfn, walks=walks, jobs=4,
                              pairs=(40000 if ctx.tier == "quick" else 400000))
        objcheck.replay_cover(ctx, g, [tok(INIT)], exe, cls + "/tagged-elements", [cls, str(ne), "1", "1", "full"], keyfn,
                              walks=walks, jobs=4)
    trace_validation(ctx, exe)
    ctx.cov["exhaustive"] = True
    ctx.cov["rule"] = ("every transition TLC generates for VecBag in the bounded scope is executed once per class and per element kind "
                       "(plain strs / objpair(value, unique tag) elements that compare EQUAL yet are distinguishable) as the last step of "
                       "a script whose prefix consists of already verified transitions; state (full read-back), return value, "
                       "representation invariants, element identity (tags) and heap balance are compared after every step, a dup must "
                       "equal the original slot by slot including the tags; plus random walks over verified transitions, TLC-validated "
                       "recorded histories on vectors of up to 300 elements and a TLC-validated size sweep (every operation at sizes "
                       "n-1, n, n+1 for n = 8 .. 1024 (thorough .. 8192) at the position classes)")
    ctx.assumptions += ["elements are spif_str objects or objpairs keyed by one; order and equality are spif_str_comp (strcmp, unsigned bytes) on texts that order like the numbers",
                        "ASan build of the current tree (clang -O1)"]


def replay(ctx, path):
    rp = json.load(open(path)).get("replay") or {}
    if "history" in rp:          # a rejected recorded execution: record it again and let TLC judge it again
        from vlib import x_c03
        return x_c03.replay_trace(ctx, harness(ctx), rp)
    return objcheck.replay_file(harness(ctx), [], path, ctx.rundir)
