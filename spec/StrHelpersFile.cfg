SPECIFICATION FileSpec
CONSTANTS
  CopyAlphabet = {}
  MaxSize = 1
  MaxSrc = 0
  TextAlphabet = {}
  MaxText = 0
  Ints = {}
  Obs <- ObsEmitFile
INVARIANTS FileLaws
CHECK_DEADLOCK FALSE
