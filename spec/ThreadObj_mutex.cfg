SPECIFICATION Spec
CONSTANTS
  Part = "mutex"
  Obs <- ObsEmit
INVARIANTS TypeOK WellFormed Separate
CHECK_DEADLOCK FALSE
