SPECIFICATION Spec
CONSTANTS
  Alpha = {0, 97, 200}
  MaxLen = 2
  Kinds = {"text", "pair"}
INVARIANTS Reflexive Antisymmetric Transitive TransitiveEq NullLeast Total PrefixIsLess EqualIffSameValue PairIgnoresValue EmitUniverse
CHECK_DEADLOCK FALSE
