#!/bin/sh
# usage: tools/run_all.sh [quick|thorough] [IDs...]   -- runs the registered checks one after another, prints a summary
cd "$(dirname "$0")/.."
TIER=${1:-quick}; shift 2>/dev/null
IDS="$@"
[ -z "$IDS" ] && IDS=$(python3 -c "import json;print(' '.join(c['property_id'] for c in json.load(open('MANIFEST.json'))['checks']))")
mkdir -p .build/logs
for id in $IDS; do
  s=$(date +%s)
  ./vcheck $id $TIER > .build/logs/$id.$TIER.out 2> .build/logs/$id.$TIER.err; rc=$?
  e=$(date +%s)
  v=$(grep -c '^VIOLATION' .build/logs/$id.$TIER.out); k=$(grep -c '^KNOWN-FINDING' .build/logs/$id.$TIER.out)
  ok=$(python3-vt -c "import json,jsonschema,sys; jsonschema.validate(json.load(open('evidence/$id.json')), json.load(open('/root/.vp/EVIDENCE.schema.json'))); print('evidence-valid')" 2>&1 | tail -1)
  echo "$id $TIER rc=$rc violations=$v known=$k wall=$((e-s))s $ok"
done
