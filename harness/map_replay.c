/* C03 (+C05/C06 for maps): replays MapDict.tla scripts on one of the three map classes.
 * usage: map_replay <array|linked_list|dlinked_list> <NK> <NV> <enc> <full|compact> <scriptfile> [first]
 * Keys 1..NK, values 1..NV are spif_str objects; probes 0 and NK+1 lie below / above every storable key.
 * enc: text family of the objects (c03_util.h: 0 digits, 1 first byte sweeps 1..255, 2 last byte sweeps 1..255,
 *      -1 chosen per script from its id).
 * mode (5th argument): full | compact, optionally followed by ",shades" (values are shaded pairs, see mv() below).
 * full: the read-back probes get/has_key of EVERY key of the universe after every step (small universes).
 * compact: (size sweeps, maps of thousands of keys) the state is read through the iterator and get/has_key are probed at
 *      the position classes smallest / second / middle / next-to-largest / largest / absent below, between, above.
 * State token: {a=[[k,v],..],b={live=T|F,s=[[k,v],..]},held=h,it=n}
 */
#include "common.h"
#include "c03_util.h"

static long NK = 3, NV = 2;
static long rb_count;         /* read-backs so far in this script: rotates the class of the probe objects */
/* Shaded values (round 5: equal under comp, different in state comp ignores).  With shades = S > 1 the value number val is
 * stored as objpair(key = text of (val-1)/S + 1, value = "(val-1)%S"): spif_objpair_comp() looks at the key only, so the S
 * values of one group compare EQUAL (has_value cannot tell them apart) yet differ observably - and the map must keep
 * exactly the one most recently set.  The read-back decodes BOTH parts, it never relies on comp for a stored value. */
static long shades = 1;
static spif_obj_t mv(long val, long cls) {
    spif_obj_t k, w, p; char t[24];
    if (shades <= 1) return cu_mkc(val, cls);
    k = cu_mkc((val - 1) / shades + 1, cls);
    snprintf(t, sizeof(t), "%ld", (val - 1) % shades);
    w = SPIF_OBJ(spif_str_new_from_ptr((spif_charptr_t) t));
    p = SPIF_OBJ(spif_objpair_new_from_both(k, w));
    SPIF_OBJ_DEL(k); SPIF_OBJ_DEL(w);
    return p;
}
static long vv(spif_obj_t o) {
    long g; const char *t;
    if (shades <= 1) return cu_val(o);
    if (SPIF_OBJ_ISNULL(o)) return 0;
    if (!SPIF_OBJ_IS_OBJPAIR(o) || SPIF_OBJ_ISNULL(SPIF_OBJPAIR(o)->key) || SPIF_OBJ_ISNULL(SPIF_OBJPAIR(o)->value)) return -1000002;
    g = cu_val(SPIF_OBJPAIR(o)->key);
    t = (const char *) SPIF_STR_STR(SPIF_STR(SPIF_OBJPAIR(o)->value));
    if (g < 1 || !t || !isdigit((unsigned char) t[0])) return -1000003;
    return (g - 1) * shades + atol(t) + 1;
}
static long cmpkey(long val) { return (val - 1) / shades; }          /* values with the same cmpkey compare EQUAL */
static void vscribble(spif_obj_t o) {
    if (shades <= 1) { cu_scribble(o); return; }
    cu_scribble(SPIF_OBJPAIR(o)->key); cu_scribble(SPIF_OBJPAIR(o)->value);
}
static int compact = 0;
static spif_map_t A, B;
static spif_iterator_t IT;
static int it_count;          /* mirror: number of next() calls that yielded, capped like the spec */
static int held;              /* 0 / 1 caller holds HK,HV / 2 caller has scribbled on them */
static spif_obj_t HK, HV;

static spif_map_t new_map(void) {
    if (cu_is("array")) return SPIF_MAP_NEW(array);
    if (cu_is("linked_list")) return SPIF_MAP_NEW(linked_list);
    return SPIF_MAP_NEW(dlinked_list);
}

/* a stored element must be a pair of two live str objects; its ordering key is the key's number */
static long pair_ordkey(spif_obj_t data, const char **msg) {
    spif_objpair_t p = SPIF_OBJPAIR(data);
    if (!SPIF_OBJ_IS_OBJPAIR(data)) { *msg = "element_is_not_an_objpair"; return 0; }
    if (SPIF_OBJ_ISNULL(p->key)) { *msg = "pair_with_NULL_key"; return 0; }
    if (SPIF_OBJ_ISNULL(p->value)) { *msg = "pair_with_NULL_value"; return 0; }
    return cu_val(p->key);
}
static void sb_pair(vh_sb *b, spif_obj_t o) {
    if (SPIF_OBJ_ISNULL(o)) { sb_puts(b, "[]"); return; }
    if (!SPIF_OBJ_IS_OBJPAIR(o)) { sb_puts(b, "[not_a_pair]"); return; }
    sb_printf(b, "[%ld,%ld]", cu_val(SPIF_OBJPAIR(o)->key), vv(SPIF_OBJPAIR(o)->value));
}

/* full read-back of a map through the public interface + representation invariants */
static const char *readback(spif_map_t M, const char *which, vh_sb *out) {
    static long vals[1 << 14];
    long n = (long) SPIF_MAP_COUNT(M), k, v, m = 0, i;
    rb_count++;
    spif_list_t L;
    spif_iterator_t it;
    const char *inv;

    if (n < 0 || n > NK) CU_FAIL("%s:count=%ld", which, n);
    /* get / has_key of every key of the universe, of a probe below the minimum and of one above the maximum */
    for (k = 0; k <= NK + 1; k++) {
        /* the probe's class (str / url with the same text) alternates from key to key and from read-back to read-back */
        spif_obj_t probe = cu_mkc(k, 1 + ((k + rb_count) & 1)), r = SPIF_MAP_GET(M, probe);
        spif_bool_t h = SPIF_MAP_HAS_KEY(M, probe);
        if (cu_val(probe) != k) CU_FAIL("%s:probe_key_changed_by_get", which);
        SPIF_OBJ_DEL(probe);
        vals[k] = vv(r);
        if ((k == 0 || k == NK + 1) && !SPIF_OBJ_ISNULL(r)) CU_FAIL("%s:get(%s)!=NULL", which, k ? "above_max" : "below_min");
        if ((h ? 1 : 0) != (SPIF_OBJ_ISNULL(r) ? 0 : 1)) CU_FAIL("%s:has_key_disagrees_with_get", which);
        if (!SPIF_OBJ_ISNULL(r)) m++;
    }
    sb_putc(out, '[');
    for (k = 1, i = 0; k <= NK; k++) {
        if (vals[k]) { if (i++) sb_putc(out, ','); sb_printf(out, "[%ld,%ld]", k, vals[k]); }
    }
    sb_putc(out, ']');
    if (m != n) CU_FAIL("%s:count=%ld_but_get_finds=%ld", which, n, m);
    /* has_value of every value and of one no map holds */
    for (v = 1; v <= NV + 1; v++) {
        spif_obj_t probe = mv(v, 1 + ((v + rb_count) & 1)); int want = 0;
        spif_bool_t h = SPIF_MAP_HAS_VALUE(M, probe);
        SPIF_OBJ_DEL(probe);
        for (k = 1; k <= NK; k++) if (vals[k] && cmpkey(vals[k]) == cmpkey(v)) want = 1;      /* has_value goes by comp */
        if ((h ? 1 : 0) != want) CU_FAIL("%s:has_value_wrong(%s_probe)", which, ((v + rb_count) & 1) ? "url" : "str");
    }
    /* the three listings: ascending by key, every entry once */
    L = SPIF_MAP_GET_KEYS(M, (spif_list_t) NULL);
    if (SPIF_LIST_ISNULL(L)) CU_FAIL("%s:get_keys=NULL", which);
    if ((long) SPIF_LIST_COUNT(L) != n) { SPIF_LIST_DEL(L); CU_FAIL("%s:get_keys_length", which); }
    for (k = 1, i = 0; k <= NK; k++) {
        if (!vals[k]) continue;
        if (cu_val(SPIF_LIST_GET(L, (spif_listidx_t) i)) != k) { SPIF_LIST_DEL(L); CU_FAIL("%s:get_keys_mismatch_at_%ld", which, i); }
        i++;
    }
    SPIF_LIST_DEL(L);
    L = SPIF_MAP_GET_VALUES(M, (spif_list_t) NULL);
    if (SPIF_LIST_ISNULL(L)) CU_FAIL("%s:get_values=NULL", which);
    if ((long) SPIF_LIST_COUNT(L) != n) { SPIF_LIST_DEL(L); CU_FAIL("%s:get_values_length", which); }
    for (k = 1, i = 0; k <= NK; k++) {
        if (!vals[k]) continue;
        if (vv(SPIF_LIST_GET(L, (spif_listidx_t) i)) != vals[k]) { SPIF_LIST_DEL(L); CU_FAIL("%s:get_values_mismatch_at_%ld", which, i); }
        i++;
    }
    SPIF_LIST_DEL(L);
    L = SPIF_MAP_GET_PAIRS(M, (spif_list_t) NULL);
    if (SPIF_LIST_ISNULL(L)) CU_FAIL("%s:get_pairs=NULL", which);
    if ((long) SPIF_LIST_COUNT(L) != n) { SPIF_LIST_DEL(L); CU_FAIL("%s:get_pairs_length", which); }
    for (k = 1, i = 0; k <= NK; k++) {
        spif_obj_t p;
        if (!vals[k]) continue;
        p = SPIF_LIST_GET(L, (spif_listidx_t) i);
        if (!SPIF_OBJ_IS_OBJPAIR(p) || cu_val(SPIF_OBJPAIR(p)->key) != k || vv(SPIF_OBJPAIR(p)->value) != vals[k]) {
            SPIF_LIST_DEL(L); CU_FAIL("%s:get_pairs_mismatch_at_%ld", which, i);
        }
        i++;
    }
    SPIF_LIST_DEL(L);
    /* a fresh iterator yields every pair once, in ascending key order, and reports exhaustion exactly then */
    it = SPIF_MAP_ITERATOR(M);
    if (SPIF_ITERATOR_ISNULL(it)) CU_FAIL("%s:iterator()=NULL", which);
    for (k = 1, i = 0; k <= NK; k++) {
        spif_obj_t p;
        if (!vals[k]) continue;
        if (!SPIF_ITERATOR_HAS_NEXT(it)) { SPIF_ITERATOR_DEL(it); CU_FAIL("%s:iter_has_next_false_at_%ld_of_%ld", which, i, n); }
        p = SPIF_ITERATOR_NEXT(it);
        if (!SPIF_OBJ_IS_OBJPAIR(p) || cu_val(SPIF_OBJPAIR(p)->key) != k || vv(SPIF_OBJPAIR(p)->value) != vals[k]) {
            SPIF_ITERATOR_DEL(it); CU_FAIL("%s:iter_next_mismatch_at_%ld", which, i);
        }
        i++;
    }
    if (SPIF_ITERATOR_HAS_NEXT(it)) { SPIF_ITERATOR_DEL(it); CU_FAIL("%s:iter_has_next_true_after_%ld", which, n); }
    if (!SPIF_OBJ_ISNULL(SPIF_ITERATOR_NEXT(it))) { SPIF_ITERATOR_DEL(it); CU_FAIL("%s:iter_next_after_end!=NULL", which); }
    SPIF_ITERATOR_DEL(it);
    /* representation */
    if ((inv = cu_walk(M, n, which, pair_ordkey, 1))) return inv;
    return NULL;
}

/* compact read-back for large maps: the state is what a fresh iterator yields; everything else is checked against it */
static const char *readback_compact(spif_map_t M, const char *which, vh_sb *out) {
    static long keys[1 << 15], vals[1 << 15];
    long n = (long) SPIF_MAP_COUNT(M), i, v, gap = -1, pos[5], np = 0, probes[8], npr = 0, q;
    rb_count++;
    spif_list_t L;
    spif_iterator_t it;
    const char *inv;

    if (n < 0 || n > NK || n >= (1 << 15)) CU_FAIL("%s:count=%ld", which, n);
    it = SPIF_MAP_ITERATOR(M);
    if (SPIF_ITERATOR_ISNULL(it)) CU_FAIL("%s:iterator()=NULL", which);
    for (i = 0; i < n; i++) {
        spif_obj_t p;
        if (!SPIF_ITERATOR_HAS_NEXT(it)) { SPIF_ITERATOR_DEL(it); CU_FAIL("%s:iter_has_next_false_at_%ld_of_%ld", which, i, n); }
        p = SPIF_ITERATOR_NEXT(it);
        if (!SPIF_OBJ_IS_OBJPAIR(p)) { SPIF_ITERATOR_DEL(it); CU_FAIL("%s:iter_next_not_a_pair_at_%ld", which, i); }
        keys[i] = cu_val(SPIF_OBJPAIR(p)->key); vals[i] = vv(SPIF_OBJPAIR(p)->value);
    }
    if (SPIF_ITERATOR_HAS_NEXT(it)) { SPIF_ITERATOR_DEL(it); CU_FAIL("%s:iter_has_next_true_after_%ld", which, n); }
    if (!SPIF_OBJ_ISNULL(SPIF_ITERATOR_NEXT(it))) { SPIF_ITERATOR_DEL(it); CU_FAIL("%s:iter_next_after_end!=NULL", which); }
    SPIF_ITERATOR_DEL(it);
    sb_putc(out, '[');
    for (i = 0; i < n; i++) { if (i) sb_putc(out, ','); sb_printf(out, "[%ld,%ld]", keys[i], vals[i]); }
    sb_putc(out, ']');
    for (i = 0; i < n; i++) {
        if (keys[i] < 1 || keys[i] > NK) CU_FAIL("%s:iteration_key_outside_the_universe_at_%ld", which, i);
        if (i && keys[i - 1] >= keys[i]) CU_FAIL("%s:iteration_not_strictly_ascending_at_%ld", which, i);
        if (i && gap < 0 && keys[i] > keys[i - 1] + 1) gap = keys[i - 1] + 1;
    }
    /* get / has_key at the position classes and at absent probes below / between / above */
    if (n > 0) { pos[np++] = 0; pos[np++] = n > 1 ? 1 : 0; pos[np++] = n / 2; pos[np++] = n > 1 ? n - 2 : 0; pos[np++] = n - 1; }
    for (q = 0; q < np; q++) {
        static const char *pc[] = {"smallest", "second", "middle", "next_to_largest", "largest"};
        spif_obj_t probe = cu_mkc(keys[pos[q]], 1 + ((q + rb_count) & 1)), r = SPIF_MAP_GET(M, probe);
        spif_bool_t h = SPIF_MAP_HAS_KEY(M, probe);
        SPIF_OBJ_DEL(probe);
        if (SPIF_OBJ_ISNULL(r) || !h) CU_FAIL("%s:get_misses_a_present_key(%s)", which, pc[q]);
        if (vv(r) != vals[pos[q]]) CU_FAIL("%s:get_returns_a_wrong_value(%s)", which, pc[q]);
    }
    probes[npr++] = 0; probes[npr++] = NK + 1;
    if (gap > 0) probes[npr++] = gap;
    if (n > 0 && keys[0] > 1) probes[npr++] = keys[0] - 1;
    if (n > 0 && keys[n - 1] < NK) probes[npr++] = keys[n - 1] + 1;
    for (q = 0; q < npr; q++) {
        spif_obj_t probe = cu_mkc(probes[q], 1 + ((q + rb_count) & 1)), r = SPIF_MAP_GET(M, probe);
        spif_bool_t h = SPIF_MAP_HAS_KEY(M, probe);
        SPIF_OBJ_DEL(probe);
        if (!SPIF_OBJ_ISNULL(r) || h) CU_FAIL("%s:get_finds_an_absent_key", which);
    }
    for (v = 1; v <= NV + 1; v++) {
        spif_obj_t probe = mv(v, 1 + ((v + rb_count) & 1)); int want = 0;
        spif_bool_t h = SPIF_MAP_HAS_VALUE(M, probe);
        SPIF_OBJ_DEL(probe);
        for (i = 0; i < n; i++) if (cmpkey(vals[i]) == cmpkey(v)) { want = 1; break; }
        if ((h ? 1 : 0) != want) CU_FAIL("%s:has_value_wrong(%s_probe)", which, ((v + rb_count) & 1) ? "url" : "str");
    }
    /* the three listings */
    for (q = 0; q < 3; q++) {
        static const char *ln[] = {"get_keys", "get_values", "get_pairs"};
        L = (q == 0) ? SPIF_MAP_GET_KEYS(M, (spif_list_t) NULL) : (q == 1) ? SPIF_MAP_GET_VALUES(M, (spif_list_t) NULL)
                                                                           : SPIF_MAP_GET_PAIRS(M, (spif_list_t) NULL);
        if (SPIF_LIST_ISNULL(L)) CU_FAIL("%s:%s=NULL", which, ln[q]);
        if ((long) SPIF_LIST_COUNT(L) != n) { SPIF_LIST_DEL(L); CU_FAIL("%s:%s_length", which, ln[q]); }
        it = SPIF_LIST_ITERATOR(L);
        for (i = 0; i < n; i++) {
            spif_obj_t e = SPIF_ITERATOR_NEXT(it); int ok;
            if (q == 0) ok = cu_val(e) == keys[i];
            else if (q == 1) ok = vv(e) == vals[i];
            else ok = SPIF_OBJ_IS_OBJPAIR(e) && cu_val(SPIF_OBJPAIR(e)->key) == keys[i] && vv(SPIF_OBJPAIR(e)->value) == vals[i];
            if (!ok) { SPIF_ITERATOR_DEL(it); SPIF_LIST_DEL(L); CU_FAIL("%s:%s_mismatch_at_%ld", which, ln[q], i); }
        }
        SPIF_ITERATOR_DEL(it);
        SPIF_LIST_DEL(L);
    }
    if ((inv = cu_walk(M, n, which, pair_ordkey, 1))) return inv;
    return NULL;
}

/* C05: immediately after dup the copy holds, pair by pair, distinct objects of the SAME classes and values as the original */
static const char *dup_pairs_equal(void) {
    spif_iterator_t ia = SPIF_MAP_ITERATOR(A), ib = SPIF_MAP_ITERATOR(B);
    const char *bad = NULL;
    while (!bad && SPIF_ITERATOR_HAS_NEXT(ia)) {
        spif_obj_t x, y;
        if (!SPIF_ITERATOR_HAS_NEXT(ib)) { bad = "dup_is_shorter"; break; }
        x = SPIF_ITERATOR_NEXT(ia); y = SPIF_ITERATOR_NEXT(ib);
        if (!SPIF_OBJ_IS_OBJPAIR(x) || !SPIF_OBJ_IS_OBJPAIR(y)) bad = "dup_pair_is_not_a_pair";
        else if (x == y || SPIF_OBJPAIR(x)->key == SPIF_OBJPAIR(y)->key || SPIF_OBJPAIR(x)->value == SPIF_OBJPAIR(y)->value)
            bad = "dup_shares_an_object_with_the_original";
        else if (SPIF_OBJ_CLASS(SPIF_OBJPAIR(x)->key) != SPIF_OBJ_CLASS(SPIF_OBJPAIR(y)->key)) bad = "dup_changed_the_class_of_a_key";
        else if (SPIF_OBJ_CLASS(SPIF_OBJPAIR(x)->value) != SPIF_OBJ_CLASS(SPIF_OBJPAIR(y)->value)) bad = "dup_changed_the_class_of_a_value";
        else if (cu_val(SPIF_OBJPAIR(x)->key) != cu_val(SPIF_OBJPAIR(y)->key) || vv(SPIF_OBJPAIR(x)->value) != vv(SPIF_OBJPAIR(y)->value))
            bad = "dup_pair_differs";
    }
    if (!bad && SPIF_ITERATOR_HAS_NEXT(ib)) bad = "dup_is_longer";
    SPIF_ITERATOR_DEL(ia); SPIF_ITERATOR_DEL(ib);
    return bad;
}

/* the map's OWN pair object for key k (as its iterator hands it out), or NULL */
static spif_objpair_t own_pair(spif_map_t M, long k) {
    spif_iterator_t it = SPIF_MAP_ITERATOR(M);
    spif_objpair_t found = (spif_objpair_t) NULL;
    while (SPIF_ITERATOR_HAS_NEXT(it)) {
        spif_obj_t p = SPIF_ITERATOR_NEXT(it);
        if (SPIF_OBJ_IS_OBJPAIR(p) && cu_val(SPIF_OBJPAIR(p)->key) == k) { found = SPIF_OBJPAIR(p); break; }
    }
    SPIF_ITERATOR_DEL(it);
    return found;
}

static void vh_begin(void) {
    cu_begin_script(vh_cur_sid);
    rb_count = 0;
    A = new_map(); B = (spif_map_t) NULL; IT = (spif_iterator_t) NULL; it_count = -1; held = 0;
    HK = HV = (spif_obj_t) NULL;
}
static void vh_end(void) {
    if (!SPIF_ITERATOR_ISNULL(IT)) { SPIF_ITERATOR_DEL(IT); IT = (spif_iterator_t) NULL; }
    if (!SPIF_OBJ_ISNULL(HK)) { SPIF_OBJ_DEL(HK); HK = (spif_obj_t) NULL; }
    if (!SPIF_OBJ_ISNULL(HV)) { SPIF_OBJ_DEL(HV); HV = (spif_obj_t) NULL; }
    if (!SPIF_MAP_ISNULL(B)) { SPIF_MAP_DEL(B); B = (spif_map_t) NULL; }
    if (!SPIF_MAP_ISNULL(A)) { SPIF_MAP_DEL(A); A = (spif_map_t) NULL; }
}

/* listing call; kind 0 keys, 1 values, 2 pairs.  np < 0: NULL is passed; otherwise the caller passes its own list of
 * LIST class dc (1 array, 2 linked_list, 3 dlinked_list - independent of the map's class) already holding np entries
 * 1001.. (pairs <<1001,1001>>.. for get_pairs).  reps = 2: a second call into the list the first call returned. */
static const char *listing(spif_map_t M, int kind, long np, long dc, long reps, vh_sb *ret) {
    spif_list_t mine = (spif_list_t) NULL, R = (spif_list_t) NULL, R2;
    long n, i, r;
    if (np >= 0) {
        mine = (dc == 1) ? SPIF_LIST_NEW(array) : (dc == 2) ? SPIF_LIST_NEW(linked_list) : SPIF_LIST_NEW(dlinked_list);
        for (i = 1; i <= np; i++) {
            if (kind == 2) {
                spif_obj_t z = cu_mk(1000 + i), y = mv(1000 + i, 1);
                SPIF_LIST_APPEND(mine, SPIF_OBJ(spif_objpair_new_from_both(z, y)));
                SPIF_OBJ_DEL(z); SPIF_OBJ_DEL(y);
            } else {
                SPIF_LIST_APPEND(mine, kind == 1 ? mv(1000 + i, 1) : cu_mk(1000 + i));
            }
        }
    }
    for (r = 0; r < reps; r++) {
        spif_list_t dest = r ? R : mine;
        R2 = (kind == 0) ? SPIF_MAP_GET_KEYS(M, dest) : (kind == 1) ? SPIF_MAP_GET_VALUES(M, dest) : SPIF_MAP_GET_PAIRS(M, dest);
        if (SPIF_LIST_ISNULL(R2)) { if (dest) SPIF_LIST_DEL(dest); return "listing=NULL"; }
        if (dest && R2 != dest) { SPIF_LIST_DEL(dest); return "listing_did_not_return_the_supplied_list"; }
        R = R2;
    }
    n = (long) SPIF_LIST_COUNT(R);
    sb_putc(ret, '[');
    for (i = 0; i < n; i++) {
        spif_obj_t e = SPIF_LIST_GET(R, (spif_listidx_t) i);
        if (i) sb_putc(ret, ',');
        if (kind == 2) sb_pair(ret, e); else sb_int(ret, kind == 1 ? vv(e) : cu_val(e));
    }
    sb_putc(ret, ']');
    SPIF_LIST_DEL(R);          /* the listing (copies of keys/values/pairs) and the caller's own entries are the caller's */
    return NULL;
}

#define OP(s) (!strcmp(op, s))
static const char *vh_step(const vh_step_t *st, vh_sb *ret, vh_sb *state) {
    const char *op = st->op, *inv;
    spif_map_t M = A;
    int onb = 0;
    if (op[0] == 'b' && op[1] == '_') { M = B; onb = 1; op += 2; if (OP("del")) op = "b_del"; }

    if (OP("set") || OP("set_keep")) {
        spif_obj_t k = cu_mkc(vh_int(st->args[0]), cu_clsarg(st, 2)), v = mv(vh_int(st->args[1]), cu_clsarg(st, 3));
        spif_bool_t r = SPIF_MAP_SET(M, k, v);
        sb_bool(ret, r);
        if (OP("set_keep")) {
            HK = k; HV = v; held = 1;
        } else {
            /* the caller's objects stay the caller's: change them, then delete them */
            cu_scribble(k); vscribble(v);
            SPIF_OBJ_DEL(k); SPIF_OBJ_DEL(v);
        }
    } else if (OP("set_pair")) {
        spif_obj_t k = cu_mkc(vh_int(st->args[0]), cu_clsarg(st, 2)), v = mv(vh_int(st->args[1]), cu_clsarg(st, 3));
        spif_objpair_t p = spif_objpair_new_from_both(k, v);
        spif_bool_t r;
        SPIF_OBJ_DEL(k); SPIF_OBJ_DEL(v);
        r = SPIF_MAP_SET(M, SPIF_OBJ(p), (spif_obj_t) NULL);
        sb_bool(ret, r);
        cu_scribble(p->key); vscribble(p->value);
        SPIF_OBJ_DEL(SPIF_OBJ(p));
    } else if (OP("set_from")) {
        /* aliased argument: the value IS the object the map stores under key j */
        spif_obj_t k = cu_mk(vh_int(st->args[0])), j = cu_mk(vh_int(st->args[1])), v = SPIF_MAP_GET(M, j);
        spif_bool_t r;
        SPIF_OBJ_DEL(j);
        if (SPIF_OBJ_ISNULL(v)) { SPIF_OBJ_DEL(k); return "set_from:source_key_absent"; }
        r = SPIF_MAP_SET(M, k, v);
        sb_bool(ret, r);
        cu_scribble(k); SPIF_OBJ_DEL(k);
    } else if (OP("set_component")) {
        /* aliasing at depth 2: the value argument is a COMPONENT object (host) of the url the map stores under j, if that
         * value is a url whose host carries the whole text; otherwise the stored value itself */
        spif_obj_t k = cu_mk(vh_int(st->args[0])), j = cu_mk(vh_int(st->args[1])), v = SPIF_MAP_GET(M, j);
        spif_bool_t r;
        SPIF_OBJ_DEL(j);
        if (SPIF_OBJ_ISNULL(v)) { SPIF_OBJ_DEL(k); return "set_component:source_key_absent"; }
        if (SPIF_OBJ_IS_URL(v) && !SPIF_STR_ISNULL(SPIF_URL(v)->host)
            && !strcmp((const char *) SPIF_STR_STR(SPIF_URL(v)->host), (const char *) SPIF_STR_STR(SPIF_STR(v)))) {
            v = SPIF_OBJ(SPIF_URL(v)->host);
        }
        r = SPIF_MAP_SET(M, k, v);
        sb_bool(ret, r);
        cu_scribble(k); SPIF_OBJ_DEL(k);
    } else if (OP("set_own_pair")) {
        spif_objpair_t p = own_pair(M, vh_int(st->args[0]));
        if (SPIF_OBJPAIR_ISNULL(p)) return "set_own_pair:key_absent";
        sb_bool(ret, SPIF_MAP_SET(M, SPIF_OBJ(p), (spif_obj_t) NULL));
    } else if (OP("set_own_key")) {
        spif_objpair_t p = own_pair(M, vh_int(st->args[0]));
        spif_obj_t v = mv(vh_int(st->args[1]), cu_clsarg(st, 2));
        if (SPIF_OBJPAIR_ISNULL(p)) { SPIF_OBJ_DEL(v); return "set_own_key:key_absent"; }
        sb_bool(ret, SPIF_MAP_SET(M, p->key, v));
        vscribble(v); SPIF_OBJ_DEL(v);
    } else if (OP("remove_own_key")) {
        spif_objpair_t p = own_pair(M, vh_int(st->args[0]));
        spif_obj_t r;
        if (SPIF_OBJPAIR_ISNULL(p)) return "remove_own_key:key_absent";
        r = SPIF_MAP_REMOVE(M, p->key);
        sb_pair(ret, r);
        if (!SPIF_OBJ_ISNULL(r)) SPIF_OBJ_DEL(r);
    } else if (OP("fill_set")) {
        long lo = vh_int(st->args[0]), hi = vh_int(st->args[1]), stp = vh_int(st->args[2]), val = vh_int(st->args[3]), k, rep = 0;
        long mix = cu_clsarg(st, 4);
        if (stp < 1) return "fill_set:bad_step";
        for (k = lo; k <= hi; k += stp) {
            spif_obj_t ko = cu_mkc(k, cu_mixcls(mix, k)), vo = mv(val, cu_mixcls(mix, k));
            if (SPIF_MAP_SET(M, ko, vo)) rep++;
            cu_scribble(ko); vscribble(vo);
            SPIF_OBJ_DEL(ko); SPIF_OBJ_DEL(vo);
        }
        sb_int(ret, rep);
    } else if (OP("caller_mutates")) {
        cu_scribble(HK); vscribble(HV); held = 2;
        sb_bool(ret, 1);
    } else if (OP("caller_deletes")) {
        SPIF_OBJ_DEL(HK); SPIF_OBJ_DEL(HV); HK = HV = (spif_obj_t) NULL; held = 0;
        sb_bool(ret, 1);
    } else if (OP("remove")) {
        spif_obj_t probe = cu_mkc(vh_int(st->args[0]), cu_clsarg(st, 1)), r = SPIF_MAP_REMOVE(M, probe);
        sb_pair(ret, r);
        SPIF_OBJ_DEL(probe);
        if (!SPIF_OBJ_ISNULL(r)) SPIF_OBJ_DEL(r);   /* handed back: the caller's to delete */
    } else if (OP("done")) {
        sb_bool(ret, SPIF_MAP_DONE(M));
    } else if (OP("get")) {
        spif_obj_t probe = cu_mkc(vh_int(st->args[0]), cu_clsarg(st, 1));
        sb_int(ret, vv(SPIF_MAP_GET(M, probe)));
        SPIF_OBJ_DEL(probe);
    } else if (OP("has_key")) {
        spif_obj_t probe = cu_mkc(vh_int(st->args[0]), cu_clsarg(st, 1));
        sb_bool(ret, SPIF_MAP_HAS_KEY(M, probe));
        SPIF_OBJ_DEL(probe);
    } else if (OP("has_value")) {
        spif_obj_t probe = mv(vh_int(st->args[0]), cu_clsarg(st, 1));
        sb_bool(ret, SPIF_MAP_HAS_VALUE(M, probe));
        SPIF_OBJ_DEL(probe);
    } else if (OP("count")) {
        sb_int(ret, (long) SPIF_MAP_COUNT(M));
    } else if (OP("get_keys") || OP("get_values") || OP("get_pairs")) {
        if (st->nargs < 3) return "listing_needs_np_dc_reps";
        if ((inv = listing(M, OP("get_keys") ? 0 : OP("get_values") ? 1 : 2, vh_int(st->args[0]), vh_int(st->args[1]),
                           vh_int(st->args[2]), ret))) return inv;
    } else if (OP("iter_new")) {
        IT = SPIF_MAP_ITERATOR(A); it_count = 0;
        sb_bool(ret, !SPIF_ITERATOR_ISNULL(IT));
    } else if (OP("iter_has_next")) {
        sb_bool(ret, SPIF_ITERATOR_HAS_NEXT(IT));
    } else if (OP("iter_next")) {
        long n = (long) SPIF_MAP_COUNT(A);
        sb_pair(ret, SPIF_ITERATOR_NEXT(IT));
        if (it_count <= n) it_count++;
    } else if (OP("iter_del")) {
        sb_bool(ret, SPIF_ITERATOR_DEL(IT)); IT = (spif_iterator_t) NULL; it_count = -1;
    } else if (OP("dup")) {
        B = SPIF_MAP(SPIF_MAP_DUP(A));
        if (SPIF_MAP_ISNULL(B)) return "dup=NULL";
        if (B == A) return "dup_returned_same_object";
        if (SPIF_OBJ_CLASS(B) != SPIF_OBJ_CLASS(A)) return "dup_class_differs";
        if (strcmp((const char *) SPIF_MAP_TYPE(B), (const char *) SPIF_MAP_TYPE(A))) return "dup_type_differs";
        if ((inv = dup_pairs_equal())) return inv;
        sb_bool(ret, 1);
    } else if (OP("b_del")) {
        sb_bool(ret, SPIF_MAP_DEL(B)); B = (spif_map_t) NULL;
    } else if (OP("adopt")) {
        spif_bool_t r = SPIF_MAP_DEL(A); A = B; B = (spif_map_t) NULL;
        sb_bool(ret, r);
    } else {
        CU_FAIL("unknown_op_%s", op);
    }
    (void) onb;

    sb_puts(state, "{a=");
    if ((inv = (compact ? readback_compact : readback)(A, "a", state))) return inv;
    sb_puts(state, ",b={live=");
    if (SPIF_MAP_ISNULL(B)) sb_puts(state, "F,s=[]}");
    else {
        sb_puts(state, "T,s=");
        if ((inv = (compact ? readback_compact : readback)(B, "b", state))) return inv;
        sb_putc(state, '}');
    }
    sb_printf(state, ",held=%d,it=%d}", held, it_count);
    return NULL;
}

int main(int argc, char **argv) {
    if (argc < 7) { fprintf(stderr, "usage: %s <class> <NK> <NV> <enc> <full|compact> <scripts> [first]\n", argv[0]); return 2; }
    cu_cls = argv[1];
    NK = atol(argv[2]); NV = atol(argv[3]);
    cu_enc_arg = atoi(argv[4]);
    compact = !strncmp(argv[5], "compact", 7);
    if (strstr(argv[5], "shades")) shades = 2;        /* "full,shades" / "compact,shades" */
    if (NK < 1 || NK > 32000 || NV < 1 || (!compact && NK > 16000)) { fprintf(stderr, "bad NK/NV\n"); return 2; }
    if (cu_enc_arg == 2 && NK > 253) { fprintf(stderr, "family 2 needs NK <= 253\n"); return 2; }
    cu_N = NK;
    cu_warm_libc();
    libast_set_program_name("map_replay");
    DEBUG_LEVEL = 0;
    return vh_main(argc, argv, 6);
}
