SPECIFICATION LawSpec
CONSTANTS
  Parts <- PartsLaws
  Texts <- ShapeTexts
  Lookups <- LookupsThorough
  WithBuild = TRUE
  Obs <- ObsNone
INVARIANTS LawAssembleParse LawUnambExact LawUnparseParse LawIdempotent LawDefaultPort AmbiguousReport NonIdempotentReport
CHECK_DEADLOCK FALSE
