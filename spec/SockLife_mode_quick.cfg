SPECIFICATION Spec
CONSTANTS
  MaxD = 4
  MaxS = 3
  MaxMsgs = 0
  NbSlots <- ModeSlotsQuick
  Outs <- ModeOuts
  RecvToggles = FALSE
  Mech = "repaired"
  Obs <- ObsEmit
INVARIANTS FdFieldValidOrMinus1 OneOwnerPerDescriptor NoOrphanDescriptor AllDeletedMeansAllClosed ModesOfOpenSocketsOnly
CHECK_DEADLOCK FALSE
