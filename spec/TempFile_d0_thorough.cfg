SPECIFICATION Spec
CONSTANTS
  FaultLen = 9
  Dirs <- DirsQuick
  TmpDirs = {"tb"}
  Templates <- TemplatesQuick
  Lens <- LensQuick
  Faults <- FaultsAll
  Umasks <- UmasksQuick
  Levels <- LevelsQuick
  MaxLive = 1
  D = 0
  Obs <- ObsEmit
INVARIANTS TypeOK EnvPrecedence ModeAndUmask FailureLeavesNothing BufferLaw
PROPERTY LiveLaw
CHECK_DEADLOCK FALSE
