------------------------------- MODULE ModuleLife -------------------------------
(* X05 (extension, DESIGN.md section 10): the life of a dynamic module object, spif_module_t          *)
(* (src/module.c, include/libast/module.h).                                                            *)
(*                                                                                                     *)
(* Two layers in one state machine:                                                                    *)
(*   the LOADER as the process sees it  - refs[v]   open count of library v (dlopen ok - dlclose ok)   *)
(*                                        gorder    libraries with refs > 0 in the order of their      *)
(*                                                  first dlopen (the RTLD_GLOBAL lookup scope)        *)
(*                                        inst[v]   how often init / run / done of the CURRENT         *)
(*                                                  instance of v ran (the library's own counters:     *)
(*                                                  they start from 0 again when the library was       *)
(*                                                  really unloaded and is mapped anew)                *)
(*                                        stale     uses of a handle that is not open (dlsym/dlclose)  *)
(*                                        main      open count of the handle on the program itself     *)
(*   the OBJECTS (slot 1 = A, slot 2 = B) - live, name, path (ids, 0 = NULL), h (0 = not loaded, else  *)
(*                                        the library the object's handle designates), mh (holds a     *)
(*                                        handle on the program; only tracked when TrackMain)          *)
(*                                                                                                     *)
(* One action per public call, including the refused ones.  Every action yields the return value r     *)
(* (integers: TRUE = 1, FALSE / NULL = 0, a fatal exit = 99) and `calls`, the sequence of module        *)
(* functions that ran during the call (<<fn, v>>: fn 0 init, 1 run, 2 done, 3 echo; v = the library     *)
(* whose code ran).                                                                                     *)
(*                                                                                                     *)
(* Rule kinds (DESIGN.md section 3): no listed property covers this class, so the contract is written   *)
(* here.  I = IDEAL (what a life-cycle object must do; a divergence of the code is a finding),          *)
(* C = AS-BUILT CONVENTION (several behaviours would be reasonable, the established one is modelled      *)
(* and the spec is strict about it), X = excluded from the argument universe.                           *)
(*                                                                                                     *)
(* AsBuilt = TRUE switches the mechanism to what src/module.c does (hook lookup falls back to the       *)
(* global scope, load does not refuse a loaded object, dup copies the handle without a reference,       *)
(* done() forgets a handle whose module refused to unload, init/done do not pair on the program         *)
(* handle).  That variant is never replayed: it exists so that TLC refutes the laws on it by itself.    *)
EXTENDS Integers, Sequences, FiniteSets, TLC, Json

CONSTANTS Variants,   \* libraries of the catalogue offered in this model (subset of 1..5)
          Paths,      \* path ids offered to set_path
          Names,      \* name ids offered to set_name
          Slots,      \* {1} or {1, 2}
          LoadFaults, UnloadFaults, RunFaults, SymFaults,   \* fault schedules offered ("none" always among them)
          Levels,     \* runtime debug levels offered to the NULL-argument calls
          Indents,    \* indents offered to show
          Cap,        \* the libraries' own counters are observed saturating at Cap
          AsBuilt, TrackMain,
          Bounded,    \* TRUE in the bounded models (switches the two model bounds below on), FALSE for trace validation
          Obs(_, _, _, _)   \* observation hook (op, args, ret, post-state)

VARIABLES o, refs, inst, gorder, stale, main,
          lastc, lastrf      \* ghosts for the laws: hook calls of the last step / "the last step was a refusal case"
vars == <<o, refs, inst, gorder, stale, main, lastc, lastrf>>
\* the ghosts are not part of a state's identity (cfg: VIEW View); the laws only read their primed values
View == <<o, refs, inst, gorder, stale, main>>

------------------------------------------------------------------------------------------------
(* The catalogue: the shared objects the check builds (harness/module_mod.c) and the paths it offers. *)
(*   1 full      init (succeeds), run, done (succeeds)        4 bare   none of the three              *)
(*   2 noinit    run, done                                     5 veto   init, done returns FALSE       *)
(*   3 initfail  init returns FALSE, run, done                                                         *)
(* every library also exports `echo` and its counter block `x05_counts`.                               *)
AllVariants == 1 .. 5
HasInit(v)  == CASE v = 1 -> 1 [] v = 3 -> 2 [] v = 5 -> 1 [] OTHER -> 0     \* 0 absent, 1 succeeds, 2 fails
HasRun(v)   == v \in {1, 2, 3}
DoneKind(v) == CASE v \in {1, 2, 3} -> 1 [] v = 5 -> 2 [] OTHER -> 0           \* 0 absent, 1 succeeds, 2 vetoes
Has(v, fn)  == CASE fn = "init" -> HasInit(v) # 0 [] fn = "run" -> HasRun(v) [] fn = "done" -> DoneKind(v) # 0 [] OTHER -> FALSE
(*   paths 1..5  <library>.so  (no slash: found through the library search path)                                  *)
(*         6  <dir>/missing.so (no such file)     7  <dir>/notso.so (a text file)     8  <dir>/full.so            *)
(*         9  x05nosuch.so (no slash, absent)                                                                     *)
(*         15/11 <dir>/././.../full.so of 4094 / 4095 characters (the longest the kernel takes)                   *)
(*         12/13/14  the same with 4096 / 4097 / 9000 characters (ENAMETOOLONG)                                   *)
Lib(p)      == CASE p \in 1 .. 5 -> p [] p \in {8, 11, 15} -> 1 [] OTHER -> 0   \* the library dlopen(path) maps, 0 = fails
BaseId(p)   == IF p \in {8, 11, 12, 13, 14, 15} THEN 1 ELSE p
\* I (Ideal_DerivedNameIsBasename): load() names an unnamed module after the FILE: the text behind the last '/', the whole
\* path when there is none.  Name ids: 0 NULL, 1.. given names, 200 + p the file name of path p.
Derived(p)  == 200 + BaseId(p)
\* ranks of the texts (the check verifies at start-up that the real texts sort this way)
NameRank(n) == CASE n = 1 -> 10 [] n = 2 -> 90 [] n = 204 -> 20 [] n = 201 -> 30 [] n = 203 -> 40 [] n = 206 -> 50
                 [] n = 202 -> 60 [] n = 207 -> 70 [] n = 205 -> 95 [] n = 209 -> 96 [] OTHER -> 0
PathRank(p) == CASE p = 14 -> 1 [] p = 13 -> 2 [] p = 12 -> 3 [] p = 11 -> 4 [] p = 15 -> 5 [] p = 8 -> 10 [] p = 6 -> 11 [] p = 7 -> 12
                 [] p = 4 -> 20 [] p = 1 -> 30 [] p = 3 -> 40 [] p = 2 -> 60 [] p = 5 -> 80 [] p = 9 -> 110 [] OTHER -> 0

------------------------------------------------------------------------------------------------
NilObj == [live |-> FALSE, name |-> 0, path |-> 0, h |-> 0, mh |-> FALSE]
Fresh  == [live |-> TRUE, name |-> 0, path |-> 0, h |-> 0, mh |-> TrackMain]
Zero3  == <<0, 0, 0>>
Sat(n) == IF n > Cap THEN Cap ELSE n

ObjAt(oo, s) == IF s \in Slots THEN oo[s] ELSE NilObj
St(oo, rr, ii, gg, ss, mm) ==
    [a |-> ObjAt(oo, 1), b |-> ObjAt(oo, 2),
     refs |-> [v \in AllVariants |-> IF v \in Variants THEN rr[v] ELSE 0],
     inst |-> [v \in AllVariants |-> IF v \in Variants THEN ii[v] ELSE Zero3],
     g |-> gg, stale |-> ss, main |-> mm]
Pre == St(o, refs, inst, gorder, stale, main)

\* one transition: next state, then (primed values are known) the observation
Step(op, args, who, r, calls, rf, oo, rr, ii, gg, ss, mm) ==
    /\ o' = oo /\ refs' = rr /\ inst' = ii /\ gorder' = gg /\ stale' = ss /\ main' = mm
    /\ lastc' = [c |-> calls, who |-> who] /\ lastrf' = rf
    /\ Obs(op, args, [r |-> r, calls |-> calls], St(oo, rr, ii, gg, ss, mm))
\* a refused call, a query: nothing changes
Same(op, args, r, rf)      == Step(op, args, 0, r, <<>>, rf, o, refs, inst, gorder, stale, main)
\* a change of the objects only
ObjStep(op, args, r, oo)   == Step(op, args, 0, r, <<>>, FALSE, oo, refs, inst, gorder, stale, main)

------------------------------------------------------------------------------------------------
(* the loader *)
Bump(ii, v, k)  == [ii EXCEPT ![v] = [@ EXCEPT ![k] = Sat(@ + 1)]]               \* k: 1 init, 2 run, 3 done
OpenRefs(rr, v) == [rr EXCEPT ![v] = @ + 1]
OpenG(gg, rr, v) == IF rr[v] = 0 THEN Append(gg, v) ELSE gg
CloseRefs(rr, v) == [rr EXCEPT ![v] = @ - 1]
CloseG(gg, rr, v) == IF rr[v] = 1 THEN SelectSeq(gg, LAMBDA w : w # v) ELSE gg
CloseI(ii, rr, v) == IF rr[v] = 1 THEN [ii EXCEPT ![v] = Zero3] ELSE ii            \* the instance is gone with its counters
IsOpen(v)       == v # 0 /\ refs[v] > 0
IsStale(v)      == v # 0 /\ refs[v] = 0      \* the object's handle designates nothing (only the as-built mechanism gets there)
StaleN(v, n)    == IF IsStale(v) THEN n ELSE 0

FirstWith(gg, fn) == IF \E k \in 1 .. Len(gg) : Has(gg[k], fn)
                     THEN gg[CHOOSE k \in 1 .. Len(gg) : Has(gg[k], fn) /\ \A j \in 1 .. (k - 1) : ~Has(gg[j], fn)]
                     ELSE 0
\* Which library's function runs when the object holding handle v (open iff isopen) needs its life-cycle hook fn.
\* I (Ideal_OwnHooksOnly): the module's OWN function or none.  C (Conv_UnresolvedHookIsAbsent): a hook that cannot be
\* resolved (fault) is treated as absent.  As built: spif_module_getsym falls back to the program and the global scope,
\* so the first RTLD_GLOBAL library that has a function of that name lends it.
Hook(v, isopen, fn, fault, gg) ==
    IF fault = fn THEN 0
    ELSE IF v # 0 /\ isopen /\ Has(v, fn) THEN v
    ELSE IF AsBuilt THEN FirstWith(gg, fn) ELSE 0
\* C (Conv_GetsymSearchOrder): an explicit lookup searches the module, then the program, then the global scope; an
\* unloaded module searches the global scope at once.  Symbol classes: "mod" = exported by every library of the catalogue
\* (x05_counts, echo), "ext" = defined outside the catalogue (program / libc), "nosuch".  Result: library id, 9 = outside, 0 = NULL.
Found(v, sym, fault) ==
    IF fault = "sym" \/ sym = "nosuch" THEN 0
    ELSE IF sym = "ext" THEN 9
    ELSE IF v # 0 /\ refs[v] > 0 THEN v
    ELSE IF Len(gorder) > 0 THEN gorder[1] ELSE 0

------------------------------------------------------------------------------------------------
(* construction, destruction *)
OpNew(s) ==
    /\ ~o[s].live
    /\ Step("new", <<s>>, s, 1, <<>>, FALSE, [o EXCEPT ![s] = Fresh], refs, inst, gorder, stale,
            IF TrackMain THEN main + 1 ELSE main)

\* what done() / del() do with the loaded library: the module's done hook runs once, then the handle is closed.
\* I (Ideal_ReleaseIsUnconditional): an object that goes away releases its handle even when the hook says FALSE (the
\* value is still reported).  As built: the refusal of spif_module_unload is ignored and the handle forgotten (leak).
Release(s) ==
    LET v == o[s].h
        hk == Hook(v, IsOpen(v), "done", "none", gorder)
        calls == IF hk # 0 THEN << <<2, hk>> >> ELSE <<>>
        i1 == IF hk # 0 THEN Bump(inst, hk, 3) ELSE inst
        veto == hk # 0 /\ DoneKind(hk) = 2
    IN  IF v = 0 THEN [r |-> 1, calls |-> <<>>, rr |-> refs, ii |-> inst, gg |-> gorder, ss |-> stale]
        ELSE IF IsStale(v) THEN [r |-> 0, calls |-> calls, rr |-> refs, ii |-> i1, gg |-> gorder, ss |-> stale + (IF veto THEN 1 ELSE 2)]
        ELSE IF veto /\ AsBuilt THEN [r |-> 0, calls |-> calls, rr |-> refs, ii |-> i1, gg |-> gorder, ss |-> stale]
        ELSE [r |-> IF veto THEN 0 ELSE 1, calls |-> calls, rr |-> CloseRefs(refs, v), ii |-> CloseI(i1, refs, v),
              gg |-> CloseG(gorder, refs, v), ss |-> stale]

\* done(): everything released, the object is as after new() (C06-style: empty and reusable through init()).
\* I (Ideal_DoneUndoesInit): done() gives back the handle on the program that init() took.  As built: only del() does.
OpDone(s) ==
    /\ o[s].live
    /\ LET x == Release(s)
           keep == AsBuilt /\ TrackMain
       IN Step("done", <<s>>, s, x.r, x.calls, FALSE,
               [o EXCEPT ![s] = [Fresh EXCEPT !.mh = keep]], x.rr, x.ii, x.gg, x.ss,
               IF TrackMain /\ ~AsBuilt /\ o[s].mh THEN main - 1 ELSE main)
OpDel(s) ==
    /\ o[s].live
    /\ LET x == Release(s)
       IN Step("del", <<s>>, s, 1, x.calls, FALSE, [o EXCEPT ![s] = NilObj], x.rr, x.ii, x.gg, x.ss,
               IF TrackMain /\ (AsBuilt \/ o[s].mh) THEN main - 1 ELSE main)
\* init() again on an object that done() has emptied.  X: init() of an object that still owns something.
OpInit(s) ==
    /\ o[s].live /\ o[s].name = 0 /\ o[s].path = 0 /\ o[s].h = 0
    /\ (TrackMain /\ ~AsBuilt) => ~o[s].mh
    /\ Step("init", <<s>>, s, 1, <<>>, FALSE, [o EXCEPT ![s].mh = TrackMain], refs, inst, gorder, stale,
            IF TrackMain THEN main + 1 ELSE main)

\* I (Ideal_DupIsUnloaded, cf. C05): the copy is an independent module of the same name and path; the open library is a
\* resource of the original, not a value: the copy is not loaded and owns its own handle on the program.
\* As built: memcpy - both objects now own ONE reference on the library and ONE on the program.
OpDup(s, t) ==
    /\ s # t /\ o[s].live /\ ~o[t].live
    /\ IF AsBuilt
       THEN Step("dup", <<s, t>>, s, 1, <<>>, FALSE, [o EXCEPT ![t] = o[s]], refs, inst, gorder, stale, main)
       ELSE Step("dup", <<s, t>>, s, 1, <<>>, FALSE, [o EXCEPT ![t] = [Fresh EXCEPT !.name = o[s].name, !.path = o[s].path]],
                 refs, inst, gorder, stale, IF TrackMain THEN main + 1 ELSE main)

------------------------------------------------------------------------------------------------
(* properties: the object owns the strings it is given (C, as every property setter of the library) *)
OpSetName(s, n) == /\ o[s].live /\ ObjStep("set_name", <<s, n>>, 1, [o EXCEPT ![s].name = n])
OpSetPath(s, p) == /\ o[s].live /\ ObjStep("set_path", <<s, p>>, 1, [o EXCEPT ![s].path = p])       \* C: also while loaded
\* I (aliasing): handing an object its own current value back changes nothing
\* (a bound of the model, not of the contract: the handle setters and the calls into the module are offered on unnamed
\*  objects only - the name plays no part in them, and every path / library / counter combination occurs unnamed too)
Unnamed(s)       == Bounded => o[s].name = 0
OpSetNameSame(s) == /\ o[s].live /\ o[s].name # 0 /\ Same("set_name_same", <<s>>, 1, FALSE)
OpSetPathSame(s) == /\ o[s].live /\ o[s].path # 0 /\ Same("set_path_same", <<s>>, 1, FALSE)
OpSetMhSame(s)   == /\ o[s].live /\ Unnamed(s) /\ Same("set_mh_same", <<s>>, 1, FALSE)      \* set_module_handle(get_module_handle())
OpSetMainSame(s) == /\ o[s].live /\ Unnamed(s) /\ Same("set_main_same", <<s>>, 1, FALSE)    \* set_main_handle(get_main_handle())

------------------------------------------------------------------------------------------------
(* load / unload *)
OpLoad(s, f) ==
    /\ o[s].live
    /\ LET ob == o[s]
           p == ob.path
           v == Lib(p)
           nm == IF ob.name = 0 THEN Derived(p) ELSE ob.name      \* C (Conv_NameDerivedBeforeOpen): also when the open then fails
       IN  IF p = 0 THEN Same("load", <<s, f>>, 0, TRUE)                          \* refused: no path
           ELSE IF ob.h # 0 /\ ~AsBuilt THEN Same("load", <<s, f>>, 0, TRUE)      \* I (Ideal_LoadTwiceRefused)
           ELSE IF v = 0 \/ f = "dlopen"
                THEN Step("load", <<s, f>>, s, 0, <<>>, ob.h # 0, [o EXCEPT ![s].name = nm, ![s].h = 0],
                          refs, inst, gorder, stale, main)
           ELSE LET r1 == OpenRefs(refs, v)
                    g1 == OpenG(gorder, refs, v)
                    hk == Hook(v, TRUE, "init", f, g1)
                    i1 == IF hk # 0 THEN Bump(inst, hk, 1) ELSE inst
                    \* C (Conv_InitFailKeepsHandle): a failing init makes load() return FALSE; the library stays open and
                    \* the object loaded - unload() is the caller's move.
                    r == IF hk = 0 THEN 1 ELSE IF HasInit(hk) = 1 THEN 1 ELSE 0
                IN Step("load", <<s, f>>, s, r, IF hk # 0 THEN << <<0, hk>> >> ELSE <<>>, ob.h # 0,
                        [o EXCEPT ![s].name = nm, ![s].h = v], r1, i1, g1, stale, main)

OpUnload(s, f) ==
    /\ o[s].live
    /\ LET v == o[s].h
           hk == Hook(v, IsOpen(v), "done", f, gorder)
           calls == IF hk # 0 THEN << <<2, hk>> >> ELSE <<>>
           i1 == IF hk # 0 THEN Bump(inst, hk, 3) ELSE inst
           veto == hk # 0 /\ DoneKind(hk) = 2
       IN  IF v = 0 THEN Same("unload", <<s, f>>, 0, TRUE)                        \* refused: not loaded
           ELSE IF veto                                                             \* C (Conv_DoneVeto): the module refuses, stays loaded
                THEN Step("unload", <<s, f>>, s, 0, calls, FALSE, o, refs, i1, gorder, stale + StaleN(v, 1), main)
           ELSE IF IsStale(v)                                                       \* as built only: dlclose of a closed handle fails
                THEN Step("unload", <<s, f>>, s, 0, calls, FALSE, o, refs, i1, gorder, stale + 2, main)
           ELSE Step("unload", <<s, f>>, s, 1, calls, FALSE, [o EXCEPT ![s].h = 0],
                     CloseRefs(refs, v), CloseI(i1, refs, v), CloseG(gorder, refs, v), stale, main)

------------------------------------------------------------------------------------------------
(* calling into the module *)
\* run(): the module's own `run`; FALSE, and nothing called, when the object is not loaded or the module has none (I).
OpRun(s, f) ==
    /\ o[s].live /\ Unnamed(s)
    /\ LET v == o[s].h
           hk == Hook(v, IsOpen(v), "run", f, gorder)
       IN  IF hk = 0 THEN Step("run", <<s, f>>, s, 0, <<>>, v = 0, o, refs, inst, gorder, stale + StaleN(v, 1), main)
           ELSE Step("run", <<s, f>>, s, 1, << <<1, hk>> >>, v = 0, o, refs, Bump(inst, hk, 2), gorder, stale + StaleN(v, 1), main)
\* call(fname, data): looks the function up like getsym (C) and calls it; `echo` returns its argument (r = 1: the value
\* came back); a function that cannot be found: NULL, nothing is called (I).
OpCall(s, fname, f) ==
    /\ o[s].live /\ Unnamed(s)
    /\ LET v == o[s].h
           w == Found(v, IF fname = "echo" THEN "mod" ELSE "nosuch", f)
       IN  IF w = 0 THEN Step("call", <<s, fname, f>>, s, 0, <<>>, FALSE, o, refs, inst, gorder, stale + StaleN(v, 1), main)
           ELSE Step("call", <<s, fname, f>>, s, 1, << <<3, w>> >>, FALSE, o, refs, inst, gorder, stale + StaleN(v, 1), main)
OpGetsym(s, sym, f) ==
    /\ o[s].live
    /\ Step("getsym", <<s, sym, f>>, s, Found(o[s].h, sym, f), <<>>, FALSE, o, refs, inst, gorder, stale + StaleN(o[s].h, 1), main)

------------------------------------------------------------------------------------------------
(* NULL arguments (stated for the whole library by C16/C20: soft failure at debug level 0, the ASSERT is fatal above) *)
Soft(lvl) == IF lvl >= 1 THEN 99 ELSE 0
NullFns == {"init", "done", "del", "dup", "type", "load", "unload", "run", "call", "getsym"}
NullOffered == Bounded => \A s \in Slots : (o[s].name = 0 /\ o[s].path = 0)   \* a bound of the model, not of the contract: offered beside no object or objects without name and path
OpNullSelf(fn, lvl) == /\ fn \in NullFns /\ NullOffered /\ Same("null_self", <<fn, lvl>>, Soft(lvl), TRUE)
OpNullSym(s, lvl)   == /\ o[s].live /\ NullOffered /\ Same("null_sym", <<s, lvl>>, Soft(lvl), TRUE)        \* getsym(m, NULL)
OpNullFname(s, lvl) == /\ o[s].live /\ NullOffered /\ Same("null_fname", <<s, lvl>>, Soft(lvl), TRUE)      \* call(m, NULL, d)

------------------------------------------------------------------------------------------------
(* queries *)
OpType(s) == /\ o[s].live /\ Same("type", <<s>>, 1, FALSE)
\* comp: I (cf. C05) - order by name, then path, then handle; a NULL text is below every text and equal to NULL; equal
\* handles compare equal, different handles compare unequal with opposite signs in the two directions (which sign: E).
\* r encodes the pair (comp(x,y), comp(y,x)) as 10*(c1+1) + (c2+1); 77 = "unequal and antisymmetric".
CmpInt(x, y)   == IF x < y THEN -1 ELSE IF x > y THEN 1 ELSE 0
CmpText(x, y, rank(_)) == IF x = 0 /\ y = 0 THEN 0 ELSE IF x = 0 THEN -1 ELSE IF y = 0 THEN 1 ELSE CmpInt(rank(x), rank(y))
CompRes(x, y) == LET n == CmpText(x.name, y.name, NameRank) IN
                 IF n # 0 THEN n ELSE
                 LET p == CmpText(x.path, y.path, PathRank) IN
                 IF p # 0 THEN p ELSE IF x.h = y.h THEN 0 ELSE 2
PairCode(c)   == IF c = 2 THEN 77 ELSE 10 * (c + 1) + (1 - c)
OpComp(s, t)  == /\ s # t /\ o[s].live /\ o[t].live /\ Same("comp", <<s, t>>, PairCode(CompRes(o[s], o[t])), FALSE)
OpCompNull(s) == /\ o[s].live /\ Same("comp_null", <<s>>, PairCode(1), FALSE)      \* S (C16): NULL is below every object
\* show: the rendering as line records (k = kind, i = indentation, v = name / path id or "handle set")
ShowLines(x, ind) ==
    << [k |-> "open", i |-> ind, v |-> 0],
       [k |-> IF x.name = 0 THEN "strnull" ELSE "str", i |-> ind + 2, v |-> x.name],
       [k |-> IF x.path = 0 THEN "strnull" ELSE "str", i |-> ind + 2, v |-> x.path],
       [k |-> "mh", i |-> ind + 2, v |-> IF x.h = 0 THEN 0 ELSE 1],
       [k |-> "main", i |-> ind + 2, v |-> 1],
       [k |-> "close", i |-> ind, v |-> 0] >>
OpShow(s, ind) == /\ o[s].live /\ Same("show", <<s, ind>>, ShowLines(o[s], ind), FALSE)

------------------------------------------------------------------------------------------------
Init == /\ o = [s \in Slots |-> NilObj]
        /\ refs = [v \in Variants |-> 0] /\ inst = [v \in Variants |-> Zero3] /\ gorder = <<>> /\ stale = 0 /\ main = 0
        /\ lastc = [c |-> <<>>, who |-> 0] /\ lastrf = FALSE

Next == \/ \E s \in Slots : OpNew(s) \/ OpDone(s) \/ OpDel(s) \/ OpInit(s)
        \/ \E s \in Slots, t \in Slots : OpDup(s, t) \/ OpComp(s, t)
        \/ \E s \in Slots, n \in Names \cup {0} : OpSetName(s, n)
        \/ \E s \in Slots, p \in Paths \cup {0} : OpSetPath(s, p)
        \/ \E s \in Slots : OpSetNameSame(s) \/ OpSetPathSame(s) \/ OpSetMhSame(s) \/ OpSetMainSame(s) \/ OpType(s) \/ OpCompNull(s)
        \/ \E s \in Slots, f \in LoadFaults : OpLoad(s, f)
        \/ \E s \in Slots, f \in UnloadFaults : OpUnload(s, f)
        \/ \E s \in Slots, f \in RunFaults : OpRun(s, f)
        \/ \E s \in Slots, fn \in {"echo", "nosuch"}, f \in SymFaults : OpCall(s, fn, f)
        \/ \E s \in Slots, sym \in {"mod", "ext", "nosuch"}, f \in SymFaults : OpGetsym(s, sym, f)
        \/ \E fn \in NullFns, l \in Levels : OpNullSelf(fn, l)
        \/ \E s \in Slots, l \in Levels : OpNullSym(s, l) \/ OpNullFname(s, l)
        \/ \E s \in Slots, i \in Indents : OpShow(s, i)

Spec == Init /\ [][Next]_vars

------------------------------------------------------------------------------------------------
(* the laws *)
Holders(v) == {s \in Slots : o[s].live /\ o[s].h = v}
NameIds == {0} \cup Names \cup {200 + k : k \in 1 .. 9}
TypeOK == /\ \A s \in Slots : /\ o[s].live \in BOOLEAN /\ o[s].mh \in BOOLEAN
                              /\ o[s].name \in NameIds /\ o[s].path \in Paths \cup {0} /\ o[s].h \in Variants \cup {0}
                              /\ (~o[s].live => o[s] = NilObj)
          /\ \A v \in Variants : refs[v] \in 0 .. 4 /\ \A k \in 1 .. 3 : inst[v][k] \in 0 .. Cap
          /\ stale \in 0 .. 100 /\ main \in -4 .. 8
\* no handle leak, no shared ownership: every open reference on a library belongs to exactly one live object
RefsMatchHolders == \A v \in Variants : refs[v] = Cardinality(Holders(v))
\* ... hence: when every object is gone, every successful dlopen has been matched by exactly one dlclose
QuiescenceClosed == (\A s \in Slots : ~o[s].live) => (\A v \in Variants : refs[v] = 0) /\ gorder = <<>>
\* the handle on the program pairs the same way (only when tracked)
MainMatches == TrackMain => main = Cardinality({s \in Slots : o[s].live /\ o[s].mh})
\* nothing uses a handle that is not open (in particular: nothing is called or looked up through it after unload)
NoStaleUse == stale = 0
\* the library that is not open keeps no instance, the scope lists exactly the open libraries once
LoaderSane == /\ \A v \in Variants : (refs[v] = 0) => inst[v] = Zero3
              /\ \A v \in Variants : (refs[v] > 0) <=> (\E k \in 1 .. Len(gorder) : gorder[k] = v)
              /\ \A j, k \in 1 .. Len(gorder) : (j # k) => gorder[j] # gorder[k]
\* a life-cycle hook (init 0, run 1, done 2) only ever runs in the library the CALLING object holds - held before the call
\* or acquired by it (load); `echo` (fn 3) is an explicit global lookup and exempt.  Hence nothing of a library is called
\* through an object after that object unloaded it.  Action properties: they relate the calls of a step to its two states.
OwnHooksOnly == [][ \A k \in 1 .. Len(lastc'.c) :
                       LET fn == lastc'.c[k][1] v == lastc'.c[k][2] w == lastc'.who IN
                       (fn # 3) => (w \in Slots /\ (o[w].h = v \/ o'[w].h = v)) ]_vars
\* init runs only in the step that opens a reference for the caller, a done that succeeds only in a step that drops one:
\* so per successful load there is at most one successful done, and none before its init
HookPairsWithRefs == [][ \A k \in 1 .. Len(lastc'.c) :
                            LET fn == lastc'.c[k][1] v == lastc'.c[k][2] IN
                            /\ (fn = 0) => (refs'[v] = refs[v] + 1)
                            /\ (fn = 2 /\ DoneKind(v) = 1) => (refs'[v] = refs[v] - 1) ]_vars
\* a refused call changes nothing
RefusedChangesNothing == [][ lastrf' => (o' = o /\ refs' = refs /\ inst' = inst /\ gorder' = gorder /\ main' = main /\ lastc'.c = <<>>) ]_vars
================================================================================
