------------------------------ MODULE UsageLayout ------------------------------
(* Extension X06 (beyond the listed properties, DESIGN.md section 10): the built-in help handler  *)
(* spifopt_usage() of src/options.c - what C08 leaves out ("spifopt_usage output ... out of      *)
(* scope").  The output is a pure function of the registered option table and the program        *)
(* name / version: a three-column table (POSIX letter, GNU long name, type + description) under  *)
(* a centred header and a rule, after which the process ends with EXIT_FAILURE.                  *)
(*                                                                                                *)
(* Reference = the column arithmetic written once, in TLA+ (texts are TLA+ strings, built by      *)
(* concatenation); rule kinds as in DESIGN.md 3:                                                  *)
(*  S  every option appears exactly once, in table order, with its letter, "--" long name, the   *)
(*     type word of its TYPE bits (modifier bits such as PREPARSE do not change the word) and    *)
(*     its description                                                                            *)
(*  S  the descriptions of all rows start in the same column (RowsAligned), the rule is as wide  *)
(*     as the widest row prefix, and nothing follows the description (no trailing blanks)        *)
(*  C  widths: long column = longest long name + 2, description column = longest description +7 *)
(*  C  the header words are centred with integer halves; an even column gets one extra blank     *)
(*  I  the header is exactly as wide as the rule (HeaderFitsRule).  As built this fails for a    *)
(*     description column narrower than the word "Description" (all descriptions shorter than 4  *)
(*     characters) and for an empty table: TLC refutes it by itself in UsageLayout_ideal.cfg;    *)
(*     the claimed law is HeaderFitsRuleWhenWide.                                                 *)
(* A case = one option table; TLC enumerates all tables of the bounded universe, checks the laws *)
(* on the reference text and emits the text; the harness registers the same table, calls         *)
(* spifopt_usage() in a child process with fd 1 captured and compares bytes and exit status.     *)
EXTENDS Integers, Sequences, FiniteSets, TLC, Json

CONSTANTS LongLens,       \* set of long-name lengths (>= 1)
          DescLens,       \* set of description lengths (>= 0)
          TypeBits,       \* set of flag words (TYPE bits, possibly with modifier bits)
          MaxOpts,        \* tables of 0 .. MaxOpts options
          Names,          \* set of <<program name, version>> pairs
          Obs(_, _, _)

VARIABLES done
vars == <<done>>

Rep(c, n) == LET RECURSIVE R(_)
                 R(k) == IF k <= 0 THEN "" ELSE IF k = 1 THEN c ELSE R(k \div 2) \o R(k - k \div 2)
             IN R(n)
MaxOf(S, z) == IF S = {} THEN z ELSE CHOOSE m \in S : \A x \in S : x <= m

Option == [sh : {0, 1}, ll : LongLens, fl : TypeBits, dl : DescLens]
RECURSIVE TablesOf(_)
TablesOf(n) == IF n = 0 THEN {<<>>} ELSE TablesOf(n - 1) \cup {Append(t, o) : t \in {u \in TablesOf(n - 1) : Len(u) = n - 1}, o \in Option}

\* flag words as in libast.h
BOOLEAN_ == 1  INTEGER_ == 32  STRING_ == 64  ARGLIST_ == 128  PREPARSE_ == 2048
TypeMask == 2047
TypeOf(fl) == fl % 2048                       \* fl & SPIFOPT_FLAG_TYPEMASK for the words used here
TypeWord(fl) == CASE TypeOf(fl) = BOOLEAN_ -> "(bool)"
                  [] TypeOf(fl) = INTEGER_ -> "(int)"
                  [] TypeOf(fl) = ARGLIST_ -> "(strs)"
                  [] OTHER -> "(str)"
Pad6(w) == w \o Rep(" ", 6 - Len(w))

\* the i-th option's texts: long names and descriptions are distinguishable per row (first character = row letter)
RowCh(i) == <<"p", "q", "r", "s">>[i]
LongName(t, i) == RowCh(i) \o Rep("x", t[i].ll - 1)
DescText(t, i) == IF t[i].dl = 0 THEN "" ELSE RowCh(i) \o Rep("d", t[i].dl - 1)
ShortCh(i) == <<"a", "b", "c", "e">>[i]

LongCol(t) == MaxOf({t[i].ll : i \in DOMAIN t}, 0) + 2
DescCol(t) == MaxOf({t[i].dl : i \in DOMAIN t}, 0) + 7
\* C integer division truncates towards zero
CHalf(n) == IF n >= 0 THEN n \div 2 ELSE 0 - ((0 - n) \div 2)
Blanks(n) == Rep(" ", n)

Header(t) == LET L == LongCol(t)  D == DescCol(t)
                 hl == CHalf(L - 3)  hd == CHalf(D - 11) IN
             "POSIX " \o Blanks(hl) \o "GNU" \o Blanks(hl) \o (IF L % 2 = 0 THEN " " ELSE "") \o "  "
             \o Blanks(hd) \o "Description" \o Blanks(hd) \o (IF D % 2 = 0 THEN " " ELSE "")
Rule(t) == "----- " \o Rep("-", LongCol(t)) \o "  " \o Rep("-", DescCol(t))
RowPrefix(t, i) == (IF t[i].sh = 1 THEN " -" \o ShortCh(i) \o "   " ELSE "      ")
                   \o "--" \o LongName(t, i) \o Blanks(LongCol(t) - 2 - t[i].ll) \o "  " \o Pad6(TypeWord(t[i].fl)) \o " "
Row(t, i) == RowPrefix(t, i) \o DescText(t, i)
Lines(t, nm) == <<nm[1] \o " " \o nm[2], "Usage:", "", Header(t), Rule(t)>> \o [i \in DOMAIN t |-> Row(t, i)]

\* ---- laws of the reference -------------------------------------------------------------------------------------
RowsAligned(t) == \A i, j \in DOMAIN t : Len(RowPrefix(t, i)) = Len(RowPrefix(t, j))
RuleCoversRows(t) == \A i \in DOMAIN t : Len(Row(t, i)) <= Len(Rule(t)) /\ Len(RowPrefix(t, i)) = 6 + LongCol(t) + 2 + 7
SomeRowFillsRule(t) == t # <<>> => \E i \in DOMAIN t : Len(Row(t, i)) = Len(Rule(t))
HeaderFitsRule(t) == Len(Header(t)) = Len(Rule(t))
HeaderFitsRuleWhenWide(t) == (LongCol(t) >= 3 /\ DescCol(t) >= 11) => HeaderFitsRule(t)
LineCount(t, nm) == Len(Lines(t, nm)) = 5 + Len(t)
Laws(t, nm) == RowsAligned(t) /\ RuleCoversRows(t) /\ SomeRowFillsRule(t) /\ HeaderFitsRuleWhenWide(t) /\ LineCount(t, nm)

Tables == TablesOf(MaxOpts)
OptTokens(t) == [i \in DOMAIN t |-> <<IF t[i].sh = 1 THEN ShortCh(i) ELSE "-", LongName(t, i), t[i].fl, DescText(t, i)>>]

EvalTable == /\ ~done
             /\ done' = TRUE
             /\ \A t \in Tables : \A nm \in Names :
                    /\ Assert(Laws(t, nm), <<"law of the reference violated", t>>)
                    /\ Obs(nm, OptTokens(t), Lines(t, nm))
\* the ideal law, refuted by TLC on the as-built arithmetic (UsageLayout_ideal.cfg)
EvalIdeal == /\ ~done
             /\ done' = TRUE
             /\ \A t \in Tables : Assert(HeaderFitsRule(t), <<"HeaderFitsRule", OptTokens(t), Header(t), Rule(t)>>)

Init == done = FALSE
Next == EvalTable
NextIdeal == EvalIdeal
Spec == Init /\ [][Next]_vars
SpecIdeal == Init /\ [][NextIdeal]_vars
================================================================================
