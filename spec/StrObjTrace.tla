------------------------------ MODULE StrObjTrace ------------------------------
(* Trace validation for C01: every recorded call on real str / ustr objects (operation, arguments, returned value,  *)
(* projected texts of both slots) must be a step of StrObj.  The file named by env TRACE holds one JSON object per   *)
(* line: {op, sl, bop, args, ret, same, post}; sl/bop = slot and base operation name ("b_trim" = slot "b", "trim"),  *)
(* same = TRUE means the projection after the call equals the one before it (post is then not logged: the texts are  *)
(* tens of kilobytes).  {"bop":"reset"} starts a new execution.                                                       *)
(* Large contents for the stream / descriptor constructors are not logged either: both sides generate them from      *)
(* (n, nl) with the same formula, GenContent.                                                                         *)
EXTENDS StrObj, IOUtils
VARIABLE l
Tr == ndJsonDeserialize(IOEnv.TRACE)
ev == Tr[l]

UTrace == [maxlen |-> 1000000]

ObsTrace(op, args, ret, either, post) ==
    /\ op = ev.op /\ args = ev.args
    /\ IF either THEN TRUE ELSE ret = ev.ret
    /\ IF ev.same THEN post = Pre ELSE post = ev.post

\* n characters, a newline at position nl (0 = none): must equal gen_content() of harness/str_replay.c
GenContent(n, nl) == [k \in 1 .. n |-> IF k = nl THEN 10 ELSE 97 + ((k * 7 + (k \div 61)) % 26)]
OpNewFromFpGen(sl, re, n, nl, tr) == /\ sl \in Slots /\ Ctor(sl, re, "_from_fp_gen", <<n, nl, tr>>, LineText(GenContent(n, nl)))
OpNewFromFdGen(sl, re, n, nl, tr) == /\ sl \in Slots /\ Ctor(sl, re, "_from_fd_gen", <<n, nl, tr>>, GenContent(n, nl))

OpNewFromBuffGen(sl, re, m, size) == /\ sl \in Slots /\ m < size      \* a size-byte buffer: m generated characters, then NULs
                                     /\ Ctor(sl, re, "_from_buff_gen", <<m, size>>, GenContent(m, 0))
OpSprintfSGen(sl, n) == /\ Live(sl) /\ MutE(sl, "sprintf_s_gen", <<n>>, TRUE, n = 0, GenContent(n, 0))      \* "%s" with n generated characters

\* Bursts "<op>_n k args": k consecutive calls of the same operation, observed after the last one (the harness checks the
\* representation invariants after every single call).  The value is the k-fold application of the one-call action.
RepT(t, k) == [i \in 1 .. (k * Len(t)) |-> t[((i - 1) % Len(t)) + 1]]
OpAppendCharN(sl, k, c)  == /\ Live(sl) /\ k >= 0 /\ Mut(sl, "append_char_n", <<k, c>>, TRUE, Txt(sl) \o RepT(<<c>>, k))
OpPrependCharN(sl, k, c) == /\ Live(sl) /\ k >= 0 /\ Mut(sl, "prepend_char_n", <<k, c>>, TRUE, RepT(<<c>>, k) \o Txt(sl))
OpAppendPtrN(sl, k, t)   == /\ Live(sl) /\ k >= 0 /\ Mut(sl, "append_from_ptr_n", <<k, t>>, TRUE, Txt(sl) \o RepT(t, k))
OpPrependPtrN(sl, k, t)  == /\ Live(sl) /\ k >= 0 /\ Mut(sl, "prepend_from_ptr_n", <<k, t>>, TRUE, RepT(t, k) \o Txt(sl))
OpAppendObjN(sl, k)      == /\ Live(sl) /\ k >= 0 /\ HasOther(sl) /\ Mut(sl, "append_n", <<k>>, TRUE, Txt(sl) \o RepT(Other(sl), k))
OpPrependObjN(sl, k)     == /\ Live(sl) /\ k >= 0 /\ HasOther(sl) /\ Mut(sl, "prepend_n", <<k>>, TRUE, RepT(Other(sl), k) \o Txt(sl))

\* Extreme integer arguments (operations "<op>_x").  TLC's integers are 32-bit and an index or count of the API is 64-bit, so an
\* argument travels as a record [dec |-> its decimal numeral (the harness passes exactly that value), w, v]: w = 0 and v = the value
\* when |value| < 2^30, otherwise w = 1 / -1 = "huge positive / negative".  Every text here is shorter than 2^28, so the reference
\* operators cannot distinguish two huge values of the same sign: the value 2^30 (resp. -2^30) stands for all of them.
\* (S: positions outside the text are refused; C: an over-long substr count is clamped, a compare count >= both lengths compares all.)
HugeRep == 1073741824
XV(x) == IF x.w = 0 THEN x.v ELSE x.w * HugeRep
XOK(sl, xs) == /\ Live(sl) /\ Len(Txt(sl)) < 268435456
               /\ \A k \in 1 .. Len(xs) : xs[k].w \in {-1, 0, 1} /\ (xs[k].w = 0 => (xs[k].v < HugeRep /\ xs[k].v > 0 - HugeRep))
OpSubstrX(sl, xi, xc)      == /\ XOK(sl, <<xi, xc>>) /\ Qry(sl, "substr_x", <<xi, xc>>, SubstrRes(Txt(sl), XV(xi), XV(xc)))
OpSubstrToPtrX(sl, xi, xc) == /\ XOK(sl, <<xi, xc>>) /\ Qry(sl, "substr_to_ptr_x", <<xi, xc>>, SubstrRes(Txt(sl), XV(xi), XV(xc)))
SpliceX(sl, op, args, xi, xc, t) ==
    LET r == SpliceRes(Txt(sl), XV(xi), XV(xc), t) IN
    /\ XOK(sl, <<xi, xc>>) /\ SpliceCntDefined(Txt(sl), XV(xi), XV(xc)) = TRUE
    /\ Mut(sl, op, args, r.ok, r.s)
OpSplicePtrX(sl, xi, xc, t)  == /\ Live(sl) /\ SpliceX(sl, "splice_from_ptr_x", <<xi, xc, t>>, xi, xc, t)
OpSplicePtrNullX(sl, xi, xc) == /\ Live(sl) /\ SpliceX(sl, "splice_from_ptr_null_x", <<xi, xc>>, xi, xc, <<>>)
OpSpliceObjX(sl, xi, xc)     == /\ Live(sl) /\ SpliceX(sl, "splice_x", <<xi, xc>>, xi, xc, IF HasOther(sl) THEN Other(sl) ELSE <<>>)
OpSpliceSelfX(sl, xi, xc)    == /\ Live(sl) /\ SpliceX(sl, "splice_self_x", <<xi, xc>>, xi, xc, Txt(sl))
\* the counted comparisons: X for negative counts (8a), any count >= 0 however large is "the first n characters"
OpCmpPtrX(sl, kind, t, xn)  == /\ XOK(sl, <<xn>>) /\ XV(xn) >= 0 /\ kind \in {"ncmp", "ncasecmp"}
                               /\ Qry(sl, kind \o "_with_ptr_x", <<t, xn>>, CmpKind(kind, Txt(sl), t, XV(xn)))
OpCmpObjX(sl, kind, xn)     == /\ XOK(sl, <<xn>>) /\ XV(xn) >= 0 /\ kind \in {"ncmp", "ncasecmp"}
                               /\ Qry(sl, kind \o "_x", <<xn>>, IF HasOther(sl) THEN CmpKind(kind, Txt(sl), Other(sl), XV(xn)) ELSE 1)
OpCmpSelfX(sl, kind, xn)    == /\ XOK(sl, <<xn>>) /\ XV(xn) >= 0 /\ kind \in {"ncmp", "ncasecmp"} /\ Qry(sl, kind \o "_self_x", <<xn>>, 0)
OpCmpPtrNullX(sl, kind, xn) == /\ XOK(sl, <<xn>>) /\ XV(xn) >= 0 /\ kind \in {"ncmp", "ncasecmp"} /\ Qry(sl, kind \o "_with_ptr_null_x", <<xn>>, 1)
\* numbers beyond 32 bits are given as a sign and three decimal limbs hi, mi, lo < 10^9: +-((hi * 10^9 + mi) * 10^9 + lo)
Pad9(n) == LET d == DecDigits(n) IN [k \in 1 .. (9 - Len(d)) |-> 48] \o d
BigNumText(neg, hi, mi, lo) ==
    (IF neg /\ (hi > 0 \/ mi > 0 \/ lo > 0) THEN <<45>> ELSE <<>>)
    \o (IF hi > 0 THEN DecDigits(hi) \o Pad9(mi) \o Pad9(lo) ELSE IF mi > 0 THEN DecDigits(mi) \o Pad9(lo) ELSE DecDigits(lo))
LimbsOK(hi, mi, lo) == hi \in 0 .. 999999999 /\ mi \in 0 .. 999999999 /\ lo \in 0 .. 999999999
OpNewFromNumX(sl, re, neg, hi, mi, lo) == /\ sl \in Slots /\ LimbsOK(hi, mi, lo)
                                       /\ Ctor(sl, re, "_from_num_x", <<neg, hi, mi, lo>>, BigNumText(neg, hi, mi, lo))
OpSprintfDX(sl, neg, hi, mi, lo) == /\ Live(sl) /\ LimbsOK(hi, mi, lo) /\ Mut(sl, "sprintf_d_x", <<neg, hi, mi, lo>>, TRUE, BigNumText(neg, hi, mi, lo))

\* queries whose C-string argument is the receiver's own text from offset k (source inside the receiver)
Sfx(s, k) == SubSeq(s, k + 1, Len(s))
OpFindOwn(sl, k) == /\ Live(sl) /\ k \in 0 .. Len(Txt(sl)) /\ Qry(sl, "find_from_ptr_own", <<k>>, FindPos(Txt(sl), Sfx(Txt(sl), k)))
OpCmpOwn(sl, kind, k, n) == /\ Live(sl) /\ k \in 0 .. Len(Txt(sl)) /\ NOK(kind, n)
                            /\ Qry(sl, kind \o "_with_ptr_own", <<k>> \o KindArgs(kind, n), CmpKind(kind, Txt(sl), Sfx(Txt(sl), k), n))

CtorStep(sl, o, re, g) ==
    \/ o = "" /\ OpNew(sl, re)
    \/ o = "_from_ptr" /\ OpNewFromPtr(sl, re, g[1])
    \/ o = "_from_ptr_null" /\ OpNewFromPtrNull(sl, re)
    \/ o = "_from_buff" /\ OpNewFromBuff(sl, re, g[1], g[2])
    \/ o = "_from_buff_null" /\ OpNewFromBuffNull(sl, re, g[1])
    \/ o = "_from_num" /\ OpNewFromNum(sl, re, g[1])
    \/ o = "_from_fp" /\ OpNewFromFp(sl, re, g[1], g[2])
    \/ o = "_from_fd" /\ OpNewFromFd(sl, re, g[1], g[2])
    \/ o = "_from_fp_gen" /\ OpNewFromFpGen(sl, re, g[1], g[2], g[3])
    \/ o = "_from_fd_gen" /\ OpNewFromFdGen(sl, re, g[1], g[2], g[3])
    \/ o = "_from_buff_gen" /\ OpNewFromBuffGen(sl, re, g[1], g[2])
    \/ o = "_from_num_x" /\ OpNewFromNumX(sl, re, g[1], g[2], g[3], g[4])

TraceInit == Init /\ l = 1
TraceStep ==
    /\ l <= Len(Tr)
    /\ l' = l + 1
    /\ LET sl == ev.sl  o == ev.bop  g == ev.args IN
       \/ o = "reset" /\ a' = <<>> /\ al' = FALSE /\ b' = <<>> /\ bl' = FALSE
       \/ \E k \in {"", "_from_ptr", "_from_ptr_null", "_from_buff", "_from_buff_null", "_from_num", "_from_fp", "_from_fd",
                    "_from_fp_gen", "_from_fd_gen", "_from_buff_gen", "_from_num_x"} :
             \/ o = "new" \o k /\ CtorStep(sl, k, FALSE, g)
             \/ o = "re" \o k /\ CtorStep(sl, k, TRUE, g)
       \/ o = "done" /\ OpDone(sl)
       \/ o = "del" /\ OpDel(sl)
       \/ o = "dup" /\ OpDup(sl)
       \/ o = "append_from_ptr" /\ OpAppendPtr(sl, g[1])
       \/ o = "prepend_from_ptr" /\ OpPrependPtr(sl, g[1])
       \/ o = "append_char" /\ OpAppendChar(sl, g[1])
       \/ o = "prepend_char" /\ OpPrependChar(sl, g[1])
       \/ o = "append" /\ OpAppendObj(sl)
       \/ o = "prepend" /\ OpPrependObj(sl)
       \/ o = "append_self" /\ OpAppendSelf(sl)
       \/ o = "prepend_self" /\ OpPrependSelf(sl)
       \/ o = "splice_from_ptr" /\ OpSplicePtr(sl, g[1], g[2], g[3])
       \/ o = "splice_from_ptr_null" /\ OpSplicePtrNull(sl, g[1], g[2])
       \/ o = "splice" /\ OpSpliceObj(sl, g[1], g[2])
       \/ o = "splice_self" /\ OpSpliceSelf(sl, g[1], g[2])
       \/ o = "trim" /\ OpTrim(sl)
       \/ o = "reverse" /\ OpReverse(sl)
       \/ o = "upcase" /\ OpUpcase(sl)
       \/ o = "downcase" /\ OpDowncase(sl)
       \/ o = "clear" /\ OpClear(sl, g[1])
       \/ o = "sprintf_lit" /\ OpSprintfLit(sl, g[1])
       \/ o = "sprintf_s" /\ OpSprintfS(sl, g[1])
       \/ o = "sprintf_d" /\ OpSprintfD(sl, g[1])
       \/ o = "sprintf_s_gen" /\ OpSprintfSGen(sl, g[1])
       \/ o = "sprintf_d_x" /\ OpSprintfDX(sl, g[1], g[2], g[3], g[4])
       \/ o = "substr_x" /\ OpSubstrX(sl, g[1], g[2])
       \/ o = "substr_to_ptr_x" /\ OpSubstrToPtrX(sl, g[1], g[2])
       \/ o = "splice_from_ptr_x" /\ OpSplicePtrX(sl, g[1], g[2], g[3])
       \/ o = "splice_from_ptr_null_x" /\ OpSplicePtrNullX(sl, g[1], g[2])
       \/ o = "splice_x" /\ OpSpliceObjX(sl, g[1], g[2])
       \/ o = "splice_self_x" /\ OpSpliceSelfX(sl, g[1], g[2])
       \/ \E kind \in {"ncmp", "ncasecmp"} :
             \/ o = kind \o "_with_ptr_x" /\ OpCmpPtrX(sl, kind, g[1], g[2])
             \/ o = kind \o "_x" /\ OpCmpObjX(sl, kind, g[1])
             \/ o = kind \o "_self_x" /\ OpCmpSelfX(sl, kind, g[1])
             \/ o = kind \o "_with_ptr_null_x" /\ OpCmpPtrNullX(sl, kind, g[1])
       \/ o = "append_char_n" /\ OpAppendCharN(sl, g[1], g[2])
       \/ o = "prepend_char_n" /\ OpPrependCharN(sl, g[1], g[2])
       \/ o = "append_from_ptr_n" /\ OpAppendPtrN(sl, g[1], g[2])
       \/ o = "prepend_from_ptr_n" /\ OpPrependPtrN(sl, g[1], g[2])
       \/ o = "append_n" /\ OpAppendObjN(sl, g[1])
       \/ o = "prepend_n" /\ OpPrependObjN(sl, g[1])
       \/ o = "sprintf_sd" /\ OpSprintfSD(sl, g[1], g[2])
       \/ o = "len" /\ OpLen(sl)
       \/ o = "index" /\ OpIndex(sl, g[1])
       \/ o = "rindex" /\ OpRindex(sl, g[1])
       \/ o = "find_from_ptr" /\ OpFindPtr(sl, g[1])
       \/ o = "find" /\ OpFindObj(sl)
       \/ o = "find_self" /\ OpFindSelf(sl)
       \/ o = "substr" /\ OpSubstr(sl, g[1], g[2])
       \/ o = "substr_to_ptr" /\ OpSubstrToPtr(sl, g[1], g[2])
       \/ \E kind \in {"cmp", "casecmp"} :
             \/ o = kind \o "_with_ptr" /\ OpCmpPtr(sl, kind, g[1], 0)
             \/ o = kind /\ OpCmpObj(sl, kind, 0)
             \/ o = kind \o "_self" /\ OpCmpSelf(sl, kind, 0)
             \/ o = kind \o "_with_ptr_null" /\ OpCmpPtrNull(sl, kind, 0)
       \/ \E kind \in {"ncmp", "ncasecmp"} :
             \/ o = kind \o "_with_ptr" /\ OpCmpPtr(sl, kind, g[1], g[2])
             \/ o = kind /\ OpCmpObj(sl, kind, g[1])
             \/ o = kind \o "_self" /\ OpCmpSelf(sl, kind, g[1])
             \/ o = kind \o "_with_ptr_null" /\ OpCmpPtrNull(sl, kind, g[1])
       \/ o = "to_num" /\ (OpToNum(sl, g[1]) \/ OpToNumOver(sl, g[1]))
       \/ o = "find_from_ptr_own" /\ OpFindOwn(sl, g[1])
       \/ \E kind \in {"cmp", "casecmp"} : o = kind \o "_with_ptr_own" /\ OpCmpOwn(sl, kind, g[1], 0)
       \/ \E kind \in {"ncmp", "ncasecmp"} : o = kind \o "_with_ptr_own" /\ OpCmpOwn(sl, kind, g[1], g[2])
       \/ o = "to_float" /\ OpToFloat(sl)
TraceSpec == TraceInit /\ [][TraceStep]_<<vars, l>>
\* accepted iff every line was consumed: diameter counts the initial state plus one state per line
TraceAccepted == \/ TLCGet("stats").diameter - 1 = Len(Tr)
                 \/ PrintT(<<"TRACE_REJECTED_AFTER", TLCGet("stats").diameter - 1, "OF", Len(Tr)>>) /\ FALSE
================================================================================
