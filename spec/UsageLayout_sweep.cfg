SPECIFICATION Spec
CONSTANTS
  LongLens = {1, 2, 3, 4, 6, 7, 9, 16, 31, 70}
  DescLens = {0, 1, 2, 5, 6, 7, 8, 10, 33, 70}
  TypeBits = {64, 2049}
  MaxOpts = 1
  Names <- NamesThorough
  Obs <- ObsEmit
CHECK_DEADLOCK FALSE
