#!/usr/bin/env python3
"""usage: archive_seeds.py <ID> <outdir> <logprefix>   e.g. C01 /tmp/seed2-C01-out /tmp/st2-C01-
Copies <outdir>/<k>/{patch.diff,demo.c,meta.json} to /verif/seeded/<ID>-<n> (n continues the numbering) with the seedtest log."""
import json, os, shutil, sys, glob, re
ID, out, logp = sys.argv[1:4]
V = "/verif/seeded"
n = max([int(os.path.basename(d).split("-")[1]) for d in glob.glob(os.path.join(V, ID + "-*"))] + [0])
for kd in sorted(glob.glob(os.path.join(out, "[0-9]*")), key=lambda p: int(os.path.basename(p))):
    k = os.path.basename(kd)
    logf = "%s%s.txt" % (logp, k)
    if not os.path.exists(logf) or not os.path.exists(os.path.join(kd, "patch.diff")):
        continue
    t = open(logf).read()
    n += 1
    dst = os.path.join(V, "%s-%d" % (ID, n))
    os.makedirs(dst, exist_ok=True)
    for fn in ("patch.diff", "demo.c"):
        shutil.copy(os.path.join(kd, fn), dst)
    m = json.load(open(os.path.join(kd, "meta.json")))
    det = "exit=1" in t
    ok = "demo exit (unmodified) = 0" in t and "0 missing/failed" in t and re.search(r"demo exit \(patched\) = (?!0\b)", t)
    m["round"] = 2 if "seed2" in out else 1
    m["confirmed_by_coordinator"] = {
        "what_ran": "tools/seedtest.sh %s <dir> (scratch copy of /repo at the then-current HEAD: demo exit 0 unmodified; with the patch the 119-test baseline passes and the demo fails; ./vcheck %s quick against the patched copy)" % (ID, ID),
        "confirmed": bool(ok),
        "log": [l for l in t.splitlines() if not l.startswith("VIOLATION")],
        "result_first_run": "DETECTED" if det else "MISSED",
        "first_violation": next((l[:300] for l in t.splitlines() if l.startswith("VIOLATION")), None)}
    json.dump(m, open(os.path.join(dst, "meta.json"), "w"), indent=1)
    print(os.path.basename(dst), "DETECTED" if det else "MISSED", "" if ok else "(NOT CONFIRMED: %s)" % [l for l in t.splitlines() if "demo exit" in l or "baseline" in l])
