#!/usr/bin/env python3
"""Regenerates the seeded-changes table of DESIGN.md (between the SEEDED-TABLE markers) from seeded/*/meta.json."""
import json, glob, os, re
V = os.path.dirname(os.path.dirname(os.path.abspath(__file__)))
rows = []
for d in sorted(glob.glob(os.path.join(V, "seeded", "*")), key=lambda p: (os.path.basename(p).split("-")[0], int(os.path.basename(p).split("-")[1]))):
    m = json.load(open(os.path.join(d, "meta.json")))
    c = m.get("confirmed_by_coordinator", {})
    sid = os.path.basename(d)
    summ = re.sub(r"\s+", " ", str(m.get("summary", ""))).replace("|", "/")[:170]
    first = c.get("result_first_run") or c.get("result", "")
    after = c.get("result_after_strengthening", "")
    fv = c.get("first_violation") or ""
    mk = re.search(r"key='([^']*)'", fv)
    how = (mk.group(1)[:90] if mk else "")
    res = "detected" if first.startswith("DETECTED") else ("missed, detected after strengthening" if after.startswith("DETECTED") else "MISSED")
    rows.append("| %s | %s | %s | %s |" % (sid, summ, res, (how or re.sub(r"^DETECTED ", "", after)[:110]).replace("|", "/")))
tbl = "| id | change | result | caught as (first finding key) |\n|----|--------|--------|------------------------------|\n" + "\n".join(rows)
n = len(rows)
det = sum(1 for r in rows if "| detected |" in r)
late = sum(1 for r in rows if "missed, detected after" in r)
txt = "%d seeded changes so far: %d detected by the check as it stood when the change arrived, %d missed at first and detected after the strengthening described above, %d still missed.\n\n%s\n" % (n, det, late, n - det - late, tbl)
p = os.path.join(V, "DESIGN.md")
s = open(p).read()
a, b = "<!-- SEEDED-TABLE-BEGIN -->", "<!-- SEEDED-TABLE-END -->"
if a in s:
    s = s[:s.index(a) + len(a)] + "\n" + txt + s[s.index(b):]
    open(p, "w").write(s)
print(txt[:300])
