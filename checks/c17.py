"""C17: version comparison is a safe, deterministic, antisymmetric order (spec/VerCmp.tla)."""
import os, json, random
from vlib import build, x_c12
from vlib.core import tok, Broken, log

PROPERTY = "C17"
LEVEL = "model_checking"
LEVEL_TEXT = ("TLC evaluates the run-by-run reference comparison of VerCmp.tla on ALL ordered pairs of a raw universe (every concatenation of "
              "up to 3 symbols from digits, letters, '.', '-' and the words pre, rc, snap, alpha, beta) and of a universe of generated "
              "well-formed versions (1-3 dot-separated numbers incl. a 10-digit one, optional word, optional number), checks reflexivity, "
              "antisymmetry and the stated ordering clauses on the reference, and emits the full table. Every ordered pair is executed on the "
              "real spiftool_version_compare (ASan build, exact-size heap arguments): twice with the stack pre-filled with 0xAA / 0x55 and once "
              "in the other direction; results must be equal, negations of each other and equal to the table. A family of pairs with runs of "
              "126..130 and 1000 characters of each class and seeded random pairs is evaluated by the same TLC operators and replayed the same way. "
              "Every row and pair is executed at each run-time debug level of the specification's DebugLevels (0, 1, 3, 5); the file family "
              "holds every byte value 1..255 as separator / distinguishing character.")
LEVEL_NOTE = ("Exhaustive only over those bounded universes. A value is claimed only when no run exceeds 127 characters (longer runs: memory "
              "safety, determinism, antisymmetry and reflexivity only) and not when the longer text continues with a word that merely begins with "
              "snap/pre/alpha/beta (either outcome accepted). The result of the mixed-class case is fixed as the comparison of the remaining texts "
              "(DESIGN.md 6 C17, IDEAL). Transitivity is not claimed (TLC reports a counterexample of the reference as information). Memory safety = "
              "no ASan report on what was executed. Trusted: TLC, ASan, harness/vercmp_replay.c.")
TECHNIQUE = "TLA+ reference comparison + TLC exhaustive pair table replayed on the implementation under differently poisoned stacks"
DESIGN_REF = "DESIGN.md section 6 C17"

UNCLAIMED = (0, 9)      # X: a run longer than MaxClaimedRun; E: the tail word merely begins with a pre-release word
RULES = {0: "unclaimed-long-run", 1: "equal", 2: "word-rank", 3: "word-text", 4: "number", 5: "punct", 6: "mixed-class",
         7: "tail-prerelease", 8: "tail-other", 9: "tail-either"}
DIGIT = {0: "less", 1: "equal", 2: "greater", 5: "nondeterministic", 6: "not-antisymmetric", 7: "nondeterministic+not-antisymmetric",
         8: "compare(a,a)!=equal", 9: "value-outside-{-1,0,1}"}


def harness(ctx):
    libdir, cflags = build.build_lib(ctx.repo)
    return build.build_harness("vercmp_replay", ["vercmp_replay.c"], libdir, cflags)


def txt(codes):
    s = "".join(chr(c) for c in codes)
    return s if len(s) <= 48 else "%s..(%d chars)" % (s[:40], len(s))


LEVELS = [0]      # DebugLevels of the specification, taken from the first emitted row


def pair_case(sid, a, b, code, levels=None):
    """one ordered pair, one step per run-time debug level"""
    exp = "*" if code // 10 in UNCLAIMED else str(code % 10)
    return x_c12.Case(sid, [("pair", [tok(a), tok(b), str(L)], exp, None) for L in (levels or LEVELS)],
                      {"a": txt(a), "b": txt(b), "rule": RULES[code // 10], "code": code, "levels": list(levels or LEVELS)})


def pair_key(c, at, f):
    return "vercmp%s [%s] %s" % (lvl_tag(c.meta["levels"][at]), c.meta["rule"], x_c12.fail_class(f) if f.kind != "ret" else "ret/" + verdict(f.exp, f.got))


def lvl_tag(level):
    return "" if not level else "@debug-level>0"


def verdict(exp, got):
    try:
        g = int(got)
    except ValueError:
        return "value"
    if g >= 5:
        return DIGIT.get(g, "value")
    return "exp=%s,got=%s" % (DIGIT.get(int(exp), exp) if exp.isdigit() else exp, DIGIT.get(g, got))


def report_digit(ctx, a, b, code, got, origin, level=0):
    """one ordered pair whose digit is wrong"""
    rule = RULES[code // 10]
    exp = "*" if code // 10 in UNCLAIMED else str(code % 10)
    key = "vercmp%s [%s] ret/%s" % (lvl_tag(level), rule, verdict(exp, str(got)))
    c = pair_case(1, a, b, code, levels=[level])
    ctx.report(key, "version_compare(%r, %r): %s (expected %s by rule %s) [%s, debug level %d]" % (
        txt(a), txt(b), DIGIT.get(got, got), DIGIT.get(code % 10) if code // 10 not in UNCLAIMED else "any value, but deterministic and antisymmetric", rule, origin, level),
        {"harness_args": ["-"], "script_text": c.text(), "meta": c.meta})


def table(ctx, exe, mode, rows):
    """rows: {i: (text, codes)} complete for 1..n.  Runs every row, compares digit by digit."""
    n = len(rows)
    if sorted(rows) != list(range(1, n + 1)) or any(len(rows[i][1]) != n for i in rows):
        raise Broken("incomplete %s table from TLC (%d rows)" % (mode, n))
    ufile = os.path.join(ctx.rundir, "universe-%s.txt" % mode)
    with open(ufile, "w") as f:
        for i in range(1, n + 1):
            f.write(tok(rows[i][0]) + "\n")
    cases = [x_c12.Case(i, [("row", [str(i), str(L)], "?", None) for L in LEVELS], {"mode": mode, "row": i}) for i in range(1, n + 1)]
    got = {}
    crashed = []

    def recorder(c, at, ret):
        got[(c.sid, at)] = ret

    def on_fail(c, at, f):
        if c.sid not in [s for s, _ in crashed]:
            crashed.append((c.sid, f))
        return True
    x_c12.run_cases(ctx, exe, [ufile], cases, lambda c, at, f: "vercmp row %s" % x_c12.fail_class(f), "table_" + mode,
                    recorder=recorder, on_fail=on_fail, chunk=100000)
    bad = 0
    npairs = 0
    for i in range(1, n + 1):
        for at, level in enumerate(LEVELS):
            r = got.get((i, at))
            if r is None:
                continue
            if len(r) != n + 1 or r[0] != "r":
                raise Broken("malformed row answer %r" % r[:40])
            codes = rows[i][1]
            npairs += n
            for j in range(n):
                g = ord(r[j + 1]) - 48
                code = codes[j]
                if g >= 5 or (code // 10 not in UNCLAIMED and g != code % 10):
                    bad += 1
                    report_digit(ctx, rows[i][0], rows[j + 1][0], code, g, "%s table row %d col %d" % (mode, i, j + 1), level)
    # rows that died (sanitizer report, hang): localise by running their pairs one by one
    loc = 0
    for sid, f in crashed[:40]:
        pcs = [pair_case(j, rows[sid][0], rows[j][0], rows[sid][1][j - 1]) for j in range(1, n + 1)]
        x_c12.run_cases(ctx, exe, ["-"], pcs, pair_key, "localise_%s_row%d" % (mode, sid))
        rp = ctx.cov["replay"].pop("localise_%s_row%d" % (mode, sid))
        loc += rp["scripts"]
        npairs += rp["scripts"]
        ctx.cov["traces_validated_against_impl"] -= rp["scripts"]      # counted as pairs below, not as scripts of their own
    if len(crashed) > 40:
        ctx.notes.append("%d further rows of the %s table died and were not localised pair by pair" % (len(crashed) - 40, mode))
    ctx.cov.setdefault("tables", {})[mode] = {"texts": n, "ordered_pairs_executed": npairs, "calls": 3 * npairs, "debug_levels": list(LEVELS), "rows_died": len(crashed),
                                                "pairs_localised": loc, "pairs_wrong": bad}
    return npairs


def long_family(rnd, nrandom):
    """pairs with long runs of each class + seeded random pairs"""
    P = []
    A = lambda s: [ord(c) for c in s]
    for ch in ("x", "7", "."):
        for L in (126, 127, 128, 129, 130, 1000):
            run = ch * L
            other = {"x": "1", "7": "a", ".": "1"}[ch]
            P += [(run, run), (run, run + ch), (run, ch * (L - 1) + ("y" if ch == "x" else "8" if ch == "7" else "-")),
                  ("1." + run, "1." + run + other), (run + other, run + other + other), (run, other), ("1" + run if ch != "7" else "a" + run, run),
                  (run + ".1", run + ".2"), (run, ch * (L // 2))]
    P += [("x" * 127 + "snap", "x" * 127 + "pre"), ("1." + "0" * 200 + "1", "1.1"), ("9" + "0" * 128, "1" * 130), ("pre" * 60, "pre" * 60 + "1")]
    # every byte value 1..255: as a separator between two numbers against '.' and '-', against the next separator byte, doubled,
    # and (letters, digits) as the distinguishing character of a suffix word / a number
    others = [b for b in range(1, 256) if not chr(b).isalnum() or b > 127]
    for k, b in enumerate(others):
        c, c2 = chr(b), chr(others[(k + 1) % len(others)])
        P += [("1" + c + "2", "1.2"), ("1" + c + "2", "1-2"), ("1" + c + "2", "1" + c2 + "2"), ("1" + c + c, "1" + c), ("1.0" + c + "pre", "1.0pre")]
    for b in range(1, 128):
        if chr(b).isalnum():
            P += [("1.0" + chr(b) + "1", "1.0pre1"), ("1.0" + chr(b), "1.0"), ("1." + chr(b), "1.5"), ("1.0rc" + chr(b), "1.0rc")]
    syms = ["1", "2", "0", "10", "4294967297", "a", "b", "Z", ".", "-", "_", "pre", "rc", "snap", "alpha", "beta", "PRE", "Rc", "prefix", "snapshot"]
    for _ in range(nrandom):
        a = "".join(rnd.choice(syms) for _ in range(rnd.randint(0, 8)))
        if rnd.random() < 0.5:
            cut = rnd.randint(0, len(a))
            b = a[:cut] + "".join(rnd.choice(syms) for _ in range(rnd.randint(0, 4)))
        else:
            b = "".join(rnd.choice(syms) for _ in range(rnd.randint(0, 8)))
        P.append((a, b))
    return [(A(a), A(b)) for a, b in P]


def run(ctx):
    exe = harness(ctx)
    cfg = "VerCmp_quick.cfg" if ctx.tier == "quick" else "VerCmp_thorough.cfg"
    cfg = os.environ.get("VERIF_C17_CFG", cfg)      # development knob (smaller scope); not used by the registered commands
    rows = {"raw": {}, "wf": {}}
    info = []
    count = {"EvalRawRow": 0, "EvalWfRow": 0, "EvalTransitivityInfo": 0}
    rulecount = {}

    def on_case(r):
        if r["op"] == "info":
            count["EvalTransitivityInfo"] += 1
            info.append(r)
            return
        mode, i, text = r["args"]
        LEVELS[:] = [int(x) for x in r["lv"]]
        count["EvalRawRow" if mode == "raw" else "EvalWfRow"] += 1
        rows[mode][i] = (text, r["r"])
        for c in r["r"]:
            rulecount[c // 10] = rulecount.get(c // 10, 0) + 1
    res = x_c12.tlc_cases(ctx, "MC_VerCmp.tla", cfg, list(count), on_case, coverage=False, taken=lambda: count)
    if not res.ok:
        return
    for r in info:
        kind, n, bad = r["args"]
        ctx.cov["transitivity_information"] = {"texts": n, "non_transitive_triples": bad, "witness_a<b<c_but_not_a<c": [txt(t) for t in r["r"]],
                                               "note": "not part of the property; no verdict depends on it"}
    total = 0
    for mode in ("raw", "wf"):
        total += table(ctx, exe, mode, rows[mode])
    for mode in ("raw", "wf"):
        R = rows[mode]
        for i in (2, len(R) // 3, len(R) - 1):
            j = (i * 7) % len(R) + 1
            c = R[i][1][j - 1]
            ctx.sample({"universe": mode, "a": txt(R[i][0]), "b": txt(R[j][0]), "expected": DIGIT[c % 10] if c // 10 not in UNCLAIMED else "(not claimed)", "rule": RULES[c // 10]})
    # long runs and random pairs: TLC evaluates the same operators on the pairs of a file
    rnd = random.Random(ctx.seed)
    pairs = long_family(rnd, 300 if ctx.tier == "quick" else 3000)
    pfile = os.path.join(ctx.rundir, "pairs.ndjson")
    with open(pfile, "w") as f:
        for a, b in pairs:
            f.write(json.dumps({"a": a, "b": b}, separators=(",", ":")) + "\n")
    codes = {}
    nfile = [0]

    def on_pair(r):
        nfile[0] += 1
        codes[r["args"][0]] = r["r"]
    res2 = x_c12.tlc_cases(ctx, "VerCmpFile.tla", "VerCmpFile.cfg", ["EvalFilePair"], on_pair, coverage=False,
                           taken=lambda: {"EvalFilePair": nfile[0]}, env={"PAIRS": pfile})
    if res2.ok:
        if sorted(codes) != list(range(1, len(pairs) + 1)):
            raise Broken("TLC evaluated %d of %d file pairs" % (len(codes), len(pairs)))
        pcs = [pair_case(k + 1, a, b, codes[k + 1]) for k, (a, b) in enumerate(pairs)]
        ns, nt, nf = x_c12.run_cases(ctx, exe, ["-"], pcs, pair_key, "long_runs_and_random_pairs")
        total += ns
        ctx.cov["long_runs_and_random_pairs"] = {"pairs": len(pairs), "value_claimed": sum(1 for k in codes if codes[k] // 10 not in UNCLAIMED), "max_len": max(max(len(a), len(b)) for a, b in pairs)}
        k = max(range(len(pairs)), key=lambda k: len(pairs[k][0]))
        ctx.sample({"universe": "long runs", "a": txt(pairs[k][0]), "b": txt(pairs[k][1]), "rule": RULES[codes[k + 1] // 10]})
        for c in codes.values():
            rulecount[c // 10] = rulecount.get(c // 10, 0) + 1
    ctx.cov["pairs_by_deciding_rule"] = {RULES[k]: v for k, v in sorted(rulecount.items())}
    missing = [RULES[k] for k in range(0, 10) if not rulecount.get(k)]
    if missing:
        raise Broken("vacuity: deciding rules never exercised: %s" % missing)
    ctx.add("ordered_pairs_executed", total)
    ctx.cov["evaluations"] = 3 * total        # calls of spiftool_version_compare
    ctx.add("distinct_nontrivial", sum(v for k, v in rulecount.items() if k != 1))
    ctx.cov["exhaustive"] = True
    ctx.cov["rule"] = ("every ordered pair of the two bounded universes (and of the long-run / random family) is evaluated by TLC and executed on the "
                       "implementation three times (two stack fill patterns, and reversed); a pair is non-trivial when the reference does not decide "
                       "it by 'all runs equal' (pairs are distinct by construction)")
    ctx.assumptions += ["ASan build of the current tree (clang -O1)", "C locale"]


def replay(ctx, path):
    return x_c12.replay_file(harness(ctx), ["-"], path, ctx.rundir)
