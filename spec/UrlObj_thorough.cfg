SPECIFICATION Spec
CONSTANTS
  Parts <- PartsThorough
  Texts <- ShapeTexts
  Lookups <- LookupsThorough
  WithBuild = TRUE
  Obs <- ObsEmit
INVARIANTS TypeOK UnparsedIsFixpoint
CHECK_DEADLOCK FALSE
