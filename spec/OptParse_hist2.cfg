SPECIFICATION Spec
CONSTANTS
  Tables <- MCTables
  TokText <- MCTokText
  TokSets <- TokHistQ
  MaxArgs = 3
  Flags0 <- MCFlags0
  Int0 <- MCInt0
  TableSet <- TS12
  Histories <- Hist3
  Argvs <- ArgvsBounded
  Emit <- EmitJson
INVARIANTS TypeOK ReadingIsFunction RankBounded ForeignBitsKept PrePassOnlyPre NoPrePassNoPre IntFromLine NonOptionsUntouchedInOrder ArgvCompacted CompactPrefix ArgvShrunk
PROPERTIES Terminates BoolTouchesOnlyMask OtherPassUntouched ArgvOnlyShrinks
CHECK_DEADLOCK FALSE
