"""C02: every list implementation is the same abstract sequence (ListSeq.tla)."""
import re, json
from vlib import build, objcheck
from vlib.core import tok

PROPERTY = "C02"
LEVEL = "model_checking"
LEVEL_TEXT = ("TLC explores ListSeq.tla exhaustively in a small scope (all histories over 2-3 element values, length <= 3-4, "
              "indices -7..7, a live copy and an iterator) checking the reference laws; EVERY transition TLC generates is then executed "
              "on each of the three list classes (ASan build of the current tree) with state, return value and link/allocation "
              "invariants compared after every step, plus random walks and TLC trace validation of long recorded histories "
              "(lists of several hundred elements).  All of it is repeated with elements and lookup probes of two different comparison-compatible "
              "classes (url elements / str probes and the reverse); the iterator is also copied (iter_dup) and its position is observed after "
              "every step by draining a throw-away copy; the quick scope is replayed once more with the run-time debug level at 5.")
LEVEL_NOTE = ("Bounded scope for the exhaustive part; beyond it sampled histories only. Trusted: TLC, the harness projection "
              "(harness/list_replay.c), ASan. Elements are spif_str or spif_url objects.")
TECHNIQUE = "TLA+ spec + TLC exhaustive transition cover replayed on the implementation + TLC trace validation"
DESIGN_REF = "DESIGN.md section 6 C02"
CLASSES = ["array", "linked_list", "dlinked_list"]
INIT = {"a": [], "b": {"live": False, "s": []}, "it": -1}
MIXED = ["url-elems", "url-keys"]
LEVELS = [5]          # run-time debug levels the quick scope is replayed at besides 0 (the build is DEBUG=4: 5 enables everything)


def argclass(e):
    """Coarse but specific description of where in the argument/state space an edge lies."""
    op = e["op"]
    slot = "b" if op.startswith("b_") else "a"
    s = e["pre"]["b"]["s"] if slot == "b" else e["pre"]["a"]
    n = len(s)
    parts = ["len=0" if n == 0 else ("len=1" if n == 1 else "len>1")]
    if 0 in s:
        parts.append("placeholders")
    if op in ("insert_at", "remove_at", "get", "b_remove_at"):
        i = e["args"][-1]
        k = i + n if i < 0 else i
        if k < 0:
            r = "idx<0"
        elif k == 0:
            r = "idx=0"
        elif k == n - 1:
            r = "idx=len-1"
        elif k == n:
            r = "idx=len"
        elif k > n:
            r = "idx>len"
        else:
            r = "mid-upper" if k > n // 2 else "mid-lower"
        parts.append(("neg:" if i < 0 else "") + r)
    if op in ("remove", "index", "find", "contains"):
        v = e["args"][0]
        parts.append("absent" if v not in s else ("first" if s[0] == v else ("last" if s[-1] == v and s.index(v) == n - 1 else "inner")))
    return ",".join(parts)


def keyfn(variant, e, f):
    d = ""
    if f.kind == "inv":
        d = re.sub(r"\d+", "N", f.got)
    elif f.kind in ("crash", "hang", "exit"):
        d = f.sig
    op = e["op"] if e else f.op
    return "%s.%s [%s] %s%s" % (variant, op, argclass(e) if e else "-", f.kind, ("/" + d) if d else "")


def harness(ctx):
    libdir, cflags = build.build_lib(ctx.repo)
    return build.build_harness("list_replay", ["list_replay.c"], libdir, cflags)


def gen_history(rnd, nops, big):
    """A random program over the list API (arguments chosen with a rough mirror of the length only to make them
    interesting; the mirror is NOT the oracle - TLC evaluating ListSeqTrace is)."""
    n = 0          # mirror of len(a)
    nb = -1        # mirror of len(b), -1 = no copy
    it = False
    lines = []
    for _ in range(nops):
        r = rnd.random()
        e = rnd.randint(1, 9)
        idxs = [0, 1, -1, n, n - 1, n + 1, -n, -n - 1, -n + 1, n // 2, n // 2 + 1, n // 2 - 1, -(n // 2), rnd.randint(-n - 3, n + 3)]
        i = rnd.choice(idxs)
        if it:
            c = rnd.choice(["iter_next", "iter_next", "iter_has_next", "iter_del", "iter_dup", "get %d" % i, "count", "index %d" % e])
            if c == "iter_del":
                it = False
            lines.append(c)
            continue
        if r < 0.30:
            c = rnd.choice(["append %d" % e, "prepend %d" % e, "insert_at %d %d" % (e, i), "insert_at %d %d" % (e, i)])
            if c.startswith("insert_at"):
                k = i + n if i < 0 else i
                if k >= 0:
                    n = max(n, k) + 1
            else:
                n += 1
        elif r < 0.36 and big and n < 250:
            k = n + rnd.randint(2, 60)
            c = "insert_at %d %d" % (e, k)
            n = k + 1
        elif r < 0.50:
            c = rnd.choice(["remove %d" % e, "remove_at %d" % i])
            n = max(0, n - 1)      # rough
        elif r < 0.56:
            c = "reverse"
        elif r < 0.58:
            c = "done"
            n = 0
        elif r < 0.80:
            c = rnd.choice(["get %d" % i, "index %d" % e, "find %d" % e, "contains %d" % e, "count", "to_array"])
        elif r < 0.84:
            c = "iter_new"
            it = True
        elif r < 0.90:
            if nb < 0:
                c = "dup"
                nb = n
            else:
                c = rnd.choice(["b_del", "adopt", "b_reverse", "b_append %d" % e, "b_remove_at %d" % rnd.choice([0, -1, nb // 2])])
                if c == "b_del":
                    nb = -1
                elif c == "adopt":
                    n, nb = nb, -1
        else:
            c = "count"
        lines.append(c)
    return lines


def size_sweep_histories():
    """Deterministic size-sweep family (direction B): every threshold T in 8..1024 is crossed by the length of the list
    (n = T-1, T, T+1) through prepend/append/remove at both ends, a past-the-end insert_at whose gap exceeds 512 placeholders
    on a NON-EMPTY list, reverse, dup and done - fast paths that only switch on at a size are invisible to the small
    exhaustive scope; TLC judges every recorded step of these executions with the same ListSeq actions."""
    hs = []
    for T in (8, 16, 32, 64, 128, 256, 512, 1024):
        h = ["append 1", "insert_at 2 %d" % (T - 2),            # len T-1: [1, NULL..., 2]
             "count", "get 0", "get -1", "get %d" % (T // 2),
             "prepend 3", "count", "prepend 4", "append 5",      # T, T+1, T+2
             "remove_at 0", "remove_at -1", "remove_at 0",       # back to T-1
             "prepend 6", "prepend 7",                           # T, T+1 again through prepend
             "index 2", "find 5", "contains 2",
             "insert_at 8 %d" % (T + 1 + 513),                   # gap of 513 placeholders behind a non-empty list
             "count", "get %d" % (T + 5), "get -1", "get %d" % (T + 1 + 513),
             "reverse", "get 0", "get -1",
             "dup", "b_append 9", "b_remove_at 0", "b_reverse", "b_del",
             "remove 8", "remove_at %d" % (T // 2), "to_array", "done", "count", "append 1", "prepend 2"]
        hs.append(h)
    return hs


def trace_validation(ctx, exe):
    """Direction (B): long random histories (lists of up to ~300 elements) recorded on each class, validated by TLC."""
    import random
    from vlib import trace
    from vlib.replay import run_scripts
    from vlib.core import untok
    rnd = random.Random(ctx.seed)
    nexec, nops = (12, 120) if ctx.tier == "quick" else (120, 300)
    hist = [gen_history(rnd, nops, big=(k % 2 == 0)) for k in range(nexec)] + size_sweep_histories()
    nexec = len(hist)
    texts = ["S %d\n%s\nE\n" % (k + 1, "\n".join("%s = ? ?" % c for c in h)) for k, h in enumerate(hist)]
    total = 0
    per = {}          # variant -> (events, index)
    for cls in CLASSES + [c + ":" + m for c in CLASSES for m in MIXED]:
        fails, recs, ns, nt = run_scripts(exe, [cls], texts, ctx.rundir, jobs=4, tag="rec-" + cls)
        bad_sids = set()
        for f in fails:
            bad_sids.add(f.sid)
            ctx.report("trace %s" % keyfn_free(cls, f), "%s: recorded run failed before validation: %r" % (cls, f),
                       {"variant": cls, "harness_args": [cls], "script_text": texts[f.sid - 1], "failure": repr(f), "detail": f.detail})
        by = {}
        for sid, step, ret, state in recs:
            by.setdefault(sid, []).append((step, ret, state))
        events = []
        index = []
        for sid in sorted(by):
            if sid in bad_sids:
                continue
            events.append({"op": "reset", "args": [], "ret": True, "post": INIT})
            index.append((sid, -1))
            for step, ret, state in sorted(by[sid]):
                w = hist[sid - 1][step].split()
                events.append({"op": w[0], "args": [int(x) for x in w[1:]], "ret": untok(ret), "post": untok(state)})
                index.append((sid, step))
        if events:
            per[cls] = (events, index)

    def judge(cls, events, index):
        ok, pos, path = trace.validate(ctx, "ListSeqTrace.tla", "ListSeqTrace.cfg", events, tag=re.sub(r"\W", "_", cls))
        if not ok:
            sid, step = index[pos] if pos < len(index) else (None, None)
            evb = events[pos] if pos < len(events) else None
            ctx.report("trace-rejected %s.%s" % (cls, evb["op"] if evb else "?"),
                       "%s: TLC rejects the recorded execution at event %d (%s); last accepted state %s" % (
                           cls, pos, json.dumps(evb)[:300], json.dumps(events[pos - 1]["post"])[:200] if pos else "init"),
                       {"variant": cls, "harness_args": [cls], "script_text": texts[sid - 1] if sid else "", "event": evb, "event_index": pos})
        else:
            ctx.sample({"variant": cls, "trace_events": len(events), "max_len_seen": max(len(e["post"]["a"]) for e in events),
                        "first_events": [json.dumps(e)[:120] for e in events[1:4]]})
        return ok, pos

    # one TLC run over the executions of all variants (every execution starts with a reset event); only when that is
    # rejected each variant is judged on its own, so that a rejection in one does not leave the others unexamined
    allev = [e for cls in per for e in per[cls][0]]
    if allev:
        ok, pos, path = trace.validate(ctx, "ListSeqTrace.tla", "ListSeqTrace.cfg", allev, tag="all")
        if ok:
            total = len(allev)
            for cls in per:
                ctx.sample({"variant": cls, "trace_events": len(per[cls][0]), "max_len_seen": max(len(e["post"]["a"]) for e in per[cls][0])})
        else:
            for cls in per:
                total += judge(cls, *per[cls])[1]
    ctx.add("trace_events_validated", total)
    ctx.add("traces_validated_against_impl", nexec * len(CLASSES) * (1 + len(MIXED)))


def keyfn_free(variant, f):
    d = re.sub(r"\d+", "N", f.got) if f.kind == "inv" else f.sig
    return "%s.%s %s%s" % (variant, f.op, f.kind, ("/" + d) if d else "")


def run(ctx):
    exe = harness(ctx)
    cfg = "ListSeq_quick.cfg" if ctx.tier == "quick" else "ListSeq_thorough.cfg"
    g, res = objcheck.tlc_graph(ctx, "MC_ListSeq.tla", cfg)
    walks = (300, 40) if ctx.tier == "quick" else (5000, 60)
    # the mixed-class variants replay the quick scope in both tiers (the thorough scope is replayed on plain str elements)
    gm = g if ctx.tier == "quick" else objcheck.tlc_graph(ctx, "MC_ListSeq.tla", "ListSeq_quick.cfg")[0]
    for cls in CLASSES:
        objcheck.replay_cover(ctx, g, [tok(INIT)], exe, cls, [cls], keyfn, walks=walks,
                              pairs=(40000 if ctx.tier == "quick" else 600000))
        # the same transitions with elements and probes of two DIFFERENT comparison-compatible classes (a url is a str and
        # compares by its text): stored urls looked up with plain strs, and the other way round
        for mix in MIXED:
            objcheck.replay_cover(ctx, gm, [tok(INIT)], exe, cls + "/" + mix, [cls + ":" + mix], keyfn,
                                  walks=(walks[0] // 4, walks[1]), pairs=(10000 if ctx.tier == "quick" else 100000))
        # ... and with the library's run-time debug level raised: trace statements must not change what a list does
        for lv in LEVELS:
            objcheck.replay_cover(ctx, gm, [tok(INIT)], exe, "%s/level=%d" % (cls, lv), ["%s:level=%d" % (cls, lv)], keyfn,
                                  walks=(walks[0] // 4, walks[1]), pairs=(10000 if ctx.tier == "quick" else 100000))
    trace_validation(ctx, exe)
    ctx.cov["exhaustive"] = True
    ctx.cov["rule"] = ("every transition TLC generates for ListSeq in the bounded scope is executed once per class as the last step of a "
                       "script whose prefix consists of already verified transitions; state, return value and representation "
                       "invariants are compared after every step; plus random walks over verified transitions")
    ctx.assumptions += ["elements are spif_str objects, or spif_url objects searched with spif_str probes and vice versa; equality is by text",
                        "ASan build of the current tree (clang -O1)"]


def replay(ctx, path):
    return objcheck.replay_file(harness(ctx), [], path, ctx.rundir)
