/* X05: source of the tiny shared objects the check builds at run time (checks/x05.py, one .so per variant):
 *     -DMOD_ID=<n>  [-DHAS_INIT -DINIT_RET=0|1]  [-DHAS_RUN]  [-DHAS_DONE -DDONE_RET=0|1]
 * Catalogue (spec/ModuleLife.tla): 1 full, 2 noinit, 3 initfail, 4 bare, 5 veto.
 * Every function records its invocation twice: in the library's own counter block x05_counts (readable through
 * spif_module_getsym; it starts from zero whenever the library is really mapped anew) and in the harness
 * (x05_record, exported by harness/module_replay.c; survives dlclose). */
#include <stddef.h>
extern void x05_record(int mod, int fn, void *arg);
struct x05_counts { int id, init, run, done; void *last; } x05_counts = { MOD_ID, 0, 0, 0, 0 };
#ifdef HAS_INIT
void *init(void *self) { x05_counts.init++; x05_counts.last = self; x05_record(MOD_ID, 0, self); return (void *) (long) INIT_RET; }
#endif
#ifdef HAS_RUN
void *run(void *data) { x05_counts.run++; x05_counts.last = data; x05_record(MOD_ID, 1, data); return (void *) 1L; }
#endif
#ifdef HAS_DONE
void *done(void) { x05_counts.done++; x05_record(MOD_ID, 2, NULL); return (void *) (long) DONE_RET; }
#endif
void *echo(void *data) { x05_record(MOD_ID, 3, data); return data; }
