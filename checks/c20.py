"""C20: debug output and assertions are gated exactly by compile-time and runtime levels (DebugGate.tla)."""
import os, re, json, random, subprocess
from collections import deque
from vlib import build, objcheck
from vlib.core import tok, Broken, log

PROPERTY = "C20"
LEVEL = "exploration"
LEVEL_TEXT = ("Exhaustive over a finite matrix: TLC enumerates DebugGate.tla (compile-time DEBUG 0..5 x runtime level 0..6 x silent x 24 "
              "statements of the D_*/DPRINTFn/ASSERT/REQUIRE/printer family), checks the laws of the stated rule and emits the allowed "
              "outcome (stream output class, argument evaluations, control) of every cell; a probe translation unit with one function "
              "per statement is compiled against the current headers once per DEBUG value and linked with the current msgs.c/debug.c "
              "built the same way; every cell runs in a forked child with fd 2 captured, along a walk that also takes every "
              "set-level / set-silent transition of the specification; a second walk takes every PAIR of consecutive set transitions "
              "(self-loops included) in one process, each followed by statements gated by the flag or a level; five histories per "
              "statement (clean, after a failed write, inside an atexit handler of a fatal error, after refused prints, after the same "
              "statement).")
LEVEL_NOTE = ("Message lengths are swept (7..20481 bytes) in the all-live configuration of every build only. The matrix is finite and fully enumerated; the claim is about these 24 statements (not DPRINTF7-9, ASSERT_NOTREACHED, "
              "ABORT, MOO). Where the statement is silent (are the arguments of a live but silenced D_* statement evaluated?) both "
              "outcomes are accepted. Trusted: TLC, harness/dbg_probe.c, clang.")
TECHNIQUE = "TLA+ spec + TLC enumeration of the configuration matrix + execution of every cell on probe builds"
DESIGN_REF = "DESIGN.md section 6 C20"


def cell_class(d, r, s, m):
    """Coarse class of a cell for finding keys (the exact cell is in the replay file)."""
    lv = {"D_OPTIONS": 1, "D_OBJ": 2, "D_CONF": 3, "D_MEM": 5, "D_STRINGS": 9999, "D_PARSE": 9999}
    if m in lv or m.startswith("DPRINTF"):
        L = lv.get(m) or int(m[-1])
        dl = L if m in lv else 1
        g = "compiled-out" if d < dl else ("runtime-off" if r < L else "live")
    else:
        g = ("D=0" if d == 0 else "D>=1") + "," + ("R=0" if r == 0 else "R>=1")
    return "%s,%s" % (g, "silent" if s else "loud")


def make_walk(edges_by_state, macros, rnd, revisit=2, enabled=lambda st, m: True):
    """A walk from (r=0, silent=F) taking every set_level / set_silent transition; all statements at the first visit of a
    configuration, two random ones at later visits."""
    cur = (0, False)
    todo = {st: set(e) for st, e in edges_by_state.items()}
    script, seen = [], set()

    def visit(st):
        here = [m for m in macros if enabled(st, m)]          # some cells exist only in some configurations (write faults: not silenced)
        if st not in seen:
            seen.add(st)
            for m in here:
                script.append(("X", m))
        else:
            for m in rnd.sample(here, min(revisit, len(here))):
                script.append(("X", m))
    visit(cur)
    while any(todo.values()):
        if not todo[cur]:
            # shortest path (over all set edges) to a configuration with an untaken edge
            prev = {cur: None}
            q = deque([cur])
            goal = None
            while q:
                u = q.popleft()
                if todo[u]:
                    goal = u
                    break
                for (op, a, v) in sorted(edges_by_state[u]):           # sorted: the walk must not depend on set iteration order
                    if v not in prev:
                        prev[v] = (u, op, a)
                        q.append(v)
            if goal is None:
                raise Broken("configuration graph not connected")
            path = []
            while prev[goal] is not None:
                u, op, a = prev[goal]
                path.append((op, a, goal))
                goal = u
            for op, a, v in reversed(path):
                script.append(("L" if op == "set_level" else "S", a))
                cur = v
                visit(cur)
            continue
        op, a, v = sorted(todo[cur], key=lambda x: (x[0], int(x[1])))[0]
        todo[cur].discard((op, a, v))
        script.append(("L" if op == "set_level" else "S", a))
        cur = v
        visit(cur)
    return script


PROBES = ("print_warning", "print_error", "dprintf", "DPRINTF1", "DPRINTF3", "D_OPTIONS", "REQUIRE_fail", "ASSERT_fail")


def make_pairs_walk(edges_by_state, macros, rnd, enabled=lambda st, m: True):
    """Every PAIR of consecutive set transitions (e1 into a configuration, e2 out of it - self-loops included, so also "the same
    value set twice, then changed"), then one statement whose gate is the silent flag or a level plus a random one, at e2's target.
    A setter that is not idempotent (counts its calls, toggles, remembers the previous value) shows only on such a pair; the
    episodes run in ONE process, so whatever a setter accumulates is carried from pair to pair."""
    script, cur = [], (0, False)
    for u in sorted(edges_by_state):
        for (op1, a1, v) in sorted(edges_by_state[u]):
            for (op2, a2, w) in sorted(edges_by_state[v]):
                if cur[0] != u[0]:
                    script.append(("L", u[0]))
                if cur[1] != u[1]:
                    script.append(("S", int(u[1])))
                script.append(("L" if op1 == "set_level" else "S", a1))
                script.append(("L" if op2 == "set_level" else "S", a2))
                cur = w
                here = [m for m in macros if enabled(cur, m)]
                gated = [m for m in here if m[0] in PROBES and m[1:] == ("clean", "alone", "int", "none")]
                for m in ([rnd.choice(gated)] if gated else []) + rnd.sample(here, 1):
                    script.append(("X", m))
    return script


MSG_STATEMENTS = ["D_OPTIONS", "D_OBJ", "D_CONF", "D_MEM", "D_STRINGS", "D_PARSE", "DPRINTF1", "DPRINTF2", "DPRINTF3", "DPRINTF4",
                  "DPRINTF5", "DPRINTF6", "print_warning", "print_error", "dprintf", "fatal_error"]


def message_sizes():
    """Size sweep of the message argument: n-1, n, n+1 around the powers of two, the bytes just below BUFSIZ (a prefix of up to
    48 bytes in front of the message crosses 8192 somewhere in there), and sizes beyond every buffer of the library."""
    s = set()
    for k in range(3, 14):
        s |= {(1 << k) - 1, 1 << k, (1 << k) + 1}
    s |= {8192 - k for k in range(0, 49)}
    s |= {8000, 8300, 16383, 16384, 16385, 16500, 20479, 20480, 20481}
    return sorted(s)


def run_probe(ctx, exe, d, script, tag):
    path = os.path.join(ctx.rundir, "dbg-%d-%s.txt" % (d, tag))
    with open(path, "w") as f:
        for c, a in script:
            f.write("%s\n" % cmd_text(c, a))
    from vlib.replay import ASAN_OPTS
    env = dict(os.environ, ASAN_OPTIONS=ASAN_OPTS, LC_ALL="C")
    try:
        r = subprocess.run([exe, path], capture_output=True, env=env, timeout=900, cwd=ctx.rundir)
    except subprocess.TimeoutExpired:
        raise Broken("dbg_probe DEBUG=%d timed out" % d)
    out = r.stdout.decode("latin-1").splitlines()
    if r.returncode != 0 or not out or out[-1] != "DONE" or out[0] != "BUILD DEBUG=%d" % d:
        raise Broken("dbg_probe DEBUG=%d failed rc=%s first=%r last=%r stderr=%s" % (d, r.returncode, out[:1], out[-1:], r.stderr.decode("latin-1")[-500:]))
    lines = out[1:-1]
    if len(lines) != len(script):
        raise Broken("dbg_probe DEBUG=%d: %d commands, %d answers" % (d, len(script), len(lines)))
    return lines


def run(ctx):
    cfg = "DebugGate_quick.cfg" if ctx.tier == "quick" else "DebugGate_thorough.cfg"
    g, res = objcheck.tlc_graph(ctx, "MC_DebugGate.tla", cfg, workers=2)
    allowed = {}          # (d, r, silent, statement, history, context) -> set of (out, eval, ctl, else-arm executed)
    setedges = {}         # d -> {(r, silent): set((op, arg, (r', silent')))}
    for _, _, e in g.edges:
        p, q = e["pre"], e["post"]
        if e["op"] == "execute":
            o = e["ret"]
            allowed.setdefault((p["d"], p["r"], p["silent"]) + tuple(e["args"]), set()).add((o["out"], o["eval"], o["ctl"], o["els"], o["garbled"]))
        else:
            a = e["args"][0]
            setedges.setdefault(p["d"], {}).setdefault((p["r"], p["silent"]), set()).add((e["op"], int(a), (q["r"], q["silent"])))
            if e["op"] == "set_silent" and e["ret"] != a:
                raise Broken("spec: set_silent returns the new value")
    macros = sorted({k[3:] for k in allowed})          # (statement, history, statement context, condition type, write fault)
    ds = sorted(setedges)
    if len({m[1] for m in macros}) != 5 or len({m[0] for m in macros}) != 28 or len({m[2] for m in macros}) != 5 or len({m[3] for m in macros}) != 10 or len({m[4] for m in macros}) != 7 or len(ds) != 6:
        raise Broken("matrix incomplete: %d statement/history/context triples, %d compile-time levels" % (len(macros), len(ds)))
    rnd = random.Random(ctx.seed)
    st = {"executed": 0, "sweep": 0}
    distinct = set()
    nontrivial = set()
    set_taken = 0
    pair_sets = [0]
    sizes = message_sizes()

    def judge(d, cur_r, cur_s, a, line, size, history=None):
        m, hist, cx, ty, wf = a
        w = line.split()
        f = dict(x.split("=", 1) for x in w[4:])
        if w[0] != ("W" if wf != "none" else HLETTER[hist]) or w[1] != stmt_name(m, ty) or w[2] != cx or int(w[3]) != size:
            raise Broken("dbg_probe answered %r to %r" % (line, (a, size)))
        if w[0] == "Y" and f.get("ferr") != "1":
            raise Broken("the failed write on stderr could not be provoked (DEBUG=%d %s)" % (d, line))
        obs = (f["out"] if wf == "none" else "any", int(f["eval"]), f["ctl"], f["else"] == "1", f["garbled"] == "1")
        cell = (d, cur_r, cur_s, m, hist, cx, ty, wf)
        st["executed"] += 1
        if size == 0:
            distinct.add(cell)
            if obs != ("none", 0, "falls", False, False):
                nontrivial.add(cell)
        else:
            st["sweep"] += 1
            nontrivial.add(cell + (size,))
        ok = obs in allowed[cell]
        why = ""
        want = 2 if (cx == "loop2" and f["ctl"] == "falls") else 1
        if wf != "none":
            want = int(f["count"])              # what the environment drops is lost: completeness is not judged under a fault
            f["text"] = "1"
        if ok and f["out"] != "none" and f["text"] != "1":
            ok, why = False, " (stream output without the statement's own complete message)"
        if ok and f["out"] != "none" and int(f["count"]) != want:
            ok, why = False, " (the message appears %s times, expected %d)" % (f["count"], want)
        if ok and f["ctl"] == "returns" and f["val"] != "7":
            ok, why = False, " (returned %s, not the stated failure value 7)" % f["val"]
        if ok and f["ctl"] == "exits" and f["status"] in ("0", "-1"):
            ok, why = False, " (process ended with status %s, not through the fatal-error path)" % f["status"]
        if not ok:
            exp = sorted(allowed[cell])
            tags = ({"clean": "", "after_failed_write": "/after-failed-write", "in_atexit_of_fatal": "/in-atexit-of-fatal", "after_refused_print": "/after-refused-print", "after_same_statement": "/after-same-statement"}[hist]
                    + ("" if cx == "alone" else "/" + cx) + ("" if size == 0 else "/long-message") + ("" if ty == "int" else "/cond:" + ty)
                    + ("" if wf == "none" else "/write-fault:" + wf))
            tags = tags.replace("//", "/")
            key = "%s%s [%s] %sout=%s%s eval=%s ctl=%s else=%s" % (m, tags, cell_class(d, cur_r, cur_s, m), "GARBLED " if f["garbled"] == "1" else "", f["out"],
                                                                 "/no-text" if (f["out"] != "none" and f["text"] != "1") else
                                                                 ("/count" if (f["out"] != "none" and int(f["count"]) != want) else ""),
                                                                 f["eval"], re.sub(r"\d+", "N", f["ctl"]), f["else"])
            ctx.report(key, "DEBUG=%d runtime level %d silent=%s statement %s (history %s, context %s, condition type %s, write fault %s, message argument of %d bytes): observed %s%s; "
                            "allowed by the rule (out, eval, ctl, else arm executed, garbled): %s" % (d, cur_r, cur_s, m, hist, cx, ty, wf, size, line[:300], why, exp),
                       {"debug": d, "level": cur_r, "silent": cur_s, "statement": m, "history": hist, "context": cx, "type": ty, "size": size,
                        "observed": line[:400], "allowed": [list(x) for x in exp],
                        "script": history() if history else "L %d\nS %d\n%s\n" % (cur_r, int(cur_s), cmd_text("X", a, size))})

    for d in ds:
        libdir, cflags = build.build_lib(ctx.repo, debug_level=d)
        exe = build.build_harness("dbg_probe-d%d" % d, ["dbg_probe.c"], libdir, cflags)
        script = make_walk(setedges[d], macros, rnd, revisit=2 if ctx.tier == "quick" else 24,
                           enabled=lambda st, m, d=d: (d, st[0], st[1]) + m in allowed)
        for tag, script in (("walk", script), ("pairs", make_pairs_walk(setedges[d], macros, rnd, enabled=lambda st, m, d=d: (d, st[0], st[1]) + m in allowed))):
            lines = run_probe(ctx, exe, d, script, tag)
            cur_r, cur_s = 0, False
            for i, ((c, a), line) in enumerate(zip(script, lines)):
                w = line.split()
                if c == "L":
                    set_taken += (tag == "walk")
                    pair_sets[0] += (tag == "pairs")
                    cur_r = int(a)
                    if w != ["L", str(int(a))]:
                        ctx.report("set_level readback", "DEBUG=%d: %r after setting level %s" % (d, line, a), {"debug": d, "script": script_text(script[:i + 1])})
                    continue
                if c == "S":
                    set_taken += (tag == "walk")
                    pair_sets[0] += (tag == "pairs")
                    cur_s = bool(a)
                    if w != ["S", str(int(a)), str(int(a))]:
                        ctx.report("set_silent return value", "DEBUG=%d: %r (command %d of the %s script)" % (d, line, i + 1, tag),
                                   {"debug": d, "script": script_text(script[:i + 1]), "observed": line})
                    continue
                judge(d, cur_r, cur_s, a, line, 0, history=((lambda i=i, script=script: script_text(script[:i + 1])) if tag == "pairs" else None))
        # size sweep (direction B family): every message-bearing statement, every size, in the configuration where everything that is
        # compiled in is live (runtime level 6, not silenced); the rule does not know the message length, so the outcome is the cell's
        sweep = [("L", 6), ("S", 0)] + [("Z", ((m, "clean", "alone", "int", "none"), n)) for m in MSG_STATEMENTS for n in sizes]
        lines = run_probe(ctx, exe, d, sweep, "sizes")
        for (c, a), line in zip(sweep, lines):
            if c == "Z":
                judge(d, 6, False, a[0], line, a[1])
        if d == ds[-1]:
            ctx.sample({"debug": d, "first_commands": [cmd_text(*x) for x in script[:3]], "first_answers": lines[:3]})
            ctx.sample({"debug": d, "size_sweep": [x[:160] for x in lines[-2:]]})
    missing = set(allowed) - distinct
    if missing:
        raise Broken("%d cells of the matrix were not executed, e.g. %s" % (len(missing), sorted(missing)[:3]))
    nset = sum(len(v) for dd in setedges.values() for v in dd.values())
    if set_taken < nset:
        raise Broken("walks took %d set transitions, specification has %d" % (set_taken, nset))
    ctx.add("evaluations", st["executed"])
    ctx.cov["distinct_nontrivial"] = len(nontrivial)
    ctx.cov["distinct_cells"] = len(distinct)
    ctx.cov["cells_in_matrix"] = len(allowed)
    ctx.cov["cells_with_two_allowed_outcomes"] = sum(1 for v in allowed.values() if len(v) > 1)
    ctx.cov["set_transitions_taken"] = set_taken
    ctx.cov["set_transition_pairs"] = {"rule": "every pair of consecutive set_level / set_silent transitions (self-loops included) in one process, followed by a gated statement", "set_commands": pair_sets[0]}
    ctx.cov["size_sweep"] = {"sizes": len(sizes), "min": sizes[0], "max": sizes[-1], "statements": len(MSG_STATEMENTS), "executions": st["sweep"]}
    ctx.cov["exhaustive"] = True
    ctx.cov["rule"] = ("every cell (DEBUG 0..5, runtime level 0..6, silent, statement, stream history, statement context) of the matrix TLC "
                       "enumerates is executed at least once in a forked child of a probe built with that DEBUG, observed (stream class, "
                       "evaluations of the argument, control, else arm of the enclosing if) and compared with the outcomes the specification "
                       "allows; stream output must contain the statement's complete message byte for byte (the expression text verbatim for a "
                       "failed ASSERT/REQUIRE) the right number of times; plus a sweep of the message length (7..20481 bytes) over every "
                       "message-bearing statement in the all-live configuration of every build. A cell is non-trivial when something "
                       "observable happens (output, an evaluation, a return, an exit, an else arm); distinct = distinct cells (+ distinct "
                       "(cell, size) pairs of the sweep)")
    ctx.sample({"cell": "DEBUG=5 R=5 loud D_MEM after a failed write on the stream", "allowed": [list(x) for x in sorted(allowed[(5, 5, False, "D_MEM", "after_failed_write", "alone", "int", "none")])]})
    ctx.sample({"cell": "DEBUG=4 R=2 loud DPRINTF3 as the then-arm of if (0) ... else", "allowed": [list(x) for x in sorted(allowed[(4, 2, False, "DPRINTF3", "clean", "then_false", "int", "none")])]})
    ctx.assumptions += ["probe and library compiled with clang from the current tree with a shim config.h per DEBUG value",
                        "stream output is classified by its marker (FATAL: / Warning: / Error: / other = debug)"]


HLETTER = {"clean": "X", "after_failed_write": "Y", "in_atexit_of_fatal": "A", "after_refused_print": "R", "after_same_statement": "P"}
FKIND = {"EINTR": 1, "EAGAIN": 2, "short": 3}


def stmt_name(m, ty):
    return m if ty == "int" else "%s_%s" % (m, ty)


def cmd_text(c, a, size=0):
    if c == "Z":
        a, size = a
        c = "X"
    if c == "X":
        if a[4] != "none":
            return "W %s %s 0 %s %d" % (stmt_name(a[0], a[3]), a[2], a[4][1], FKIND[a[4][3:]])
        return "%s %s %s %d" % (HLETTER[a[1]], stmt_name(a[0], a[3]), a[2], size)
    return "%s %d" % (c, int(a))


def script_text(script):
    return "".join(cmd_text(c, a) + "\n" for c, a in script)


def replay(ctx, path):
    rp = (json.load(open(path)).get("replay") or {})
    d = rp.get("debug")
    libdir, cflags = build.build_lib(ctx.repo, debug_level=d)
    exe = build.build_harness("dbg_probe-d%d" % d, ["dbg_probe.c"], libdir, cflags)
    sp = os.path.join(ctx.rundir, "replay.txt")
    open(sp, "w").write(rp.get("script", ""))
    from vlib.replay import ASAN_OPTS
    r = subprocess.run([exe, sp], capture_output=True, env=dict(os.environ, ASAN_OPTIONS=ASAN_OPTS, LC_ALL="C"), timeout=300)
    out = r.stdout.decode("latin-1")
    print(out)
    same = rp.get("observed") and rp["observed"] in out.splitlines()
    print("REPRODUCED" if same else "not reproduced (allowed: %s)" % rp.get("allowed"))
    return 1 if same else 0
