#!/bin/sh
# usage: tools/sweep_seeds.sh [parallel]   -- regression sweep: every archived seeded change against the CURRENT checks
# (quick tier) and the current /repo.  Logs in .build/sweep/<seed>.txt, summary on stdout.  Seeds whose patch no longer
# applies (the lines were repaired by a later fix: commit) are reported as n/a unless they carry patch_rebased.diff.
cd "$(dirname "$0")/.."
PAR=${1:-4}
mkdir -p .build/sweep
ls -d seeded/C*-* | sort -t- -k1,1 -k2,2n | while read d; do echo "$d"; done > .build/sweep/list.txt
cat .build/sweep/list.txt | xargs -P $PAR -I{} sh -c 's=$(basename {}); id=${s%%-*}; tools/seedtest.sh $id /verif/{} > .build/sweep/$s.txt 2>&1'
det=0; mis=0; na=0
for d in $(cat .build/sweep/list.txt); do
  s=$(basename $d); f=.build/sweep/$s.txt
  if grep -q "PATCH DOES NOT APPLY" $f; then na=$((na+1)); echo "$s n/a (patch no longer applies)";
  elif grep -q "demo exit (patched) = 0" $f; then na=$((na+1)); echo "$s n/a (harmless on the current tree: demo passes)";
  elif grep -q "exit=1 violations=[1-9]" $f; then det=$((det+1));
  else mis=$((mis+1)); echo "$s MISSED: $(grep 'vcheck' $f)"; fi
done
echo "sweep: detected=$det missed=$mis n/a=$na"
