"""C10: config value expansion is a pure function of line, environment and variable store (Expand.tla)."""
import os, re, json, random, time
from vlib import build, objcheck
from vlib.core import tok, untok, Broken, log
from vlib.graph import Graph
from vlib.tlc import run_tlc
from vlib.replay import run_scripts

PROPERTY = "C10"
LEVEL = "model_checking"
LEVEL_TEXT = ("TLC explores Expand.tla (a character-level step machine, one action per construct, recursive calls as a frame stack, "
              "the %put/%get store) over ALL inputs of up to 6-7 symbols from several small alphabets x environments x store "
              "histories, checking OutputBounded, NeverReadsPastEnd, SingleQuoteOpaque, PrefixSuffixPreserved and PutThenGet on "
              "every step; a second TLC run with a 6-character limit model-checks truncation.  Every (store, env, text) -> "
              "(acceptable results, store') edge TLC emits is executed on spifconf_shell_expand of the current tree under ASan: "
              "text at the start of a CONFIG_BUFF block with a poisoned tail pattern, stack pre-filled 0xAA and 0x55, an exact-size "
              "block when the result is not longer, two passes with different malloc fill; results, store projection and heap "
              "growth are compared.  Long random texts (up to the 20479 limit and beyond it) recorded on the implementation are "
              "validated by TLC against ExpandTrace.tla.")
LEVEL_NOTE = ("Bounded scope for the exhaustive part; beyond it sampled texts only.  Functional results are NOT claimed (only safety, "
              "termination, boundedness, purity) for: % that is no call of get/put/version/appname/random, % inside single quotes, a "
              "single quote inside double quotes, unterminated ${ $( and calls, word splitting of arguments holding quotes or "
              "backslashes (C12), trailing backslash inside an argument; %exec, %dirscan and back-quotes are excluded (C11).  "
              "Deleting a variable is unreachable through expansion and not modelled.  'Never reads past the end' and purity are "
              "decided by ASan + fill patterns on everything explored, not proved.  Trusted: TLC, ASan, harness/expand_replay.c.")
TECHNIQUE = "TLA+ step-machine spec + TLC exhaustive input enumeration replayed on the implementation + TLC trace validation"
DESIGN_REF = "DESIGN.md section 6 C10, 8a Expansion"

ENVS = {   # must agree with EnvMC of spec/MC_Expand.tla
    1: [("HOME", "/h"), ("A", "w$")],
    2: [("A", "v")],
    3: [("HOME", ""), ("A", "")],
}
OP_ACTIONS = ["OpPlain", "OpTilde", "OpEscape", "OpEscapeInSingle", "OpEscapeAtEnd", "OpDollarInSingle", "OpEnvRef",
              "OpEnvRefOpen", "OpQuote", "OpSingleInDouble", "OpCall", "OpCallOpen", "OpUnknownPercent", "OpPercentInSingle",
              "OpReturn", "OpFinish"]


def b(s):
    return [ord(c) for c in s]


def envtok(pairs):
    out = []
    for k, v in pairs:
        out.append(b(k))
        out.append(b(v))
    return tok(out)


ENVTOK = {k: envtok(v) for k, v in ENVS.items()}


def rettok(r):
    return tok({"claimed": r["claimed"], "outs": sorted(r["outs"]), "trunc": r["trunc"], "why": r["why"]})


def step_line(e):
    return "expand %s %s = %s %s" % (ENVTOK[e["args"][0]], tok(e["args"][1]), rettok(e["ret"]), tok(e["post"]))


def text_of(codes):
    return "".join(chr(c) if 32 <= c < 127 else "\\x%02x" % c for c in codes)


def kinds(codes, env):
    """The most specific construct an input contains (coarse on purpose: one key per construct class and failure class)."""
    s = "".join(chr(c) for c in codes)
    if s.endswith("\\") and (len(s) - len(s.rstrip("\\"))) % 2 == 1:
        return "backslash-last"
    m = re.search(r"\$(\{[^}]*\}?|\([^)]*\)?|[A-Za-z0-9_]*)", s)
    if m:
        g = m.group(1)
        form = "brace" if g[:1] == "{" else "paren" if g[:1] == "(" else "bare"
        closed = form == "bare" or (g[-1:] in "})" and len(g) >= 2)
        val = dict(env).get(g.strip("{}()"), "")
        return "$%s-%s%s" % (form, ("set" if val else "unset") if closed else "open", "-at>0" if m.start() > 0 else "")
    m = re.search(r"%([A-Za-z]*)(\(?)", s)
    if m:
        nm = m.group(1).lower()
        if m.group(2) and nm in ("get", "put", "version", "appname", "random"):
            return "call-" + nm
        return "percent-last" if s.endswith("%") else "percent-other"
    for ch, k in (("~", "tilde"), ("\\", "escape"), ("'", "squote"), ('"', "dquote")):
        if ch in s:
            return k
    return "plain"


def keyfn(variant, e, f):
    d = ""
    if f.kind == "inv":
        d = re.sub(r"\d+", "N", f.got)
    elif f.kind in ("crash", "hang", "exit"):
        d = f.sig
    elif f.kind == "ret":
        m = re.match(r"\{(variant|impure)=([\w-]+)", f.got or "")
        d = ("%s" % m.group(1 if m.group(1) == "impure" else 2)) if m else ""
        d = re.sub(r"-(aa|55)$", "", d)
        if "got=NULL" in (f.got or ""):
            d += "/NULL"
    cls = "-"
    if e:
        cls = kinds(e["args"][1], ENVS[e["args"][0]])
        if not e["ret"]["claimed"]:
            cls += " unclaimed:" + e["ret"]["why"]
        if e["pre"]:
            cls += " store>0"
    return "expand [%s] %s%s" % (cls, f.kind, ("/" + d) if d else "")


def harness(ctx):
    libdir, cflags = build.build_lib(ctx.repo)
    return build.build_harness("expand_replay", ["expand_replay.c"], libdir, cflags)


def asan_opts(fill):
    return ("halt_on_error=1:abort_on_error=0:detect_leaks=0:allocator_may_return_null=1:detect_stack_use_after_return=0:"
            "symbolize=1:print_legend=0:print_summary=1:handle_abort=0:max_malloc_fill_size=32768:malloc_fill_byte=%d:free_fill_byte=221" % fill)


def has_put(codes):
    return "%put" in "".join(chr(c) for c in codes).lower()


GROUPS = [["esc", "dol1", "dol2", "mix"], ["til", "pg", "call"]]


def split_cfgs(ctx, cfg):
    """The committed cfg names all alphabets; for wall time it is run as two TLC processes (2 workers each) over disjoint
    alphabet groups.  The groups share only the empty store, so the union of the emitted edges is the edge set of the whole."""
    from vlib.tlc import SPEC
    txt = open(os.path.join(SPEC, cfg)).read()
    m = re.search(r"^\s*Sel = \{([^}]*)\}\s*$", txt, re.M)
    if not m:
        raise Broken("no Sel line in " + cfg)
    sel = [w.strip().strip('"') for w in m.group(1).split(",")]
    out = []
    for k, grp in enumerate(GROUPS):
        mine = [a for a in sel if a in grp]
        if not mine:
            continue
        p = os.path.join(ctx.rundir, "%s.part%d.cfg" % (cfg[:-4], k))
        with open(p, "w") as f:
            f.write(txt[:m.start()] + "  Sel = {%s}\n" % ", ".join('"%s"' % a for a in mine) + txt[m.end():])
        out.append((p, mine))
    if sorted(a for _, g_ in out for a in g_) != sorted(sel):
        raise Broken("alphabet groups do not cover Sel of " + cfg)
    return out


def classify(e):
    """Which scanner actions an emitted edge must have gone through (python-side vacuity evidence for the replayed edges)."""
    s = "".join(chr(c) for c in e["args"][1])
    r = e["ret"]
    acts = set()
    if not r["claimed"]:
        acts.add({"unknown-percent": "OpUnknownPercent", "percent-inside-single": "OpPercentInSingle",
                  "single-quote-inside-double": "OpSingleInDouble", "unterminated-call": "OpCallOpen",
                  "unterminated-env-ref": "OpEnvRefOpen"}.get(r["why"], "GiveUp:" + r["why"]))
        return acts
    acts.add("OpFinish")
    if len(r["outs"]) > 1 and s.endswith("\\"):
        acts.add("OpEscapeAtEnd")
    if "~" in s:
        acts.add("OpTilde")
    if re.search(r"[^~\\%`$\"']", s):
        acts.add("OpPlain")
    if '"' in s or "'" in s:
        acts.add("OpQuote")
    if "%" in s:
        acts.add("OpCall")
        acts.add("OpReturn")
    if "\\" in s and "'" not in s and not s.endswith("\\"):
        acts.add("OpEscape")
    if re.match(r"^[^'\\]*'[^'\\]*\\[^']", s):
        acts.add("OpEscapeInSingle")
    if "$" in s and "'" not in s:
        acts.add("OpEnvRef")
    if re.match(r"^[^'\\]*'[^'\\]*\$", s):
        acts.add("OpDollarInSingle")
    return acts


def tlc_edges(ctx, cfg):
    """Exhaustive TLC runs with edge emission.  Unclaimed results of inputs that contain %put lead to the UNKNOWN node."""
    from concurrent.futures import ThreadPoolExecutor
    g = Graph()
    stats = {"claimed": 0, "unclaimed": {}, "alts": 0, "trunc": 0}
    acts = {}
    pend = []

    def on_edge(e):
        pend.append(e)

    def one(pc):
        return run_tlc("MC_Expand.tla", pc[0], ctx.rundir, on_edge=on_edge, workers=2, timeout=3000, coverage=False)
    parts = split_cfgs(ctx, cfg)
    with ThreadPoolExecutor(len(parts)) as ex:
        results = list(ex.map(one, parts))
    for e in pend:
        r = e["ret"]
        if not r["claimed"]:
            stats["unclaimed"][r["why"]] = stats["unclaimed"].get(r["why"], 0) + 1
            if has_put(e["args"][1]):
                e["post"] = "UNKNOWN"
        else:
            stats["claimed"] += 1
            if len(r["outs"]) > 1:
                stats["alts"] += 1
        for a in classify(e):
            acts[a] = acts.get(a, 0) + 1
        g.add(e)
    ok = True
    for (p, mine), res in zip(parts, results):
        ctx.add("states", res.distinct)
        ctx.add("transitions", res.generated)
        ctx.add("edges_emitted", res.edges)
        ctx.cov.setdefault("tlc_runs", []).append({
            "module": "MC_Expand.tla", "cfg": cfg, "alphabets": mine, "distinct_states": res.distinct, "states_generated": res.generated,
            "depth": res.depth, "edges_emitted": res.edges, "wall_s": round(res.wall, 1)})
        if not res.ok:
            ok = False
            ctx.report("spec:%s" % cfg, "TLC reports a violated property of the specification itself: %s" % (res.violation or "")[:600],
                       {"tlc": res.violation, "cfg": cfg, "alphabets": mine})
    ctx.cov["edges"] = {"distinct": g.n_edges(), "store_states": len(g.nodes), "inputs_claimed": stats["claimed"],
                        "inputs_with_alternatives": stats["alts"], "inputs_unclaimed_by_reason": stats["unclaimed"],
                        "edges_through_action": dict(sorted(acts.items()))}
    unt = [a for a in OP_ACTIONS if not acts.get(a)]
    if unt and ok and not os.environ.get("C10_DEV"):
        raise Broken("vacuity: no emitted edge of MC_Expand/%s goes through %s" % (cfg, unt))
    if g.n_edges() == 0 and ok:
        raise Broken("no edges emitted by MC_Expand/%s" % cfg)
    return g, results[0]


def limit_model(ctx):
    """Design level only: the same machine with a 3-character limit, so that truncation is model-checked at every position;
    run with TLC's per-action coverage (the large runs are run without -coverage, which doubles their wall time)."""
    res = run_tlc("MC_Expand.tla", "Expand_limit.cfg", ctx.rundir, workers=4, timeout=1500)
    ctx.add("states", res.distinct)
    ctx.add("transitions", res.generated)
    ctx.cov.setdefault("tlc_runs", []).append({
        "module": "MC_Expand.tla", "cfg": "Expand_limit.cfg", "distinct_states": res.distinct, "states_generated": res.generated,
        "depth": res.depth, "wall_s": round(res.wall, 1), "purpose": "truncation at a 3-character limit, all alphabets, per-action coverage (design level, not replayed)"})
    ctx.cov["tlc_runs"][-1]["actions"] = {a: list(v) for a, v in sorted(res.coverage.items()) if a[:2] == "Op"}
    unt = [a for a in OP_ACTIONS if res.coverage.get(a, (0, 0))[1] == 0]
    if unt and res.ok:
        raise Broken("vacuity: actions never taken in MC_Expand/Expand_limit.cfg: %s" % unt)
    if not res.ok:
        ctx.report("spec:Expand_limit.cfg", "TLC reports a violated property of the specification itself: %s" % (res.violation or "")[:600],
                   {"tlc": res.violation, "cfg": "Expand_limit.cfg"})


def key_universe(g):
    keys = set()
    for _, _, e in g.edges:
        if isinstance(e["post"], list):
            for kv in e["post"]:
                keys.add(tuple(kv[0]))
    return sorted(keys)


def ulog_compare(ctx, pa, pb):
    def load(p):
        d = {}
        if os.path.exists(p):
            for line in open(p):
                w = line.split()
                if len(w) == 3:
                    d.setdefault(w[1], set()).add(w[2])
        return d
    A, B = load(pa), load(pb)
    n = 0
    for k in A:
        if k in B:
            n += 1
            if A[k] != B[k]:
                ctx.report("expand unclaimed result differs between heap fills",
                           "an input whose value is not claimed gave different results under malloc_fill_byte 0xAA and 0x55 (hash %s)" % k,
                           {"input_hash": k})
    ctx.add("unclaimed_inputs_compared_across_heap_fills", n)


def trace_validation(ctx, exe):
    pass


def run(ctx):
    exe = harness(ctx)
    cfg = "Expand_quick.cfg" if ctx.tier == "quick" else "Expand_thorough.cfg"
    limit_model(ctx)
    g, res = tlc_edges(ctx, cfg)
    keys = key_universe(g)
    keytok = tok([list(k) for k in keys])
    ctx.cov["store_key_universe"] = [text_of(k) for k in keys]
    inits = [tok([])]
    walks = (200, 6) if ctx.tier == "quick" else (2000, 8)
    ulogs = []
    for name, pat, fill in (("pass-aa", "aa", 170), ("pass-55", "55", 85)):
        ul = os.path.join(ctx.rundir, "ulog-%s.txt" % name)
        ulogs.append(ul)
        objcheck.replay_cover(ctx, g, inits, exe, name, [pat, keytok], keyfn, walks=walks, line=step_line,
                              env={"ASAN_OPTIONS": asan_opts(fill), "XR_ULOG": ul}, jobs=4)
    ulog_compare(ctx, *ulogs)
    trace_validation(ctx, exe)
    ctx.cov["exhaustive"] = True
    ctx.cov["rule"] = ("every (store, environment, text) -> (acceptable results, store') edge TLC emits for Expand in the bounded scope is "
                       "executed once per pass as the last step of a script whose prefix consists of already verified edges (scripts that "
                       "change the store run in a forked child); result, projected store, heap growth, NUL termination and ASan "
                       "verdict are checked after every step; plus random walks over verified edges and TLC-validated long texts")
    ctx.assumptions += ["libast_debug_level = 0 (ASSERT failures warn and return)", "ASan build of the current tree (clang -O1)",
                        "program name 'ap', version '1.2'; environment = exactly the variables of the step (clearenv first)"]


def replay(ctx, path):
    d = json.load(open(path))
    rp = d.get("replay") or {}
    env = {"ASAN_OPTIONS": asan_opts(170 if (rp.get("variant") or "pass-aa") == "pass-aa" else 85)}
    return objcheck.replay_file(harness(ctx), ["aa", "[]"], path, ctx.rundir, env=env)
