-------------------------------- MODULE ThreadObj --------------------------------
(* X03, sequential part: the object protocol of the three classes of src/pthreads.c (new, init,   *)
(* done, del, dup, comp, type, show) together with what ONE thread can observe of the lock state   *)
(* (lock / lock_nowait / unlock / wait_timed / signal / broadcast without a second thread) and of   *)
(* the thread life cycle (run, kill(0), detach; the started worker is parked on a harness           *)
(* semaphore until "finish").  Replayed edge by edge on the real objects with heap balance, like    *)
(* SmallObj (C05/C06).  Part selects one of three independent sub-models:                           *)
(*   "thread"  two pthreads slots, plus one mutex and one condition obtained through                *)
(*             get_mutex / get_condition (creator link)                                             *)
(*   "mutex"   two pthreads_mutex slots           "cond"   two pthreads_condition slots             *)
(*                                                                                                  *)
(* Slot states.  thread: "none" | "plain" (no function) | "func" (function set, never started or    *)
(* reaped) | "run" (started, worker alive) | "rund" (started and detached).                         *)
(* lockable: "none" or [lk |-> BOOLEAN, cr |-> 0..2] (cr = the thread slot it was obtained from).   *)
(* STATED/IDEAL: dup is an independent equal copy; comp is a consistent order (EQUAL for the same   *)
(* object, antisymmetric address order for distinct ones - the class has nothing else to order by); *)
(* done leaves a reusable object.  AS-BUILT CONVENTIONS (C): two never-started thread objects       *)
(* compare EQUAL (their handles are both 0); run is refused without a function or when started;     *)
(* kill and detach are refused (FALSE) on a never-started object; detach of a detached thread       *)
(* answers TRUE (EINVAL is mapped to TRUE); done/del of a locked mutex unlocks it first.            *)
(* EXCLUDED (X): done/del/init of a running thread object (see the SIGTERM probe in checks/x03.py), *)
(* unlock of an unlocked mutex, lock of a mutex the caller holds, wait without a second thread,     *)
(* dup/init of a locked mutex, deleting a thread object a live mutex still names as creator.        *)
EXTENDS Integers, Sequences, TLC, Json
CONSTANTS Part, Obs(_, _, _, _)
VARIABLES th, lo          \* th[i]: thread slots 1..2;   lo[j]: lockable slots 1..2
vars == <<th, lo>>

NoLk == [lk |-> FALSE, cr |-> 9]            \* cr = 9 encodes "slot empty" (TLC cannot mix strings and records)
Empty(j) == lo[j].cr = 9
Fresh(c) == [lk |-> FALSE, cr |-> c]
St(t, l) == [th |-> t, lo |-> l]
Pre == St(th, lo)
Step(op, args, ret, t, l) == /\ th' = t /\ lo' = l /\ Obs(op, args, ret, St(t, l))

IsT == Part = "thread"
IsL == Part \in {"mutex", "cond"}
IsC == Part = "cond"
\* in the thread part lockable slot 1 is the mutex, slot 2 the condition obtained from a thread
Slots == {1, 2}
Live(i) == th[i] # "none"
Idle(i) == th[i] \in {"plain", "func"}
Named(i) == \E j \in Slots : lo[j].cr = i          \* some live lockable names thread slot i as creator

----------------------------------------------------------------------------------
(* thread objects *)
OpTNew(i) == /\ IsT /\ th[i] = "none" /\ Step("t_new", <<i>>, TRUE, [th EXCEPT ![i] = "plain"], lo)
OpTNewFunc(i) == /\ IsT /\ th[i] = "none" /\ Step("t_new_with_func", <<i>>, TRUE, [th EXCEPT ![i] = "func"], lo)
OpTInit(i) == /\ IsT /\ Idle(i) /\ Step("t_init", <<i>>, TRUE, [th EXCEPT ![i] = "plain"], lo)
OpTInitFunc(i) == /\ IsT /\ Idle(i) /\ Step("t_init_with_func", <<i>>, TRUE, [th EXCEPT ![i] = "func"], lo)
OpTDone(i) == /\ IsT /\ Idle(i) /\ Step("t_done", <<i>>, TRUE, [th EXCEPT ![i] = "plain"], lo)
OpTDel(i) == /\ IsT /\ Idle(i) /\ ~Named(i) /\ Step("t_del", <<i>>, TRUE, [th EXCEPT ![i] = "none"], lo)
OpTDup(i, k) == /\ IsT /\ Idle(i) /\ th[k] = "none" /\ i # k
                /\ Step("t_dup", <<i, k>>, TRUE, [th EXCEPT ![k] = th[i]], lo)
\* "eq" = SPIF_CMP_EQUAL, "ord" = the sign of the address difference (the harness knows the addresses)
OpTComp(i, k) == /\ IsT /\ Live(i) /\ Live(k)
                 /\ Step("t_comp", <<i, k>>, IF i = k \/ (Idle(i) /\ Idle(k)) THEN "eq" ELSE "ord", th, lo)
OpTCompNull(i) == /\ IsT /\ Live(i) /\ Step("t_comp_null", <<i>>, 1, th, lo)
OpTType(i) == /\ IsT /\ Live(i) /\ Step("t_type", <<i>>, TRUE, th, lo)
OpTShow(i) == /\ IsT /\ Live(i) /\ Step("t_show", <<i>>, TRUE, th, lo)
OpTRun(i) == /\ IsT /\ Live(i)
             /\ IF th[i] = "func" THEN Step("t_run", <<i>>, TRUE, [th EXCEPT ![i] = "run"], lo)
                ELSE Step("t_run", <<i>>, FALSE, th, lo)
OpTKill0(i) == /\ IsT /\ Live(i) /\ Step("t_kill0", <<i>>, th[i] \in {"run", "rund"}, th, lo)
OpTDetach(i) == /\ IsT /\ Live(i)
                /\ IF th[i] \in {"run", "rund"} THEN Step("t_detach", <<i>>, TRUE, [th EXCEPT ![i] = "rund"], lo)
                   ELSE Step("t_detach", <<i>>, FALSE, th, lo)
\* the harness lets the parked worker return, reaps it (join, or its exit flag when detached) and clears the handle
OpTFinish(i) == /\ IsT /\ th[i] \in {"run", "rund"} /\ Step("t_finish", <<i>>, TRUE, [th EXCEPT ![i] = "func"], lo)
OpTGetMutex(i) == /\ IsT /\ Live(i) /\ Empty(1) /\ Step("t_get_mutex", <<i>>, TRUE, th, [lo EXCEPT ![1] = Fresh(i)])
OpTGetCond(i) == /\ IsT /\ Live(i) /\ Empty(2) /\ Step("t_get_condition", <<i>>, TRUE, th, [lo EXCEPT ![2] = Fresh(i)])

----------------------------------------------------------------------------------
(* lockables (mutex or condition objects; in the thread part only show / del, to exercise the creator link) *)
OpLNew(j) == /\ IsL /\ Empty(j) /\ Step("l_new", <<j>>, TRUE, th, [lo EXCEPT ![j] = Fresh(0)])
OpLInit(j) == /\ IsL /\ ~Empty(j) /\ ~lo[j].lk /\ Step("l_init", <<j>>, TRUE, th, [lo EXCEPT ![j] = Fresh(0)])
OpLDone(j) == /\ ~Empty(j) /\ Step("l_done", <<j>>, TRUE, th, [lo EXCEPT ![j] = Fresh(0)])
OpLDel(j) == /\ ~Empty(j) /\ Step("l_del", <<j>>, TRUE, th, [lo EXCEPT ![j] = NoLk])
OpLDup(j, k) == /\ IsL /\ ~Empty(j) /\ ~lo[j].lk /\ Empty(k) /\ j # k
                /\ Step("l_dup", <<j, k>>, TRUE, th, [lo EXCEPT ![k] = lo[j]])
OpLComp(j, k) == /\ IsL /\ ~Empty(j) /\ ~Empty(k) /\ Step("l_comp", <<j, k>>, IF j = k THEN "eq" ELSE "ord", th, lo)
OpLCompNull(j) == /\ IsL /\ ~Empty(j) /\ Step("l_comp_null", <<j>>, 1, th, lo)
OpLType(j) == /\ ~Empty(j) /\ Step("l_type", <<j>>, TRUE, th, lo)
OpLShow(j) == /\ ~Empty(j) /\ Step("l_show", <<j>>, TRUE, th, lo)
OpLLock(j) == /\ IsL /\ ~Empty(j) /\ ~lo[j].lk /\ Step("l_lock", <<j>>, TRUE, th, [lo EXCEPT ![j].lk = TRUE])
OpLTry(j) == /\ IsL /\ ~Empty(j)
             /\ IF lo[j].lk THEN Step("l_try", <<j>>, FALSE, th, lo)
                ELSE Step("l_try", <<j>>, TRUE, th, [lo EXCEPT ![j].lk = TRUE])
OpLUnlock(j) == /\ IsL /\ ~Empty(j) /\ lo[j].lk /\ Step("l_unlock", <<j>>, TRUE, th, [lo EXCEPT ![j].lk = FALSE])
\* condition only: nobody waits, so signal/broadcast change nothing; a timed wait by the holder times out (FALSE), mutex held again
OpLSignal(j) == /\ IsC /\ ~Empty(j) /\ Step("l_signal", <<j>>, TRUE, th, lo)
OpLBcast(j) == /\ IsC /\ ~Empty(j) /\ Step("l_broadcast", <<j>>, TRUE, th, lo)
OpLTWait(j) == /\ IsC /\ ~Empty(j) /\ lo[j].lk /\ Step("l_wait_timed", <<j>>, FALSE, th, lo)

Init == th = [i \in Slots |-> "none"] /\ lo = [j \in Slots |-> NoLk]
Next == \/ \E i \in Slots : \/ OpTNew(i) \/ OpTNewFunc(i) \/ OpTInit(i) \/ OpTInitFunc(i) \/ OpTDone(i) \/ OpTDel(i)
                            \/ OpTCompNull(i) \/ OpTType(i) \/ OpTShow(i) \/ OpTRun(i) \/ OpTKill0(i) \/ OpTDetach(i)
                            \/ OpTFinish(i) \/ OpTGetMutex(i) \/ OpTGetCond(i)
                            \/ \E k \in Slots : OpTDup(i, k) \/ OpTComp(i, k)
        \/ \E j \in Slots : \/ OpLNew(j) \/ OpLInit(j) \/ OpLDone(j) \/ OpLDel(j) \/ OpLCompNull(j) \/ OpLType(j) \/ OpLShow(j)
                            \/ OpLLock(j) \/ OpLTry(j) \/ OpLUnlock(j) \/ OpLSignal(j) \/ OpLBcast(j) \/ OpLTWait(j)
                            \/ \E k \in Slots : OpLDup(j, k) \/ OpLComp(j, k)
Spec == Init /\ [][Next]_vars

TypeOK == /\ th \in [Slots -> {"none", "plain", "func", "run", "rund"}]
          /\ \A j \in Slots : lo[j].lk \in BOOLEAN /\ lo[j].cr \in {0, 1, 2, 9}
\* an empty slot is never locked; a creator link always names a live thread object
WellFormed == \A j \in Slots : /\ (Empty(j) => ~lo[j].lk)
                               /\ (lo[j].cr \in {1, 2} => Live(lo[j].cr))
\* the part that is switched off never moves
Separate == (IsL => \A i \in Slots : th[i] = "none") /\ (IsT => \A j \in Slots : ~lo[j].lk)
================================================================================
