"""C07: mbuff objects are faithful byte-sequence values under any history (MBuffObj.tla)."""
import re, json, random
from vlib import build, objcheck
from vlib.core import tok, untok, Broken

PROPERTY = "C07"
LEVEL = "model_checking"
LEVEL_TEXT = ("TLC explores MBuffObj.tla exhaustively in a small scope (all histories of the public spif_mbuff_* calls on two objects over "
              "3-4 byte values incl. NUL, white space and a high-bit byte, buffers <= 4 bytes, indices/counts beyond both ends) checking the "
              "laws of the reference (searches in range and 'not found == length', cmp = lexicographic then length, refused => unchanged, "
              "independence of the two objects); EVERY transition TLC generates is then executed on real mbuff objects through the class "
              "table (ASan build of the current tree, exact-size unterminated argument copies) with bytes, length, return value and the "
              "capacity/allocation invariants compared after every step (the slack behind the length is overwritten with adversarial bytes each step), "
              "plus a sampled 2-step transition cover and random walks; recorded executions with buffers of "
              "0..20000 bytes built from regular files, files at a non-zero offset, pipes and pipes fed in pieces are validated by TLC "
              "against the same actions.")
LEVEL_NOTE = ("Bounded scope for the exhaustive part; beyond it only the recorded executions. Trusted: TLC, the harness projection "
              "(harness/mbuff_replay.c), ASan (a read between len and size of the same heap block is invisible to it; such reads show "
              "only as wrong answers). E (either accepted): the return value of (n)cmp_with_ptr with a count beyond the buffer's length and an "
              "equal prefix (EQUAL or LESS). Not claimed: a negative splice count where the two readings differ, an empty seekable input to "
              "the stream/descriptor constructors, read() errors/EINTR, sprintf beyond %s/%d/literal formats.")
TECHNIQUE = "TLA+ spec + TLC exhaustive transition cover replayed on the implementation + TLC trace validation"
DESIGN_REF = "DESIGN.md section 6 C07 (shape of C01), 8a Strings"

INIT = {"a": {"live": False, "s": []}, "b": {"live": False, "s": []}}
ALL_OPS = ("new new_from_ptr new_from_ptr_null new_from_buff new_from_buff_null new_from_fp new_from_fd append append_from_ptr "
           "append_from_ptr_null prepend prepend_from_ptr prepend_from_ptr_null splice splice_from_ptr splice_from_ptr_null trim reverse "
           "clear sprintf done reinit del index rindex find find_from_ptr cmp cmp_with_ptr ncmp ncmp_with_ptr subbuff_to_ptr subbuff dup "
           "b_new_from_ptr b_del b_append_from_ptr b_append_a b_clear b_reverse b_trim b_cmp_a b_dup_to_a").split()


def _idx_class(i, n):
    k = i + n if i < 0 else i
    if k < 0:
        r = "idx<0"
    elif k >= n:
        r = "idx=len" if k == n else "idx>len"
    elif k == 0:
        r = "idx=0"
    elif k == n - 1:
        r = "idx=len-1"
    else:
        r = "idx-mid"
    return ("neg:" if i < 0 else "") + r


def argclass(e):
    """Where in the argument/state space an edge lies (coarse, but specific enough to tell different defects apart)."""
    op, args, pre = e["op"], e["args"], e["pre"]
    slot = "b" if op.startswith("b_") else "a"
    base = op[2:] if slot == "b" else op
    s = pre[slot]["s"]
    n = len(s)
    parts = ["len=0" if n == 0 else ("len=1" if n == 1 else "len>1")]
    if base in ("index", "rindex", "clear"):
        if base != "clear":
            parts.append("present" if args[0] in s else "absent")
    elif base in ("new_from_fp", "new_from_fd"):
        parts = [args[0], "empty" if not args[1] else "nonempty"]
    elif base == "reinit":
        parts.append(args[0] + (":" + args[1] if args[1] != "-" else ""))
        parts.append("empty" if not args[2] else "nonempty")
    elif base in ("splice", "splice_from_ptr", "splice_from_ptr_null", "subbuff", "subbuff_to_ptr"):
        i, c = args[0], args[1]
        parts.append(_idx_class(i, n))
        k = i + n if i < 0 else i
        if c < 0:
            parts.append("cnt<0")
        elif c == 0:
            parts.append("cnt=0")
        elif 0 <= k < n:
            parts.append("cnt=rest" if c == n - k else ("cnt>rest" if c > n - k else "cnt<rest"))
        else:
            parts.append("cnt>0")
        if base == "splice":
            parts.append("src=" + args[2])
    elif base in ("cmp", "ncmp", "find", "append", "prepend", "cmp_a", "append_a"):
        if base in ("cmp_a", "append_a"):
            o = pre["a"]["s"]
        else:
            parts.append("src=" + args[0])
            o = s if args[0] == "self" else pre["b"]["s"]
        if base in ("cmp", "ncmp", "cmp_a"):
            m = min(n, len(o))
            parts.append("olen<len" if len(o) < n else ("olen>len" if len(o) > n else "olen=len"))
            parts.append("prefix-equal" if s[:m] == o[:m] else "prefix-differs")
            if base == "ncmp":
                parts.append("n>min" if args[1] > m else "n<=min")
    elif base in ("cmp_with_ptr", "ncmp_with_ptr"):
        t = args[0]
        nn = len(t) if base == "cmp_with_ptr" else args[1]
        parts.append("n>len" if nn > n else "n<=len")
        m = min(n, nn)
        parts.append("prefix-equal" if s[:m] == t[:m] else "prefix-differs")
    elif base in ("new_from_ptr", "new_from_buff", "append_from_ptr", "prepend_from_ptr", "find_from_ptr"):
        parts.append("arg-empty" if not args[0] else "arg-nonempty")
    return ",".join(parts)


def _detail(f):
    if f.kind == "inv":
        return re.sub(r"\d+", "N", f.got)
    if f.kind in ("crash", "hang", "exit"):
        return f.sig
    return ""


def keyfn(variant, e, f):
    variant = variant.split("/")[0]          # the scope label is not part of a finding's identity
    d = _detail(f)
    op = e["op"] if e else f.op
    return "%s.%s [%s] %s%s" % (variant, op, argclass(e) if e else "-", f.kind, ("/" + d) if d else "")


def harness(ctx):
    libdir, cflags = build.build_lib(ctx.repo)
    return build.build_harness("mbuff_replay", ["mbuff_replay.c"], libdir, cflags)


# ------------------------------------------------------------------------------------------------------------------
# direction (B): recorded executions with large buffers, validated by TLC against MBuffObjTrace

class Mirror:
    """Rough mirror of the two slots, used ONLY to choose interesting arguments (TLC is the oracle)."""

    def __init__(self):
        self.a = None
        self.b = None


SPACE = [9, 10, 11, 12, 13, 32]


def rnd_bytes(rnd, n, flavour=None):
    flavour = flavour or rnd.choice(["any", "text", "few", "blankends"])
    if flavour == "any":
        out = [rnd.randrange(256) for _ in range(n)]
    elif flavour == "text":
        out = [rnd.choice([97, 98, 99, 32, 10, 0, 233, 255]) for _ in range(n)]
    elif flavour == "few":
        out = [rnd.choice([0, 233]) for _ in range(n)]
    else:
        out = [rnd.randrange(1, 256) for _ in range(n)]
        k = min(n, rnd.randint(1, 6))
        for i in range(k):
            out[i] = rnd.choice(SPACE)
            out[n - 1 - i] = rnd.choice(SPACE)
    return out


def _ideal_trim(s):
    i, j = 0, len(s)
    while i < j and s[i] in SPACE:
        i += 1
    while j > i and s[j - 1] in SPACE:
        j -= 1
    return s[i:j]


def _dec(k):
    return [ord(ch) for ch in str(k)]


def gen_ops(rnd, m, nops, small):
    """Yields (op, args) choosing arguments near the interesting places of the CURRENT (mirrored) value."""
    out = []

    def emit(op, *args):
        out.append((op, list(args)))

    def piece(s, maxlen):
        if not s:
            return []
        k = rnd.randint(1, min(maxlen, len(s)))
        st = rnd.choice([0, len(s) - k, rnd.randint(0, len(s) - k)])
        return s[st:st + k]

    for _ in range(nops):
        a = m.a
        n = len(a)
        idxs = [0, 1, -1, n - 1, n, n + 1, -n, -n - 1, n // 2, -(n // 2), 4095, 4096, 4097, -4096]
        i = rnd.choice(idxs)
        r = rnd.random()
        if r < 0.10:
            t = rnd_bytes(rnd, rnd.choice([0, 1, 2, 5, 17] if small else [0, 1, 3, 4096, 4097]))
            if rnd.random() < 0.5:
                emit("append_from_ptr", t)
                m.a = a + t
            else:
                emit("prepend_from_ptr", t)
                m.a = t + a
        elif r < 0.22:
            # splice: mostly valid positions; negative counts only where both readings agree (idx normalises to 0)
            t = rnd_bytes(rnd, rnd.choice([0, 1, 3, 9]))
            if rnd.random() < 0.15:
                i, c = rnd.choice([0, -n]) if n else 0, -rnd.randint(0, max(0, min(n, 5)))
            else:
                k = i + n if i < 0 else i
                c = rnd.choice([0, 1, 2, max(0, n - k), max(0, n - k) + 1, max(0, n - k - 1), 4096])
            k = i + n if i < 0 else i
            cc = (k + n + c) if c < 0 else c
            form = rnd.choice(["ptr", "ptr", "b", "null", "ptrnull", "self"])
            if form == "b" and m.b is None:
                form = "ptr"
            if form == "self" and n > 3000:
                form = "ptr"
            ins = {"ptr": t, "b": m.b, "null": [], "ptrnull": [], "self": a}[form]
            if form == "ptr":
                emit("splice_from_ptr", i, c, t)
            elif form == "ptrnull":
                emit("splice_from_ptr_null", i, c, 7)
            else:
                emit("splice", i, c, form)
            if 0 <= k < n and 0 <= cc <= n - k:
                m.a = a[:k] + list(ins) + a[k + cc:]
        elif r < 0.30:
            c = rnd.choice([0, 1, 5, -1, -3, n, n + 5, 4096, -n])
            emit("subbuff_to_ptr", i, c)
        elif r < 0.42:
            present = sorted(set(a[:50] + a[-50:]))
            c = rnd.choice(present) if present and rnd.random() < 0.6 else rnd.randrange(256)
            emit(rnd.choice(["index", "rindex"]), c)
        elif r < 0.52:
            t = piece(a, 40) if rnd.random() < 0.7 else rnd_bytes(rnd, rnd.randint(0, 6))
            if t and rnd.random() < 0.2:
                t = t[:-1] + [(t[-1] + 1) % 256]
            emit("find_from_ptr", t)
        elif r < 0.64:
            # cmp_with_ptr / ncmp_with_ptr against own prefixes, own value, longer texts and texts that differ late
            k = rnd.choice([0, 1, n // 2, max(0, n - 1), n])
            t = a[:k]
            mode = rnd.random()
            if mode < 0.25:
                t = t + rnd_bytes(rnd, rnd.randint(1, 3))
            elif mode < 0.5 and t:
                t = t[:-1] + [(t[-1] + rnd.choice([1, 255])) % 256]
            if rnd.random() < 0.5:
                emit("cmp_with_ptr", t)
            else:
                emit("ncmp_with_ptr", t, rnd.choice([0, len(t), max(0, len(t) - 1), len(t) // 2]))
        elif r < 0.68:
            c = rnd.choice([0, 32, 120, 233])
            emit("clear", c)
            m.a = [c] * n
        elif r < 0.72:
            emit("reverse")
            m.a = a[::-1]
        elif r < 0.76:
            emit("trim")
            m.a = _ideal_trim(a)
        elif r < 0.86:
            if m.b is None:
                if rnd.random() < 0.5:
                    emit("dup")
                    m.b = list(a)
                elif rnd.random() < 0.5:
                    t = rnd_bytes(rnd, rnd.choice([0, 1, 4, 40]))
                    emit("b_new_from_ptr", t)
                    m.b = t
                else:
                    c = rnd.choice([0, 1, 7, -2, 5000])
                    emit("subbuff", i, c)
                    k = i + n if i < 0 else i
                    cc = n - k + c if c <= 0 else c
                    if 0 <= k < n and cc >= 0:
                        m.b = a[k:k + min(cc, n - k)]
            else:
                b = m.b
                c = rnd.choice(["b_cmp_a", "cmp", "ncmp", "find", "append", "prepend", "b_del", "b_del", "b_reverse", "b_clear", "b_trim",
                                "b_append_from_ptr", "b_append_a"])
                if c in ("cmp", "find"):
                    emit(c, rnd.choice(["b", "b", "self"]))
                elif c == "ncmp":
                    emit(c, rnd.choice(["b", "self"]), rnd.choice([0, 1, len(b), len(b) + 1, n, n + 1, min(n, len(b))]))
                elif c in ("append", "prepend"):
                    src = rnd.choice(["b", "b", "self"])
                    if src == "self" and n > 20000:
                        src = "b"
                    o = b if src == "b" else a
                    emit(c, src)
                    m.a = a + o if c == "append" else o + a
                elif c == "b_del":
                    emit(c)
                    m.b = None
                elif c == "b_reverse":
                    emit(c)
                    m.b = b[::-1]
                elif c == "b_clear":
                    emit(c, 7)
                    m.b = [7] * len(b)
                elif c == "b_trim":
                    emit(c)
                    m.b = _ideal_trim(b)
                elif c == "b_append_from_ptr":
                    t = rnd_bytes(rnd, rnd.randint(0, 5))
                    emit(c, t)
                    m.b = b + t
                elif c == "b_append_a":
                    if n + len(b) < 60000:
                        emit(c)
                        m.b = b + a
                else:
                    emit(c)
        elif r < 0.90:
            kind = rnd.choice(["lit", "s", "d", "sd"])
            t = [x for x in rnd_bytes(rnd, rnd.choice([0, 1, 6, 300]), "text") if x not in (0, 37)]
            k = rnd.choice([0, 7, -3, 42, 2147483647, -2147483647])
            emit("sprintf", kind, t, k)
            m.a = {"lit": t, "s": t, "d": _dec(k), "sd": t + [58] + _dec(k)}[kind]
        elif r < 0.94:
            ctor = rnd.choice(["init", "ptr", "buff", "fp", "fd"])
            t = [] if ctor == "init" else rnd_bytes(rnd, rnd.choice([0, 1, 5, 300] if small else [0, 1, 4096, 5000]))
            kind = rnd.choice(["file", "seek", "pipe", "pieces"]) if ctor in ("fp", "fd") else "-"
            emit("reinit", ctor, kind, t)
            m.a = t
        elif r < 0.96:
            emit("done")
            m.a = []
        else:
            emit("cmp", "self")
    return out


SIZES = [0, 1, 4095, 4096, 4097, 8193, 20000]


def gen_executions(ctx):
    """Each execution: (list of (op, args))."""
    rnd = random.Random(ctx.seed)
    execs = []
    quick = ctx.tier == "quick"
    # 1. every size x every kind of input x stream/descriptor, followed by a short history on the big value
    for n in SIZES:
        for kind in ("file", "seek", "pipe", "pieces"):
            for ctor in ("new_from_fd", "new_from_fp"):
                if n == 0 and kind in ("file", "seek"):
                    continue        # X: empty seekable input (no claim)
                m = Mirror()
                t = rnd_bytes(rnd, n)
                m.a = list(t)
                ops = [(ctor, [kind, t])] + gen_ops(rnd, m, 5 if quick else 12, small=False)
                execs.append(ops)
    # 2. pointer / buffer constructors with the same sizes
    for n in SIZES:
        m = Mirror()
        t = rnd_bytes(rnd, n)
        m.a = list(t)
        first = ("new_from_ptr", [t]) if n % 2 else ("new_from_buff", [t, rnd.choice([0, n, n + 100])])
        execs.append([first] + gen_ops(rnd, m, 6 if quick else 15, small=False))
    # 3. long histories on small and medium values
    for k in range(16 if quick else 200):
        m = Mirror()
        t = rnd_bytes(rnd, rnd.choice([0, 1, 3, 30, 300]))
        m.a = list(t)
        execs.append([("new_from_ptr", [t])] + gen_ops(rnd, m, 120 if quick else 300, small=True))
    return execs


def script_of(sid, ops):
    lines = ["S %d" % sid]
    for op, args in ops:
        lines.append("%s %s = ? ?" % (op, " ".join(tok(x) for x in args)))
    lines.append("E")
    return "\n".join(lines) + "\n"


def keyfn_free(variant, f):
    d = _detail(f)
    return "%s.%s %s%s" % (variant, f.op, f.kind, ("/" + d) if d else "")


def validate_events(ctx, events, tag):
    """TLC on MBuffObjTrace.  Returns (accepted, n_consumed, [event indexes whose return value differs])."""
    import os
    from vlib.tlc import run_tlc
    path = os.path.join(ctx.rundir, "trace-%s-%d.ndjson" % (tag, os.getpid()))
    with open(path, "w") as f:
        for e in events:
            f.write(json.dumps(e, separators=(",", ":")) + "\n")
    res = run_tlc("MBuffObjTrace.tla", "MBuffObjTrace.cfg", ctx.rundir, workers=1, timeout=1500, env={"TRACE": path}, heap="8g",
                  coverage=False)
    txt = "\n".join(res.tail)
    retbad = sorted(set(int(x) - 1 for x in re.findall(r'"RET_MISMATCH", (\d+)', txt)))
    m = re.search(r'"TRACE_REJECTED_AFTER", (\d+), "OF", (\d+)', txt)
    if m:
        return False, int(m.group(1)), retbad
    if res.ok:
        return True, len(events), retbad
    raise Broken("trace validation run failed without a verdict:\n%s" % "\n".join(res.tail[-30:]))


def record_and_validate(ctx, exe, execs, variant="direct", tag="mbuff"):
    """Runs the programs in record mode on the implementation, turns the records into events and lets TLC validate
    them against MBuffObjTrace.  Returns a dict of counters; failures are reported through ctx.report."""
    from vlib.replay import run_scripts
    texts = [script_of(k + 1, ops) for k, ops in enumerate(execs)]
    # record mode has no expected tokens to size the harness's token builders from: VH_TOKEN_MAX sizes them outside the
    # measured heap window, so executions with 20000-byte values get the heap-balance postlude too
    fails, recs, ns, nt = run_scripts(exe, [variant], texts, ctx.rundir, jobs=4, env={"VH_TOKEN_MAX": "400000"}, tag="rec-" + tag)
    bad = {}
    for f in fails:
        if f.kind == "inv" and f.got.startswith("harness:op_") and f.got.endswith("_on_absent_slot"):
            # an earlier constructor did not deliver an object: the recorded prefix goes to TLC, which rejects that event
            continue
        bad.setdefault(f.sid, f)
    for sid, f in sorted(bad.items()):
        ops = execs[sid - 1]
        opd = ops[f.step] if 0 <= f.step < len(ops) else (f.op, [])
        cls = ""
        if opd[0] in ("new_from_fd", "new_from_fp"):
            n = len(opd[1][1])
            cls = " [%s,%s]" % (opd[1][0], "n=0" if n == 0 else ("n<=4096" if n <= 4096 else "n>4096"))
        elif opd[0] == "reinit":
            n = len(opd[1][2])
            cls = " [%s:%s,%s]" % (opd[1][0], opd[1][1], "n=0" if n == 0 else ("n<=4096" if n <= 4096 else "n>4096"))
        ctx.report("trace-run %s%s" % (keyfn_free(variant, f), cls),
                   "%s: recorded execution %d failed at step %d (%s) before validation: %r" % (variant, sid, f.step, opd[0], f),
                   {"variant": variant, "harness_args": [variant], "program": ops[:max(0, f.step) + 1], "failure": repr(f),
                    "detail": f.detail})
    by = {}
    for sid, step, ret, state in recs:
        by.setdefault(sid, []).append((step, ret, state))
    events, index, pres = [], [], []
    maxlen = 0
    for sid in sorted(by):
        if sid in bad:
            continue
        events.append({"op": "reset", "args": [], "ret": True, "ca": True, "cb": True, "pa": INIT["a"], "pb": INIT["b"]})
        index.append((sid, -1))
        pres.append(INIT)
        prev = INIT
        for step, ret, state in sorted(by[sid]):
            op, args = execs[sid - 1][step]
            post = untok(state)
            ev = {"op": op, "args": args, "ret": untok(ret), "ca": post["a"] != prev["a"], "cb": post["b"] != prev["b"]}
            if ev["ca"]:
                ev["pa"] = post["a"]
            if ev["cb"]:
                ev["pb"] = post["b"]
            maxlen = max(maxlen, len(post["a"]["s"]))
            pres.append(prev)
            prev = post
            events.append(ev)
            index.append((sid, step))
    nvalid = 0
    accepted = True
    nretbad = 0
    if events:
        ok, pos, retbad = validate_events(ctx, events, tag)
        nvalid = pos
        accepted = ok

        def cls_of(k):
            try:
                return argclass({"op": events[k]["op"], "args": events[k]["args"], "pre": pres[k]})
            except Exception:
                return "-"
        for k in retbad:
            # non-blocking: the value agreed, the returned value did not (TLC went on with the rest of the trace)
            sid, step = index[k]
            nretbad += 1
            ctx.report("trace-ret %s.%s [%s]" % (variant, events[k]["op"], cls_of(k)),
                       "%s: recorded execution %s step %s: returned value %s is not the one the specification allows: %s" % (
                           variant, sid, step, json.dumps(events[k]["ret"])[:80], json.dumps(_clip(events[k]))[:400]),
                       {"variant": variant, "harness_args": [variant], "program": execs[sid - 1][:step + 1], "event_index": k})
        if not ok:
            sid, step = index[pos] if pos < len(index) else (None, None)
            evb = events[pos] if pos < len(events) else None
            opn = evb["op"] if evb else "?"
            ctx.report("trace-rejected %s.%s [%s]" % (variant, opn, cls_of(pos) if evb else "-"),
                       "%s: TLC rejects the recorded execution %s at event %d (step %s): %s" % (variant, sid, pos, step, json.dumps(evb)[:400]),
                       {"variant": variant, "harness_args": [variant], "program": execs[sid - 1][:step + 1] if sid else [],
                        "event": _clip(evb), "event_index": pos})
        else:
            ctx.sample({"variant": variant, "trace_events": len(events), "executions": len(by) - len(bad), "max_len_seen": maxlen,
                        "first_events": [json.dumps(_clip(e))[:160] for e in events[1:4]]})
    return {"executions": len(execs), "recorded": len([s for s in by if s not in bad]), "events": len(events), "accepted_events": nvalid,
            "accepted": accepted and not bad, "maxlen": maxlen, "ret_mismatches": nretbad}


def trace_validation(ctx, exe, variant="direct"):
    execs = gen_executions(ctx)
    r = record_and_validate(ctx, exe, execs, variant)
    ctx.add("trace_events_validated", r["accepted_events"])
    ctx.add("traces_validated_against_impl", r["recorded"])
    ctx.cov["trace"] = {"executions": r["executions"], "executions_recorded": r["recorded"], "events": r["events"],
                        "events_accepted": r["accepted_events"], "return_value_mismatches": r["ret_mismatches"],
                        "max_len_seen": r["maxlen"], "sizes": SIZES,
                        "input_kinds": ["file", "seek(non-zero offset)", "pipe", "pieces(forked writer)"]}


def _clip(ev):
    if ev is None:
        return None
    s = json.dumps(ev)
    return ev if len(s) < 2000 else {"op": ev.get("op"), "ret": ev.get("ret") if len(json.dumps(ev.get("ret"))) < 200 else "...",
                                      "clipped": s[:600]}


def run(ctx):
    exe = harness(ctx)
    # quick: one scope.  thorough: two scopes - 4 byte values / buffers <= 4 / B <= 2, and 3 byte values / buffers <= 5 / B <= 1
    # with wider index and count ranges (the graphs are processed one after the other to bound memory)
    scopes = [("table", "MBuffObj_quick.cfg")] if ctx.tier == "quick" else [("table", "MBuffObj_thorough.cfg"),
                                                                             ("table/len5", "MBuffObj_thorough2.cfg")]
    walks = (300, 40) if ctx.tier == "quick" else (3000, 60)
    per_op = {}
    for variant, cfg in scopes:
        g, res = objcheck.tlc_graph(ctx, "MC_MBuffObj.tla", cfg, workers=3, timeout=2400)
        seen = {}
        for _, _, e in g.edges:
            seen[e["op"]] = seen.get(e["op"], 0) + 1
        # vacuity: every call of the interface must occur among the generated transitions of every scope
        missing = [o for o in ALL_OPS if not seen.get(o)]
        if missing:
            raise Broken("vacuity: no transition generated for %s in %s" % (missing, cfg))
        for k, v in seen.items():
            per_op[k] = per_op.get(k, 0) + v
        objcheck.replay_cover(ctx, g, [tok(INIT)], exe, variant, ["table"], keyfn, walks=walks, jobs=4,
                              pairs=60000 if ctx.tier == "quick" else 400000)
        del g
    ctx.cov["edges_per_op"] = dict(sorted(per_op.items()))
    trace_validation(ctx, exe)
    ctx.cov["exhaustive"] = True
    ctx.cov["rule"] = ("every transition TLC generates for MBuffObj in the bounded scope is executed once (through the class table) as the "
                       "last step of a script whose prefix consists of already verified transitions; bytes, length, return value and "
                       "representation invariants (buff==NULL => len=size=0, size>=len, allocation>=size) are compared after every step "
                       "and the heap balance at the end of every script; the slack bytes between len and size are overwritten with adversarial "
                       "content after every step; plus a sampled 2-step cover (verified state-changing edge followed by every edge "
                       "enabled behind it), random walks, and TLC validation of recorded executions")
    ctx.assumptions += ["ASan build of the current tree (clang -O1), arguments are exact-size heap copies without terminator",
                        "DEBUG_LEVEL 0; NULL object arguments are C16's subject, not exercised here (NULL pointers are)"]


def replay(ctx, path):
    d = json.load(open(path))
    rp = d.get("replay") or {}
    exe = harness(ctx)
    if rp.get("program"):
        # a recorded execution: run it again in record mode and let TLC judge the events
        ops = [(o, a) for o, a in rp["program"]]
        r = record_and_validate(ctx, exe, [ops], rp.get("variant", "direct"), tag="replay")
        for k in sorted(ctx.violations):
            print("REPRODUCED", k, "::", ctx.violations[k][0][:600])
        if not ctx.violations and not ctx.known_hit:
            print("not reproduced: %d events recorded and accepted by TLC" % r["accepted_events"])
        for k in sorted(ctx.known_hit):
            print("REPRODUCED (known finding)", k)
        return 1 if (ctx.violations or ctx.known_hit) else 0
    return objcheck.replay_file(exe, [], path, ctx.rundir)
