SPECIFICATION Spec
CONSTANTS
  U <- UThorough
  Obs <- ObsEmit
CONSTRAINT ConstraintThorough
INVARIANTS TypeOK QueriesInRange SubstrLaw SpliceLaw CmpLaw ShapeLaw EmptyLaw NumLaw
PROPERTY SlotIndependence
CHECK_DEADLOCK FALSE
