SPECIFICATION TraceSpec
CONSTANTS
  Configs <- TraceConfigs
  CapMod = 65536
  LineMax = 20479
  AlphaOf <- NoAlpha
  Sc <- ScTrace
  Obs <- ObsTrace
INVARIANTS IndexBelowCapacity IndicesMirrorStacks InnermostContext StateThreaded StacksRestored
POSTCONDITION TraceAccepted
CHECK_DEADLOCK FALSE
