"""C06: every allocation is released exactly once across any object history (Ownership.tla + heap balance postlude)."""
import re, json
from vlib import build, objcheck
from vlib.core import tok

PROPERTY = "C06"
LEVEL = "model_checking"
LEVEL_TEXT = ("TLC explores Ownership.tla exhaustively: every program over 2-3 caller-created objects that gives them to a container, "
              "takes them back, borrows them, copies the container, takes listings (into no / a fresh / a copied-empty / an emptied / a done() / "
              "a non-empty destination list), arrays and iterators, stores composite values (url, pair, list) and hands the map back the "
              "value it returned or a component of it, empties, deletes and re-creates the "
              "container in ANY order (ledger invariants FreedIsFinal, ContFreesOnlyItsOwn, DeletedOwnsNothing).  Every transition is "
              "executed on the real list, vector and map classes (3 implementations each, ASan build): after every step every object the "
              "ledger says the program owns is read (use-after-free = violation), container contents are compared BY IDENTITY, and at the "
              "end of every script exactly what the ledger says the program owns is deleted and the live heap must be back at its "
              "starting value (leak / double free = violation).  The same per-script heap balance is enforced on every script of the "
              "other object checks (C01-C05, C07, C12, C14).")
LEVEL_NOTE = ("Bounded programs (2-3 objects in the quick tier, 4 in the thorough tier, at most 2 held listings/arrays/pairs); heap balance measured per script with "
              "__sanitizer_get_current_allocated_bytes.  Trusted: TLC, ASan, the harness ledger (harness/own_replay.c).")
TECHNIQUE = "TLA+ ownership ledger + TLC exhaustive transition cover replayed on the implementation under ASan with per-script heap balance"
DESIGN_REF = "DESIGN.md section 6 C06"

CLASSES = ["array", "linked_list", "dlinked_list"]
NA = {"seq": ["OpSetSame", "OpSetPart", "OpSet", "OpMapGet", "OpMapRemove", "OpDelPair", "OpListing", "OpDelListing"],
      "vec": ["OpSetSame", "OpSetPart", "OpSet", "OpMapGet", "OpMapRemove", "OpDelPair", "OpListing", "OpDelListing", "OpGiveRefused"],
      "map": ["OpNullProbe", "OpGive", "OpGiveRefused", "OpTakeBack", "OpTakeFirst", "OpLend", "OpToArray", "OpFreeArray"]}
VALS = {2: "0,1", 3: "0,0,1", 4: "0,0,1,1"}      # handles carrying EQUAL values: identity vs equality; 0 = the empty text


def init(n):
    return {"own": ["none"] * n, "cont": "live", "order": [], "keys": [], "copy": "none",
            "held": {"pairs": 0, "lists": 0, "arrays": 0, "iters": 0}}


def keyfn(variant, e, f):
    d = ""
    if f.kind == "inv":
        d = re.sub(r"\d+", "N", f.got)
    elif f.kind in ("crash", "hang", "exit"):
        d = f.sig
    cl = ""
    if e:
        pre = e["pre"]
        cl = "%s,copy=%s,n=%d" % (pre["cont"], pre["copy"], len(pre["order"]) + len(pre["keys"]))
    return "%s.%s [%s] %s%s" % (variant, e["op"] if e else f.op, cl, f.kind, ("/" + d) if d else "")


def harness(ctx):
    libdir, cflags = build.build_lib(ctx.repo)
    return build.build_harness("own_replay", ["own_replay.c"], libdir, cflags)


def run(ctx):
    exe = harness(ctx)
    walks = (200, 40) if ctx.tier == "quick" else (3000, 80)
    for kind in ("seq", "vec", "map"):
        n = 4 if ctx.tier != "quick" else (3 if kind != "map" else 2)
        g, res = objcheck.tlc_graph(ctx, "MC_Ownership.tla", "Ownership_%s_%d.cfg" % (kind, n), ignore_untaken=NA[kind], workers=4)
        for cls in CLASSES:
            objcheck.replay_cover(ctx, g, [tok(init(n))], exe, "%s/%s" % (kind, cls), [kind, cls, VALS[n]], keyfn, walks=walks,
                                  pairs=(20000 if ctx.tier == "quick" else 400000))
            if kind == "map" and n < 4:
                # the same programs with COMPOSITE values (the map's copy is a url / a pair / a list; set_part hands the map a
                # component of the value it holds)
                for vk in ("url", "pair", "list"):
                    objcheck.replay_cover(ctx, g, [tok(init(n))], exe, "%s/%s/%s-values" % (kind, cls, vk), [kind, cls, VALS[n] + ":" + vk],
                                          keyfn, walks=(walks[0] // 4, walks[1]), pairs=(5000 if ctx.tier == "quick" else 100000))
    if ctx.tier != "quick":
        # composite values in the 3-handle scope
        g, res = objcheck.tlc_graph(ctx, "MC_Ownership.tla", "Ownership_map_3.cfg", ignore_untaken=NA["map"], workers=4)
        for cls in CLASSES:
            for vk in ("url", "pair", "list"):
                objcheck.replay_cover(ctx, g, [tok(init(3))], exe, "map/%s/%s-values" % (cls, vk), ["map", cls, VALS[3] + ":" + vk],
                                      keyfn, walks=(walks[0] // 4, walks[1]), pairs=100000)
    # the small value classes (pairs, tokenizers, URLs, regexps): SmallObj.tla lifecycles with per-script heap balance
    from checks import c05
    c05.small_objects(ctx)
    # dup of str / ustr / mbuff values held with spare capacity, incl. the EMPTY value that owns a buffer: the copy owns its own
    # storage (nothing is released twice when both are deleted)
    c05.cmp_tables(ctx, probes_only=True)
    # str / ustr: size sweeps, long sprintf outputs into strings that already own a buffer, strings with spare capacity - with a
    # per-call heap account (checks/c01.py, harness/str_replay.c)
    from checks import c01
    c01.heap_families(ctx)
    # mbuff: constructors under read-fault schedules (short read / EINTR / EAGAIN / ECONNRESET / EIO at the k-th call on files
    # and pipes) recorded with the heap balance on and validated by TLC against MBuffObjTrace (checks/c07.py): a refused
    # constructor must leave nothing allocated
    import random
    from checks import c07
    cnt = c07.record_and_validate(ctx, c07.harness(ctx), c07.fault_execs(random.Random(ctx.seed), ctx.tier == "quick"), tag="c06-mbuff-faults")
    ctx.cov["mbuff_fault_executions"] = cnt if isinstance(cnt, (int, dict)) else str(cnt)
    # mbuff: the copy family (origins with seven kinds of hidden state x dup x first mutation of either object, incl. the
    # self-aliased mutators append/prepend/splice(m, .., m)) recorded with the heap balance on and validated against MBuffObjTrace
    cnt2 = c07.record_and_validate(ctx, c07.harness(ctx), c07.copy_execs(random.Random(ctx.seed + 1), ctx.tier == "quick"), tag="c06-mbuff-copies")
    ctx.cov["mbuff_copy_executions"] = cnt2 if isinstance(cnt2, (int, dict)) else str(cnt2)
    ctx.cov["exhaustive"] = True
    ctx.cov["rule"] = "every transition of Ownership.tla in scope, once per container kind and class, with heap balance per script"
    ctx.assumptions += ["objects are spif_str; ASan build of the current tree (clang -O1)"]


def replay(ctx, path):
    if (json.load(open(path)).get("replay") or {}).get("check") == "c01":      # a str/ustr heap-accounted run (c01.heap_families)
        from checks import c01
        return c01.replay(ctx, path)
    return objcheck.replay_file(harness(ctx), [], path, ctx.rundir)
