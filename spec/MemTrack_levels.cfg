SPECIFICATION Spec
CONSTANTS
  Ids = {1, 2, 3}
  Sizes = {0, 8, 24}
  Sites = {1, 4}
  StrLens = {0, 5}
  CallocShapes <- ShapesQuick
  SrcOffsets = {0, 1}
  CallocWraps <- WrapsAll
  HugeSizes <- HugeAll
  Levels = {0, 6}
  Obs <- ObsEmit
INVARIANTS TypeOK TableIsLiveSet UnknownPointerNoChange ReallocNullAllocates ReallocZeroFrees ReallocKeepsOthers RefusedChangesNothing
PROPERTY LevelConstant
CHECK_DEADLOCK FALSE
