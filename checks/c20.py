"""C20: debug output and assertions are gated exactly by compile-time and runtime levels (DebugGate.tla)."""
import os, re, json, random, subprocess
from collections import deque
from vlib import build, objcheck
from vlib.core import tok, Broken, log

PROPERTY = "C20"
LEVEL = "exploration"
LEVEL_TEXT = ("Exhaustive over a finite matrix: TLC enumerates DebugGate.tla (compile-time DEBUG 0..5 x runtime level 0..6 x silent x 24 "
              "statements of the D_*/DPRINTFn/ASSERT/REQUIRE/printer family), checks the laws of the stated rule and emits the allowed "
              "outcome (stream output class, argument evaluations, control) of every cell; a probe translation unit with one function "
              "per statement is compiled against the current headers once per DEBUG value and linked with the current msgs.c/debug.c "
              "built the same way; every cell runs in a forked child with fd 2 captured, along a walk that also takes every "
              "set-level / set-silent transition of the specification.")
LEVEL_NOTE = ("The matrix is finite and fully enumerated; the claim is about these 24 statements (not DPRINTF7-9, ASSERT_NOTREACHED, "
              "ABORT, MOO). Where the statement is silent (are the arguments of a live but silenced D_* statement evaluated?) both "
              "outcomes are accepted. Trusted: TLC, harness/dbg_probe.c, clang.")
TECHNIQUE = "TLA+ spec + TLC enumeration of the configuration matrix + execution of every cell on probe builds"
DESIGN_REF = "DESIGN.md section 6 C20"


def cell_class(d, r, s, m):
    """Coarse class of a cell for finding keys (the exact cell is in the replay file)."""
    lv = {"D_OPTIONS": 1, "D_OBJ": 2, "D_CONF": 3, "D_MEM": 5, "D_STRINGS": 9999, "D_PARSE": 9999}
    if m in lv or m.startswith("DPRINTF"):
        L = lv.get(m) or int(m[-1])
        dl = L if m in lv else 1
        g = "compiled-out" if d < dl else ("runtime-off" if r < L else "live")
    else:
        g = ("D=0" if d == 0 else "D>=1") + "," + ("R=0" if r == 0 else "R>=1")
    return "%s,%s" % (g, "silent" if s else "loud")


def make_walk(edges_by_state, macros, rnd, revisit=2):
    """A walk from (r=0, silent=F) taking every set_level / set_silent transition; all statements at the first visit of a
    configuration, two random ones at later visits."""
    cur = (0, False)
    todo = {st: set(e) for st, e in edges_by_state.items()}
    script, seen = [], set()

    def visit(st):
        if st not in seen:
            seen.add(st)
            for m in macros:
                script.append(("X", m))
        else:
            for m in rnd.sample(macros, revisit):
                script.append(("X", m))
    visit(cur)
    while any(todo.values()):
        if not todo[cur]:
            # shortest path (over all set edges) to a configuration with an untaken edge
            prev = {cur: None}
            q = deque([cur])
            goal = None
            while q:
                u = q.popleft()
                if todo[u]:
                    goal = u
                    break
                for (op, a, v) in sorted(edges_by_state[u]):           # sorted: the walk must not depend on set iteration order
                    if v not in prev:
                        prev[v] = (u, op, a)
                        q.append(v)
            if goal is None:
                raise Broken("configuration graph not connected")
            path = []
            while prev[goal] is not None:
                u, op, a = prev[goal]
                path.append((op, a, goal))
                goal = u
            for op, a, v in reversed(path):
                script.append(("L" if op == "set_level" else "S", a))
                cur = v
                visit(cur)
            continue
        op, a, v = sorted(todo[cur], key=lambda x: (x[0], int(x[1])))[0]
        todo[cur].discard((op, a, v))
        script.append(("L" if op == "set_level" else "S", a))
        cur = v
        visit(cur)
    return script


def run(ctx):
    cfg = "DebugGate_quick.cfg" if ctx.tier == "quick" else "DebugGate_thorough.cfg"
    g, res = objcheck.tlc_graph(ctx, "MC_DebugGate.tla", cfg, workers=2)
    allowed = {}          # (d, r, silent, statement) -> set of (out, eval, ctl)
    setedges = {}         # d -> {(r, silent): set((op, arg, (r', silent')))}
    for _, _, e in g.edges:
        p, q = e["pre"], e["post"]
        if e["op"] == "execute":
            o = e["ret"]
            allowed.setdefault((p["d"], p["r"], p["silent"], e["args"][0], e["args"][1]), set()).add((o["out"], o["eval"], o["ctl"]))
        else:
            a = e["args"][0]
            setedges.setdefault(p["d"], {}).setdefault((p["r"], p["silent"]), set()).add((e["op"], int(a), (q["r"], q["silent"])))
            if e["op"] == "set_silent" and e["ret"] != a:
                raise Broken("spec: set_silent returns the new value")
    macros = sorted({(k[3], k[4]) for k in allowed})          # (statement, stream history)
    ds = sorted(setedges)
    if len(macros) != 2 * 28 or len(ds) != 6:
        raise Broken("matrix incomplete: %d statements, %d compile-time levels" % (len(macros), len(ds)))
    rnd = random.Random(ctx.seed)
    executed = 0
    distinct = set()
    nontrivial = set()
    set_taken = 0
    for d in ds:
        libdir, cflags = build.build_lib(ctx.repo, debug_level=d)
        exe = build.build_harness("dbg_probe-d%d" % d, ["dbg_probe.c"], libdir, cflags)
        script = make_walk(setedges[d], macros, rnd, revisit=2 if ctx.tier == "quick" else len(macros))
        path = os.path.join(ctx.rundir, "dbg-%d.txt" % d)
        with open(path, "w") as f:
            for c, a in script:
                f.write("%s\n" % cmd_text(c, a))
        from vlib.replay import ASAN_OPTS
        env = dict(os.environ, ASAN_OPTIONS=ASAN_OPTS, LC_ALL="C")
        try:
            r = subprocess.run([exe, path], capture_output=True, env=env, timeout=300, cwd=ctx.rundir)
        except subprocess.TimeoutExpired:
            raise Broken("dbg_probe DEBUG=%d timed out" % d)
        out = r.stdout.decode("latin-1").splitlines()
        if r.returncode != 0 or not out or out[-1] != "DONE" or out[0] != "BUILD DEBUG=%d" % d:
            raise Broken("dbg_probe DEBUG=%d failed rc=%s first=%r last=%r stderr=%s" % (d, r.returncode, out[:1], out[-1:], r.stderr.decode("latin-1")[-500:]))
        lines = out[1:-1]
        if len(lines) != len(script):
            raise Broken("dbg_probe DEBUG=%d: %d commands, %d answers" % (d, len(script), len(lines)))
        cur_r, cur_s = 0, False
        for (c, a), line in zip(script, lines):
            w = line.split()
            if c == "L":
                set_taken += 1
                cur_r = int(a)
                if w != ["L", str(int(a))]:
                    ctx.report("set_level readback", "DEBUG=%d: %r after setting level %s" % (d, line, a), {"debug": d, "script": script_text(script)})
                continue
            if c == "S":
                set_taken += 1
                cur_s = bool(a)
                if w != ["S", str(int(a)), str(int(a))]:
                    ctx.report("set_silent return value", "DEBUG=%d: %r" % (d, line), {"debug": d, "script": script_text(script)})
                continue
            f = dict(x.split("=", 1) for x in w[2:])
            obs = (f["out"], int(f["eval"]), f["ctl"])
            a, hist = a
            if (w[0] == "Y") != (hist == "after_failed_write") or w[1] != a:
                raise Broken("dbg_probe answered %r to %r" % (line, (a, hist)))
            if w[0] == "Y" and f.get("ferr") != "1":
                raise Broken("the failed write on stderr could not be provoked (DEBUG=%d %s)" % (d, line))
            cell = (d, cur_r, cur_s, a, hist)
            executed += 1
            distinct.add(cell)
            if obs != ("none", 0, "falls"):
                nontrivial.add(cell)
            ok = obs in allowed[cell]
            why = ""
            if ok and f["out"] != "none" and f["text"] != "1":
                ok, why = False, " (stream output without the statement's own message)"
            if ok and f["ctl"] == "returns" and f["val"] != "7":
                ok, why = False, " (returned %s, not the stated failure value 7)" % f["val"]
            if ok and f["ctl"] == "exits" and f["status"] in ("0", "-1"):
                ok, why = False, " (process ended with status %s, not through the fatal-error path)" % f["status"]
            if not ok:
                exp = sorted(allowed[cell])
                key = "%s%s [%s] out=%s%s eval=%s ctl=%s" % (a, "" if hist == "clean" else "/after-failed-write", cell_class(d, cur_r, cur_s, a), f["out"],
                                                           "/no-text" if (f["out"] != "none" and f["text"] != "1") else "", f["eval"], re.sub(r"\d+", "N", f["ctl"]))
                ctx.report(key, "DEBUG=%d runtime level %d silent=%s statement %s (stream history: %s): observed %s%s; allowed by the rule: %s" % (
                    d, cur_r, cur_s, a, hist, line, why, exp),
                    {"debug": d, "level": cur_r, "silent": cur_s, "statement": a, "history": hist, "observed": line, "allowed": [list(x) for x in exp],
                     "script": "L %d\nS %d\n%s %s\n" % (cur_r, int(cur_s), "X" if hist == "clean" else "Y", a)})
        if d == ds[-1]:
            ctx.sample({"debug": d, "first_commands": [cmd_text(*x) for x in script[:3]], "first_answers": lines[:3]})
    missing = set(allowed) - distinct
    if missing:
        raise Broken("%d cells of the matrix were not executed, e.g. %s" % (len(missing), sorted(missing)[:3]))
    nset = sum(len(v) for dd in setedges.values() for v in dd.values())
    if set_taken < nset:
        raise Broken("walks took %d set transitions, specification has %d" % (set_taken, nset))
    ctx.add("evaluations", executed)
    ctx.cov["distinct_nontrivial"] = len(nontrivial)
    ctx.cov["distinct_cells"] = len(distinct)
    ctx.cov["cells_in_matrix"] = len(allowed)
    ctx.cov["cells_with_two_allowed_outcomes"] = sum(1 for v in allowed.values() if len(v) > 1)
    ctx.cov["set_transitions_taken"] = set_taken
    ctx.cov["exhaustive"] = True
    ctx.cov["rule"] = ("every cell (DEBUG 0..5, runtime level 0..6, silent, statement) of the matrix TLC enumerates is executed at least once in a "
                       "forked child of a probe built with that DEBUG, observed (stream class, evaluations of the argument, control) and "
                       "compared with the outcomes the specification allows (the diagnostic of a failed ASSERT/REQUIRE must contain the expression text verbatim); a cell is counted non-trivial when something observable happens "
                       "(output, an evaluation, a return or an exit); distinct = distinct cells")
    ctx.sample({"cell": "DEBUG=5 R=5 loud D_MEM after a failed write on the stream", "allowed": [list(x) for x in sorted(allowed[(5, 5, False, "D_MEM", "after_failed_write")])]})
    ctx.sample({"cell": "DEBUG=4 R=1 silent ASSERT_RVAL_fail", "allowed": [list(x) for x in sorted(allowed[(4, 1, True, "ASSERT_RVAL_fail", "clean")])]})
    ctx.assumptions += ["probe and library compiled with clang from the current tree with a shim config.h per DEBUG value",
                        "stream output is classified by its marker (FATAL: / Warning: / Error: / other = debug)"]


def cmd_text(c, a):
    if c == "X":
        return "%s %s" % ("X" if a[1] == "clean" else "Y", a[0])
    return "%s %d" % (c, int(a))


def script_text(script):
    return "".join(cmd_text(c, a) + "\n" for c, a in script)


def replay(ctx, path):
    rp = (json.load(open(path)).get("replay") or {})
    d = rp.get("debug")
    libdir, cflags = build.build_lib(ctx.repo, debug_level=d)
    exe = build.build_harness("dbg_probe-d%d" % d, ["dbg_probe.c"], libdir, cflags)
    sp = os.path.join(ctx.rundir, "replay.txt")
    open(sp, "w").write(rp.get("script", ""))
    from vlib.replay import ASAN_OPTS
    r = subprocess.run([exe, sp], capture_output=True, env=dict(os.environ, ASAN_OPTIONS=ASAN_OPTS, LC_ALL="C"), timeout=300)
    out = r.stdout.decode("latin-1")
    print(out)
    same = rp.get("observed") and rp["observed"] in out.splitlines()
    print("REPRODUCED" if same else "not reproduced (allowed: %s)" % rp.get("allowed"))
    return 1 if same else 0
