SPECIFICATION Spec
CONSTANTS
  Names <- NamesQuick
  Vers <- VersThorough
  Msgs <- MsgsOne
  MacroMsgs <- MacroMsgsQuick
  Levels <- LevelsZero
  Clocks <- ClocksQuick
  Sites <- SitesOne
  Macros <- MacrosNone
  D = 4
  Extras = TRUE
  AsBuilt = FALSE
  Obs <- ObsEmit
INVARIANTS TypeOK OwnershipSound NoLeak NoNullDeref NoUseAfterFree NoRecursion SetIdempotent SilentWritesNothing PrefixLaw
CHECK_DEADLOCK FALSE
