--------------------------------- MODULE Quote ---------------------------------
(* C12: the ONE quoting grammar behind spiftool_split, spif_tok_eval and the word utilities        *)
(* (spiftool_num_words / get_word / get_pword) and spiftool_join.                                  *)
(*                                                                                                 *)
(* Texts are sequences of character codes (TLC strings are atomic).  The tokenizer is a            *)
(* character-level step machine: state (pos, quote, cur, toks, intok) over an input s and a        *)
(* delimiter set d, one action per scanner step.  The same step function, iterated, is the pure    *)
(* operator Split(d, s) used in the laws.  Rule kinds (DESIGN.md 3):                               *)
(*   S = stated by the property, C = as-built convention where the statement is silent.            *)
(*                                                                                                 *)
(* S  tokens are separated by runs of delimiters (white space when no delimiter set is given)      *)
(* S  single and double quotes group and are removed                                               *)
(* S  a backslash makes a following delimiter, or the closing quote (inside quotes), literal       *)
(* S  an empty quoted string is an empty token                                                     *)
(* C  inside quotes the OTHER quote character is an ordinary character                             *)
(* C  a backslash before anything else (another backslash, a quote while no quote is open, the     *)
(*    end of the text) is an ordinary character                                                    *)
(* C  an unterminated quote runs to the end of the text                                            *)
(* C  adjacent quoted / unquoted pieces belong to one token (a"b c"d is one token)                 *)
(* C  the backslash of an escaped delimiter is dropped inside quotes as well                       *)
EXTENDS Integers, Sequences, FiniteSets, TLC, Json

CONSTANTS Alphabet,         \* character codes offered to the input enumeration
          MaxLen,           \* longest enumerated input
          DelimSets,        \* delimiter strings offered; <<>> = "no delimiter set" = white space
          Obs(_, _, _, _)   \* observation hook (op, args, ret, post)

VARIABLES s, d,             \* the input text and delimiter string of this behaviour
          pos,              \* 1-based scanner position; Len(s)+1 is the terminator
          quote,            \* 0 or the code of the open quote character
          cur,              \* characters of the token being built
          toks,             \* finished tokens
          intok,            \* a token has been started (it may still be empty: "")
          done
vars == <<s, d, pos, quote, cur, toks, intok, done>>

\* S: every operation specified here is a pure function of its arguments.  The library's run-time debug level is a
\* process-wide switch (>= 1: a failed ASSERT exits the process; >= 3 and >= 5: trace statements); it is a DIMENSION of every
\* case - each emitted case is executed at every level of DebugLevels and must yield the same result, buffers and return
\* values, and never terminate the process - and not a parameter of any result.
DebugLevels == <<0, 1, 3, 5>>
SP == 32   TAB == 9   NL == 10   SQ == 39   DQ == 34   BS == 92   NUL == 0
IsSpace(c) == c \in {32, 9, 10, 11, 12, 13}          \* C locale isspace()
IsQuoteCh(c) == c = SQ \/ c = DQ
IsDelim(dd, c) == IF dd = <<>> THEN IsSpace(c) ELSE \E k \in 1 .. Len(dd) : dd[k] = c
\* the only way the reference looks at its input: position Len+1 is the terminator, nothing lies behind it
At(ss, k) == IF k <= Len(ss) THEN ss[k] ELSE IF k = Len(ss) + 1 THEN NUL ELSE Assert(FALSE, <<"read past the terminator", ss, k>>)

Min(S) == CHOOSE x \in S : \A y \in S : x <= y
Max(S) == CHOOSE x \in S : \A y \in S : x >= y

------------------------------------------------------------------------------------------
(* the scanner step function: which rule applies in a scanner state, and the state it leads to *)
St0 == [pos |-> 1, quote |-> 0, cur |-> <<>>, toks |-> <<>>, intok |-> FALSE, done |-> FALSE]

\* The special characters are a parameter of the scanner: spiftool_split and the word utilities use the stock ones, a tok object
\* carries its own (spif_tok_set_quote / _set_dquote / _set_escape; every initialiser AND spif_tok_done() put the stock ones back).
StockChars == [q |-> SQ, dq |-> DQ, esc |-> BS]
IsQuoteOf(cf, c) == c = cf.q \/ c = cf.dq
ScanNextC(cf, dd, ss, st) ==
    LET c == At(ss, st.pos)
        atEnd == st.pos > Len(ss)
        inTokCh == ~atEnd /\ (st.quote # 0 \/ ~IsDelim(dd, c))        \* this character belongs to a token
        n == IF atEnd THEN NUL ELSE At(ss, st.pos + 1)
        esc == inTokCh /\ c = cf.esc /\ n # NUL /\ (IsDelim(dd, n) \/ (st.quote # 0 /\ n = st.quote))
    IN
    IF st.done THEN [kind |-> "Stop", st |-> st]
    ELSE IF atEnd /\ ~st.intok THEN [kind |-> "Finish", st |-> [st EXCEPT !.done = TRUE]]
    ELSE IF st.intok /\ (atEnd \/ (st.quote = 0 /\ IsDelim(dd, c)))
         THEN [kind |-> "EndToken",                                        \* C: an open quote ends with the text
               st |-> [st EXCEPT !.toks = Append(st.toks, st.cur), !.cur = <<>>, !.intok = FALSE, !.quote = 0]]
    ELSE IF ~inTokCh THEN [kind |-> "SkipDelim", st |-> [st EXCEPT !.pos = st.pos + 1]]
    ELSE IF IsQuoteOf(cf, c) /\ st.quote = 0
         THEN [kind |-> "OpenQuote", st |-> [st EXCEPT !.quote = c, !.pos = st.pos + 1, !.intok = TRUE]]          \* S
    ELSE IF IsQuoteOf(cf, c) /\ st.quote = c
         THEN [kind |-> "CloseQuote", st |-> [st EXCEPT !.quote = 0, !.pos = st.pos + 1]]                        \* S
    ELSE IF IsQuoteOf(cf, c)
         THEN [kind |-> "OtherQuoteLiteral", st |-> [st EXCEPT !.cur = Append(st.cur, c), !.pos = st.pos + 1]]   \* C
    ELSE IF esc
         THEN [kind |-> "EscapedDelimOrQuote",                                                                   \* S
               st |-> [st EXCEPT !.cur = Append(st.cur, n), !.pos = st.pos + 2, !.intok = TRUE]]
    ELSE [kind |-> "Plain", st |-> [st EXCEPT !.cur = Append(st.cur, c), !.pos = st.pos + 1, !.intok = TRUE]]

ScanNext(dd, ss, st) == ScanNextC(StockChars, dd, ss, st)

RECURSIVE ScanRun(_, _, _)
ScanRun(dd, ss, st) == IF st.done THEN st ELSE ScanRun(dd, ss, ScanNext(dd, ss, st).st)

Split(dd, ss) == ScanRun(dd, ss, St0).toks

\* C01's ideal trim: all leading and trailing white space goes; an all-blank text becomes empty
Trim(t) == LET I == {k \in 1 .. Len(t) : ~IsSpace(t[k])} IN IF I = {} THEN <<>> ELSE SubSeq(t, Min(I), Max(I))
TokEval(dd, ss) == LET ts == Split(dd, ss) IN [i \in 1 .. Len(ts) |-> Trim(ts[i])]
\* the same with a tok object's own special characters
RECURSIVE ScanRunC(_, _, _, _)
ScanRunC(cf, dd, ss, st) == IF st.done THEN st ELSE ScanRunC(cf, dd, ss, ScanNextC(cf, dd, ss, st).st)
TokEvalC(cf, dd, ss) == LET ts == ScanRunC(cf, dd, ss, St0).toks IN [i \in 1 .. Len(ts) |-> Trim(ts[i])]

RECURSIVE JoinFrom(_, _, _)
JoinFrom(sep, ts, i) == IF i > Len(ts) THEN <<>> ELSE sep \o ts[i] \o JoinFrom(sep, ts, i + 1)
Join(sep, ts) == ts[1] \o JoinFrom(sep, ts, 2)                     \* ts # <<>>

------------------------------------------------------------------------------------------
(* the word grammar (num_words / get_word): white-space separated; a word that OPENS with a quote runs to  *)
(* the matching quote (S).  C: a backslash before either quote character is dropped and the quote is an     *)
(* ordinary character of the word; the next word may start right behind a closing quote; an unterminated    *)
(* quoted word runs to the end of the text.                                                                 *)
RECURSIVE SkipSp(_, _)
SkipSp(ss, i) == IF i <= Len(ss) /\ IsSpace(ss[i]) THEN SkipSp(ss, i + 1) ELSE i

RECURSIVE WordBody(_, _, _, _)
WordBody(ss, i, q, acc) ==       \* -> [text, next]
    LET c == At(ss, i) IN
    IF i > Len(ss) THEN [text |-> acc, next |-> i]
    ELSE IF q = 0 /\ IsSpace(c) THEN [text |-> acc, next |-> i]
    ELSE IF q # 0 /\ c = q THEN [text |-> acc, next |-> i + 1]
    ELSE IF c = BS /\ IsQuoteCh(At(ss, i + 1)) THEN WordBody(ss, i + 2, q, Append(acc, At(ss, i + 1)))
    ELSE WordBody(ss, i + 1, q, Append(acc, c))

WordAt(ss, p) ==                 \* p is at a non-blank character
    IF IsQuoteCh(ss[p]) THEN WordBody(ss, p + 1, ss[p], <<>>) ELSE WordBody(ss, p, 0, <<>>)

RECURSIVE WordsFrom(_, _)
WordsFrom(ss, i) ==
    LET p == SkipSp(ss, i) IN
    IF p > Len(ss) THEN <<>>
    ELSE LET w == WordAt(ss, p) IN <<[text |-> w.text, start |-> p, next |-> w.next]>> \o WordsFrom(ss, w.next)

Words(ss)      == WordsFrom(ss, 1)
NumWords(ss)   == Len(Words(ss))
GetWord(i, ss) == Words(ss)[i].text                      \* 1 <= i <= NumWords(ss)

\* get_pword: the i-th WHITE-SPACE separated word (S).  C: when that word opens with a quote the pointer is just
\* behind the quote; "no such word", or nothing behind that quote, is NIL.  Result is a 0-based offset into ss.
NIL == -1
WsStarts(ss) == {k \in 1 .. Len(ss) : ~IsSpace(ss[k]) /\ (k = 1 \/ IsSpace(ss[k - 1]))}
NthSmallest(S, i) == CHOOSE x \in S : Cardinality({y \in S : y < x}) = i - 1
GetPWord(i, ss) ==
    LET W == WsStarts(ss) IN
    IF i < 1 \/ i > Cardinality(W) THEN NIL
    ELSE LET p == NthSmallest(W, i)
             p2 == IF IsQuoteCh(ss[p]) THEN p + 1 ELSE p
         IN IF p2 > Len(ss) THEN NIL ELSE p2 - 1

------------------------------------------------------------------------------------------
(* the step machine *)
Cur == [pos |-> pos, quote |-> quote, cur |-> cur, toks |-> toks, intok |-> intok, done |-> done]
\* (each action spells out the same three lines so that TLC's coverage reports one count per scanner rule)
Goto(st) == /\ pos' = st.pos /\ quote' = st.quote /\ cur' = st.cur /\ toks' = st.toks
            /\ intok' = st.intok /\ done' = st.done /\ UNCHANGED <<s, d>>
SkipDelim ==            LET r == ScanNext(d, s, Cur) IN r.kind = "SkipDelim" /\ Goto(r.st)
OpenQuote ==            LET r == ScanNext(d, s, Cur) IN r.kind = "OpenQuote" /\ Goto(r.st)
CloseQuote ==           LET r == ScanNext(d, s, Cur) IN r.kind = "CloseQuote" /\ Goto(r.st)
OtherQuoteLiteral ==    LET r == ScanNext(d, s, Cur) IN r.kind = "OtherQuoteLiteral" /\ Goto(r.st)
EscapedDelimOrQuote ==  LET r == ScanNext(d, s, Cur) IN r.kind = "EscapedDelimOrQuote" /\ Goto(r.st)
Plain ==                LET r == ScanNext(d, s, Cur) IN r.kind = "Plain" /\ Goto(r.st)
EndToken ==             LET r == ScanNext(d, s, Cur) IN r.kind = "EndToken" /\ Goto(r.st)

\* everything the implementation is asked about one input (the expected outputs of the reference); the word
\* utilities and join are asked once per text (with the default delimiters)
JoinSeps == << <<>>, <<58>>, <<44, 32>> >>
Expected(dd, ss, ts) ==
    LET nw == IF dd = <<>> THEN NumWords(ss) ELSE 0 IN
    [split |-> ts,
     tok   |-> [i \in 1 .. Len(ts) |-> Trim(ts[i])],
     nw    |-> nw,
     words |-> [i \in 1 .. nw |-> GetWord(i, ss)],
     pw    |-> [i \in 1 .. nw |-> GetPWord(i, ss)],
     join  |-> IF ts = <<>> \/ dd # <<>> THEN <<>> ELSE [k \in 1 .. Len(JoinSeps) |-> Join(JoinSeps[k], ts)]]
\* the observation of a finished scan: the token list (the hook derives what it needs from it)
Finish == LET r == ScanNext(d, s, Cur) IN
          r.kind = "Finish" /\ Goto(r.st) /\ Obs("split", <<d, s>>, toks, TRUE)

InputsUpTo(n) == UNION {[1 .. k -> Alphabet] : k \in 0 .. n}
Init == /\ s \in InputsUpTo(MaxLen) /\ d \in DelimSets
        /\ pos = 1 /\ quote = 0 /\ cur = <<>> /\ toks = <<>> /\ intok = FALSE /\ done = FALSE

Next == SkipDelim \/ OpenQuote \/ CloseQuote \/ OtherQuoteLiteral \/ EscapedDelimOrQuote \/ Plain \/ EndToken \/ Finish
Spec == Init /\ [][Next]_vars

------------------------------------------------------------------------------------------
(* laws of the reference itself *)
\* the scanner never stands behind the terminator, a quote is only open inside a token (At() asserts the reads)
PosInBounds == /\ pos \in 1 .. (Len(s) + 1)
               /\ quote \in {0, SQ, DQ} /\ (quote # 0 => intok) /\ (cur # <<>> => intok)
               /\ (done => ~intok /\ pos = Len(s) + 1)
\* the machine and the operator are the same function
ScanIsSplit == done => toks = Split(d, s)

HasNo(t, C) == \A k \in 1 .. Len(t) : t[k] \notin C
PlainTok(dd, t) == t # <<>> /\ \A k \in 1 .. Len(t) : ~IsDelim(dd, t[k]) /\ ~IsQuoteCh(t[k]) /\ t[k] # BS
DelimChars(dd) == IF dd = <<>> THEN {SP, TAB} ELSE {dd[k] : k \in 1 .. Len(dd)}
\* S: joining plain tokens with a delimiter (or a run of delimiters) and splitting again returns the same tokens
SplitJoinIdentity ==
    (done /\ toks # <<>> /\ \A i \in 1 .. Len(toks) : PlainTok(d, toks[i])) =>
        \A c \in DelimChars(d) : /\ Split(d, Join(<<c>>, toks)) = toks
                                 /\ Split(d, <<c>> \o Join(<<c, c>>, toks) \o <<c>>) = toks
\* S: tok = split, token for token, modulo trimming
TokAgreesWithSplitModuloTrim ==
    done => LET tk == TokEval(d, s) IN
            /\ Len(tk) = Len(toks)
            /\ \A i \in 1 .. Len(tk) : tk[i] = Trim(toks[i]) /\ (tk[i] = <<>> \/ (~IsSpace(tk[i][1]) /\ ~IsSpace(tk[i][Len(tk[i])])))
\* S: without quotes and backslashes the tokens are exactly the maximal delimiter-free runs, in order
RunStarts(dd, ss) == {k \in 1 .. Len(ss) : ~IsDelim(dd, ss[k]) /\ (k = 1 \/ IsDelim(dd, ss[k - 1]))}
RunEnd(dd, ss, k) == Min({j \in k .. Len(ss) : j = Len(ss) \/ IsDelim(dd, ss[j + 1])})
DelimRunsSeparate ==
    (done /\ HasNo(s, {SQ, DQ, BS})) =>
        /\ Len(toks) = Cardinality(RunStarts(d, s))
        /\ \A i \in 1 .. Len(toks) : LET k == NthSmallest(RunStarts(d, s), i) IN toks[i] = SubSeq(s, k, RunEnd(d, s, k))
\* S: quotes group and are removed (one kind of quote, no backslash: no token holds a quote character, and the
\*    text between a matching pair stays in one token, delimiters included)
QuotesGroupAndAreRemoved ==
    done => \A q \in {SQ, DQ} :
        (HasNo(s, {BS, SQ + DQ - q})) =>
            /\ \A i \in 1 .. Len(toks) : HasNo(toks[i], {q})
            /\ \A a \in 1 .. Len(s), b \in 1 .. Len(s) :
                  (a < b /\ s[a] = q /\ s[b] = q /\ HasNo(SubSeq(s, a + 1, b - 1), {q})
                   /\ Cardinality({k \in 1 .. (a - 1) : s[k] = q}) % 2 = 0)
                  => \E i \in 1 .. Len(toks) : \E j \in 0 .. (Len(toks[i]) - (b - a - 1)) :
                        SubSeq(toks[i], j + 1, j + (b - a - 1)) = SubSeq(s, a + 1, b - 1)
\* S: an empty quoted string is an empty token; a backslash makes a delimiter / the closing quote literal
StatedExamples ==
    done => \A q \in {SQ, DQ}, c \in DelimChars(d) :
        /\ (s = <<q, q>>) => toks = << <<>> >>
        /\ (s = <<97, c, q, q>>) => toks = << <<97>>, <<>> >>
        /\ (s = <<q, q, c, 97>>) => toks = << <<>>, <<97>> >>
        /\ (s = <<97, BS, c, 98>>) => toks = << <<97, c, 98>> >>
        /\ (s = <<BS, c>>) => toks = << <<c>> >>
        /\ (s = <<q, 97, BS, q, 98, q>>) => toks = << <<97, q, 98>> >>
        /\ (s = <<q, 97, c, 98, q>>) => toks = << <<97, c, 98>> >>
        /\ (s = <<97, BS>>) => toks = << <<97, BS>> >>
(* COUNT classes.  The model cannot enumerate inputs with 65 536 tokens, so large counts are specified by a law that TLC checks *)
(* on the bounded universe and that the long-count cases (block B repeated k times, k up to 2^16 and beyond) instantiate:        *)
(* a block that ends with a FREE delimiter (one that the scanner consumes between tokens: not quoted, not escaped) leaves the    *)
(* scanner in its ground state, so the tokens of B^k are the tokens of B, k times - for every k, no counter or index limit.      *)
EndsWithFreeDelim(dd, ss) == /\ ss # <<>> /\ IsDelim(dd, ss[Len(ss)])
                             /\ Split(dd, SubSeq(ss, 1, Len(ss) - 1)) = Split(dd, ss)     \* the last character added nothing to a token
RECURSIVE Repeated(_, _)
Repeated(x, k) == IF k = 0 THEN <<>> ELSE x \o Repeated(x, k - 1)
RepeatLaw == (done /\ EndsWithFreeDelim(d, s)) => \A k \in 2 .. 3 : Split(d, Repeated(s, k)) = Repeated(toks, k)
\* what the long-count cases are compared with: the number of tokens and the first period (B's own tokens)
SplitRepeated(dd, bb, k) == LET ts == Split(dd, bb) IN [n |-> k * Len(ts), first |-> ts, periodic |-> TRUE]
\* the same for the word utilities (white-space grammar): a block that ends with a free blank
WordTexts(ss) == [i \in 1 .. NumWords(ss) |-> GetWord(i, ss)]
EndsWithFreeBlank(ss) == ss # <<>> /\ IsSpace(ss[Len(ss)]) /\ WordTexts(SubSeq(ss, 1, Len(ss) - 1)) = WordTexts(ss)
WordsRepeatLaw == (done /\ d = <<>> /\ EndsWithFreeBlank(s)) =>
                     LET ss == s \o s  nw == NumWords(s)  wsn == Cardinality(WsStarts(s)) IN
                     /\ WordTexts(ss) = WordTexts(s) \o WordTexts(s)
                     /\ \A i \in 1 .. wsn : GetPWord(i + wsn, ss) = (IF GetPWord(i, s) = NIL THEN NIL ELSE GetPWord(i, s) + Len(s))
\* word i of B^k, for any i up to k * NumWords(B) (the index may be beyond 2^16, 2^31 is never needed: it is reduced by the period)
WordOfRepeated(bb, i) == GetWord(((i - 1) % NumWords(bb)) + 1, bb)
PWordOfRepeated(bb, i) == LET wsn == Cardinality(WsStarts(bb))  p == GetPWord(((i - 1) % wsn) + 1, bb) IN
                          IF p = NIL THEN NIL ELSE p + ((i - 1) \div wsn) * Len(bb)
\* C: an index beyond the words.  get_word(i) for i >= NumWords + 2 and get_pword(i) for i beyond the white-space words are NIL,
\* however large i is (2^31, 2^32 + k, 2^63, ULONG_MAX: the class "huge index"); i = 0 and i = NumWords + 1 are not claimed.

\* S: the word utilities are mutually consistent
WordsConsistent ==
    (done /\ d = <<>>) =>
        LET W == Words(s) nw == NumWords(s) IN
        \* every non-blank character lies in exactly one word, words are in order, none starts on a blank
        /\ \A i \in 1 .. nw : /\ W[i].start \in 1 .. Len(s) /\ ~IsSpace(s[W[i].start])
                              /\ W[i].next \in (W[i].start + 1) .. (Len(s) + 1)
                              /\ (i < nw => W[i].next <= W[i + 1].start)
                              /\ Len(GetWord(i, s)) <= W[i].next - W[i].start
        /\ \A k \in 1 .. Len(s) : ~IsSpace(s[k]) => \E i \in 1 .. nw : W[i].start <= k /\ k < W[i].next
        /\ (nw = 0) = (\A k \in 1 .. Len(s) : IsSpace(s[k]))
        \* get_pword points into the text, at the first character of a white-space separated word or just behind its opening quote
        /\ \A i \in 1 .. (nw + 1) : LET p == GetPWord(i, s) IN
              p # NIL => /\ p \in 0 .. (Len(s) - 1)
                         /\ \/ (p + 1) \in WsStarts(s)
                            \/ (p \in WsStarts(s) /\ IsQuoteCh(s[p]))
        \* without quotes and backslashes both word notions coincide: get_word(i) is the text at get_pword(i)
        /\ HasNo(s, {SQ, DQ, BS}) =>
              /\ nw = Cardinality(WsStarts(s))
              /\ \A i \in 1 .. nw : LET p == GetPWord(i, s) w == GetWord(i, s) IN
                    p # NIL /\ w # <<>> /\ SubSeq(s, p + 1, p + Len(w)) = w /\ (p + Len(w) = Len(s) \/ IsSpace(s[p + Len(w) + 1]))
================================================================================
