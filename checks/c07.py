"""C07: mbuff objects are faithful byte-sequence values under any history (MBuffObj.tla)."""
import re, json, random
from vlib import build, objcheck
from vlib.core import tok, untok, Broken

PROPERTY = "C07"
LEVEL = "model_checking"
LEVEL_TEXT = ("TLC explores MBuffObj.tla exhaustively in a small scope (all histories of the public spif_mbuff_* calls on two objects over "
              "3-4 byte values incl. NUL, white space and a high-bit byte, buffers <= 4 bytes, indices/counts beyond both ends) checking the "
              "laws of the reference (searches in range and 'not found == length', cmp = lexicographic then length, refused => unchanged, "
              "independence of the two objects); EVERY transition TLC generates is then executed on real mbuff objects through the class "
              "table (ASan build of the current tree, exact-size unterminated argument copies) with bytes, length, return value and the "
              "capacity/allocation invariants compared after every step (the slack behind the length is overwritten with adversarial bytes each step), "
              "plus a sampled 2-step transition cover and random walks; recorded executions with buffers of "
              "0..20000 bytes built from regular files, files at a non-zero offset, pipes and pipes fed in pieces, a size sweep around "
              "8..8192 bytes with aliased arguments, every byte value in every position class, and read-fault schedules are validated "
              "by TLC against the same actions; objects of 2 GiB + 18 (thorough: also 4 GiB + 18) bytes enter the same validation in "
              "gap-compressed form (GapLaw).")
LEVEL_NOTE = ("Bounded scope for the exhaustive part; beyond it only the recorded executions. Trusted: TLC, the harness projection "
              "(harness/mbuff_replay.c), ASan (a read between len and size of the same heap block is invisible to it; such reads show "
              "only as wrong answers). E (either accepted): the return value of (n)cmp_with_ptr with a count beyond the buffer's length and an "
              "equal prefix (EQUAL or LESS). Not claimed: a negative splice count where the two readings differ, an empty seekable input to "
              "the stream/descriptor constructors, sprintf beyond %s/%d/literal formats. Read faults (short reads, EINTR, EAGAIN/ECONNRESET/EIO at "
              "the k-th call; interposed read() / custom stream) are covered by recorded executions only, with E outcomes (see MBuffObj.tla).")
TECHNIQUE = "TLA+ spec + TLC exhaustive transition cover replayed on the implementation + TLC trace validation"
DESIGN_REF = "DESIGN.md section 6 C07 (shape of C01), 8a Strings"

INIT = {"a": {"live": False, "s": []}, "b": {"live": False, "s": []}}
ALL_OPS = ("new new_from_ptr new_from_ptr_null new_from_buff new_from_buff_null new_from_fp new_from_fd append append_from_ptr "
           "append_from_ptr_null prepend prepend_from_ptr prepend_from_ptr_null splice splice_from_ptr splice_from_ptr_null trim reverse "
           "clear sprintf done reinit del index rindex find find_from_ptr cmp cmp_with_ptr ncmp ncmp_with_ptr subbuff_to_ptr subbuff dup "
           "b_new_from_ptr b_del b_append_from_ptr b_append_a b_clear b_reverse b_trim b_cmp_a b_dup_to_a").split()


def _idx_class(i, n):
    k = i + n if i < 0 else i
    if k < 0:
        r = "idx<0"
    elif k >= n:
        r = "idx=len" if k == n else "idx>len"
    elif k == 0:
        r = "idx=0"
    elif k == n - 1:
        r = "idx=len-1"
    else:
        r = "idx-mid"
    return ("neg:" if i < 0 else "") + r


def argclass(e):
    """Where in the argument/state space an edge lies (coarse, but specific enough to tell different defects apart)."""
    op, args, pre = e["op"], e["args"], e["pre"]
    slot = "b" if op.startswith("b_") else "a"
    base = op[2:] if slot == "b" else op
    s = pre[slot]["s"]
    n = len(s)
    parts = ["len=0" if n == 0 else ("len=1" if n == 1 else "len>1")]
    if base in ("index", "rindex", "clear"):
        if base != "clear":
            parts.append("present" if args[0] in s else "absent")
    elif base in ("new_from_fp", "new_from_fd"):
        parts = [args[0], "empty" if not args[1] else "nonempty"]
    elif base in ("new_fault", "reinit_fault"):
        sc = args[3]
        kinds = [("short" if sc[i] == 1 else ("eintr" if sc[i + 1] == 1 else "err")) for i in range(0, len(sc) - 1, 2) if sc[i] in (1, 2)]
        parts = [args[0] + ":" + args[1], "sched=" + ("+".join(kinds) if kinds else "none"), "n<=4096" if len(args[2]) <= 4096 else "n>4096"]
        if len(args) > 4:
            parts.append("env=" + ("hard" if args[4] else ("eintr" if args[5] else "clean")))
    elif base == "reinit":
        parts.append(args[0] + (":" + args[1] if args[1] != "-" else ""))
        parts.append("empty" if not args[2] else "nonempty")
    elif base in ("splice", "splice_from_ptr", "splice_from_ptr_null", "subbuff", "subbuff_to_ptr"):
        i, c = args[0], args[1]
        parts.append(_idx_class(i, n))
        k = i + n if i < 0 else i
        if c < 0:
            parts.append("cnt<0")
        elif c == 0:
            parts.append("cnt=0")
        elif 0 <= k < n:
            parts.append("cnt=rest" if c == n - k else ("cnt>rest" if c > n - k else "cnt<rest"))
        else:
            parts.append("cnt>0")
        if base == "splice":
            parts.append("src=" + args[2])
    elif base in ("cmp", "ncmp", "find", "append", "prepend", "cmp_a", "append_a"):
        if base in ("cmp_a", "append_a"):
            o = pre["a"]["s"]
        else:
            parts.append("src=" + args[0])
            o = s if args[0] == "self" else pre["b"]["s"]
        if base in ("cmp", "ncmp", "cmp_a"):
            m = min(n, len(o))
            parts.append("olen<len" if len(o) < n else ("olen>len" if len(o) > n else "olen=len"))
            parts.append("prefix-equal" if s[:m] == o[:m] else "prefix-differs")
            if base == "ncmp":
                parts.append("n>min" if args[1] > m else "n<=min")
    elif base in ("cmp_with_ptr", "ncmp_with_ptr"):
        t = args[0]
        nn = len(t) if base == "cmp_with_ptr" else args[1]
        parts.append("n>len" if nn > n else "n<=len")
        m = min(n, nn)
        parts.append("prefix-equal" if s[:m] == t[:m] else "prefix-differs")
    elif base in ("new_from_ptr", "new_from_buff", "append_from_ptr", "prepend_from_ptr", "find_from_ptr"):
        parts.append("arg-empty" if not args[0] else "arg-nonempty")
    return ",".join(parts)


def _detail(f):
    if f.kind == "inv":
        return re.sub(r"\d+", "N", f.got)
    if f.kind in ("crash", "hang", "exit"):
        return f.sig
    return ""


def keyfn(variant, e, f):
    variant = variant.split("/")[0]          # the scope label is not part of a finding's identity
    d = _detail(f)
    op = e["op"] if e else f.op
    return "%s.%s [%s] %s%s" % (variant, op, argclass(e) if e else "-", f.kind, ("/" + d) if d else "")


def harness(ctx):
    libdir, cflags = build.build_lib(ctx.repo)
    return build.build_harness("mbuff_replay", ["mbuff_replay.c"], libdir, cflags, ldflags=["-Wl,--wrap=read"])


# ------------------------------------------------------------------------------------------------------------------
# direction (B): recorded executions with large buffers, validated by TLC against MBuffObjTrace

class Mirror:
    """Rough mirror of the two slots, used ONLY to choose interesting arguments (TLC is the oracle)."""

    def __init__(self):
        self.a = None
        self.b = None


SPACE = [9, 10, 11, 12, 13, 32]


def rnd_bytes(rnd, n, flavour=None):
    flavour = flavour or rnd.choice(["any", "text", "few", "blankends"])
    if flavour == "any":
        out = [rnd.randrange(256) for _ in range(n)]
    elif flavour == "text":
        out = [rnd.choice([97, 98, 99, 32, 10, 0, 233, 255]) for _ in range(n)]
    elif flavour == "few":
        out = [rnd.choice([0, 233]) for _ in range(n)]
    else:
        out = [rnd.randrange(1, 256) for _ in range(n)]
        k = min(n, rnd.randint(1, 6))
        for i in range(k):
            out[i] = rnd.choice(SPACE)
            out[n - 1 - i] = rnd.choice(SPACE)
    return out


def _ideal_trim(s):
    i, j = 0, len(s)
    while i < j and s[i] in SPACE:
        i += 1
    while j > i and s[j - 1] in SPACE:
        j -= 1
    return s[i:j]


def _dec(k):
    return [ord(ch) for ch in str(k)]


def gen_ops(rnd, m, nops, small):
    """Yields (op, args) choosing arguments near the interesting places of the CURRENT (mirrored) value."""
    out = []

    def emit(op, *args):
        out.append((op, list(args)))

    def piece(s, maxlen):
        if not s:
            return []
        k = rnd.randint(1, min(maxlen, len(s)))
        st = rnd.choice([0, len(s) - k, rnd.randint(0, len(s) - k)])
        return s[st:st + k]

    for _ in range(nops):
        a = m.a
        n = len(a)
        idxs = [0, 1, -1, n - 1, n, n + 1, -n, -n - 1, n // 2, -(n // 2), 4095, 4096, 4097, -4096]
        i = rnd.choice(idxs)
        r = rnd.random()
        if r < 0.10:
            t = rnd_bytes(rnd, rnd.choice([0, 1, 2, 5, 17] if small else [0, 1, 3, 4096, 4097]))
            if rnd.random() < 0.5:
                emit("append_from_ptr", t)
                m.a = a + t
            else:
                emit("prepend_from_ptr", t)
                m.a = t + a
        elif r < 0.22:
            # splice: mostly valid positions; negative counts only where both readings agree (idx normalises to 0)
            t = rnd_bytes(rnd, rnd.choice([0, 1, 3, 9]))
            if rnd.random() < 0.15:
                i, c = rnd.choice([0, -n]) if n else 0, -rnd.randint(0, max(0, min(n, 5)))
            else:
                k = i + n if i < 0 else i
                c = rnd.choice([0, 1, 2, max(0, n - k), max(0, n - k) + 1, max(0, n - k - 1), 4096])
            k = i + n if i < 0 else i
            cc = (k + n + c) if c < 0 else c
            form = rnd.choice(["ptr", "ptr", "b", "null", "ptrnull", "self"])
            if form == "b" and m.b is None:
                form = "ptr"
            if form == "self" and n > 3000:
                form = "ptr"
            ins = {"ptr": t, "b": m.b, "null": [], "ptrnull": [], "self": a}[form]
            if form == "ptr":
                emit("splice_from_ptr", i, c, t)
            elif form == "ptrnull":
                emit("splice_from_ptr_null", i, c, 7)
            else:
                emit("splice", i, c, form)
            if 0 <= k < n and 0 <= cc <= n - k:
                m.a = a[:k] + list(ins) + a[k + cc:]
        elif r < 0.30:
            c = rnd.choice([0, 1, 5, -1, -3, n, n + 5, 4096, -n])
            emit("subbuff_to_ptr", i, c)
        elif r < 0.42:
            present = sorted(set(a[:50] + a[-50:]))
            c = rnd.choice(present) if present and rnd.random() < 0.6 else rnd.randrange(256)
            emit(rnd.choice(["index", "rindex"]), c)
        elif r < 0.52:
            t = piece(a, 40) if rnd.random() < 0.7 else rnd_bytes(rnd, rnd.randint(0, 6))
            if t and rnd.random() < 0.2:
                t = t[:-1] + [(t[-1] + 1) % 256]
            emit("find_from_ptr", t)
        elif r < 0.64:
            # cmp_with_ptr / ncmp_with_ptr against own prefixes, own value, longer texts and texts that differ late
            k = rnd.choice([0, 1, n // 2, max(0, n - 1), n])
            t = a[:k]
            mode = rnd.random()
            if mode < 0.25:
                t = t + rnd_bytes(rnd, rnd.randint(1, 3))
            elif mode < 0.5 and t:
                t = t[:-1] + [(t[-1] + rnd.choice([1, 255])) % 256]
            if rnd.random() < 0.5:
                emit("cmp_with_ptr", t)
            else:
                emit("ncmp_with_ptr", t, rnd.choice([0, len(t), max(0, len(t) - 1), len(t) // 2]))
        elif r < 0.68:
            c = rnd.choice([0, 32, 120, 233])
            emit("clear", c)
            m.a = [c] * n
        elif r < 0.72:
            emit("reverse")
            m.a = a[::-1]
        elif r < 0.76:
            emit("trim")
            m.a = _ideal_trim(a)
        elif r < 0.86:
            if m.b is None:
                if rnd.random() < 0.5:
                    emit("dup")
                    m.b = list(a)
                elif rnd.random() < 0.5:
                    t = rnd_bytes(rnd, rnd.choice([0, 1, 4, 40]))
                    emit("b_new_from_ptr", t)
                    m.b = t
                else:
                    c = rnd.choice([0, 1, 7, -2, 5000])
                    emit("subbuff", i, c)
                    k = i + n if i < 0 else i
                    cc = n - k + c if c <= 0 else c
                    if 0 <= k < n and cc >= 0:
                        m.b = a[k:k + min(cc, n - k)]
            else:
                b = m.b
                c = rnd.choice(["b_cmp_a", "cmp", "ncmp", "find", "append", "prepend", "b_del", "b_del", "b_reverse", "b_clear", "b_trim",
                                "b_append_from_ptr", "b_append_a"])
                if c in ("cmp", "find"):
                    emit(c, rnd.choice(["b", "b", "self"]))
                elif c == "ncmp":
                    emit(c, rnd.choice(["b", "self"]), rnd.choice([0, 1, len(b), len(b) + 1, n, n + 1, min(n, len(b))]))
                elif c in ("append", "prepend"):
                    src = rnd.choice(["b", "b", "self"])
                    if src == "self" and n > 20000:
                        src = "b"
                    o = b if src == "b" else a
                    emit(c, src)
                    m.a = a + o if c == "append" else o + a
                elif c == "b_del":
                    emit(c)
                    m.b = None
                elif c == "b_reverse":
                    emit(c)
                    m.b = b[::-1]
                elif c == "b_clear":
                    emit(c, 7)
                    m.b = [7] * len(b)
                elif c == "b_trim":
                    emit(c)
                    m.b = _ideal_trim(b)
                elif c == "b_append_from_ptr":
                    t = rnd_bytes(rnd, rnd.randint(0, 5))
                    emit(c, t)
                    m.b = b + t
                elif c == "b_append_a":
                    if n + len(b) < 60000:
                        emit(c)
                        m.b = b + a
                else:
                    emit(c)
        elif r < 0.90:
            kind = rnd.choice(["lit", "s", "d", "sd"])
            t = [x for x in rnd_bytes(rnd, rnd.choice([0, 1, 6, 300]), "text") if x not in (0, 37)]
            k = rnd.choice([0, 7, -3, 42, 2147483647, -2147483647])
            emit("sprintf", kind, t, k)
            m.a = {"lit": t, "s": t, "d": _dec(k), "sd": t + [58] + _dec(k)}[kind]
        elif r < 0.94:
            ctor = rnd.choice(["init", "ptr", "buff", "fp", "fd"])
            t = [] if ctor == "init" else rnd_bytes(rnd, rnd.choice([0, 1, 5, 300] if small else [0, 1, 4096, 5000]))
            kind = rnd.choice(["file", "seek", "pipe", "pieces"]) if ctor in ("fp", "fd") else "-"
            emit("reinit", ctor, kind, t)
            m.a = t
        elif r < 0.96:
            emit("done")
            m.a = []
        else:
            emit("cmp", "self")
    return out


SIZES = [0, 1, 4095, 4096, 4097, 8193, 20000]
FAULT_OPS = ("new_fault", "reinit_fault")

# ---- round 4: extreme numeric arguments -------------------------------------------------------------------------------
HUGE = 1 << 30          # MBuffObj.tla: Huge.  An index / count / length argument beyond +-Huge is handed to the specification as +-Huge
I64MAX, I64MIN = (1 << 63) - 1, -(1 << 63)
EXTREMES = sorted(set([(1 << 31) - 1, (1 << 31) - 2, (1 << 31) - 8, 1 << 31, 1 << 32, (1 << 32) + 1, (1 << 32) + 3, 3 * (1 << 32) + 1, 1 << 40,
                       1 << 62, I64MAX, I64MAX - 1, I64MAX - 7, I64MAX - 8, I64MIN, I64MIN + 1, -1, -(1 << 31), -(1 << 31) - 1, -(1 << 32),
                       -(1 << 32) - 1, -(1 << 40), -(1 << 62)]))
# integer (index / count / length) parameters of the operations, by argument position
INT_PARAMS = {"subbuff": (0, 1), "subbuff_to_ptr": (0, 1), "splice": (0, 1), "splice_from_ptr": (0, 1), "splice_from_ptr_null": (0, 1, 2),
              "ncmp": (1,), "ncmp_with_ptr": (1,), "new_from_ptr_null": (0,), "new_from_buff": (1,), "new_from_buff_null": (0, 1),
              "append_from_ptr_null": (0,), "prepend_from_ptr_null": (0,)}


def clip_args(op, args):
    pos = INT_PARAMS.get(op)
    if not pos:
        return args, None
    out, raw = list(args), None
    for k in pos:
        v = args[k]
        if isinstance(v, int) and not isinstance(v, bool) and abs(v) > HUGE:
            out[k] = HUGE if v > 0 else -HUGE
            raw = raw or {}
            raw[str(k)] = str(v)
    return out, raw


def extreme_execs(rnd, quick):
    """EVERY integer parameter of every operation at the extreme values, crossed with small NON-ZERO values of the other
    integer parameters and a few object sizes.  The expectation comes from the same actions (argument classes +-Huge)."""
    execs = []
    for n in ([1, 5, 300] if quick else [1, 2, 5, 9, 300, 4097]):
        t = rnd_bytes(rnd, n, "any")
        small_idx = sorted(set([0, 1, 2, n - 1, -1, -2, -n, -(n - 1)]))
        small_cnt = [1, 2, 0, -1, n, n + 1]
        # INT64_MAX - k for every k up to the length: the sums idx + cnt around the wrap
        near = sorted(set([I64MAX - k for k in range(0, min(n, 12) + 2)] + [I64MIN + k for k in range(0, 3)]))
        ext = sorted(set(EXTREMES + near))
        m = Mirror()
        m.a = list(t)
        ops = [("new_from_ptr", [t])]

        def sub_model(i, c):
            L = len(m.a)
            k = i + L if i < 0 else i
            cc = L - k + c if c <= 0 else c
            return 0 <= k < L and cc >= 0

        pairs = [(i, c) for i in small_idx for c in ext] + [(i, c) for i in ext for c in small_cnt] + \
                [(i, c) for i in (I64MAX, I64MIN, 1 << 32, -(1 << 32)) for c in (I64MAX, I64MIN, 1 << 32)]
        for i, c in pairs:
            ops.append(("subbuff_to_ptr", [i, c]))
            ops.append(("subbuff", [i, c]))
            if sub_model(i, c):
                ops.append(("b_cmp_a", []))
                ops.append(("b_del", []))
        execs.append(ops)
        # splice family: the value changes only for in-range requests (none with an extreme argument is in range, except
        # that the model decides) - the mirror follows the ideal
        ops = [("new_from_buff", [t, n + 3]), ("b_new_from_ptr", [[7, 8]])]
        m.a = list(t)
        ins = [1, 2, 3]
        for i, c in pairs:
            L = len(m.a)
            k = i + L if i < 0 else i
            ok = 0 <= k < L and 0 <= c <= L - k
            if c < 0 and 0 <= k < L and k != 0 and (0 <= k + L + c <= L - k or 0 <= L - k + c <= L - k):
                continue                      # E/X: negative count where the two readings may differ
            if c < 0 and 0 <= k < L:
                cc = k + L + c
                ok = 0 <= cc <= L - k
                c_eff = cc
            else:
                c_eff = c
            form = rnd.choice(["ptr", "b", "self", "null", "ptrnull"])
            if form == "ptr":
                ops.append(("splice_from_ptr", [i, c, ins]))
                new = ins
            elif form == "ptrnull":
                ops.append(("splice_from_ptr_null", [i, c, rnd.choice(ext)]))
                new = []
            else:
                ops.append(("splice", [i, c, form]))
                new = {"b": [7, 8], "self": list(m.a), "null": []}[form]
            if ok:
                m.a = m.a[:k] + new + m.a[k + c_eff:]
                if len(m.a) > 40 or len(m.a) == 0:
                    ops.append(("reinit", ["ptr", "-", t]))
                    m.a = list(t)
        for v in ext:
            if v >= 0:
                ops.append(("ncmp", ["b", v])); ops.append(("ncmp", ["self", v]))
            ops.append(("append_from_ptr_null", [v])); ops.append(("prepend_from_ptr_null", [v]))
        execs.append(ops)
        ops = []
        for v in ext:
            ops += [("new_from_ptr_null", [v]), ("append_from_ptr", [[5]]), ("del", []),
                    ("new_from_buff_null", [v, rnd.choice([0, 3, 4096])]), ("append_from_ptr", [[5]]), ("del", [])]
            if v < 0:
                ops += [("new_from_buff", [t, v]), ("rindex", [t[-1]]), ("del", [])]      # capacity = max(size, len)
        execs.append(ops)
    return execs


# ---- round 5: real sizes - objects of 2 GiB + k / 4 GiB + k bytes in gap-compressed form ---------------------------------------
GM = 8            # harness/mbuff_replay.c: the model's gap


def huge_exec(gap, quick=False):
    """head ++ <2^31 or 2^32 zero bytes> ++ tail, built by spif_mbuff_new_from_buff() from a lazily zeroed mapping; every operation
    whose result depends on a length DIFFERENCE or on a position beyond 2^31.  All positions / lengths below are MODEL values
    (gap = GM zeros); the harness translates (MBuffObj.tla: Gap compression / GapLaw)."""
    H = [65, 200, 66, 67, 1, 68, 69, 70, 71, 233, 72, 73, 74, 75, 76, 77]      # 16 non-zero bytes, 200 / 1 / 233 only here
    T = [7, 8]                                                                 # 7 and 8 only behind the gap
    A = H + [0] * GM + T
    lm, h = len(A), len(H)
    ops = [("huge_new", [H, gap, T])]

    def q(op, *args):
        ops.append((op, list(args)))
    # searches whose answers lie beyond 2^31 (or are the length = not found)
    # (each of these walks 2 / 4 GiB byte by byte under ASan: the quick tier takes one of each kind)
    for c in ((7, 99) if quick else (65, 200, 7, 8, 0, 99)):
        q("index", c)
    for c in ((65, 0) if quick else (65, 200, 7, 8, 0, 99)):
        q("rindex", c)
    for nd in ((T, [7, 9]) if quick else (T, [0, 7], [0, 0, 7, 8], H[-2:] + [0], [7, 9], [8], H)):      # memmem over 2 GiB: ~2 s each
        q("find_from_ptr", nd)
    q("cmp", "self")
    if not quick:
        q("ncmp", "self", HUGE); q("ncmp", "self", lm); q("find", "self")
    q("cmp_with_ptr", H); q("cmp_with_ptr", H + [0, 0]); q("cmp_with_ptr", H[:-1] + [78]); q("ncmp_with_ptr", H + [0, 1], h + 1)
    # proper prefixes: the real lengths differ by G-1, G, G+1 (B = head + 3 / 2 / 1 zeros), G+2 (head), G+3, and a non-prefix
    for B in (H + [0, 0, 0], H + [0, 0], H + [0], H, H[:-1], H[:-1] + [78], H + [0, 5]):
        q("b_new_from_ptr", B)
        q("cmp", "b"); q("b_cmp_a")
        if not quick or B == A[:len(B)]:
            q("find", "b")
        for n in (HUGE, lm, lm - 1, len(B), len(B) + 1, h + GM):
            q("ncmp", "b", n)
        q("b_del")
    # pieces at positions beyond 2^31
    for i, c in ((h + GM, 2), (h + GM + 1, 1), (h + GM, HUGE), (-1, 1), (-2, 0), (-2, HUGE), (lm - 1, 5), (lm, 1), (lm + 1, 1), (-lm - 1, 1),
                 (h - 2, 4), (h + GM - 1, 3), (h + GM - 1, -1), (0, 3), (-lm, 2)):
        q("subbuff_to_ptr", i, c)
        q("subbuff", i, c)
        k = i + lm if i < 0 else i
        cc = lm - k + c if c <= 0 else c
        if 0 <= k < lm and cc >= 0:
            q("b_cmp_a"); q("b_del")
    # in place, over the whole length
    q("reverse")
    for c in ((65,) if quick else (7, 65, 0)):
        q("index", c)
    for c in ((7,) if quick else (7, 65, 0)):
        q("rindex", c)
    q("find_from_ptr", [0, 77])
    if not quick:
        q("find_from_ptr", [8, 7, 0])
    q("b_new_from_ptr", [8, 7, 0]); q("cmp", "b"); q("b_cmp_a"); q("ncmp", "b", HUGE); q("b_del")
    q("subbuff_to_ptr", -2, HUGE); q("subbuff_to_ptr", 2 + GM, 3)
    q("del")
    return ops


def huge_validation(ctx, exe):
    """quick: one 2 GiB + 18 object through the direct functions; thorough: 2 GiB and 4 GiB, direct and class table."""
    plan = [("direct", "2g", True)] if ctx.tier == "quick" else [("direct", "2g", False), ("direct", "4g", False), ("table", "4g", True),
                                                                    ("table", "2g", True)]
    out = {}
    for var, gap, short in plan:
        rr = record_and_validate(ctx, exe, [huge_exec(gap, short)], var, tag="huge-%s-%s" % (gap, var[0]), env={"VH_WATCHDOG": "600"}, jobs=1)
        out["%s/%s" % (gap, var)] = {"real_length": (1 << (31 if gap == "2g" else 32)) + 18, "events_accepted": rr["accepted_events"],
                                     "events": rr["events"], "recorded": rr["recorded"]}
        ctx.add("trace_events_validated", rr["accepted_events"])
        ctx.add("traces_validated_against_impl", rr["recorded"])
    ctx.cov["real_sizes"] = out


# ---- round 4: copies carry hidden state - dup, then the FIRST mutation of the copy (and of the original) -----------------

def copy_execs(rnd, quick):
    execs = []
    b_muts = [("b_append_from_ptr", [[9, 9]]), ("b_clear", [7]), ("b_reverse", []), ("b_trim", []), ("b_append_a", []), ("b_del", [])]
    a_muts = [("append_from_ptr", [[9, 0]]), ("prepend_from_ptr", [[0, 9]]), ("splice_from_ptr", [0, 1, [5, 5, 5]]), ("splice", [0, 1, "null"]),
              ("trim", []), ("reverse", []), ("clear", [0]), ("sprintf", ["s", [65, 66], 0]), ("append", ["self"]), ("prepend", ["self"]),
              ("splice", [0, 0, "self"]), ("done", []), ("reinit", ["ptr", "-", [1]]), ("reinit", ["fd", "pipe", [1, 2]])]
    for n in ([0, 1, 6, 4097] if quick else [0, 1, 2, 6, 64, 4095, 4096, 4097]):
        t = [32] + rnd_bytes(rnd, n - 2, "any") + [9] if n >= 2 else rnd_bytes(rnd, n, "any")
        origins = [[("new_from_ptr", [t])], [("new_from_buff", [t, n + 100])], [("new_from_buff", [t, 0])],
                   [("new_from_fd", ["pipe", t])], [("new_from_ptr", [t + [1, 2, 3]]), ("splice", [-3, 3, "null"])] if n else [("new", [])],
                   [("new_from_ptr", [[4] + t]), ("done", []), ("reinit", ["buff", "-", t])]]
        if t and 0 not in t and 37 not in t:
            origins.append([("new", []), ("sprintf", ["s", t, 0])])
        for org in origins:
            for mu in b_muts:
                # the copy is mutated first, then the original, then both are read and deleted in either order
                execs.append(org + [("dup", []), mu] + ([("b_cmp_a", [])] if mu[0] != "b_del" else []) +
                             [("append_from_ptr", [[3]]), ("reverse", []), ("rindex", [3])])
            for mu in a_muts:
                # the ORIGINAL is deleted, a copy of the copy is made, and that one is mutated first
                execs.append(org + [("dup", []), ("del", []), ("b_dup_to_a", []), mu, ("b_cmp_a", []), ("b_reverse", []), ("cmp", ["b"]),
                                    ("b_del", []), ("append_from_ptr", [[3]])])
    return execs
THRESHOLDS = [8, 16, 32, 64, 128, 256, 512, 1024, 2048, 4096, 8192]
THRESHOLDS_QUICK = [16, 128, 1024, 4096, 8192]


# ---- round 3: size-sweep family (thresholds n-1, n, n+1 x position classes x aliased / distinct / pointer arguments) --------

def sweep_exec(rnd, n):
    """One long execution on a value of n bytes: every operation of the model at this size, the object-argument calls with the
    argument ALIASING the receiver and with a distinct object of the same size, positions first / second / middle (8 alignments) /
    next-to-last / last / absent.  Mutations are undone by a following splice so that the size class is kept."""
    m = Mirror()
    t = rnd_bytes(rnd, n, "any")
    m.a = list(t)
    ops = []

    def emit(op, *args):
        ops.append((op, list(args)))

    def splice_model(i, c, ins):
        a = m.a
        k = i + len(a) if i < 0 else i
        if 0 <= k < len(a) and 0 <= c <= len(a) - k:
            m.a = a[:k] + list(ins) + a[k + c:]

    def pos():
        L = len(m.a)
        return sorted(set(k for k in (0, 1, L // 2, L - 2, L - 1) if 0 <= k < L))

    emit("new_from_buff", t, rnd.choice([0, n, n + 1, n + 4096])) if n % 2 else emit("new_from_ptr", t)
    # queries, incl. aliased object arguments
    emit("cmp", "self"); emit("ncmp", "self", n); emit("ncmp", "self", n + 1); emit("find", "self")
    for c in (t[0], t[-1], t[n // 2]):
        emit("index", c); emit("rindex", c)
    absent = [v for v in range(256) if v not in set(t)]
    if absent:
        emit("index", absent[0]); emit("rindex", absent[-1])
    for j in range(8):
        k = min(n - 1, n // 2 + j)
        emit("subbuff_to_ptr", k, 3)
        emit("find_from_ptr", t[k:k + 5])
    for k in pos():
        emit("find_from_ptr", t[k:k + 4])
        emit("subbuff_to_ptr", k, 0)
    emit("find_from_ptr", t[-3:] + [t[0] ^ 0x55])
    emit("cmp_with_ptr", t); emit("cmp_with_ptr", t[:-1] + [(t[-1] + 1) % 256]); emit("cmp_with_ptr", t[:-1])
    emit("ncmp_with_ptr", t, n - 1); emit("ncmp_with_ptr", t + [7], n + 1)
    # aliasing: the argument IS the receiver
    emit("prepend", "self"); m.a = m.a + m.a
    emit("splice", 0, n, "null"); splice_model(0, n, [])
    emit("append", "self"); m.a = m.a + m.a
    emit("splice", n, n, "null"); splice_model(n, n, [])
    for k in pos():
        emit("splice", k, 0, "self"); splice_model(k, 0, m.a)
        emit("splice", k, n, "null"); splice_model(k, n, [])
    emit("splice", 0, 1, "self"); splice_model(0, 1, m.a)
    emit("splice", 0, n, "null"); splice_model(0, n, [])           # value is now t[1:] + ... keep whatever the model says
    # a distinct object of the same size
    emit("dup"); m.b = list(m.a)
    emit("b_reverse"); m.b = m.b[::-1]
    nb = len(m.b)
    emit("prepend", "b"); m.a = m.b + m.a
    emit("splice", 0, nb, "null"); splice_model(0, nb, [])
    emit("append", "b"); m.a = m.a + m.b
    emit("splice", len(m.a) - nb, nb, "null"); splice_model(len(m.a) - nb, nb, [])
    for k in pos()[:3]:
        emit("splice", k, 0, "b"); splice_model(k, 0, m.b)
        emit("splice", k, nb, "null"); splice_model(k, nb, [])
    emit("b_cmp_a"); emit("cmp", "b"); emit("find", "b"); emit("ncmp", "b", n)
    emit("b_del"); m.b = None
    # pointer arguments: small and of the same size
    small = rnd_bytes(rnd, 3, "any")
    emit("prepend_from_ptr", small); m.a = small + m.a
    emit("splice", 0, 3, "null"); splice_model(0, 3, [])
    emit("append_from_ptr", small); m.a = m.a + small
    emit("splice", -3, 3, "null"); splice_model(-3, 3, [])
    big = rnd_bytes(rnd, n, "any")
    emit("prepend_from_ptr", big); m.a = big + m.a
    emit("splice", 0, n, "null"); splice_model(0, n, [])
    emit("append_from_ptr", big); m.a = m.a + big
    emit("splice", -n, n, "null"); splice_model(-n, n, [])
    for k in pos():
        c = min(2, len(m.a) - k)
        x = rnd_bytes(rnd, 2, "any")
        emit("splice_from_ptr", k, c, x); splice_model(k, c, x)
    for k in pos()[1:4]:
        emit("subbuff", k, 0)
        emit("b_cmp_a")
        emit("b_del")
    emit("subbuff", len(m.a), 1)                                    # absent position: refused
    emit("reverse"); m.a = m.a[::-1]
    emit("reverse"); m.a = m.a[::-1]
    blank = [32, 9] + m.a + [10, 32]
    emit("reinit", "ptr", "-", blank); m.a = blank
    emit("trim"); m.a = _ideal_trim(m.a)
    txt = [x for x in rnd_bytes(rnd, n, "text") if x not in (0, 37)] or [65]
    emit("sprintf", "s", txt, 0); m.a = txt
    emit("sprintf", "sd", txt, -42); m.a = txt + [58] + _dec(-42)
    for ctor, kind in (("fd", "file"), ("fd", "pipe"), ("fp", "seek"), ("fp", "pieces"), ("fd", "seek"), ("fp", "file")):
        emit("reinit", ctor, kind, t); m.a = list(t)
        emit("cmp_with_ptr", t)
    emit("clear", 233); m.a = [233] * len(m.a)
    emit("rindex", 233); emit("index", 0)
    emit("done")
    return ops


# ---- round 3: full-range value family (every byte value in every position class; thorough: every ordered pair) ------------

def value_execs(rnd, quick):
    execs = []
    ops = [("new", [])]
    for v in range(256):
        w = (v * 7 + 13) % 256
        fill = [(v + 1 + 37 * i) % 256 for i in range(6)]
        for b in ([v] + fill + [v], fill[:3] + [v] + fill[3:], [v, w] + fill + [w, v]):
            ops.append(("reinit", ["ptr", "-", b]))
            ops.append(("index", [v])); ops.append(("rindex", [v]))
            ops.append(("find_from_ptr", [[v, b[b.index(v) + 1] if b.index(v) + 1 < len(b) else v]]))
            ops.append(("cmp_with_ptr", [b[:-1] + [(b[-1] + 1) % 256]]))
            ops.append(("trim", []))
            ops.append(("reverse", []))
            ops.append(("subbuff_to_ptr", [0, 2]))
        ops.append(("clear", [v])); ops.append(("sprintf", ["d", [], v * 8421505 % 2147483647 - 1073741823]))
    execs.append(ops)
    if not quick:
        # every ordered pair of bytes adjacent somewhere in a 8..24-byte buffer, through the in-place transformers
        pairs = [(x, y) for x in range(256) for y in range(256)]
        rnd.shuffle(pairs)
        ops = [("new", [])]
        i = 0
        while i < len(pairs):
            L = rnd.randint(4, 12)
            b = []
            for x, y in pairs[i:i + L]:
                b += [x, y]
            i += L
            ops.append(("reinit", ["ptr", "-", b]))
            ops.append(("reverse", []))
            ops.append(("trim", []))
            if len(ops) > 3000:
                execs.append(ops)
                ops = [("new", [])]
        execs.append(ops)
    return execs


# ---- round 3: environment faults (read() interposed / custom stream), schedules logged as event arguments -----------------

def fault_execs(rnd, quick):
    """schedule = flat list of (kind, value) per read call: 0 x normal, 1 x short read of at most x bytes, 2 e errno #e
    (1 EINTR, 2 EAGAIN, 3 ECONNRESET, 4 EIO)."""
    execs = []
    sizes = [300, 4500] if quick else [1, 300, 4096, 4500, 9000]
    for n in sizes:
        t = rnd_bytes(rnd, n, "any")
        scheds = [[], [1, 1], [1, max(1, n // 2)], [1, max(1, n // 3), 1, 1]]       # (a 0-byte "short read" would be an EOF)
        for e in (1, 2, 3, 4):
            for k in (1, 2, 3):
                scheds.append([0, 0] * (k - 1) + [2, e])
            scheds.append([1, max(1, n // 3), 2, e])
            scheds.append([2, e, 2, e])
        if quick and n > 1000:
            scheds = [sc for sc in scheds if sc and (sc[-2:] in ([2, 1], [2, 2]) or sc[0] == 1)]
        for ctor in ("fd", "fp"):
            for kind in ("file", "seek", "pipe"):
                for sc in scheds:
                    execs.append([("new_fault", [ctor, kind, t, sc])])
                    execs.append([("new_from_ptr", [[1, 2, 3]]), ("reinit_fault", [ctor, kind, t, sc]), ("cmp", ["self"]),
                                  ("rindex", [t[-1]]), ("append_from_ptr", [[9]])])
    return execs


def gen_executions(ctx):
    """Each execution: (list of (op, args))."""
    rnd = random.Random(ctx.seed)
    execs = []
    quick = ctx.tier == "quick"
    # 1. every size x every kind of input x stream/descriptor, followed by a short history on the big value
    for n in SIZES:
        for kind in ("file", "seek", "pipe", "pieces"):
            for ctor in ("new_from_fd", "new_from_fp"):
                if n == 0 and kind in ("file", "seek"):
                    continue        # X: empty seekable input (no claim)
                m = Mirror()
                t = rnd_bytes(rnd, n)
                m.a = list(t)
                ops = [(ctor, [kind, t])] + gen_ops(rnd, m, 5 if quick else 12, small=False)
                execs.append(ops)
    # 1b. size sweep around the thresholds, value family, fault schedules (round 3)
    for th in (THRESHOLDS_QUICK if quick else THRESHOLDS):
        for n in (th - 1, th, th + 1):
            execs.append(sweep_exec(rnd, n))
    execs += value_execs(rnd, quick)
    execs += fault_execs(rnd, quick)
    execs += copy_execs(rnd, quick)
    # 2. pointer / buffer constructors with the same sizes
    for n in SIZES:
        m = Mirror()
        t = rnd_bytes(rnd, n)
        m.a = list(t)
        first = ("new_from_ptr", [t]) if n % 2 else ("new_from_buff", [t, rnd.choice([0, n, n + 100])])
        execs.append([first] + gen_ops(rnd, m, 6 if quick else 15, small=False))
    # 3. long histories on small and medium values
    for k in range(16 if quick else 200):
        m = Mirror()
        t = rnd_bytes(rnd, rnd.choice([0, 1, 3, 30, 300]))
        m.a = list(t)
        execs.append([("new_from_ptr", [t])] + gen_ops(rnd, m, 120 if quick else 300, small=True))
    return execs


def script_of(sid, ops):
    lines = ["S %d" % sid]
    for op, args in ops:
        lines.append("%s %s = ? ?" % (op, " ".join(tok(x) for x in args)))
    lines.append("E")
    return "\n".join(lines) + "\n"


def keyfn_free(variant, f):
    d = _detail(f)
    return "%s.%s %s%s" % (variant, f.op, f.kind, ("/" + d) if d else "")


def validate_events(ctx, events, tag):
    """TLC on MBuffObjTrace.  Returns (accepted, n_consumed, [event indexes whose return value differs])."""
    import os
    from vlib.tlc import run_tlc
    path = os.path.join(ctx.rundir, "trace-%s-%d.ndjson" % (tag, os.getpid()))
    with open(path, "w") as f:
        for e in events:
            f.write(json.dumps(e, separators=(",", ":")) + "\n")
    notes = []
    res = run_tlc("MBuffObjTrace.tla", "MBuffObjTrace.cfg", ctx.rundir, workers=1, timeout=1500, env={"TRACE": path}, heap="8g",
                  coverage=False, on_edge=notes.append)
    retbad = sorted(set(int(d["ret_mismatch"]) - 1 for d in notes if "ret_mismatch" in d))
    rej = [d for d in notes if "rejected_after" in d]
    if rej:
        return False, int(rej[0]["rejected_after"]), retbad
    if res.ok:
        return True, len(events), retbad
    raise Broken("trace validation run failed without a verdict:\n%s\n...\n%s" % ((res.violation or "")[:1500], "\n".join(res.tail[-6:])))


def record_and_validate(ctx, exe, execs, variant="direct", tag="mbuff", env=None, jobs=4):
    """Runs the programs in record mode on the implementation, turns the records into events and lets TLC validate
    them against MBuffObjTrace.  Returns a dict of counters; failures are reported through ctx.report."""
    from vlib.replay import run_scripts
    texts = [script_of(k + 1, ops) for k, ops in enumerate(execs)]
    # record mode has no expected tokens to size the harness's token builders from: VH_TOKEN_MAX sizes them outside the
    # measured heap window, so executions with 20000-byte values get the heap-balance postlude too
    fails, recs, ns, nt = run_scripts(exe, [variant], texts, ctx.rundir, jobs=jobs, env=dict({"VH_TOKEN_MAX": "400000"}, **(env or {})), tag="rec-" + tag)
    bad = {}
    for f in fails:
        if f.kind == "inv" and f.got.startswith("harness:op_") and f.got.endswith("_on_absent_slot"):
            # an earlier constructor did not deliver an object: the recorded prefix goes to TLC, which rejects that event
            continue
        bad.setdefault(f.sid, f)
    for sid, f in sorted(bad.items()):
        ops = execs[sid - 1]
        opd = ops[f.step] if 0 <= f.step < len(ops) else (f.op, [])
        cls = ""
        if f.kind == "heap" and ops:
            opd = ops[-1] if ops[-1][0] in FAULT_OPS or len(ops) == 1 else opd      # balance is taken at the end of the script
        if opd[0] in FAULT_OPS:
            cls = " [%s]" % argclass({"op": opd[0], "args": opd[1], "pre": INIT})
            if f.kind == "heap":
                cls = " after " + opd[0] + cls
        if opd[0] in ("new_from_fd", "new_from_fp"):
            n = len(opd[1][1])
            cls = " [%s,%s]" % (opd[1][0], "n=0" if n == 0 else ("n<=4096" if n <= 4096 else "n>4096"))
        elif opd[0] == "reinit":
            n = len(opd[1][2])
            cls = " [%s:%s,%s]" % (opd[1][0], opd[1][1], "n=0" if n == 0 else ("n<=4096" if n <= 4096 else "n>4096"))
        ctx.report("trace-run %s%s" % (keyfn_free(variant, f), cls),
                   "%s: recorded execution %d failed at step %d (%s) before validation: %r" % (variant, sid, f.step, opd[0], f),
                   {"variant": variant, "harness_args": [variant], "program": ops[:max(0, f.step) + 1], "failure": repr(f),
                    "detail": f.detail})
    by = {}
    for sid, step, ret, state in recs:
        by.setdefault(sid, []).append((step, ret, state))
    events, index, pres = [], [], []
    maxlen = 0
    for sid in sorted(by):
        # an execution that failed at step k (crash, invariant, heap) is reported above; the calls recorded BEFORE k are still
        # validated, so that one defect does not hide another in the same execution
        upto = bad[sid].step if sid in bad and bad[sid].kind != "heap" else None
        events.append({"op": "reset", "args": [], "ret": True, "ca": True, "cb": True, "pa": INIT["a"], "pb": INIT["b"]})
        index.append((sid, -1))
        pres.append(INIT)
        prev = INIT
        for step, ret, state in sorted(by[sid]):
            if upto is not None and step >= upto:
                break
            op, args = execs[sid - 1][step]
            post = untok(state)
            rv = untok(ret)
            if op in FAULT_OPS:
                # the harness reports what the ENVIRONMENT did (errors returned, bytes delivered): event arguments
                args = list(args) + [rv["hard"], rv["eintr"], rv["d"]]
                rv = rv["ok"]
            if op == "huge_new":
                # in model scale the call was new_from_buff(head ++ GM zeros ++ tail, len, len); the real length is kept as raw
                tm = list(args[0]) + [0] * GM + list(args[2])
                op, args = "new_from_buff", [tm, len(tm)]
            cargs, raw = clip_args(op, args)
            ev = {"op": op, "args": cargs, "ret": rv, "ca": post["a"] != prev["a"], "cb": post["b"] != prev["b"]}
            if raw:
                ev["raw"] = raw          # the real 64-bit arguments (uninterpreted by the specification)
            if ev["ca"]:
                ev["pa"] = post["a"]
            if ev["cb"]:
                ev["pb"] = post["b"]
            maxlen = max(maxlen, len(post["a"]["s"]))
            pres.append(prev)
            prev = post
            events.append(ev)
            index.append((sid, step))
    nvalid = 0
    accepted = True
    nretbad = 0
    nrejected = 0
    if events:
        def cls_of(k):
            try:
                return argclass({"op": events[k]["op"], "args": events[k]["args"], "pre": pres[k]})
            except Exception:
                return "-"
        # TLC stops at the first event it rejects: that execution is reported and taken out, the REST of the trace (from the
        # next execution on) is validated by a further run, so that one defect does not hide the others (at most 12 rounds)
        base = 0
        rounds = 0
        while base < len(events) and rounds < 12:
            rounds += 1
            ok, pos, retbad = validate_events(ctx, events[base:], "%s-%d" % (tag, rounds))
            for k in retbad:
                k += base
                # non-blocking: the value agreed, the returned value did not (TLC went on with the rest of the trace)
                sid, step = index[k]
                nretbad += 1
                ctx.report("trace-ret %s.%s [%s]" % (variant, events[k]["op"], cls_of(k)),
                           "%s: recorded execution %s step %s: returned value %s is not the one the specification allows: %s" % (
                               variant, sid, step, json.dumps(events[k]["ret"])[:80], json.dumps(_clip(events[k]))[:400]),
                           {"variant": variant, "harness_args": [variant], "program": execs[sid - 1][:step + 1], "event_index": k})
            nvalid += pos
            if ok:
                break
            accepted = False
            nrejected += 1
            k = base + pos
            sid, step = index[k] if k < len(index) else (None, None)
            evb = events[k] if k < len(events) else None
            opn = evb["op"] if evb else "?"
            ctx.report("trace-rejected %s.%s [%s]" % (variant, opn, cls_of(k) if evb else "-"),
                       "%s: TLC rejects the recorded execution %s at event %d (step %s): %s ... %s" % (
                           variant, sid, k, step, json.dumps(evb)[:200], json.dumps(evb)[-160:]),
                       {"variant": variant, "harness_args": [variant], "program": execs[sid - 1][:step + 1] if sid else [],
                        "event": _clip(evb), "event_index": k})
            # continue behind the rejected execution
            nxt = k + 1
            while nxt < len(events) and events[nxt]["op"] != "reset":
                nxt += 1
            base = nxt
        if accepted:
            ctx.sample({"variant": variant, "trace_events": len(events), "executions": len(by) - len(bad), "max_len_seen": maxlen,
                        "first_events": [json.dumps(_clip(e))[:160] for e in events[1:4]]})
    return {"executions": len(execs), "recorded": len([s for s in by if s not in bad]), "events": len(events), "accepted_events": nvalid,
            "accepted": accepted and not bad, "maxlen": maxlen, "ret_mismatches": nretbad, "rejected": nrejected}


def trace_validation(ctx, exe, variant="direct"):
    execs = gen_executions(ctx)
    r = record_and_validate(ctx, exe, execs, variant)
    tot = dict(r)
    # round 4: the extreme-argument family through the direct functions AND through the class table; and the runtime debug
    # level as a dimension: the families below are recorded again at DEBUG_LEVEL 5 (thorough: 1, 3, 5) - the specification does
    # not know the level, so every value and return value must be the same
    rnd = random.Random(ctx.seed + 4)
    quick = ctx.tier == "quick"
    ext = extreme_execs(rnd, quick)
    fam = ext + copy_execs(rnd, True) + fault_execs(rnd, True)[:240] + execs[-8:]
    extra = [("direct", ext, None, "ext-d"), ("table", ext, None, "ext-t")]
    for lvl in ((5,) if quick else (1, 3, 5)):
        extra.append(("table" if lvl == 3 else "direct", fam, lvl, "lvl%d" % lvl))
    levels = {}
    for var, ex, lvl, tag in extra:
        rr = record_and_validate(ctx, exe, ex, var, tag=tag, env={"VH_DEBUG_LEVEL": str(lvl)} if lvl is not None else None)
        for k in ("executions", "recorded", "events", "accepted_events", "ret_mismatches", "rejected"):
            tot[k] += rr[k]
        tot["maxlen"] = max(tot["maxlen"], rr["maxlen"])
        levels[tag] = {"variant": var, "debug_level": 0 if lvl is None else lvl, "executions": rr["recorded"], "events_accepted": rr["accepted_events"]}
    r = tot
    ctx.add("trace_events_validated", r["accepted_events"])
    ctx.add("traces_validated_against_impl", r["recorded"])
    ctx.cov["trace"] = {"executions": r["executions"], "executions_recorded": r["recorded"], "events": r["events"],
                        "events_accepted": r["accepted_events"], "return_value_mismatches": r["ret_mismatches"],
                        "max_len_seen": r["maxlen"], "sizes": SIZES,
                        "input_kinds": ["file", "seek(non-zero offset)", "pipe", "pieces(forked writer)"],
                        "extreme_values": [str(v) for v in EXTREMES], "extra_passes": levels}


def _clip(ev):
    if ev is None:
        return None
    s = json.dumps(ev)
    return ev if len(s) < 2000 else {"op": ev.get("op"), "ret": ev.get("ret") if len(json.dumps(ev.get("ret"))) < 200 else "...",
                                      "clipped": s[:600]}


def run(ctx):
    exe = harness(ctx)
    # quick: one scope.  thorough: two scopes - 4 byte values / buffers <= 4 / B <= 2, and 3 byte values / buffers <= 5 / B <= 1
    # with wider index and count ranges (the graphs are processed one after the other to bound memory)
    scopes = [("table", "MBuffObj_quick.cfg")] if ctx.tier == "quick" else [("table", "MBuffObj_thorough.cfg"),
                                                                             ("table/len5", "MBuffObj_thorough2.cfg")]
    walks = (300, 40) if ctx.tier == "quick" else (3000, 60)
    per_op = {}
    for variant, cfg in scopes:
        g, res = objcheck.tlc_graph(ctx, "MC_MBuffObj.tla", cfg, workers=3, timeout=2400)
        seen = {}
        for _, _, e in g.edges:
            seen[e["op"]] = seen.get(e["op"], 0) + 1
        # vacuity: every call of the interface must occur among the generated transitions of every scope
        missing = [o for o in ALL_OPS if not seen.get(o)]
        if missing:
            raise Broken("vacuity: no transition generated for %s in %s" % (missing, cfg))
        for k, v in seen.items():
            per_op[k] = per_op.get(k, 0) + v
        objcheck.replay_cover(ctx, g, [tok(INIT)], exe, variant, ["table"], keyfn, walks=walks, jobs=4,
                              pairs=60000 if ctx.tier == "quick" else 200000)
        del g
    ctx.cov["edges_per_op"] = dict(sorted(per_op.items()))
    trace_validation(ctx, exe)
    huge_validation(ctx, exe)
    ctx.cov["exhaustive"] = True
    ctx.cov["rule"] = ("every transition TLC generates for MBuffObj in the bounded scope is executed once (through the class table) as the "
                       "last step of a script whose prefix consists of already verified transitions; bytes, length, return value and "
                       "representation invariants (buff==NULL => len=size=0, size>=len, allocation>=size) are compared after every step "
                       "and the heap balance at the end of every script; the slack bytes between len and size are overwritten with adversarial "
                       "content after every step; plus a sampled 2-step cover (verified state-changing edge followed by every edge "
                       "enabled behind it), random walks, and TLC validation of recorded executions")
    ctx.assumptions += ["ASan build of the current tree (clang -O1), arguments are exact-size heap copies without terminator",
                        "DEBUG_LEVEL 0; NULL object arguments are C16's subject, not exercised here (NULL pointers are)"]


def replay(ctx, path):
    d = json.load(open(path))
    rp = d.get("replay") or {}
    exe = harness(ctx)
    if rp.get("program"):
        # a recorded execution: run it again in record mode and let TLC judge the events
        ops = [(o, a) for o, a in rp["program"]]
        r = record_and_validate(ctx, exe, [ops], rp.get("variant", "direct"), tag="replay")
        for k in sorted(ctx.violations):
            print("REPRODUCED", k, "::", ctx.violations[k][0][:600])
        if not ctx.violations and not ctx.known_hit:
            print("not reproduced: %d events recorded and accepted by TLC" % r["accepted_events"])
        for k in sorted(ctx.known_hit):
            print("REPRODUCED (known finding)", k)
        return 1 if (ctx.violations or ctx.known_hit) else 0
    return objcheck.replay_file(exe, [], path, ctx.rundir)
