SPECIFICATION Spec
CONSTANTS
  Bytes <- BytesQuick
  Texts <- TextsQuick
  TextsB <- TextsBQuick
  MaxLenA = 4
  MaxLenB = 2
  Idx <- IdxQuick
  Cnt <- CntQuick
  NCnt <- NCntQuick
  Obs <- ObsEmit
INVARIANTS TypeOK QueriesInRange CmpLaw SpliceLaw SubLaw HugeLaw GapLaw ShapeLaw
PROPERTY Independence
CHECK_DEADLOCK FALSE
