SPECIFICATION TraceSpec
CONSTANTS
  NE = 40
  MaxLen = 100000
  BDepth = 100000
  Obs <- ObsTrace
POSTCONDITION TraceAccepted
CHECK_DEADLOCK FALSE
