------------------------------- MODULE ConfParse -------------------------------
(* C09: the config-file parser of libast (src/conf.c) at MECHANISM level.                         *)
(*                                                                                                *)
(* One behaviour = one call of spifconf_parse() on one tree of files, after the contexts of the   *)
(* configuration have been registered.  The state is what the code keeps:                         *)
(*   ctab / c_idx / c_cnt     the context table (entry 0 = "null"), its 8-bit index and capacity  *)
(*   cst  / cs_idx / cs_cnt   the context-state stack (frame 0 = the base "null" frame)           *)
(*   fst  / f_idx / f_cnt     the file-state stack                                                *)
(*   vars                     names in the %put variable list                                     *)
(* The indices are 8-bit (they wrap at 256) and the capacities are doubled when the incremented   *)
(* index reaches them, in arithmetic modulo CapMod: CapMod = 256 is the pinned code (unsigned     *)
(* char: 160*2 = 64), CapMod = 65536 the repaired code (unsigned short).                          *)
(* Files are sequences of lines, a line is [x |-> n, t |-> chars]: n copies of 'x' followed by    *)
(* the characters t (run-length form so that lines around the 20480-byte buffer stay small).      *)
(* The scanner is specified character by character (Class).                                      *)
(* Handler calls are outputs, accumulated in `calls`:  [id, h, k, x, t, si, so]                   *)
(*   id = context-table index, h = handler (0 = the built-in null handler, k>0 = the k-th         *)
(*   registration of the harness), k in B|E|L, (x,t) delivered text (for B: the context word),    *)
(*   si/so = state token received/returned.  Harness handlers return fresh tokens 1,2,3...;       *)
(*   the built-in handler returns 0 (NULL) on B and E and its argument on L.                      *)
(* Rule kinds (DESIGN.md 3): S stated by the property, C as-built convention, X outside universe. *)
EXTENDS Integers, Sequences, FiniteSets, FiniteSetsExt, TLC

CONSTANTS Configs,            \* set of configuration records (see MC_ConfParse for the fields)
          CapMod,             \* modulus of the capacity counters
          LineMax,            \* a line of this many characters or more does not fit the buffer (20479)
          AlphaOf(_, _),      \* AlphaOf(alphabet name, file id): lines an enumerated file may contain
          LineOf(_),          \* files hold line references e; LineOf(e) is the line [x, t] (a model may use small integers as
                              \* references into a table of lines; in trace validation a reference is the line itself)
          Sc(_),              \* the scanner on references: Sc(e) = Scan(LineOf(e)) (a model may substitute a tabulated copy)
          FixedLen(_, _),     \* FixedLen(cfg, f), FixedLine(cfg, f, i): the files of the parametric families (nest, chain, ...)
          FixedLine(_, _, _), \* of a model, as references
          Obs(_, _, _, _)     \* observation hook (op, input, ret, post), called once per behaviour

VARIABLES cfg, phase, regpos, content, closed,
          ctab, c_idx, c_cnt, cst, cs_idx, cs_cnt, fst, f_idx, f_cnt,
          vars, tokc, calls, retnull, skipUsed,
          acts        \* ghost: names of the actions taken in this behaviour (vacuity guard; states form a tree, so it costs nothing)
vars_all == <<cfg, phase, regpos, content, closed, ctab, c_idx, c_cnt, cst, cs_idx, cs_cnt, fst, f_idx, f_cnt,
              vars, tokc, calls, retnull, skipUsed, acts>>

------------------------------------------------------------------------------------------------
(* characters and words *)
IsWs(c)      == c \in {32, 9, 10, 11, 12, 13}
Lower(c)     == IF c >= 65 /\ c <= 90 THEN c + 32 ELSE c
LowerSeq(s)  == [i \in 1 .. Len(s) |-> Lower(s[i])]
EqCI(a, b)   == Len(a) = Len(b) /\ \A k \in 1 .. Len(a) : Lower(a[k]) = Lower(b[k])     \* equal without regard to case
SetMin(S)    == Min(S)          \* FiniteSetsExt (linear; a CHOOSE over S x S is quadratic and names of 1000 characters occur)
SetMax(S)    == Max(S)
NonWs(s)     == {i \in 1 .. Len(s) : ~IsWs(s[i])}
Trim(s)      == IF NonWs(s) = {} THEN <<>> ELSE SubSeq(s, SetMin(NonWs(s)), SetMax(NonWs(s)))   \* S: surrounding whitespace removed
RTrim(s)     == IF NonWs(s) = {} THEN <<>> ELSE SubSeq(s, 1, SetMax(NonWs(s)))
PrefixCI(s, p) == Len(s) >= Len(p) /\ LowerSeq(SubSeq(s, 1, Len(p))) = p                        \* p is lower case
WordStarts(s)  == {i \in 1 .. Len(s) : ~IsWs(s[i]) /\ (i = 1 \/ IsWs(s[i - 1]))}
WordEnd(s, i)  == LET ws == {j \in i .. Len(s) : IsWs(s[j])} IN IF ws = {} THEN Len(s) ELSE SetMin(ws) - 1
Word(s, k)     == IF Cardinality(WordStarts(s)) < k THEN <<>>                                    \* k-th blank-separated word (quotes: X)
                  ELSE LET i == CHOOSE i \in WordStarts(s) : Cardinality({j \in WordStarts(s) : j < i}) = k - 1
                       IN SubSeq(s, i, WordEnd(s, i))
Digits3(n)   == <<48 + (n \div 100), 48 + ((n \div 10) % 10), 48 + (n % 10)>>

S_begin_  == <<98, 101, 103, 105, 110, 32>>          \* "begin "
S_end_    == <<101, 110, 100, 32>>                   \* "end "
S_end     == <<101, 110, 100>>                       \* "end"
S_include == <<105, 110, 99, 108, 117, 100, 101>>    \* "include"
S_preproc == <<112, 114, 101, 112, 114, 111, 99>>    \* "preproc"
S_put     == <<37, 112, 117, 116, 40>>               \* "%put("
S_null    == <<110, 117, 108, 108>>                  \* "null"
S_dot     == <<46>>                                  \* "."
SkipText  == <<115, 107, 105, 112, 109, 101>>        \* "skipme": a harness handler receiving it calls file_skip_to_end()

LineLen(l) == l.x + Len(l.t)
(* C (DESIGN 8a): lines whose first character is '#', '<' or newline are skipped before trimming, '#'-lines after  *)
(* trimming too; keywords: lower-case first letter, then case-insensitive "begin " / "end " / "end";               *)
(* '%' lines other than include/preproc are expanded and not delivered.                                           *)
PercentClass(t) ==
    LET r  == SubSeq(t, 2, Len(t))
        w1 == Word(r, 1)
        e  == IF WordStarts(r) = {} THEN 0 ELSE WordEnd(r, SetMin(WordStarts(r)))
        sp == e > 0 /\ e < Len(r) /\ r[e + 1] = 32
    IN IF LowerSeq(w1) = S_include /\ sp THEN "include"
       ELSE IF LowerSeq(w1) = S_preproc /\ sp THEN "preproc"
       ELSE "directive"
Class(l) ==
    IF LineLen(l) >= LineMax THEN "toolong"                                   \* C: reported and dropped
    ELSE IF l.x > 0 THEN "text"
    ELSE IF l.t = <<>> THEN "blank"
    ELSE IF l.t[1] = 35 THEN "comment"
    ELSE IF l.t[1] = 60 THEN "magic"
    ELSE LET t == Trim(l.t) IN
         IF t = <<>> THEN "blank"
         ELSE IF t[1] = 35 THEN "comment"
         ELSE IF t[1] = 37 THEN PercentClass(t)
         ELSE IF t[1] = 98 /\ PrefixCI(t, S_begin_) THEN "begin"
         ELSE IF t[1] = 101 /\ (PrefixCI(t, S_end_) \/ LowerSeq(t) = S_end) THEN "end"
         ELSE "text"
(* Words with quoting (spiftool_get_word, C): a word that starts with " or ' runs to the matching quote (or the end of the   *)
(* line) and may be EMPTY; elsewhere a quote is an ordinary character; a backslash before either quote character drops out   *)
(* and the quote is taken literally.  GetWordQ(s, k) = [ok |-> the k-th word exists, w |-> its text].                         *)
IsQuote(c) == c = 34 \/ c = 39
RECURSIVE Collect(_, _, _, _)
Collect(s, q, d, acc) ==                                   \* d = closing quote, 0 = white space ends the word
    IF q > Len(s) \/ (IF d = 0 THEN IsWs(s[q]) ELSE s[q] = d) THEN [w |-> acc, q |-> q]
    ELSE IF s[q] = 92 /\ q < Len(s) /\ IsQuote(s[q + 1]) THEN Collect(s, q + 2, d, TLCEval(Append(acc, s[q + 1])))
    ELSE Collect(s, q + 1, d, TLCEval(Append(acc, s[q])))
RECURSIVE GetWordFrom(_, _, _)
GetWordFrom(s, i, k) ==
    LET rest == {j \in i .. Len(s) : ~IsWs(s[j])} IN
    IF rest = {} THEN [ok |-> FALSE, w |-> <<>>]
    ELSE LET p == SetMin(rest)
             d == IF IsQuote(s[p]) THEN s[p] ELSE 0
             r == Collect(s, IF d = 0 THEN p ELSE p + 1, d, <<>>)
             nxt == IF r.q <= Len(s) /\ IsQuote(s[r.q]) THEN r.q + 1 ELSE r.q
         IN IF k = 1 THEN [ok |-> TRUE, w |-> r.w] ELSE GetWordFrom(s, nxt, k - 1)
GetWordQ(s, k) == GetWordFrom(s, 1, k)

(* The part of value expansion (spifconf_shell_expand; its full specification is Expand.tla, C10) that a file NAME meets:      *)
(* quoting levels and the characters ~ \ $ inside each of them (C, DESIGN 8a).  Quote characters are copied through; '~' is  *)
(* the value of HOME outside quotes only; a backslash pair is an escape except inside single quotes (where only \' is);       *)
(* $NAME (letters, digits, _) is replaced by the variable's value except inside single quotes, nothing if unset.             *)
(* X: %, back-quote, ${ $( forms, a single quote inside double quotes.  env = [home, vname, vval] (<<>> = unset).              *)
NameCh(c) == (c >= 48 /\ c <= 57) \/ (c >= 65 /\ c <= 90) \/ (c >= 97 /\ c <= 122) \/ c = 95
EscOf(d)  == LET c == Lower(d) IN
             CASE c = 110 -> 10 [] c = 114 -> 13 [] c = 116 -> 9 [] c = 98 -> 8 [] c = 102 -> 12 [] c = 97 -> 7 [] c = 118 -> 11 [] c = 101 -> 27 [] OTHER -> d
EnvVal(env, nm) == IF nm = <<72, 79, 77, 69>> THEN env.home ELSE IF nm # <<>> /\ nm = env.vname THEN env.vval ELSE <<>>
RECURSIVE ExpandFrom(_, _, _, _, _)
ExpandFrom(s, i, sq, dq, env) ==
    IF i > Len(s) THEN <<>>
    ELSE LET c == s[i] IN
         CASE c = 126 -> (IF ~sq /\ ~dq /\ env.home # <<>> THEN env.home ELSE <<c>>) \o ExpandFrom(s, i + 1, sq, dq, env)
           [] c = 92  -> IF i = Len(s) THEN <<c>>
                         ELSE IF ~sq \/ s[i + 1] = 39 THEN <<EscOf(s[i + 1])>> \o ExpandFrom(s, i + 2, sq, dq, env)
                         ELSE <<c, s[i + 1]>> \o ExpandFrom(s, i + 2, sq, dq, env)
           [] c = 36  -> IF sq THEN <<c>> \o ExpandFrom(s, i + 1, sq, dq, env)
                         ELSE LET stop == {j \in (i + 1) .. Len(s) : ~NameCh(s[j])}
                                  e == IF stop = {} THEN Len(s) ELSE SetMin(stop) - 1
                              IN EnvVal(env, SubSeq(s, i + 1, e)) \o ExpandFrom(s, e + 1, sq, dq, env)
           [] c = 34  -> <<c>> \o ExpandFrom(s, i + 1, sq, IF sq THEN dq ELSE ~dq, env)
           [] c = 39  -> <<c>> \o ExpandFrom(s, i + 1, ~sq, dq, env)
           [] OTHER   -> <<c>> \o ExpandFrom(s, i + 1, sq, dq, env)
ExpandName(s, env) == ExpandFrom(s, 1, FALSE, FALSE, env)

BeginName(l)     == GetWordQ(Trim(l.t), 2).w                 \* the begin line is not expanded; "" names the context registered as ""
IncludeRaw(l)    == SubSeq(Trim(l.t), 2, Len(Trim(l.t)))    \* what follows the '%': expanded as a whole, THEN word 2 is taken (S: the
                                                             \* quoting of the name is in force while it is expanded)
NameOfInclude(raw, env) == GetWordQ(ExpandName(raw, env), 2).w   \* <<>> if there is no such word: no file
\* delivered form of a text line: whitespace trimmed (S); leading 'x' run counted (representation only)
LeadX(t)    == IF \A i \in 1 .. Len(t) : t[i] = 120 THEN Len(t) ELSE SetMin({i \in 1 .. Len(t) : t[i] # 120}) - 1
Delivered(l) == LET t == IF l.x > 0 THEN RTrim(l.t) ELSE Trim(l.t)
                    k == LeadX(t)
                IN [x |-> l.x + k, t |-> SubSeq(t, k + 1, Len(t))]
\* the only directive whose effect is modelled: %put(name value) defines a variable (expansion proper is C10)
PutVar(t) == IF PrefixCI(t, S_put) /\ t[Len(t)] = 41
             THEN LET inner == SubSeq(t, 6, Len(t) - 1) IN
                  IF Cardinality(WordStarts(inner)) = 2 THEN {Word(inner, 1)} ELSE {}
             ELSE {}

\* everything the parser needs to know about one line
Scan(l) == LET c == Class(l) IN
           [c |-> c,
            name |-> IF c = "begin" THEN BeginName(l) ELSE <<>>,
            target |-> IF c = "include" THEN IncludeRaw(l) ELSE <<>>,      \* unexpanded: the environment is part of the configuration
            dl |-> IF c = "text" THEN Delivered(l) ELSE [x |-> 0, t |-> <<>>],
            put |-> IF c = "directive" THEN PutVar(Trim(l.t)) ELSE {}]

------------------------------------------------------------------------------------------------
(* configuration: registered contexts *)
CtxName(i) == <<99>> \o Digits3(i)                       \* "c001", "c002", ...
S_A == <<65>>
S_B == <<66>>
RegNames ==                                               \* harness contexts in registration order (without "null")
    CASE cfg.regfam = "none" -> <<>>
      [] cfg.regfam = "A"    -> <<S_A>>
      [] cfg.regfam = "AB"   -> <<S_A, S_B>>
      [] cfg.regfam = "many" -> [i \in 1 .. cfg.nreg |-> IF i = 1 THEN S_A ELSE IF i = cfg.nreg - 1 THEN S_B ELSE CtxName(i)]
      [] cfg.regfam = "list" -> cfg.names
RegList == (IF cfg.nullmode = "first" THEN <<S_null>> ELSE <<>>) \o RegNames \o
           (IF cfg.nullmode = "last" THEN <<S_null>> ELSE <<>>)

(* files *)
Lazy     == cfg.fam = "enum"
NFiles   == IF cfg.fam = "chain" THEN cfg.n + 1 ELSE Len(cfg.kinds)
KindOf(f) == IF cfg.fam = "chain" THEN "ok" ELSE cfg.kinds[f]       \* ok | missing | badmagic | empty
FName(f) == <<102>> \o Digits3(f) \o <<46, 99, 102, 103>>            \* "f001.cfg"
L(s)     == [x |-> 0, t |-> s]
IncLine(f) == L(<<37>> \o S_include \o <<32>> \o FName(f))
UsesContent == cfg.fam \in {"enum", "list"}
FLen(f)     == IF UsesContent THEN Len(content[f]) ELSE FixedLen(cfg, f)
FLine(f, i) == IF UsesContent THEN content[f][i] ELSE FixedLine(cfg, f, i)
Resolve(path) ==                                          \* the file a path names (files are named f001.cfg, f002.cfg, ...), 0 = none
    IF Len(path) # 8 \/ \E i \in 2 .. 4 : path[i] < 48 \/ path[i] > 57 THEN 0
    ELSE LET n == (path[2] - 48) * 100 + (path[3] - 48) * 10 + (path[4] - 48) IN
         IF n >= 1 /\ n <= NFiles /\ FName(n) = path THEN n ELSE 0
\* The magic line of a file is "<NAME-VERSION>"; NAME must be the CURRENT program name (libast_set_program_name) at the time the
\* file is opened, compared without regard to case (C) - whatever the name was when earlier files were opened (S: the parse
\* depends on its input and the current settings only).  cfg.prog = current program name, cfg.magic[f] = NAME in file f's first
\* line (cfg.magic = <<>>: every file carries the current name).  X: program names longer than 27 characters.
MagicOf(f) == IF cfg.magic = <<>> THEN cfg.prog ELSE cfg.magic[f]
Opens(f) == f > 0 /\ KindOf(f) = "ok" /\ EqCI(MagicOf(f), cfg.prog)   \* I: accepted iff it exists and starts with the magic line

------------------------------------------------------------------------------------------------
(* the mechanism *)
Inc8(i)       == (i + 1) % 256                           \* the indices are unsigned char
Grow(i2, cnt) == IF i2 = cnt THEN (cnt * 2) % CapMod ELSE cnt     \* `if (++idx == cnt) cnt *= 2`
Lookup(name)  ==                                           \* first table entry matching case-insensitively; S: unknown -> null (0)
    LET hit == {i \in 1 .. Len(ctab) : EqCI(ctab[i].name, name)} IN
    IF hit = {} THEN 0 ELSE SetMin(hit) - 1
Top   == fst[Len(fst)]
Frame == cst[Len(cst)]
\* result of calling handler h: built-in null handler returns NULL on B/E and its argument on L; harness handlers return a fresh token
HOut(h, k, si) == IF h = 0 THEN (IF k = "L" THEN si ELSE 0) ELSE tokc + 1
Call(id, k, txt, si) == [id |-> id, h |-> ctab[id + 1].h, k |-> k, x |-> txt.x, t |-> txt.t, si |-> si, so |-> HOut(ctab[id + 1].h, k, si)]
Emit(c) == /\ calls' = Append(calls, c)
           /\ tokc' = IF c.h = 0 THEN tokc ELSE tokc + 1

Snap(ci, cc, si, sc, fi, fc, nv) == [c_idx |-> ci, c_cnt |-> cc, cs_idx |-> si, cs_cnt |-> sc, f_idx |-> fi, f_cnt |-> fc, nvars |-> nv]
FilesNow == [f \in 1 .. NFiles |-> [name |-> FName(f), kind |-> KindOf(f), magic |-> MagicOf(f), lines |-> [i \in 1 .. FLen(f) |-> LineOf(FLine(f, i))]]]
Input    == [cfg |-> cfg, reg |-> RegList, files |-> FilesNow]

Init ==
    /\ cfg \in Configs
    /\ phase = "setup" /\ regpos = 0
    /\ content = IF cfg.fam = "list" THEN cfg.content ELSE [f \in 1 .. Len(cfg.kinds) |-> <<>>]
    /\ closed = IF cfg.fam = "enum" THEN {} ELSE {0}
    /\ ctab = <<[name |-> S_null, h |-> 0]>> /\ c_idx = 0 /\ c_cnt = 20
    /\ cst = <<[id |-> 0, st |-> 0]>> /\ cs_idx = 0 /\ cs_cnt = 20
    /\ fst = <<>> /\ f_idx = 0 /\ f_cnt = 10
    /\ vars = {} /\ tokc = 0 /\ calls = <<>> /\ retnull = FALSE /\ skipUsed = FALSE /\ acts = {}

UNCH_files == UNCHANGED <<content, closed>>
UNCH_ctab  == UNCHANGED <<ctab, c_idx, c_cnt>>
UNCH_cst   == UNCHANGED <<cst, cs_idx, cs_cnt>>
UNCH_fst   == UNCHANGED <<fst, f_idx, f_cnt>>
UNCH_out   == UNCHANGED <<tokc, calls>>
Did(a)     == acts' = acts \cup {a}

(* spifconf_register_context: I: registering "null" replaces the handler of entry 0 and nothing else *)
OpRegister ==
    /\ Did("OpRegister")
    /\ phase = "setup" /\ regpos < Len(RegList)
    /\ LET nm == RegList[regpos + 1] h == regpos + 1 IN
       IF LowerSeq(nm) = S_null
       THEN /\ ctab' = [ctab EXCEPT ![1] = [name |-> nm, h |-> h]] /\ UNCHANGED <<c_idx, c_cnt>>
       ELSE /\ c_idx < 255                                   \* X: more than 255 contexts
            /\ ctab' = Append(ctab, [name |-> nm, h |-> h])
            /\ c_idx' = Inc8(c_idx) /\ c_cnt' = Grow(Inc8(c_idx), c_cnt)
    /\ regpos' = regpos + 1
    /\ UNCHANGED <<cfg, phase, vars, retnull, skipUsed>> /\ UNCH_files /\ UNCH_cst /\ UNCH_fst /\ UNCH_out

(* spifconf_parse entry: open the main file (file 1) *)
OpOpenMain ==
    /\ Did("OpOpenMain")
    /\ phase = "setup" /\ regpos = Len(RegList) /\ Opens(1)
    /\ phase' = "parse"
    /\ fst' = <<[f |-> 1, pos |-> 0, skip |-> FALSE]>> /\ f_idx' = Inc8(f_idx) /\ f_cnt' = Grow(Inc8(f_idx), f_cnt)
    /\ UNCHANGED <<cfg, regpos, vars, retnull, skipUsed>> /\ UNCH_files /\ UNCH_ctab /\ UNCH_cst /\ UNCH_out
OpOpenFail ==                                                 \* no such file / no magic line: NULL, nothing happens
    /\ Did("OpOpenFail")
    /\ phase = "setup" /\ regpos = Len(RegList) /\ ~Opens(1)
    /\ phase' = "done" /\ retnull' = TRUE
    /\ UNCHANGED <<cfg, regpos, vars, skipUsed>> /\ UNCH_files /\ UNCH_ctab /\ UNCH_cst /\ UNCH_fst /\ UNCH_out
    /\ Obs("parse", Input, <<>>, [calls |-> calls, snap |-> Snap(c_idx, c_cnt, cs_idx, cs_cnt, f_idx, f_cnt, Cardinality(vars)), fds |-> 0, acts |-> acts'])

(* reading the next line of the file on top of the file stack; in an enumerated family the environment chooses it *)
Parsing == phase = "parse" /\ fst # <<>>
Avail == IF Top.pos < FLen(Top.f) THEN {FLine(Top.f, Top.pos + 1)}
         ELSE IF Lazy /\ Top.f \notin closed /\ FLen(Top.f) < cfg.maxlen[Top.f] THEN AlphaOf(cfg.alpha, Top.f)
         ELSE {}
Take(l) == content' = IF Top.pos < FLen(Top.f) THEN content ELSE [content EXCEPT ![Top.f] = Append(@, l)]
Advance   == [fst EXCEPT ![Len(fst)].pos = @ + 1]
AdvanceSkip(b) == [fst EXCEPT ![Len(fst)].pos = @ + 1, ![Len(fst)].skip = b]
Quiet(l) == /\ Take(l) /\ fst' = Advance
            /\ UNCHANGED <<cfg, phase, regpos, closed, f_idx, f_cnt, vars, retnull, skipUsed>> /\ UNCH_ctab /\ UNCH_cst /\ UNCH_out

OpBlank    == Did("OpBlank") /\ Parsing /\ \E l \in Avail : Sc(l).c = "blank" /\ Quiet(l)
OpComment  == Did("OpComment") /\ Parsing /\ \E l \in Avail : Sc(l).c = "comment" /\ Quiet(l)
OpMagic    == Did("OpMagic") /\ Parsing /\ \E l \in Avail : Sc(l).c = "magic" /\ Quiet(l)
OpTooLong  == Did("OpTooLong") /\ Parsing /\ \E l \in Avail : Sc(l).c = "toolong" /\ Quiet(l)
OpSkipped  == Did("OpSkipped") /\ Parsing /\ Top.skip /\ \E l \in Avail : Sc(l).c \in {"begin", "text", "directive"} /\ Quiet(l)   \* C: skip-to-end asked by a handler
OpSurplusEnd == Did("OpSurplusEnd") /\ Parsing /\ Len(cst) = 1 /\ \E l \in Avail : Sc(l).c = "end" /\ Quiet(l)                     \* S: surplus end ignored

OpBegin ==                                                    \* S: one begin call, receiving the enclosing state
    /\ Did("OpBegin")
    /\ Parsing /\ ~Top.skip
    /\ \E l \in Avail :
        /\ Sc(l).c = "begin" /\ Take(l)
        /\ LET id == Lookup(Sc(l).name)
               c  == Call(id, "B", [x |-> 0, t |-> Sc(l).name], Frame.st)
           IN IF cs_idx = 255
              THEN /\ phase' = "beyond" /\ UNCHANGED <<fst>> /\ UNCH_cst /\ UNCH_out    \* X: deeper than the 8-bit index counts
              ELSE /\ phase' = phase /\ fst' = Advance
                   /\ cst' = Append(cst, [id |-> id, st |-> c.so])
                   /\ cs_idx' = Inc8(cs_idx) /\ cs_cnt' = Grow(Inc8(cs_idx), cs_cnt)
                   /\ Emit(c)
    /\ UNCHANGED <<cfg, regpos, closed, f_idx, f_cnt, vars, retnull, skipUsed>> /\ UNCH_ctab

OpEnd ==                                                      \* S: one end call; its result becomes the enclosing state
    /\ Did("OpEnd")
    /\ Parsing /\ Len(cst) > 1
    /\ \E l \in Avail :
        /\ Sc(l).c = "end" /\ Take(l)
        /\ LET c == Call(Frame.id, "E", [x |-> 0, t |-> <<>>], Frame.st)
               n == Len(cst)
           IN /\ cst' = [SubSeq(cst, 1, n - 1) EXCEPT ![n - 1].st = c.so]
              /\ cs_idx' = cs_idx - 1 /\ cs_cnt' = cs_cnt
              /\ Emit(c)
        /\ fst' = AdvanceSkip(FALSE)                           \* C: an end clears skip-to-end of the current file
    /\ UNCHANGED <<cfg, phase, regpos, closed, f_idx, f_cnt, vars, retnull, skipUsed>> /\ UNCH_ctab

OpOrdinary ==                                                 \* S: delivered once, trimmed, to the innermost open context
    /\ Did("OpOrdinary")
    /\ Parsing /\ ~Top.skip
    /\ \E l \in Avail :
        /\ Sc(l).c = "text" /\ Take(l)
        /\ LET c == Call(Frame.id, "L", Sc(l).dl, Frame.st)
               sk == c.h # 0 /\ c.x = 0 /\ c.t = SkipText
           IN /\ cst' = [cst EXCEPT ![Len(cst)].st = c.so]
              /\ Emit(c)
              /\ fst' = AdvanceSkip(sk)
              /\ skipUsed' = (skipUsed \/ sk)
    /\ UNCHANGED <<cfg, phase, regpos, closed, cs_idx, cs_cnt, f_idx, f_cnt, vars, retnull>> /\ UNCH_ctab

OpDirective ==                                                \* C: expanded, not delivered
    /\ Did("OpDirective")
    /\ Parsing /\ ~Top.skip
    /\ \E l \in Avail :
        /\ Sc(l).c = "directive" /\ Take(l) /\ fst' = Advance
        /\ vars' = vars \cup Sc(l).put
    /\ UNCHANGED <<cfg, phase, regpos, closed, f_idx, f_cnt, retnull, skipUsed>> /\ UNCH_ctab /\ UNCH_cst /\ UNCH_out

OpInclude ==                                                  \* S: the included file's lines appear at the point of inclusion
    /\ Did("OpInclude")
    /\ Parsing
    /\ \E l \in Avail :
        /\ Sc(l).c = "include" /\ Opens(Resolve(NameOfInclude(Sc(l).target, cfg.env))) /\ Take(l)
        /\ IF Top.skip \/ f_idx = 255
           THEN phase' = "beyond" /\ UNCH_fst                  \* X: %include while skipping; more files than the index counts
           ELSE /\ phase' = phase
                /\ fst' = Append(Advance, [f |-> Resolve(NameOfInclude(Sc(l).target, cfg.env)), pos |-> 0, skip |-> FALSE])
                /\ f_idx' = Inc8(f_idx) /\ f_cnt' = Grow(Inc8(f_idx), f_cnt)
    /\ UNCHANGED <<cfg, regpos, closed, vars, retnull, skipUsed>> /\ UNCH_ctab /\ UNCH_cst /\ UNCH_out
OpIncludeMissing ==                                           \* reported, parsing continues
    /\ Did("OpIncludeMissing")
    /\ Parsing
    /\ \E l \in Avail : Sc(l).c = "include" /\ ~Opens(Resolve(NameOfInclude(Sc(l).target, cfg.env))) /\ Quiet(l)
OpPreproc ==                                                  \* X: %preproc spawns a process (C11)
    /\ Did("OpPreproc")
    /\ Parsing
    /\ \E l \in Avail : Sc(l).c = "preproc" /\ Take(l)
    /\ phase' = "beyond"
    /\ UNCHANGED <<cfg, regpos, closed, vars, retnull, skipUsed>> /\ UNCH_ctab /\ UNCH_cst /\ UNCH_fst /\ UNCH_out

OpEofPop ==                                                   \* end of the top file: closed and popped
    /\ Did("OpEofPop")
    /\ Parsing /\ Top.pos = FLen(Top.f)
    /\ closed' = IF Lazy THEN closed \cup {Top.f} ELSE closed
    /\ fst' = SubSeq(fst, 1, Len(fst) - 1) /\ f_idx' = f_idx - 1 /\ f_cnt' = f_cnt
    /\ UNCHANGED <<cfg, phase, regpos, content, vars, retnull, skipUsed>> /\ UNCH_ctab /\ UNCH_cst /\ UNCH_out

OpReturn ==
    /\ Did("OpReturn")
    /\ phase = "parse" /\ fst = <<>>
    /\ phase' = "done"
    /\ UNCHANGED <<cfg, regpos, vars, retnull, skipUsed>> /\ UNCH_files /\ UNCH_ctab /\ UNCH_cst /\ UNCH_fst /\ UNCH_out
    /\ Obs("parse", Input, S_dot, [calls |-> calls, snap |-> Snap(c_idx, c_cnt, cs_idx, cs_cnt, f_idx, f_cnt, Cardinality(vars)), fds |-> 0, acts |-> acts'])

OpAbandon ==                                                  \* X: the behaviour left the universe of the statement; reported, not judged
    /\ Did("OpAbandon")
    /\ phase = "beyond" /\ phase' = "unjudged"
    /\ UNCHANGED <<cfg, regpos, vars, retnull, skipUsed>> /\ UNCH_files /\ UNCH_ctab /\ UNCH_cst /\ UNCH_fst /\ UNCH_out
    /\ Obs("unjudged", Input, <<>>, [calls |-> <<>>, snap |-> Snap(0, 0, 0, 0, 0, 0, 0), fds |-> 0, acts |-> acts'])

Next == \/ OpAbandon \/ OpRegister \/ OpOpenMain \/ OpOpenFail
        \/ OpBlank \/ OpComment \/ OpMagic \/ OpTooLong \/ OpSkipped \/ OpSurplusEnd
        \/ OpBegin \/ OpEnd \/ OpOrdinary \/ OpDirective \/ OpInclude \/ OpIncludeMissing \/ OpPreproc
        \/ OpEofPop \/ OpReturn
Spec == Init /\ [][Next]_vars_all

------------------------------------------------------------------------------------------------
(* the reference: what the statement says the handlers must see, computed from the file tree alone *)
RECURSIVE FlatFrom(_, _, _)
FlatFrom(f, i, d) ==                                          \* lines of file f from line i on, includes spliced in
    IF i > FLen(f) THEN <<>>
    ELSE LET l == FLine(f, i)
             g == IF Sc(l).c = "include" THEN Resolve(NameOfInclude(Sc(l).target, cfg.env)) ELSE 0
         IN (IF d > 0 /\ Opens(g) THEN FlatFrom(g, 1, d - 1) ELSE <<l>>) \o FlatFrom(f, i + 1, d)
Flat == FlatFrom(1, 1, NFiles)
RECURSIVE RefFold(_, _, _, _)
RefFold(ls, i, stack, acc) ==                                 \* stack: table ids of the open contexts, innermost last
    IF i > Len(ls) THEN [calls |-> acc, depth |-> Len(stack)]   \* (TLCEval: evaluate the accumulators now, not as a chain of thunks)
    ELSE LET l == ls[i] sc == Sc(l) c == sc.c n == Len(stack) IN
         CASE c = "begin" -> LET id == TLCEval(Lookup(sc.name)) IN
                             RefFold(ls, i + 1, TLCEval(Append(stack, id)),
                                     TLCEval(Append(acc, [id |-> id, k |-> "B", x |-> 0, t |-> sc.name])))
           [] c = "end" /\ n > 0 -> RefFold(ls, i + 1, TLCEval(SubSeq(stack, 1, n - 1)),
                                            TLCEval(Append(acc, [id |-> stack[n], k |-> "E", x |-> 0, t |-> <<>>])))
           [] c = "text" -> RefFold(ls, i + 1, stack,
                                    TLCEval(Append(acc, [id |-> IF n = 0 THEN 0 ELSE stack[n], k |-> "L", x |-> sc.dl.x, t |-> sc.dl.t])))
           [] OTHER -> RefFold(ls, i + 1, stack, acc)
Ref  == RefFold(Flat, 1, <<>>, <<>>)
Proj == [i \in 1 .. Len(calls) |-> [id |-> calls[i].id, k |-> calls[i].k, x |-> calls[i].x, t |-> calls[i].t]]
IsL(c) == c.k = "L"
NotL(c) == c.k # "L"
Claimed == phase = "done" /\ ~retnull /\ ~skipUsed           \* skip-to-end is a client facility outside the statement

IndexBelowCapacity == c_idx < c_cnt /\ cs_idx < cs_cnt /\ f_idx < f_cnt
IndicesMirrorStacks == /\ c_idx = Len(ctab) - 1 /\ cs_idx = Len(cst) - 1 /\ f_idx = Len(fst)
DeliveredOnceInOrder == Claimed => SelectSeq(Proj, IsL) = SelectSeq(Ref.calls, IsL)
BeginEndPaired       == Claimed => SelectSeq(Proj, NotL) = SelectSeq(Ref.calls, NotL)
InnermostContext     == Claimed => Proj = Ref.calls
UnknownFallsToNull   == phase = "done" => \A i \in 1 .. Len(calls) :
                           calls[i].k = "B" => \/ EqCI(ctab[calls[i].id + 1].name, calls[i].t)
                                               \/ calls[i].id = 0 /\ \A j \in 1 .. Len(ctab) : ~EqCI(ctab[j].name, calls[i].t)
RECURSIVE Thr(_, _)
Thr(i, stk) ==                                                \* the state a handler returns is the state it receives next
    IF i > Len(calls) THEN TRUE
    ELSE LET c == calls[i] n == Len(stk) IN
         CASE c.k = "B" -> c.si = stk[n] /\ Thr(i + 1, Append(stk, c.so))
           [] c.k = "L" -> c.si = stk[n] /\ Thr(i + 1, [stk EXCEPT ![n] = c.so])
           [] OTHER     -> n > 1 /\ c.si = stk[n] /\ Thr(i + 1, [SubSeq(stk, 1, n - 1) EXCEPT ![n - 1] = c.so])
StateThreaded  == phase = "done" => Thr(1, <<0>>)
StacksRestored == phase = "done" => /\ fst = <<>> /\ f_idx = 0
                                    /\ (~retnull /\ ~skipUsed /\ Ref.depth = 0) => (cs_idx = 0 /\ Len(cst) = 1)
================================================================================
