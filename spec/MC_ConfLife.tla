------------------------------ MODULE MC_ConfLife ------------------------------
(* Bounded models of ConfLife: all cycle sequences (the state is finite, so sequences of ANY length are    *)
(* covered, in particular all of length <= 8) and registrations up to 255 contexts / built-ins.            *)
EXTENDS ConfLife
AllTexts == [bq : BOOLEAN, ex : BOOLEAN, pp : BOOLEAN]
NoTexts  == {}
F3 == [bq |-> FALSE, ex |-> FALSE, pp |-> FALSE]
FewTexts == {F3, [F3 EXCEPT !.bq = TRUE], [F3 EXCEPT !.ex = TRUE], [F3 EXCEPT !.pp = TRUE]}
TF == [mode |-> 384, fresh |-> TRUE]
OutcomesMC == {[ns |-> ns, tm |-> tm, dv |-> dv, d |-> d, fds |-> 0, cwd |-> TRUE] : ns \in 0 .. 1, tm \in {<<>>, <<TF>>}, dv \in 0 .. 1, d \in {0, 25}}
ObsNone(op, args, ret, post) == TRUE
Bounded == ntemps <= 2
EnvQuiet == cwdok /\ prog = 1          \* registration sweeps do not need the environment actions
================================================================================
