SPECIFICATION Spec
CONSTANTS
  RawSyms <- RawSymsQuick
  RawMax = 3
  NumVals <- NumValsQuick
  MaxNums = 2
  SuffixWords <- Words8
  SuffixNums <- SufNums
  TransMax = 2
  MaxClaimedRun = 127
  Obs <- ObsEmit
INVARIANTS Reflexive Antisymmetric StatedOrder
CHECK_DEADLOCK FALSE
