/* C06: replays Ownership.tla programs on the real container classes.
 * usage: own_replay <seq|vec|map> <array|linked_list|dlinked_list> <values e.g. 1,1,2>[:url|:pair|:list] <scriptfile> [first]
 *   map kind, :url/:pair/:list - the VALUE handed to set() is a composite object made from the value handle's text (a url
 *   whose host is the text, a pair of two strs, a list holding one str) and deleted by the program right after the call.
 * Handle h carries the text of values[h]; several handles may carry EQUAL texts.  The library addresses elements by value;
 * ownership is by identity.  When remove() hands back an object equal to the probe but not the one the script named, the
 * two equal-valued handles swap their labels (sound: they are indistinguishable by value), so the ledger stays by identity.
 * State token (keys sorted): {cont=live|deleted,copy=none|live,held={arrays=..,iters=..,lists=..,pairs=..},keys=[..],order=[..],own=[..]}
 * own[h]: "none" never created, "prog" the harness holds it and it is not inside the container, "cont" found inside the
 * container BY IDENTITY, "freed" otherwise.  Everything the ledger says the program owns is touched (read) after every
 * step - ASan reports a use-after-free if the library released it - and deleted at the end; common.h then checks the heap.
 */
#include "common.h"

#define MAXH 8
static const char *kind, *cls;
static int NH;
static int VAL[MAXH + 1];
static spif_obj_t C, D;                        /* container, copy */
static spif_obj_t Hd[MAXH + 1];                /* program-created objects */
static int created[MAXH + 1], deleted[MAXH + 1], given[MAXH + 1];
static spif_obj_t pairs[8]; static int npairs;
static spif_obj_t lists[8]; static int nlists;
static spif_obj_t *arrays[8]; static int narrays;
static spif_iterator_t iter;
static char invmsg[256];

static int is_seq(void) { return kind[0] == 's'; }
static int is_vec(void) { return kind[0] == 'v'; }
static int is_map(void) { return kind[0] == 'm'; }
#define NEWC(mac) (!strcmp(cls, "array") ? SPIF_OBJ(mac(array)) : !strcmp(cls, "linked_list") ? SPIF_OBJ(mac(linked_list)) : SPIF_OBJ(mac(dlinked_list)))
static spif_obj_t new_cont(void) { return is_seq() ? NEWC(SPIF_LIST_NEW) : is_vec() ? NEWC(SPIF_VECTOR_NEW) : NEWC(SPIF_MAP_NEW); }
static long count(spif_obj_t c) { return is_seq() ? SPIF_LIST_COUNT(c) : is_vec() ? SPIF_VECTOR_COUNT(c) : SPIF_MAP_COUNT(c); }
static spif_iterator_t iterator(spif_obj_t c) { return is_seq() ? SPIF_LIST_ITERATOR(c) : is_vec() ? SPIF_VECTOR_ITERATOR(c) : SPIF_MAP_ITERATOR(c); }
static const char *vkind = "";                 /* "", "url", "pair", "list": class of the values stored in a map */
static int is_listobj(spif_obj_t o) {
    return !SPIF_OBJ_ISNULL(o) && (SPIF_OBJ_CLASS(o) == SPIF_CLASS(SPIF_LISTCLASS_VAR(array)) || SPIF_OBJ_CLASS(o) == SPIF_CLASS(SPIF_LISTCLASS_VAR(linked_list))
                                   || SPIF_OBJ_CLASS(o) == SPIF_CLASS(SPIF_LISTCLASS_VAR(dlinked_list)));
}
/* the text an object stands for: a str/url's own text, a pair's key, a list's first element */
static const char *text_of(spif_obj_t o) {
    if (SPIF_OBJ_ISNULL(o)) return NULL;
    if (SPIF_OBJ_IS_OBJPAIR(o)) return text_of(SPIF_OBJPAIR(o)->key);
    if (is_listobj(o)) return text_of(SPIF_LIST_GET(SPIF_LIST(o), 0));
    return (const char *) SPIF_STR_STR(SPIF_STR(o));
}
static int hid(spif_obj_t o) { const char *t = text_of(o); return t ? atoi(t) : 0; }
static spif_obj_t mk_value(const char *b) {
    if (!strcmp(vkind, "url")) return SPIF_OBJ(spif_url_new_from_ptr((spif_charptr_t) b));
    if (!strcmp(vkind, "pair")) {
        spif_str_t k = spif_str_new_from_ptr((spif_charptr_t) b), v = spif_str_new_from_ptr((spif_charptr_t) b);
        spif_objpair_t p = spif_objpair_new_from_both(SPIF_OBJ(k), SPIF_OBJ(v));
        spif_str_del(k); spif_str_del(v);
        return SPIF_OBJ(p);
    }
    { spif_list_t l = SPIF_LIST_NEW(array); SPIF_LIST_APPEND(l, SPIF_OBJ(spif_str_new_from_ptr((spif_charptr_t) b))); return SPIF_OBJ(l); }
}
/* a component of a stored value (the object itself when it has none) */
static spif_obj_t part_of(spif_obj_t v) {
    if (SPIF_OBJ_IS_URL(v)) { spif_str_t h = spif_url_get_host((spif_url_t) v); return SPIF_STR_ISNULL(h) ? v : SPIF_OBJ(h); }
    if (SPIF_OBJ_IS_OBJPAIR(v)) return SPIF_OBJ_ISNULL(SPIF_OBJPAIR(v)->value) ? v : SPIF_OBJPAIR(v)->value;
    if (is_listobj(v) && SPIF_LIST_COUNT(SPIF_LIST(v)) > 0) return SPIF_LIST_GET(SPIF_LIST(v), 0);
    return v;
}
static int ident(spif_obj_t o) { int h; for (h = 1; h <= NH; h++) if (created[h] && !deleted[h] && Hd[h] == o) return h; return 0; }
/* value 0 is the EMPTY text (an object that is "" but owns a buffer), value n > 0 the decimal text of n */
static void mkname(int h, char *b) { if (VAL[h] == 0) b[0] = 0; else sprintf(b, "%d", VAL[h]); }
static int isval(int v) { int h; for (h = 1; h <= NH; h++) if (VAL[h] == v) return 1; return 0; }
/* the object `r` came back from the container where the script named handle h: make h name it */
static const char *relabel(int h, spif_obj_t r) {
    int h2 = ident(r); spif_obj_t t;
    if (!h2) return "container_handed_back_an_object_it_was_never_given";
    if (!given[h2]) return "container_handed_back_an_object_the_program_already_owns";
    if (VAL[h2] != VAL[h]) return "container_handed_back_an_object_of_another_value";
    if (h2 != h) { t = Hd[h]; Hd[h] = Hd[h2]; Hd[h2] = t; }
    given[h] = 0;
    return NULL;
}

/* the program reads every object it still owns */
static const char *touch_all(void) {
    int h, i; char b[16];
    for (h = 1; h <= NH; h++) {
        if (!created[h] || deleted[h] || given[h]) continue;
        mkname(h, b);
        if (strcmp((const char *) SPIF_STR_STR(SPIF_STR(Hd[h])), b)) { snprintf(invmsg, sizeof(invmsg), "program-owned_object_%d_changed", h); return invmsg; }
        if (spif_str_get_len(SPIF_STR(Hd[h])) != (spif_stridx_t) strlen(b)) return "program-owned_object_len_changed";
    }
    for (i = 0; i < npairs; i++) {
        spif_objpair_t p = SPIF_OBJPAIR(pairs[i]);
        if (!isval(hid(p->key)) || !isval(hid(p->value))) return "removed_pair_unreadable";
    }
    for (i = 0; i < nlists; i++) {
        long n = SPIF_LIST_COUNT(lists[i]), j;
        for (j = 0; j < n; j++) {
            spif_obj_t e = SPIF_LIST_GET(lists[i], (spif_listidx_t) j);
            if (SPIF_OBJ_ISNULL(e)) return "listing_has_NULL_entry";
            if (SPIF_OBJ_IS_OBJPAIR(e)) { if (!isval(hid(SPIF_OBJPAIR(e)->key))) return "listing_pair_unreadable"; }
            else if (!isval(hid(e))) return "listing_entry_unreadable";
        }
    }
    return NULL;
}

static const char *project(vh_sb *out) {
    long n = 0, i; int h, incont[MAXH + 1];
    const char *inv;
    memset(incont, 0, sizeof(incont));
    sb_printf(out, "{cont=%s,copy=%s,held={arrays=%d,iters=%d,lists=%d,pairs=%d},keys=[", C ? "live" : "deleted", D ? "live" : "none",
              narrays, iter ? 1 : 0, nlists, npairs);
    if (C && is_map()) {
        /* keys present, observed through has_key/get with fresh probes, ascending */
        int first = 1;
        for (h = 1; h <= NH; h++) {
            char b[16]; spif_str_t probe; spif_bool_t has; spif_obj_t v; int dupv = 0, g;
            for (g = 1; g < h; g++) if (VAL[g] == VAL[h]) dupv = 1;
            if (dupv) continue;               /* one probe per distinct value, ascending */
            mkname(h, b); probe = spif_str_new_from_ptr((spif_charptr_t) b);
            has = SPIF_MAP_HAS_KEY(C, probe); v = SPIF_MAP_GET(C, probe);
            spif_str_del(probe);
            if ((has ? 1 : 0) != (SPIF_OBJ_ISNULL(v) ? 0 : 1)) return "map:has_key_and_get_disagree";
            if (has) {
                if (ident(v)) return "map_returns_the_callers_own_value_object";
                sb_printf(out, "%s%d", first ? "" : ",", VAL[h]); first = 0; n++;
            }
        }
        if (count(C) != n) { snprintf(invmsg, sizeof(invmsg), "map:count=%ld_but_%ld_keys_answer", count(C), n); return invmsg; }
    }
    sb_puts(out, "],order=[");
    if (C && !is_map()) {
        spif_iterator_t it = iterator(C);
        n = count(C);
        for (i = 0; i < n; i++) {
            spif_obj_t e;
            if (!SPIF_ITERATOR_HAS_NEXT(it)) { SPIF_ITERATOR_DEL(it); return "iterator_short"; }
            e = SPIF_ITERATOR_NEXT(it);
            h = ident(e);
            if (!h || hid(e) != VAL[h]) { SPIF_ITERATOR_DEL(it); return "container_holds_an_object_that_is_not_one_it_was_given"; }
            if (incont[h]) { SPIF_ITERATOR_DEL(it); return "container_holds_the_same_object_twice"; }
            if (!given[h]) { SPIF_ITERATOR_DEL(it); return "container_still_holds_an_object_it_handed_back"; }
            incont[h] = 1;
            sb_printf(out, "%s%d", i ? "," : "", VAL[h]);
        }
        if (SPIF_ITERATOR_HAS_NEXT(it)) { SPIF_ITERATOR_DEL(it); return "iterator_long"; }
        SPIF_ITERATOR_DEL(it);
    }
    sb_puts(out, "],own=[");
    for (h = 1; h <= NH; h++) {
        const char *s = !created[h] ? "none" : deleted[h] ? "freed" : incont[h] ? "cont" : given[h] ? "freed" : "prog";
        sb_printf(out, "%s%s", h > 1 ? "," : "", s);
    }
    sb_puts(out, "]}");
    if (D && count(D) < 0) return "copy_unreadable";
    if ((inv = touch_all())) return inv;
    return NULL;
}

static void vh_begin(void) {
    memset(created, 0, sizeof(created)); memset(deleted, 0, sizeof(deleted)); memset(given, 0, sizeof(given));
    npairs = nlists = narrays = 0; iter = (spif_iterator_t) NULL; D = (spif_obj_t) NULL;
    C = new_cont();
}
static void vh_end(void) {
    int h, i;
    if (iter) { SPIF_ITERATOR_DEL(iter); iter = (spif_iterator_t) NULL; }
    for (i = 0; i < narrays; i++) FREE(arrays[i]);
    for (i = 0; i < nlists; i++) SPIF_LIST_DEL(lists[i]);
    for (i = 0; i < npairs; i++) SPIF_OBJ_DEL(pairs[i]);
    narrays = nlists = npairs = 0;
    if (D) { SPIF_OBJ_DEL(D); D = (spif_obj_t) NULL; }
    if (C) { SPIF_OBJ_DEL(C); C = (spif_obj_t) NULL; }
    /* exactly what the ledger says the program owns */
    for (h = 1; h <= NH; h++) if (created[h] && !deleted[h] && !given[h]) { SPIF_OBJ_DEL(Hd[h]); deleted[h] = 1; }
}

#define OP(s) (!strcmp(op, s))
static const char *vh_step(const vh_step_t *st, vh_sb *ret, vh_sb *state) {
    const char *op = st->op; int h = st->nargs > 0 ? atoi(st->args[0]) : 0, i;
    char b[16];

    if (OP("create")) {
        mkname(h, b); Hd[h] = SPIF_OBJ(spif_str_new_from_ptr((spif_charptr_t) b)); created[h] = 1; deleted[h] = given[h] = 0;
        sb_bool(ret, !SPIF_OBJ_ISNULL(Hd[h]));
    } else if (OP("touch")) {
        const char *inv = touch_all(); if (inv) return inv;
        sb_bool(ret, 1);
    } else if (OP("delete")) {
        sb_bool(ret, SPIF_OBJ_DEL(Hd[h])); deleted[h] = 1;
    } else if (OP("give")) {
        spif_bool_t r = is_seq() ? SPIF_LIST_APPEND(C, Hd[h]) : SPIF_VECTOR_INSERT(C, Hd[h]);
        given[h] = 1;
        sb_bool(ret, r);
    } else if (OP("give_refused")) {
        spif_bool_t r = SPIF_LIST_INSERT_AT(C, Hd[h], (spif_listidx_t) (-(count(C) + 1)));
        /* refused: the object is still the caller's (it is read again right below and deleted at the end) */
        sb_bool(ret, r);
    } else if (OP("take_back")) {
        spif_str_t probe; spif_obj_t r; const char *inv;
        mkname(h, b); probe = spif_str_new_from_ptr((spif_charptr_t) b);
        r = is_seq() ? SPIF_LIST_REMOVE(C, probe) : SPIF_VECTOR_REMOVE(C, probe);
        spif_str_del(probe);
        if (SPIF_OBJ_ISNULL(r)) return "remove_of_a_stored_value_returned_NULL";
        if ((inv = relabel(h, r))) return inv;
        sb_int(ret, hid(r));
    } else if (OP("take_first")) {
        spif_obj_t r; const char *inv;
        if (is_seq()) r = SPIF_LIST_REMOVE_AT(C, 0);
        else { spif_obj_t *a = SPIF_VECTOR_TO_ARRAY(C); spif_obj_t first = a[0]; FREE(a); r = SPIF_VECTOR_REMOVE(C, first); }
        if (SPIF_OBJ_ISNULL(r)) return "remove_at(0)_returned_NULL";
        if ((inv = relabel(h, r))) return inv;
        sb_int(ret, hid(r));
    } else if (OP("lend")) {
        spif_str_t probe; spif_obj_t r; int h2;
        mkname(h, b); probe = spif_str_new_from_ptr((spif_charptr_t) b);
        r = is_seq() ? SPIF_LIST_FIND(C, probe) : SPIF_VECTOR_FIND(C, probe);
        spif_str_del(probe);
        h2 = ident(r);
        if (!h2 || !given[h2]) return "find_returned_an_object_the_container_does_not_own";
        sb_int(ret, hid(r));
    } else if (OP("to_array")) {
        long n = count(C), j; spif_obj_t *a = is_seq() ? SPIF_LIST_TO_ARRAY(C) : SPIF_VECTOR_TO_ARRAY(C);
        sb_putc(ret, '[');
        for (j = 0; j < n; j++) { if (!ident(a[j])) return "to_array_holds_a_foreign_object"; sb_printf(ret, "%s%d", j ? "," : "", hid(a[j])); }
        sb_putc(ret, ']');
        arrays[narrays++] = a;
    } else if (OP("free_array")) {
        narrays--; FREE(arrays[narrays]); sb_bool(ret, 1);
    } else if (OP("set")) {
        int v = atoi(st->args[1]);
        if (!*vkind) sb_bool(ret, SPIF_MAP_SET(C, Hd[h], Hd[v]));
        else {
            /* a composite value: the map holds its own copy, the program deletes its object right away */
            spif_obj_t val; mkname(v, b); val = mk_value(b);
            sb_bool(ret, SPIF_MAP_SET(C, Hd[h], val));
            SPIF_OBJ_DEL(val);
        }
    } else if (OP("set_same") || OP("set_part")) {
        spif_obj_t cur = SPIF_MAP_GET(C, Hd[h]);
        if (SPIF_OBJ_ISNULL(cur)) return "get_of_a_present_key=NULL";
        sb_bool(ret, SPIF_MAP_SET(C, Hd[h], OP("set_part") ? part_of(cur) : cur));
    } else if (OP("map_get")) {
        spif_obj_t v = SPIF_MAP_GET(C, Hd[h]);
        if (!SPIF_OBJ_ISNULL(v) && ident(v)) return "map_get_returns_the_callers_own_object";
        sb_bool(ret, !SPIF_OBJ_ISNULL(v));
    } else if (OP("map_remove")) {
        spif_obj_t p = SPIF_MAP_REMOVE(C, Hd[h]);
        if (!SPIF_OBJ_ISNULL(p)) {
            if (!SPIF_OBJ_IS_OBJPAIR(p)) return "map_remove_did_not_return_a_pair";
            if (ident(SPIF_OBJPAIR(p)->key) || ident(SPIF_OBJPAIR(p)->value)) return "removed_pair_aliases_the_callers_objects";
            pairs[npairs++] = p;
        }
        sb_bool(ret, !SPIF_OBJ_ISNULL(p));
    } else if (OP("del_pair")) {
        npairs--; sb_bool(ret, SPIF_OBJ_DEL(pairs[npairs]));
    } else if (OP("listing")) {
        const char *w = st->args[0], *d = st->nargs > 1 ? st->args[1] : "null";
        spif_list_t dest = (spif_list_t) NULL, l;
        if (strcmp(d, "null")) {
            /* a destination list of the map's own implementation family, in one of the states an empty list can be in */
            dest = SPIF_LIST(NEWC(SPIF_LIST_NEW));
            mkname(1, b);
            if (!strcmp(d, "dup_empty")) { spif_list_t e = dest; dest = SPIF_LIST(SPIF_LIST_DUP(e)); SPIF_LIST_DEL(e); }
            else if (!strcmp(d, "emptied")) { spif_obj_t r; SPIF_LIST_APPEND(dest, SPIF_OBJ(spif_str_new_from_ptr((spif_charptr_t) b))); r = SPIF_LIST_REMOVE_AT(dest, 0); if (!SPIF_OBJ_ISNULL(r)) SPIF_OBJ_DEL(r); }
            else if (!strcmp(d, "done")) { SPIF_LIST_APPEND(dest, SPIF_OBJ(spif_str_new_from_ptr((spif_charptr_t) b))); SPIF_LIST_DONE(dest); }
            else if (!strcmp(d, "holding")) { SPIF_LIST_APPEND(dest, SPIF_OBJ(spif_str_new_from_ptr((spif_charptr_t) b))); }
            if (SPIF_LIST_ISNULL(dest)) return "destination_list=NULL";
        }
        l = !strcmp(w, "keys") ? SPIF_MAP_GET_KEYS(C, dest) : !strcmp(w, "values") ? SPIF_MAP_GET_VALUES(C, dest) : SPIF_MAP_GET_PAIRS(C, dest);
        if (SPIF_LIST_ISNULL(l)) { if (dest) SPIF_LIST_DEL(dest); return "listing=NULL"; }
        if (dest && l != dest) { SPIF_LIST_DEL(dest); return "listing_did_not_go_into_the_destination_it_was_given"; }
        lists[nlists++] = SPIF_OBJ(l);
        sb_int(ret, (long) SPIF_LIST_COUNT(l));
    } else if (OP("del_listing")) {
        nlists--; sb_bool(ret, SPIF_LIST_DEL(lists[nlists]));
    } else if (OP("null_probe")) {
        /* NULL where an object is expected, on a scratch container of the class under test: accepted or refused (not judged
         * here) - but nothing may be left behind once the scratch container is deleted (heap balance at the end of the script) */
        const char *w = st->args[0]; int one = st->nargs > 1 && !strcmp(st->args[1], "one");
        spif_obj_t sc = new_cont();
        if (one) {
            spif_str_t e = spif_str_new_from_ptr((spif_charptr_t) "7");
            if (is_seq()) SPIF_LIST_APPEND(sc, e);
            else if (is_vec()) SPIF_VECTOR_INSERT(sc, e);
            else { SPIF_MAP_SET(sc, e, e); spif_str_del(e); }
        }
        if (is_seq()) {
            if (!strcmp(w, "append")) SPIF_LIST_APPEND(sc, (spif_obj_t) NULL);
            else if (!strcmp(w, "prepend")) SPIF_LIST_PREPEND(sc, (spif_obj_t) NULL);
            else if (!strcmp(w, "insert")) SPIF_LIST_INSERT(sc, (spif_obj_t) NULL);
            else if (!strcmp(w, "insert_at")) SPIF_LIST_INSERT_AT(sc, (spif_obj_t) NULL, 0);
        } else if (is_vec()) {
            if (!strcmp(w, "insert")) SPIF_VECTOR_INSERT(sc, (spif_obj_t) NULL);
        } else if (!strcmp(w, "set")) {
            spif_str_t k = spif_str_new_from_ptr((spif_charptr_t) "8");
            SPIF_MAP_SET(sc, k, (spif_obj_t) NULL);
            spif_str_del(k);
        }
        SPIF_OBJ_DEL(sc);
        sb_bool(ret, 1);
    } else if (OP("iter_new")) {
        iter = iterator(C); sb_bool(ret, !SPIF_ITERATOR_ISNULL(iter));
    } else if (OP("iter_del")) {
        sb_bool(ret, SPIF_ITERATOR_DEL(iter)); iter = (spif_iterator_t) NULL;
    } else if (OP("dup")) {
        D = SPIF_OBJ_DUP(C);
        if (SPIF_OBJ_ISNULL(D)) return "dup=NULL";
        sb_bool(ret, 1);
    } else if (OP("del_copy")) {
        sb_bool(ret, SPIF_OBJ_DEL(D)); D = (spif_obj_t) NULL;
    } else if (OP("done")) {
        sb_bool(ret, SPIF_OBJ_DONE(C));
    } else if (OP("del_cont")) {
        sb_bool(ret, SPIF_OBJ_DEL(C)); C = (spif_obj_t) NULL;
    } else if (OP("renew")) {
        C = new_cont(); sb_bool(ret, !SPIF_OBJ_ISNULL(C));
    } else {
        snprintf(invmsg, sizeof(invmsg), "unknown_op_%s", op); return invmsg;
    }
    return project(state);
}

int main(int argc, char **argv) {
    if (argc < 5) { fprintf(stderr, "usage: %s <seq|vec|map> <class> <values> <scripts> [first]\n", argv[0]); return 2; }
    kind = argv[1]; cls = argv[2];
    { char *c = strchr(argv[3], ':'); if (c) { *c = 0; vkind = c + 1; } }
    { char *t = strdup(argv[3]), *q; NH = 0; for (q = strtok(t, ","); q && NH < MAXH; q = strtok(NULL, ",")) VAL[++NH] = atoi(q); }
    libast_set_program_name("own_replay");
    return vh_main(argc, argv, 4);
}
