/* X04: replay / trace-recording harness for spec/MsgFmt.tla - the diagnostic output of libast (src/msgs.c, the globals of
 * src/debug.c, the statement macros of include/libast.h).
 *
 * usage: msg_replay <prelude 0|1> <scriptfile> [first]        |  msg_replay --sites
 *   prelude 1 = adversarial prelude before every call: errno preset (ERANGE / EINTR / EAGAIN / ENOMEM in turn) and, for the
 *   printers and macros, the SAME call made just before with argument blocks at the same addresses and of the same lengths
 *   but different contents (its output is discarded) - results must be identical.
 *
 * Script operations (arguments are canonical tokens; texts are lists of character codes):
 *   set_name [t] | set_name_null | set_name_alias k | unset_name        (the same with _ver)       ret {kept=T|F}
 *   set_silent T|F                                                                                  ret T|F
 *   set_level n                                                                                     ret T
 *   dprintf FMT ARGS | print_error FMT ARGS | print_warning FMT ARGS | fatal_error FMT ARGS
 *   macro NAME SITE [clock limbs] FMT ARGS
 *        FMT  = the format string;  ARGS = [[1,codes...] | [2,l3,l2,l1,l0]]*   (1 = char * argument, 2 = 64-bit value)
 *        ret {ctl=falls|returns|exits|signal,err=[bytes written to fd 2],out=[bytes written to fd 1],val=N}
 * State token: {hb=<heap bytes the library holds>,level=N,name=[..],nst=static|heap|unset,silent=T|F,ver=[..],vst=...}
 *
 * Every argument is an exact-size heap copy (ASan redzone right behind the terminator).  All variadic arguments are passed as
 * 64-bit words (LP64: an int conversion reads the low half of its slot) - the calling convention is trusted, see notes/X04.md.
 */
#include "common.h"
#include <time.h>
#include <fcntl.h>
#include <sys/wait.h>
#include <sys/stat.h>

/* exported by src/msgs.c, declared only in include/libast_internal.h:58 ("setting it directly should be avoided") */
extern spif_charptr_t libast_program_name, libast_program_version;

/* ---- controlled clock for the debug header: __DEBUG() calls time(NULL) at the place of use -------------------------- */
static unsigned long g_clock = 1045855757UL;
static time_t vh_fake_time(time_t *p) { if (p) *p = (time_t) g_clock; return (time_t) g_clock; }
#define time(p) vh_fake_time(p)

/* ---- the message of the message-bearing macros / printers ------------------------------------------------------------ */
static const char *g_fmt = "";
static long g_a[6];
#define MSG (g_fmt, g_a[0], g_a[1], g_a[2], g_a[3], g_a[4], g_a[5])
static int vh_zero(void) { return 0; }
static int g_fell;

#define PROBES(t) \
    static int t##_moo(void) { MOO(); return 1000; } \
    static int t##_dp1(void) { DPRINTF1(MSG); return 1000; } static int t##_dp2(void) { DPRINTF2(MSG); return 1000; } \
    static int t##_dp3(void) { DPRINTF3(MSG); return 1000; } static int t##_dp4(void) { DPRINTF4(MSG); return 1000; } \
    static int t##_dp5(void) { DPRINTF5(MSG); return 1000; } static int t##_dp6(void) { DPRINTF6(MSG); return 1000; } \
    static int t##_dp7(void) { DPRINTF7(MSG); return 1000; } static int t##_dp8(void) { DPRINTF8(MSG); return 1000; } \
    static int t##_dp9(void) { DPRINTF9(MSG); return 1000; } \
    static int t##_dopt(void) { D_OPTIONS(MSG); return 1000; } static int t##_dobj(void) { D_OBJ(MSG); return 1000; } \
    static int t##_dconf(void) { D_CONF(MSG); return 1000; } static int t##_dmem(void) { D_MEM(MSG); return 1000; } \
    static int t##_assert(void) { ASSERT_RVAL(vh_zero(), 7); return 1000; } \
    static int t##_require(void) { REQUIRE_RVAL(vh_zero(), 7); return 1000; } \
    static int t##_nr(void) { ASSERT_NOTREACHED_RVAL(7); return 1000; } \
    static void t##_nrv(void) { ASSERT_NOTREACHED(); g_fell = 1; } \
    static int t##_nrv_w(void) { g_fell = 0; t##_nrv(); return g_fell ? 1000 : 7; } \
    static int t##_abort(void) { ABORT(); return 1000; }

/* the probe sites of spec/gen_mc_x04.py (file name shorter than / exactly / longer than the 12-column field, line numbers of
 * 1, 4 and 5 digits, a '%' in the file name) */
#line 7 "a.c"
PROBES(s0)
#line 1000 "abcdefgh.ijk"
PROBES(s1)
#line 12345 "dir/long_file_name.c"
PROBES(s2)
#line 99 "p%d.c"
PROBES(s3)
#line 78 "msg_replay.c"

#define ROW(t, m) { #t, #m, t##_##m }
#define ROWS(t) ROW(t, moo), ROW(t, dp1), ROW(t, dp2), ROW(t, dp3), ROW(t, dp4), ROW(t, dp5), ROW(t, dp6), ROW(t, dp7), ROW(t, dp8), \
    ROW(t, dp9), ROW(t, dopt), ROW(t, dobj), ROW(t, dconf), ROW(t, dmem), ROW(t, assert), ROW(t, require), ROW(t, nr), \
    { #t, "nrv", t##_nrv_w }, ROW(t, abort)
static struct { const char *site, *mac; int (*fn)(void); } PROBE[] = { ROWS(s0), ROWS(s1), ROWS(s2), ROWS(s3), { NULL, NULL, NULL } };
static struct { const char *tag, *file; int line; } SITES[] = {
    { "s0", "a.c", 7 }, { "s1", "abcdefgh.ijk", 1000 }, { "s2", "dir/long_file_name.c", 12345 }, { "s3", "p%d.c", 99 }, { NULL, NULL, 0 } };

/* ---- nested integer lists ----------------------------------------------------------------------------------------------- */
typedef struct node { int is_list; long v; struct node **kid; int n; } node;
static node *parse_node(const char **pp) {
    const char *p = *pp; node *x = (node *) calloc(1, sizeof(node));
    if (*p == '[') {
        int cap = 0;
        x->is_list = 1; p++;
        while (*p && *p != ']') {
            if (x->n == cap) { cap = cap ? cap * 2 : 8; x->kid = (node **) realloc(x->kid, (size_t) cap * sizeof(node *)); }
            x->kid[x->n++] = parse_node(&p);
            if (*p == ',') p++;
        }
        if (*p == ']') p++;
    } else {
        char *e; x->v = strtol(p, &e, 10); if (e == p) e++;
        p = e;
    }
    *pp = p;
    return x;
}
static node *parse_tok(const char *t) { const char *p = t; return parse_node(&p); }
static void free_node(node *x) { int i; if (!x) return; for (i = 0; i < x->n; i++) free_node(x->kid[i]); free(x->kid); free(x); }
/* list of codes (from kid index `from`) -> exact-size NUL-terminated heap block */
static char *node_text(const node *x, int from, size_t *len) {
    int n = x->n - from, i; char *p;
    if (n < 0) n = 0;
    p = (char *) malloc((size_t) n + 1);
    for (i = 0; i < n; i++) p[i] = (char) x->kid[from + i]->v;
    p[n] = 0;
    if (len) *len = (size_t) n;
    return p;
}
static unsigned long node_u64(const node *x, int from) {
    unsigned long v = 0; int i;
    for (i = 0; i < 4 && from + i < x->n; i++) v = (v << 16) | ((unsigned long) x->kid[from + i]->v & 0xffffUL);
    return v;
}

/* ---- capture of fd 1 and fd 2 --------------------------------------------------------------------------------------------- */
static int cap_fd[2] = { -1, -1 }, saved_fd[2] = { -1, -1 };
static void cap_open(void) {
    int k;
    for (k = 0; k < 2; k++) {
        char nm[96];
        snprintf(nm, sizeof(nm), "x04-cap-%ld-%d", (long) getpid(), k);
        cap_fd[k] = open(nm, O_RDWR | O_CREAT | O_TRUNC, 0600);
        if (cap_fd[k] < 0) { perror(nm); exit(2); }
        unlink(nm);
    }
}
static void cap_begin(void) {
    int k;
    fflush(stdout); fflush(stderr);
    for (k = 0; k < 2; k++) {
        if (ftruncate(cap_fd[k], 0) || lseek(cap_fd[k], 0, SEEK_SET) < 0) { perror("capture"); exit(2); }
        saved_fd[k] = dup(k + 1);
        dup2(cap_fd[k], k + 1);
    }
}
static void cap_end(void) {
    int k;
    fflush(stdout); fflush(stderr);
    for (k = 0; k < 2; k++) { dup2(saved_fd[k], k + 1); close(saved_fd[k]); saved_fd[k] = -1; }
}
static unsigned char *cap_read(int k, size_t *len) {
    off_t sz = lseek(cap_fd[k], 0, SEEK_END); unsigned char *b = (unsigned char *) malloc((size_t) sz + 1); size_t got = 0;
    while (got < (size_t) sz) { ssize_t c = pread(cap_fd[k], b + got, (size_t) sz - got, (off_t) got); if (c <= 0) break; got += (size_t) c; }
    *len = got;
    return b;
}

/* ---- state ---------------------------------------------------------------------------------------------------------------- */
static spif_charptr_t static_name, static_ver;
static int have_static = 0;
static long lib_heap = 0;                 /* bytes the library holds: sum of the heap deltas measured around its calls */
static int shadow_silent = 0;
static int prelude = 0, errno_turn = 0;
static const int ERRNOS[4] = { ERANGE, EINTR, EAGAIN, ENOMEM };
static void preset_errno(void) { if (prelude) errno = ERRNOS[errno_turn++ & 3]; }

static void vh_begin(void) {
    if (!have_static) {
        static_name = libast_program_name; static_ver = libast_program_version; have_static = 1;
        cap_open();
    }
    lib_heap = 0; shadow_silent = 0; g_clock = 1045855757UL;
}
static void reset_slot(spif_charptr_t *slot, spif_charptr_t def) {
    if (*slot != def) { if (*slot) free(*slot); *slot = def; }
}
static void vh_end(void) {
    reset_slot(&libast_program_name, static_name);
    reset_slot(&libast_program_version, static_ver);
    libast_set_silent(FALSE);
    libast_debug_level = 0;
}

static const char *slot_state(spif_charptr_t p, spif_charptr_t def) { return !p ? "unset" : (p == def ? "static" : "heap"); }
static void put_state(vh_sb *b) {
    int silent = shadow_silent;
    if (libast_program_name) {            /* observe the hidden flag: a one-byte debug message is printed iff not silent */
        size_t n0, n1; unsigned char *e, *o; int r;
        cap_begin(); r = libast_dprintf("P"); cap_end();
        e = cap_read(1, &n0); o = cap_read(0, &n1);
        silent = (r == 1 && n0 == 1 && e[0] == 'P' && n1 == 0) ? 0 : ((r == 0 && n0 == 0 && n1 == 0) ? 1 : 2);
        free(e); free(o);
    }
    sb_printf(b, "{hb=%ld,level=%u,name=", lib_heap, libast_debug_level);
    sb_bytes(b, (const unsigned char *) (libast_program_name ? (char *) libast_program_name : ""), libast_program_name ? strlen((char *) libast_program_name) : 0);
    sb_printf(b, ",nst=%s,silent=%s,ver=", slot_state(libast_program_name, static_name), silent == 2 ? "?" : (silent ? "T" : "F"));
    sb_bytes(b, (const unsigned char *) (libast_program_version ? (char *) libast_program_version : ""), libast_program_version ? strlen((char *) libast_program_version) : 0);
    sb_printf(b, ",vst=%s}", slot_state(libast_program_version, static_ver));
}
static const char *check_slots(void) {
#ifdef VH_ASAN
    if (libast_program_name && libast_program_name != static_name && !__sanitizer_get_ownership(libast_program_name))
        return "stored-program-name-is-not-a-live-heap-block";
    if (libast_program_version && libast_program_version != static_ver && !__sanitizer_get_ownership(libast_program_version))
        return "stored-program-version-is-not-a-live-heap-block";
#endif
    return NULL;
}

/* ---- the calls -------------------------------------------------------------------------------------------------------------- */
typedef void (*setter_t)(const char *);
static void do_set(setter_t fn, spif_charptr_t *slot, const char *arg, vh_sb *ret) {
    spif_charptr_t before = *slot; size_t h0, h1;
    preset_errno();
    h0 = vh_heap(); fn(arg); h1 = vh_heap();
    lib_heap += (long) h1 - (long) h0;
    sb_printf(ret, "{kept=%s}", *slot == before ? "T" : "F");
}

/* message arguments: at most six; blocks[] are the heap copies behind the char * arguments */
typedef struct { char *fmt; long a[6]; char *blocks[6]; size_t blen[6]; unsigned char isptr[6]; int n; } call_t;
static const char *build_call(const char *fmt_tok, const char *args_tok, call_t *c) {
    node *f = parse_tok(fmt_tok), *a = parse_tok(args_tok); int i;
    memset(c, 0, sizeof(*c));
    c->fmt = node_text(f, 0, NULL);
    free_node(f);
    if (a->n > 6) { free_node(a); return "more-than-six-message-arguments"; }
    c->n = a->n;
    for (i = 0; i < a->n; i++) {
        node *x = a->kid[i];
        if (!x->is_list || x->n < 1) { free_node(a); return "bad-argument-token"; }
        if (x->kid[0]->v == 1) { c->blocks[i] = node_text(x, 1, &c->blen[i]); c->a[i] = (long) c->blocks[i]; c->isptr[i] = 1; }
        else c->a[i] = (long) node_u64(x, 1);
    }
    free_node(a);
    return NULL;
}
static void free_call(call_t *c) { int i; free(c->fmt); for (i = 0; i < 6; i++) free(c->blocks[i]); }

enum { K_DPRINTF, K_ERROR, K_WARNING, K_FATAL, K_MACRO };
static int invoke(int kind, int (*probe)(void), const call_t *c) {
    switch (kind) {
        case K_DPRINTF: return libast_dprintf(c->fmt, c->a[0], c->a[1], c->a[2], c->a[3], c->a[4], c->a[5]);
        case K_ERROR:   libast_print_error(c->fmt, c->a[0], c->a[1], c->a[2], c->a[3], c->a[4], c->a[5]); return 0;
        case K_WARNING: libast_print_warning(c->fmt, c->a[0], c->a[1], c->a[2], c->a[3], c->a[4], c->a[5]); return 0;
        case K_FATAL:   libast_fatal_error(c->fmt, c->a[0], c->a[1], c->a[2], c->a[3], c->a[4], c->a[5]); return 0;
        default:        g_fmt = c->fmt; memcpy(g_a, c->a, sizeof(g_a)); return probe();
    }
}
static void emit_out(vh_sb *ret, const char *ctl, long val) {
    size_t ne, no; unsigned char *e = cap_read(1, &ne), *o = cap_read(0, &no);
    sb_printf(ret, "{ctl=%s,err=", ctl); sb_bytes(ret, e, ne);
    sb_puts(ret, ",out="); sb_bytes(ret, o, no);
    sb_printf(ret, ",val=%ld}", val);
    free(e); free(o);
}
static void do_output(int kind, int (*probe)(void), int may_exit, call_t *c, vh_sb *ret) {
    int i;
    if (prelude && !may_exit) {           /* the same call on the same blocks with other contents, output discarded */
        call_t d = *c; char *orig[6];
        for (i = 0; i < c->n; i++) {
            orig[i] = NULL;
            if (c->isptr[i]) { orig[i] = (char *) malloc(c->blen[i] + 1); memcpy(orig[i], c->blocks[i], c->blen[i] + 1); memset(c->blocks[i], 'Z', c->blen[i]); }
            else d.a[i] = c->a[i] ^ 0x5555555555555555L;
        }
        preset_errno();
        cap_begin(); invoke(kind, probe, &d); cap_end();
        for (i = 0; i < c->n; i++) {      /* the real contents, in place */
            if (c->isptr[i]) { memcpy(c->blocks[i], orig[i], c->blen[i] + 1); free(orig[i]); }
        }
    }
    if (!may_exit) {
        size_t h0, h1; int r;
        preset_errno();
        cap_begin();
        h0 = vh_heap(); r = invoke(kind, probe, c); h1 = vh_heap();
        cap_end();
        lib_heap += (long) h1 - (long) h0;
        if (kind == K_MACRO) emit_out(ret, r == 1000 ? "falls" : "returns", r);
        else emit_out(ret, "falls", r);
    } else {                              /* the statement may end the process: forked child, same capture files */
        int rp[2], status = 0, r = -1, got; pid_t pid;
        if (pipe(rp)) { perror("pipe"); exit(2); }
        preset_errno();
        cap_begin();
        pid = fork();
        if (pid < 0) { perror("fork"); exit(2); }
        if (pid == 0) {
            close(rp[0]);
            vh_in_script = 0;             /* the exit() of the library is the expected outcome here, not a harness event */
            r = invoke(kind, probe, c);
            fflush(stdout); fflush(stderr);
            if (write(rp[1], &r, sizeof(r)) < 0) { }
            _exit(0);
        }
        close(rp[1]);
        got = (read(rp[0], &r, sizeof(r)) == (ssize_t) sizeof(r));
        close(rp[0]);
        waitpid(pid, &status, 0);
        cap_end();
        if (WIFSIGNALED(status)) emit_out(ret, "signal", WTERMSIG(status));
        else if (got && WEXITSTATUS(status) == 0) emit_out(ret, r == 1000 ? "falls" : "returns", r);
        else emit_out(ret, "exits", WEXITSTATUS(status));
    }
}

static const char *vh_step(const vh_step_t *st, vh_sb *ret, vh_sb *state) {
    const char *op = st->op, *inv = NULL;
    if (!strcmp(op, "set_name") || !strcmp(op, "set_ver")) {
        node *t = parse_tok(st->nargs > 0 ? st->args[0] : "[]"); char *s = node_text(t, 0, NULL);
        if (op[4] == 'n') do_set(libast_set_program_name, &libast_program_name, s, ret);
        else do_set(libast_set_program_version, &libast_program_version, s, ret);
        free(s); free_node(t);
    } else if (!strcmp(op, "set_name_null")) {
        do_set(libast_set_program_name, &libast_program_name, NULL, ret);
    } else if (!strcmp(op, "set_ver_null")) {
        do_set(libast_set_program_version, &libast_program_version, NULL, ret);
    } else if (!strcmp(op, "set_name_alias")) {
        long k = st->nargs > 0 ? vh_int(st->args[0]) : 0;
        if (!libast_program_name || (size_t) k > strlen((char *) libast_program_name)) return "alias-offset-outside-the-stored-text";
        do_set(libast_set_program_name, &libast_program_name, (char *) libast_program_name + k, ret);
    } else if (!strcmp(op, "set_ver_alias")) {
        long k = st->nargs > 0 ? vh_int(st->args[0]) : 0;
        if (!libast_program_version || (size_t) k > strlen((char *) libast_program_version)) return "alias-offset-outside-the-stored-text";
        do_set(libast_set_program_version, &libast_program_version, (char *) libast_program_version + k, ret);
    } else if (!strcmp(op, "unset_name") || !strcmp(op, "unset_ver")) {
        spif_charptr_t *slot = op[6] == 'n' ? &libast_program_name : &libast_program_version;
        spif_charptr_t def = op[6] == 'n' ? static_name : static_ver; size_t h0 = vh_heap();
        if (*slot && *slot != def) free(*slot);
        *slot = NULL;
        lib_heap += (long) vh_heap() - (long) h0;
        sb_puts(ret, "T");
    } else if (!strcmp(op, "set_silent")) {
        int b = st->nargs > 0 && vh_bool(st->args[0]); spif_bool_t r;
        preset_errno();
        r = libast_set_silent(b ? TRUE : FALSE);
        shadow_silent = r ? 1 : 0;
        sb_bool(ret, r ? 1 : 0);
    } else if (!strcmp(op, "set_level")) {
        libast_debug_level = (unsigned int) strtoul(st->nargs > 0 ? st->args[0] : "0", NULL, 10);
        sb_puts(ret, "T");
    } else if (!strcmp(op, "dprintf") || !strcmp(op, "print_error") || !strcmp(op, "print_warning") || !strcmp(op, "fatal_error")) {
        call_t c; int kind = op[0] == 'd' ? K_DPRINTF : (op[0] == 'f' ? K_FATAL : (op[6] == 'e' ? K_ERROR : K_WARNING));
        if (st->nargs < 2) return "printer-needs-format-and-arguments";
        inv = build_call(st->args[0], st->args[1], &c);
        if (!inv) do_output(kind, NULL, kind == K_FATAL, &c, ret);
        free_call(&c);
        if (inv) return inv;
    } else if (!strcmp(op, "macro")) {
        call_t c; int k; node *clk;
        if (st->nargs < 5) return "macro-needs-name-site-clock-format-arguments";
        for (k = 0; PROBE[k].site && (strcmp(PROBE[k].site, st->args[1]) || strcmp(PROBE[k].mac, st->args[0])); k++) ;
        if (!PROBE[k].site) return "unknown-probe";
        clk = parse_tok(st->args[2]); g_clock = node_u64(clk, 0); free_node(clk);
        inv = build_call(st->args[3], st->args[4], &c);
        if (!inv) do_output(K_MACRO, PROBE[k].fn, !strcmp(st->args[0], "assert") || !strcmp(st->args[0], "nr") || !strcmp(st->args[0], "nrv")
                            || !strcmp(st->args[0], "abort"), &c, ret);
        free_call(&c);
        if (inv) return inv;
    } else return "unknown-operation";
    inv = check_slots();
    if (inv) return inv;
    put_state(state);
    return NULL;
}

int main(int argc, char **argv) {
    if (argc > 1 && !strcmp(argv[1], "--sites")) {
        int k; printf("DEBUG %d\n", (int) DEBUG);
        for (k = 0; SITES[k].tag; k++) printf("SITE %s %s %d\n", SITES[k].tag, SITES[k].file, SITES[k].line);
        return 0;
    }
    if (argc < 3) { fprintf(stderr, "usage: %s <prelude 0|1> <scriptfile> [first] | --sites\n", argv[0]); return 2; }
    prelude = atoi(argv[1]);
#ifdef VH_ASAN
    {   /* fd 2 is redirected into a capture file while a printer runs: sanitizer reports go to the real stderr always */
        int fd = dup(2);
        if (fd >= 0) { fcntl(fd, F_SETFD, FD_CLOEXEC); __sanitizer_set_report_fd((void *) (long) fd); }
    }
#endif
    return vh_main(argc, argv, 2);
}
