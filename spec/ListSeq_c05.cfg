SPECIFICATION Spec
CONSTANTS
  Elems = {1}
  MaxLen = 2
  Idx <- IdxSmall
  Obs <- ObsEmit
INVARIANTS TypeOK InsertAtLaw ReverseLaw IterLaw
PROPERTY MutatorsOnly
CHECK_DEADLOCK FALSE
