---------------------------- MODULE ModuleLifeTrace ----------------------------
(* Trace validation for X05: every recorded call on real spif_module_t objects (op, args, returned value and the module  *)
(* functions that ran, full projected state incl. the interposed loader view) must be a step of ModuleLife.  The file    *)
(* named by env TRACE holds one JSON object per line; {"op":"reset"} starts a new execution (fresh process state).       *)
EXTENDS ModuleLife, IOUtils
VARIABLE l
Tr == ndJsonDeserialize(IOEnv.TRACE)

ObsTrace(op, args, ret, post) ==
    /\ op = Tr[l].op /\ args = Tr[l].args /\ ret = Tr[l].ret /\ post = Tr[l].post

TraceInit == Init /\ l = 1
ev == Tr[l]
A(k) == ev.args[k]
TraceStep ==
    /\ l <= Len(Tr)
    /\ l' = l + 1
    /\ \/ ev.op = "reset" /\ o' = [s \in Slots |-> NilObj] /\ refs' = [v \in Variants |-> 0] /\ inst' = [v \in Variants |-> Zero3]
                          /\ gorder' = <<>> /\ stale' = 0 /\ main' = 0 /\ lastc' = [c |-> <<>>, who |-> 0] /\ lastrf' = FALSE
       \/ ev.op = "new" /\ OpNew(A(1))
       \/ ev.op = "done" /\ OpDone(A(1))
       \/ ev.op = "del" /\ OpDel(A(1))
       \/ ev.op = "init" /\ OpInit(A(1))
       \/ ev.op = "dup" /\ OpDup(A(1), A(2))
       \/ ev.op = "set_name" /\ OpSetName(A(1), A(2))
       \/ ev.op = "set_path" /\ OpSetPath(A(1), A(2))
       \/ ev.op = "set_name_same" /\ OpSetNameSame(A(1))
       \/ ev.op = "set_path_same" /\ OpSetPathSame(A(1))
       \/ ev.op = "set_mh_same" /\ OpSetMhSame(A(1))
       \/ ev.op = "set_main_same" /\ OpSetMainSame(A(1))
       \/ ev.op = "load" /\ OpLoad(A(1), A(2))
       \/ ev.op = "unload" /\ OpUnload(A(1), A(2))
       \/ ev.op = "run" /\ OpRun(A(1), A(2))
       \/ ev.op = "call" /\ OpCall(A(1), A(2), A(3))
       \/ ev.op = "getsym" /\ OpGetsym(A(1), A(2), A(3))
       \/ ev.op = "null_self" /\ OpNullSelf(A(1), A(2))
       \/ ev.op = "null_sym" /\ OpNullSym(A(1), A(2))
       \/ ev.op = "null_fname" /\ OpNullFname(A(1), A(2))
       \/ ev.op = "type" /\ OpType(A(1))
       \/ ev.op = "comp" /\ OpComp(A(1), A(2))
       \/ ev.op = "comp_null" /\ OpCompNull(A(1))
TraceSpec == TraceInit /\ [][TraceStep]_<<vars, l>>
\* accepted iff every line was consumed: diameter counts the initial state plus one state per line
TraceAccepted == \/ TLCGet("stats").diameter - 1 = Len(Tr)
                 \/ PrintT(<<"TRACE_REJECTED_AFTER", TLCGet("stats").diameter - 1, "OF", Len(Tr)>>) /\ FALSE
================================================================================
