SPECIFICATION Spec
CONSTANTS
  NE = 2
  MaxLen = 2
  BDepth = 9
  Obs <- ObsEmit
INVARIANTS TypeOK Sorted BagConservation FindIffPresent IterLaw
PROPERTIES MutatorsOnly SlotsIndependent DupIsEqual
CHECK_DEADLOCK FALSE
