SPECIFICATION TraceSpec
CONSTANTS
  U <- UTrace
  Obs <- ObsTrace
POSTCONDITION TraceAccepted
CHECK_DEADLOCK FALSE
