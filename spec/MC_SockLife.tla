------------------------------ MODULE MC_SockLife ------------------------------
EXTENDS SockLife
ObsEmit(op, args, ret, post) ==
    PrintT(ToJson([pre |-> Pre, op |-> op, args |-> args, ret |-> ret, post |-> post]))
ObsNone(op, args, ret, post) == TRUE
================================================================================
