SPECIFICATION Spec
CONSTANTS
  MaxLen = 40
  NRand = 2
  BitStep = 131
  NRandSeeds = 1
  ByteLens = {1, 13}
  Keys <- MCKeys
  Seeds <- MCSeeds
  Obs <- ObsEmit
INVARIANTS TypeOK JenkinsSame Jenkins32Law MixReversible FnvShiftAdd FoldLaw RangeOK
CHECK_DEADLOCK FALSE
