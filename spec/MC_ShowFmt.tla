----------------------------- MODULE MC_ShowFmt -----------------------------
(* Bounded universes of ShowFmt and the case emitter (one JSON line per case: value, name, indent, prior buffer *)
(* and the expected line records).                                                                            *)
EXTENDS ShowFmt

SeqsUpTo(A, n) == UNION {[1 .. q -> A] : q \in 0 .. n}
TA == <<97>>
Host(t) == Url(<<Null("str"), Null("str"), Null("str"), Str(t), Null("str"), Null("str"), Null("str")>>)
NullBuf == [some |-> FALSE, s |-> <<>>]
SomeBuf(s) == [some |-> TRUE, s |-> s]

AllClasses == {"str", "ustr", "mbuff", "obj", "objpair", "regexp", "url", "tok", "socket"} \cup ListClasses \cup IterClasses

MbuffBytes == {<<>>, <<97>>, <<0, 200>>, <<97, 98, 99, 100, 101, 102, 103, 104>>, <<97, 98, 99, 100, 101, 102, 103, 104, 1>>,
               <<65, 66, 67, 68, 69, 70, 71, 72, 73, 74, 75, 76, 77, 78, 79, 80, 126>>}

Atoms(T) == {Str(t) : t \in T} \cup {Ustr(t) : t \in T} \cup {Mbuff(b) : b \in MbuffBytes}
            \cup {Null(c) : c \in AllClasses} \cup {Obj, Regexp(TA), Regexp(<<97, 43>>)}

PairKids == {Null("obj"), Str(TA), Mbuff(TA), List("array", <<Str(TA)>>)}
Pairs == {Pair(k, x) : k \in PairKids, x \in PairKids}

Urls == {Url(c) : c \in [1 .. 7 -> {Null("str"), Str(TA)}]} \cup {Url([q \in 1 .. 7 |-> Str(<<>>)]), Url([q \in 1 .. 7 |-> Str(<<97, 32>>)])}

TokSrcs == {Null("str"), Str(<<>>), Str(TA), Str(<<97, 32, 97>>), Str(<<32, 97, 66>>), Str(<<66, 97, 66, 66>>)}
TokSeps == {Null("str"), Str(<<32>>), Str(TA)}
\* eval needs a source.  X: tokens that would contain a blank (a blank that is not a delimiter) - tok_eval trims its tokens,
\* which is tok's business (C12), not show's
Toks == {Tok(s, p, e) : s \in TokSrcs, p \in TokSeps, e \in {0, 1}}
        \ ({Tok(Null("str"), p, 1) : p \in TokSeps} \cup {Tok(s, Str(TA), 1) : s \in {Str(<<97, 32, 97>>), Str(<<32, 97, 66>>)}})

Sockets == {Socket(l, r) : l \in {Null("url"), Host(TA)}, r \in {Null("url"), Host(<<97, 32>>)}}

\* containers of depth 1: 0..3 elements incl. placeholders
E1 == {Null("obj"), Str(TA), Str(<<>>), Mbuff(TA)}
Lists1 == {List(c, es) : c \in ListClasses, es \in SeqsUpTo(E1, 3)}
\* containers of depth 2: elements are themselves containers / composite objects
Inner == {<<>>, <<Str(TA)>>, <<Null("obj"), Str(TA)>>}
E2 == {Null("obj"), Str(TA), Ustr(TA), Obj, Regexp(TA), Pair(Str(TA), Null("obj")), Host(TA), Tok(Str(<<97, 32, 97>>), Null("str"), 1)}
      \cup {List(c, es) : c \in ListClasses, es \in Inner}
Lists2(n) == {List(c, es) : c \in ListClasses, es \in SeqsUpTo(E2, n)}

E3 == {Null("obj"), Str(TA), Mbuff(TA)}
IterLists == {List(c, es) : c \in ListClasses, es \in SeqsUpTo(E3, 2)}
ItersOf(ls) == UNION {{Iter(l, p) : p \in 0 .. Len(l.kids)} : l \in ls}

TextsQuick == SeqsUpTo({97, 32}, 2)
TextsThorough == SeqsUpTo({97, 32, 66}, 2)

ValuesQuick == Atoms(TextsQuick) \cup Pairs \cup Urls \cup Toks \cup Sockets \cup Lists1 \cup Lists2(2) \cup ItersOf(IterLists)
\* thorough: depth-2 containers of 3 elements over a smaller element set (the full E2 would give 10^6 cases)
E2s == {Null("obj"), Str(TA), Pair(Str(TA), Null("obj")), Host(TA)} \cup {List(c, <<Null("obj"), Str(TA)>>) : c \in ListClasses}
Lists2of3 == {List(c, es) : c \in ListClasses, es \in [1 .. 3 -> E2s]}
ValuesThorough == Atoms(TextsThorough) \cup Pairs \cup Urls \cup Toks \cup Sockets \cup Lists1 \cup Lists2(2) \cup Lists2of3 \cup ItersOf(IterLists)

NamesQuick == {"", "nm"}
NamesThorough == {"", "n", "nm"}
IndentsAll == {0, 1, 2, 7}
PriorsQuick == {NullBuf, SomeBuf(<<120>>)}
PriorsThorough == {NullBuf, SomeBuf(<<>>), SomeBuf(<<120>>), SomeBuf(<<120, 10, 32, 121>>)}

\* ---- the memory-safety family: names of length 0, 1, 100, 4000, 4096, 5000 ("<n>" stands for n characters), indents 0..10 and
\* around the 4096-byte scratch buffers, element texts of 5000 characters, nesting to depth 20
BigNamesAll == {"", "n", "<100>", "<4000>", "<4096>", "<5000>"}
BigIndentsAll == (0 .. 10) \cup {4000, 4090, 4096, 5000}
RECURSIVE Nest(_, _)
Nest(c, d) == IF d = 0 THEN List(c, <<Str(TA)>>) ELSE List(c, <<Nest(c, d - 1)>>)
Long(c) == Txt(c, <<98>>, IF c = "mbuff" THEN 520 ELSE 5000)     \* mbuff: 65 dump rows
BigValuesQuick ==
    {Str(TA), Ustr(TA), Mbuff(<<97, 98, 99, 100, 101, 102, 103, 104, 1>>), Obj, Regexp(TA), Pair(Str(TA), Str(TA)), Host(TA),
     Tok(Str(<<97, 32, 97>>), Null("str"), 1), Socket(Host(TA), Null("url")), Null("str"), Null("array"), Long("str"), Long("mbuff")}
    \cup {List(c, <<Str(TA), Null("obj")>>) : c \in ListClasses}
    \cup {Iter(List(c, <<Str(TA)>>), 0) : c \in ListClasses}
    \cup {List(c, <<Long("str")>>) : c \in ListClasses}
    \cup {Nest(c, 20) : c \in ListClasses}
BigValuesThorough ==
    BigValuesQuick \cup {Null(c) : c \in AllClasses} \cup {Long("ustr"), Pair(Long("str"), Long("str")), Host(<<98, 98, 98, 98, 98>>)}
    \cup {List(c, <<Long("str"), Null("obj"), Long("mbuff")>>) : c \in ListClasses}
    \cup {Iter(List(c, <<Str(TA), Str(TA)>>), 2) : c \in ListClasses}
    \cup {Nest(c, 5) : c \in ListClasses}

ObsEmit(op, args, ret, post) == PrintT(ToJson(ret))
=============================================================================
