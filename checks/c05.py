"""C05: dup is an independent equal copy, comp is a consistent order (Cmp.tla, CmpLaws.tla, SmallObj.tla)."""
import os, re, json, subprocess
from vlib import build, objcheck
from vlib.core import tok, Broken, log
from vlib.tlc import run_tlc
from vlib.replay import ASAN_OPTS

PROPERTY = "C05"
LEVEL = "model_checking"
LEVEL_TEXT = ("Comparison: TLC checks reflexivity, antisymmetry, transitivity, NULL-least and prefix-is-less of the REFERENCE orders "
              "(Cmp.tla) over all triples of a bounded universe; the implementation's comp method of every value class (str, ustr, "
              "mbuff, url, regexp, tok, objpair, array/linked/dlinked list - and of a MIXED universe holding every text as a str, a url and a "
              "regexp, the comparison-compatible classes) is evaluated on ALL ordered pairs of that universe (each "
              "row in a forked child with a stack limit and watchdog) and TLC checks the recorded tables against the laws and, where "
              "the order is stated, against the reference (CmpLaws.tla).  Dup/independence: TLC explores SmallObj.tla (objpair, tok, "
              "url, regexp lifecycles with a copy slot) exhaustively and every transition is replayed on the real objects with "
              "read-back of both slots after every step and per-script heap balance; the container modules (ListSeq, MapDict, VecBag) carry "
              "the same A/B-slot Dup actions and their smallest scopes are replayed here too (dup at every reachable state incl. empty "
              "containers and NULL placeholders, then either side mutated, emptied or deleted); StrObj and MBuffObj carry them as "
              "well and are replayed by the C01/C07 checks.")
LEVEL_NOTE = ("Laws are established on a bounded universe, not for all objects.  For the container classes the property states only "
              "the order laws, so no particular order is demanded of them.  Trusted: TLC, harness projections, ASan.")
TECHNIQUE = "TLA+ reference order + TLC law checking on recorded comp tables; TLC transition cover of object lifecycles replayed on the implementation"
DESIGN_REF = "DESIGN.md section 6 C05"

TEXT_CLASSES = ["str", "ustr", "url", "regexp", "tok"]
LIST_CLASSES = ["array", "linked_list", "dlinked_list"]


def cmp_tables(ctx, probes_only=False):
    """probes_only: just the dup-capacity probes of str / ustr / mbuff (used by the C06 check)."""
    libdir, cflags = build.build_lib(ctx.repo)
    exe = build.build_harness("cmp_table", ["cmp_table.c"], libdir, cflags)
    cfg = "Cmp_quick.cfg" if ctx.tier == "quick" else "Cmp_thorough.cfg"
    uni = {"text": [], "pair": []}
    res = run_tlc("MC_Cmp.tla", cfg, ctx.rundir, on_edge=lambda e: uni[e["kind"]].append(e["obj"]), workers=4, coverage=False)
    ctx.add("states", res.distinct)
    ctx.add("transitions", res.generated)
    ctx.cov.setdefault("tlc_runs", []).append({"module": "MC_Cmp.tla", "cfg": cfg, "distinct_states": res.distinct,
                                               "universe_text": len(uni["text"]), "universe_pair": len(uni["pair"]), "wall_s": round(res.wall, 1)})
    if not res.ok:
        ctx.report("spec:Cmp", "the reference order violates one of its own laws: %s" % (res.violation or "")[:500], {"tlc": res.violation})
        return
    if not uni["text"] or not uni["pair"]:
        raise Broken("Cmp universe not emitted")
    key = lambda o: (not o["null"], len(o["k"]), o["k"], len(o["v"]), o["v"])
    text = sorted(uni["text"], key=key)
    pair = sorted(uni["pair"], key=key)
    no0 = lambda o: 0 not in o["v"] and 0 not in o["k"]
    lines = []
    plan = []
    for c in TEXT_CLASSES:
        plan.append((c, "text", [o for o in text if no0(o)]))
    plan.append(("mbuff", "text", text))
    # pairs and triples of objects of DIFFERENT comparison-compatible classes: every text as a str, as a url and as a regexp
    plan.append(("mix_str_url_regexp", "laws", [o for o in text if no0(o)][:110]))
    for c in ("str_nul", "ustr_nul"):
        plan.append((c, "laws", text))      # incl. texts with embedded NUL: laws only
    plan.append(("objpair", "pair", [o for o in pair if no0(o)]))
    for c in LIST_CLASSES:
        plan.append((c, "laws", [o for o in text if o["null"] or not o["v"] or o["v"][-1] != 0]))
    if probes_only:
        plan = [(c, k, o[:2]) for c, k, o in plan if c in ("str", "ustr", "mbuff")]
    for c, kind, objs in plan:
        lines.append("class %s %s" % (c, kind))
        objs = objs[:(250 if ctx.tier == "quick" else 330)]
        for o in objs:
            lines.append("obj %s %s %s" % (tok(o["null"]), tok(o["k"]), tok(o["v"])))
        if c.startswith("mix"):
            for sel in (1, 2):
                for o in objs:
                    if not o["null"]:
                        lines.append("obj %s %s %s %d" % (tok(o["null"]), tok(o["k"]), tok(o["v"]), sel))
        if c in ("str", "ustr", "mbuff"):
            # the same values again in representations with spare capacity (different amounts): equal values stay EQUAL
            for n, o in enumerate(objs):
                if not o["null"]:
                    lines.append("obj %s %s %s %d" % (tok(o["null"]), tok(o["k"]), tok(o["v"]), 1 + (n * 7) % 19))
        lines.append("end")
    inp = os.path.join(ctx.rundir, "cmp-input.txt")
    open(inp, "w").write("\n".join(lines) + "\n")
    env = dict(os.environ, ASAN_OPTIONS=ASAN_OPTS + ":handle_segv=1", LC_ALL="C")
    r = subprocess.run([exe, inp], capture_output=True, env=env, timeout=1800, cwd=ctx.rundir)
    lines_out = [json.loads(l) for l in r.stdout.decode("latin-1").splitlines() if l.startswith("{")]
    tables = [t for t in lines_out if "cls" in t]
    probes = [t for t in lines_out if "dupprobe" in t]
    ctx.add("dup_capacity_probes", len(probes))
    if len(probes) != 48:
        raise Broken("dup probes: %d of 48 ran" % len(probes))
    for pr in probes:
        if pr["verdict"] != "ok":
            cls_ = "slack>=4096" if pr["slack"] >= 4096 else ("slack>0" if pr["slack"] else "exact")
            ctx.report("dup %s [%s,%s] %s" % (pr["dupprobe"], pr.get("content", "text"), cls_, pr["verdict"]),
                       "%s: dup of %s value held with %d bytes of spare capacity: %s" % (
                           pr["dupprobe"], "an EMPTY" if pr.get("content") == "empty" else "a", pr["slack"], pr["verdict"]), pr)
    if len(tables) != len(plan):
        raise Broken("cmp_table produced %d tables for %d classes; stderr: %s" % (len(tables), len(plan), r.stderr.decode("latin-1")[-1500:]))
    tr = os.path.join(ctx.rundir, "cmp-tables.ndjson")
    with open(tr, "w") as f:
        for t in tables:
            f.write(json.dumps(t, separators=(",", ":")) + "\n")
    cells = sum(len(t["objs"]) ** 2 + len(t["keyrows"]) for t in tables)
    ctx.add("evaluations", cells)
    ctx.add("comp_cells_evaluated_on_impl", cells)
    res2 = run_tlc("CmpLaws.tla", "CmpLaws.cfg", ctx.rundir, workers=1, env={"TRACE": tr}, extra=["-continue"], coverage=False)
    ctx.add("states", res2.distinct)
    ctx.add("transitions", res2.generated)
    ctx.add("traces_validated_against_impl", len(tables))
    txt = "\n".join(res2.tail)
    viol = re.findall(r"Error: Invariant (\w+) is violated.*?\bc = (\d+)", txt, re.S)
    if res2.rc not in (0, 12) and not viol:
        raise Broken("CmpLaws run failed: " + txt[-1500:])
    if res2.distinct != len(tables):
        raise Broken("CmpLaws explored %d tables of %d" % (res2.distinct, len(tables)))
    dead = {c for inv, c in viol if inv == "Terminates"}
    for inv, c in sorted(set(viol)):
        if c in dead and inv != "Terminates":
            continue        # a table with missing cells says nothing about the other laws
        t = tables[int(c) - 1]
        w = witness(t, inv)
        ctx.report("comp %s %s%s" % (t["cls"], inv, (" " + w[0]) if w else ""),
                   "%s: recorded comp table violates %s; witness %s" % (t["cls"], inv, w[1] if w else "?"),
                   {"class": t["cls"], "law": inv, "witness": w[1] if w else None, "table": t})
    ctx.sample({"comp_table": tables[0]["cls"], "objs": tables[0]["objs"][:4], "rows": tables[0]["tbl"][:4]})
    ctx.cov["comp_classes"] = [t["cls"] for t in tables]


def witness(t, inv):
    T, O = t["tbl"], t["objs"]
    n = len(O)
    mixn = ["str", "url", "regexp"]
    d = lambda i: "NULL" if O[i]["null"] else (tok(O[i]["k"]) + ":" + tok(O[i]["v"]) if t["kind"] == "pair" else
                                               ((mixn[O[i].get("sel", 0)] + " " if t["cls"].startswith("mix") else "") + tok(O[i]["v"])))
    if inv == "Terminates":
        for i in range(n):
            for j in range(n):
                if T[i][j] not in (-1, 0, 1):
                    kindw = "null-arg" if (O[i]["null"] or O[j]["null"]) else ("shorter-other" if len(O[j]["v"]) < len(O[i]["v"]) else "other")
                    return kindw, "comp(%s,%s) did not return normally (%d)" % (d(i), d(j), T[i][j])
    if inv == "Reflexive":
        for i in range(n):
            if T[i][i] != 0:
                return "", "comp(x,x)=%d for x=%s" % (T[i][i], d(i))
    if inv == "Antisymmetric":
        for i in range(n):
            for j in range(n):
                if T[i][j] != -T[j][i]:
                    return "", "comp(%s,%s)=%d but comp(%s,%s)=%d" % (d(i), d(j), T[i][j], d(j), d(i), T[j][i])
    if inv == "Transitive":
        for i in range(n):
            for j in range(n):
                if T[i][j] <= 0:
                    for k in range(n):
                        if T[j][k] <= 0 and T[i][k] > 0:
                            return "", "%s<=%s<=%s but comp(first,last)=%d" % (d(i), d(j), d(k), T[i][k])
    if inv == "NullLeast":
        for i in range(n):
            for j in range(n):
                if O[i]["null"] and not O[j]["null"] and (T[i][j] != -1 or T[j][i] != 1):
                    return "", "comp(NULL,%s)=%d comp(%s,NULL)=%d" % (d(j), T[i][j], d(j), T[j][i])
    if inv == "IsReference":
        import functools

        def lex(a, b):
            return (a > b) - (a < b)
        for i in range(n):
            for j in range(n):
                if O[i]["null"] or O[j]["null"]:
                    continue
                a, b = (O[i]["k"], O[j]["k"]) if t["kind"] == "pair" else (O[i]["v"], O[j]["v"])
                if T[i][j] != lex(a, b):
                    cls = "prefix" if (a[:len(b)] == b or b[:len(a)] == a) else "other"
                    return cls, "comp(%s,%s)=%d, reference %d" % (d(i), d(j), T[i][j], lex(a, b))
    if inv == "PairVsKey":
        for e in t["keyrows"]:
            a, b = O[e["i"] - 1]["k"], e["key"]
            if e["r"] != (a > b) - (a < b):
                return "", "comp(pair %s, key %s)=%d" % (tok(a), tok(b), e["r"])
    return None


SMALL = ["objpair", "tok", "url", "regexp"]
SMALL_INIT = {"a": {"live": False, "p": 0, "q": 0, "r": 0}, "b": {"live": False, "p": 0, "q": 0, "r": 0}}
# actions of SmallObj that do not apply to a class (never enabled there): not a vacuity
SMALL_NA = {
    "objpair": ["OpStrCut", "OpBStrCut", "OpNewEmpty", "OpStrTrim", "OpBStrTrim", "OpStrRound", "OpNewFromPtr", "OpSetFlags", "OpEval", "OpMatches", "OpBSetFlags", "OpBEval"],
    "tok": ["OpStrCut", "OpBStrCut", "OpNewEmpty", "OpStrTrim", "OpBStrTrim", "OpStrRound", "OpNewFromKey", "OpNewFromValue", "OpNewFromBoth", "OpSetFlags", "OpMatches", "OpBSetFlags"],
    "url": ["OpClearP", "OpBClearP", "OpNew", "OpNewFromKey", "OpNewFromValue", "OpNewFromBoth", "OpSetP", "OpSetFlags", "OpEval", "OpMatches", "OpBSetFlags", "OpBEval"],
    "regexp": ["OpClearP", "OpBClearP", "OpNewFromKey", "OpNewFromValue", "OpNewFromBoth", "OpSetP", "OpSetQ", "OpEval", "OpBSetQ", "OpBEval", "OpClearQ", "OpBClearQ"],
}


def small_key(variant, e, f):
    d = ""
    if f.kind == "inv":
        d = re.sub(r"\d+", "N", f.got)
    elif f.kind in ("crash", "hang", "exit"):
        d = f.sig
    pre = e["pre"] if e else None
    st = ""
    if pre:
        o = pre["b"] if e["op"].startswith("b_") else pre["a"]
        st = "p%s,q%s,r%s" % ("0" if o["p"] == 0 else "+", "0" if o["q"] == 0 else "+", o["r"])
        if e["op"] in ("comp", "comp_rev"):
            st = "a.p%s,b.p%s" % ("0" if pre["a"]["p"] == 0 else "+", "0" if pre["b"]["p"] == 0 else "+")
    return "%s.%s [%s] %s%s" % (variant, e["op"] if e else f.op, st, f.kind, ("/" + d) if d else "")


def small_objects(ctx):
    libdir, cflags = build.build_lib(ctx.repo)
    exe = build.build_harness("small_replay", ["small_replay.c"], libdir, cflags)
    walks = (200, 30) if ctx.tier == "quick" else (3000, 60)
    for c in SMALL:
        cfg = "SmallObj_%s_thorough.cfg" % c if (ctx.tier != "quick" and c in ("tok", "objpair")) else "SmallObj_%s.cfg" % c
        g, res = objcheck.tlc_graph(ctx, "MC_SmallObj.tla", cfg, ignore_untaken=SMALL_NA[c], workers=2)
        objcheck.replay_cover(ctx, g, [tok(SMALL_INIT)], exe, c, [c], small_key, walks=walks, pairs=(200000 if ctx.tier == "quick" else 1000000))


def container_dup(ctx):
    """The container modules carry the same A/B-slot Dup actions; their smallest scopes are replayed here too (every
    reachable state incl. empty containers and NULL placeholders is dup'ed, then either side mutated/emptied/deleted)."""
    from checks import c02, c03, c04
    # (module, cfg, check module, [(variant suffix, harness args after the class)], name)
    runs = [("MC_ListSeq.tla", "ListSeq_c05.cfg", c02, [("", [])], "list"),
            ("MC_MapDict.tla", "MapDict_c05.cfg", c03, [("", ["2", "1", "0", "full"]), ("/highbit-keys", ["2", "1", "1", "full"])], "map"),
            # vectors: plain str elements, and objpair(value, unique tag) elements that are EQUAL under comp yet distinguishable:
            # right after dup the copy must equal the original slot by slot including the tags (a dup that re-sorts its copy
            # and reverses runs of equal elements is not an equal copy)
            ("MC_VecBag.tla", "VecBag_c05.cfg", c04, [("", ["2", "0", "0", "full"]), ("/tagged-elements", ["2", "1", "1", "full"])], "vector")]
    for module, cfg, m, variants, name in runs:
        exe = m.harness(ctx)
        g, res = objcheck.tlc_graph(ctx, module, cfg, workers=4)
        ndup = sum(1 for i in range(g.n_edges()) if g._head[i].startswith("dup "))
        ctx.add("dup_transitions_in_container_scopes", ndup)
        for cls in LIST_CLASSES:
            for suffix, extra in variants:
                objcheck.replay_cover(ctx, g, [tok(m.INIT)], exe, "%s/%s%s" % (name, cls, suffix), [cls] + extra, m.keyfn, walks=(0, 0), jobs=4)


def run(ctx):
    cmp_tables(ctx)
    small_objects(ctx)
    container_dup(ctx)
    ctx.cov["rule"] = "all ordered pairs of the bounded universe per class; all transitions of SmallObj in scope"
    ctx.assumptions += ["ASan build of the current tree (clang -O1)"]


def replay(ctx, path):
    d = json.load(open(path))
    print(json.dumps(d.get("replay", {}).get("witness") or d.get("what"), indent=1))
    ctx.violations = {}
    cmp_tables(ctx)
    for k in ctx.violations:
        print("REPRODUCED", k)
    return 1 if d.get("key") in ctx.violations else 0
