SPECIFICATION Spec
CONSTANTS
  Levels = {0, 1, 2, 3, 4, 5, 6}
  Obs <- ObsEmit
INVARIANTS TypeOK LevelZeroIsSoft SoftAlwaysAllowed
CHECK_DEADLOCK FALSE
