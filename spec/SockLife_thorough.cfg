SPECIFICATION Spec
CONSTANTS
  MaxD = 5
  MaxS = 4
  MaxMsgs = 1
  NbSlots <- NoSlots
  Outs <- AllOuts
  RecvToggles = TRUE
  Mech = "repaired"
  Obs <- ObsEmit
INVARIANTS FdFieldValidOrMinus1 OneOwnerPerDescriptor NoOrphanDescriptor AllDeletedMeansAllClosed ModesOfOpenSocketsOnly
CHECK_DEADLOCK FALSE
