SPECIFICATION HSpec
CONSTANTS
  Alphabet <- Alpha7
  MaxLen = 0
  DelimSets <- Delims3
  HistSources <- Src2
  HistSeps <- Delims3
  HistMax = 3
  LongHistSources <- Src1
  Obs <- ObsEmitHist
INVARIANTS TokensOfCurrentSourceOnly BlankSourceHasNoTokens HistoryIrrelevant
CHECK_DEADLOCK FALSE
