"""C12: split, tok and the word utilities implement one quoting grammar (spec/Quote.tla)."""
import os, json, random
from vlib import build, x_c12
from vlib.core import tok, untok, Broken, log

PROPERTY = "C12"
LEVEL = "model_checking"
LEVEL_TEXT = ("TLC runs the character-level scanner of Quote.tla over ALL input strings up to length 5 (quick) / 6 (thorough) over "
              "{a, b, space, ':', single quote, double quote, backslash} with three delimiter sets (white space, ':', ': '), one action "
              "per scanner step, checking the reference laws (position never behind the terminator, split(join(plain tokens)) = tokens, "
              "tok = split modulo trim, delimiter runs separate, quotes group and are removed, the stated examples, word utilities "
              "mutually consistent). Every finished scan is emitted as an (input -> expected outputs) case and executed on the real "
              "spiftool_split, spif_tok_eval (with and without separator object), num_words/get_word/get_pword and join in an ASan build of "
              "the current tree with exact-size heap inputs. Long random inputs (50-5000 characters) are recorded from the real code and "
              "validated by TLC running the same scanner over them (trace validation). The tok OBJECT is additionally explored with a "
              "history (TokObj.tla): every pair of (separator, source) evaluations over all sources up to 2 (quick) / 3 (thorough) characters and "
              "every short triple is executed on ONE object through set_src / set_sep, the token list compared after each evaluation.")
LEVEL_NOTE = ("Exhaustive only up to the length bound and over that 7-character alphabet / those 3 delimiter sets; beyond it a few dozen "
              "long random strings. Delimiter sets containing a quote or backslash, and the empty delimiter string, are outside the "
              "universe. get_word/get_pword are claimed for indices 1..num_words only (0 and num_words+1.. are run for memory safety). "
              "Where the statement is silent the reference follows the as-built convention (marked C in Quote.tla). Memory safety = "
              "no ASan report on what was executed. Trusted: TLC, ASan, harness/quote_replay.c.")
TECHNIQUE = "TLA+ scanner spec + TLC exhaustive input enumeration replayed on the implementation + TLC trace validation of long inputs"
DESIGN_REF = "DESIGN.md section 6 C12"

ACTIONS = ["SkipDelim", "OpenQuote", "CloseQuote", "OtherQuoteLiteral", "EscapedDelimOrQuote", "Plain", "EndToken", "Finish"]
SQ, DQ, BS = 39, 34, 92
SAMPLE_INPUTS = {tuple(ord(c) for c in s) for s in ('a\\ b', '"a \'b', '"\\"a')}


def harness(ctx):
    libdir, cflags = build.build_lib(ctx.repo)
    return build.build_harness("quote_replay", ["quote_replay.c"], libdir, cflags)


def feats(s):
    f = []
    if SQ in s and DQ in s:
        f.append("both-quotes")
    elif SQ in s or DQ in s:
        f.append("quotes")
    if any(s[i] == s[i + 1] and s[i] in (SQ, DQ) for i in range(len(s) - 1)):
        f.append("empty-quoted")
    if BS in s:
        f.append("bs-end" if s[-1] == BS else "backslash")
    return ",".join(f) or "plain"


def dclass(d):
    return "default" if not d else "explicit"


def diff_class(exp, got):
    """what kind of value difference (token lists)"""
    try:
        e, g = untok(exp), untok(got)
    except Exception:
        return "value"
    if isinstance(e, dict) and isinstance(g, dict):
        return "differs:" + ",".join(k for k in sorted(e) if e.get(k) != g.get(k))
    if not isinstance(e, list) or not isinstance(g, list):
        return "value"
    if len(e) != len(g):
        return "token-count"
    for a, b in zip(e, g):
        if a != b:
            if a == [] and isinstance(b, list) and b and all(c in (32, 9, 10, 11, 12, 13) for c in b):
                return "blank-token-not-trimmed"
            if b is None:
                return "null-token"
            return "token-text"
    return "value"


def keyfn(c, at, f):
    op, args, exp, _ = c.steps[at]
    m = c.meta
    k = "%s d=%s [%s] %s" % (op, dclass(m["d"]), feats(m["s"]), x_c12.fail_class(f))
    if f.kind == "ret":
        k += "/" + diff_class(f.exp, f.got)
    return k


def mk_case(sid, r):
    d, s = r["d"], r["s"]
    dt = tok(d) if d else "-"
    st = tok(s)
    steps = [("split", [dt, st], tok(r["split"]), None), ("tok", [dt, st], tok(r["tok"]), None)]
    if not d:
        steps.append(("words", [st], tok({"n": r["nw"], "p": r["pw"], "w": r["words"]}), None))
        if r["split"]:
            steps.append(("join", [tok(r["split"])], tok(r["join"]), None))
    return x_c12.Case(sid, steps, {"d": d, "s": s})


def txt(codes):
    return "".join(chr(c) if 32 <= c < 127 else "\\x%02x" % c for c in codes)


def exhaustive(ctx, exe):
    cfg = "Quote_quick.cfg" if ctx.tier == "quick" else "Quote_thorough.cfg"
    cfg = os.environ.get("VERIF_C12_CFG", cfg)      # development knob (smaller scope); not used by the registered commands
    stats = {"n": 0, "nontrivial": 0}
    cs = x_c12.CaseStream(ctx, exe, [], keyfn, "exhaustive_cases")

    def on_case(r):
        stats["n"] += 1
        s = r["s"]
        if SQ in s or DQ in s or BS in s or len(r["split"]) >= 2:
            stats["nontrivial"] += 1
        if tuple(s) in SAMPLE_INPUTS:        # chosen by content, so the evidence does not depend on TLC's emission order
            ctx.sample({"delims": txt(r["d"]) if r["d"] else "(white space)", "input": txt(s), "split": [txt(t) for t in r["split"]],
                        "tok": [txt(t) for t in r["tok"]], "num_words": r["nw"], "words": [txt(t) for t in r["words"]], "pword_offsets": r["pw"]})
        cs.add(mk_case(stats["n"], r))

    try:
        res = x_c12.tlc_cases(ctx, "MC_Quote.tla", cfg, ACTIONS, on_case)
    finally:
        tot = cs.close()
    if res.ok and tot["scripts"] != res.edges:
        raise Broken("emitted %d cases but replayed %d scripts" % (res.edges, tot["scripts"]))
    ctx.add("distinct_nontrivial", stats["nontrivial"])
    return res


HIST_ACTIONS = ["OpEvalFresh", "OpEvalAgain", "OpEvalAgainNewSep"]


def hist_key(c, at, f):
    """history step: what the object held before, what the new source yields, whether the separator changed"""
    h = c.meta["h"]
    now = "blank-source" if not h[at]["toks"] else "tokens"
    prev = "fresh" if at == 0 else ("after-blank-source" if not h[at - 1]["toks"] else "after-tokens")
    sep = "" if at == 0 or h[at]["d"] == h[at - 1]["d"] else ",sep-changed"
    k = "tok_eval(history) d=%s [%s,%s%s] %s" % (dclass(h[at]["d"]), prev, now, sep, x_c12.fail_class(f))
    if f.kind == "ret":
        k += "/" + diff_class(f.exp, f.got)
    return k


def histories(ctx, exe):
    """The tok OBJECT with a history (spec/TokObj.tla): every pair of evaluations (and the short triples) on ONE object
    through set_src / set_sep; after each evaluation the list must be the scanner's result for the current source alone."""
    cfg = "TokObj_quick.cfg" if ctx.tier == "quick" else "TokObj_thorough.cfg"
    cs = x_c12.CaseStream(ctx, exe, [], hist_key, "tok_histories", whole_script=True)
    st = {"n": 0, "steps": 0, "nonblank_then_blank": 0, "blank_then_nonblank": 0, "sep_changes": 0, "triples": 0}

    def on_hist(r):
        h = r["h"]
        st["n"] += 1
        st["steps"] += len(h)
        st["triples"] += len(h) >= 3
        for a, b in zip(h, h[1:]):
            st["nonblank_then_blank"] += bool(a["toks"]) and not b["toks"]
            st["blank_then_nonblank"] += (not a["toks"]) and bool(b["toks"])
            st["sep_changes"] += a["d"] != b["d"]
        if [tuple(e["s"]) for e in h] in ([(97, 32), (32,)], [(97, 58), (58, 58)]) and len({tuple(e["d"]) for e in h}) == 1:
            ctx.sample({"one_tok_object": [{"sep": txt(e["d"]) if e["d"] else "(white space)", "src": txt(e["s"]),
                                            "tokens_after_eval": [txt(x) for x in e["toks"]]} for e in h]})
        steps = [("tok_eval", [tok(e["d"]) if e["d"] else "-", tok(e["s"])], tok(e["toks"]), None) for e in h]
        cs.add(x_c12.Case(st["n"], steps, {"h": h}))
    try:
        res = x_c12.tlc_cases(ctx, "MC_TokObj.tla", cfg, HIST_ACTIONS, on_hist)
    finally:
        tot = cs.close()
    if res.ok and tot["scripts"] != res.edges:
        raise Broken("emitted %d histories but replayed %d scripts" % (res.edges, tot["scripts"]))
    if res.ok and not (st["nonblank_then_blank"] and st["blank_then_nonblank"] and st["sep_changes"] and st["triples"]):
        raise Broken("vacuity: history classes missing: %s" % st)
    ctx.cov["tok_histories"] = {"histories": st["n"], "evaluations_on_shared_objects": st["steps"], "triples": st["triples"],
                                "steps_tokens_then_blank_source": st["nonblank_then_blank"],
                                "steps_blank_source_then_tokens": st["blank_then_nonblank"], "steps_with_separator_change": st["sep_changes"]}
    ctx.add("distinct_nontrivial", st["n"])


def gen_long(rnd, n):
    """long random texts: (delims, text)"""
    weights = [(97, 14), (98, 12), (99, 10), (100, 8), (101, 8), (32, 15), (9, 2), (10, 1), (58, 7), (SQ, 6), (DQ, 6), (BS, 9), (45, 2)]
    pop = [c for c, w in weights for _ in range(w)]
    out = []
    dsets = [[], [58], [58, 32]]
    for k in range(n):
        ln = rnd.choice([50, 64, 127, 128, 129, 255, 256, 1000, 4095, 4096, 4097, 5000, rnd.randint(50, 5000), rnd.randint(50, 5000)])
        mode = k % 4
        if mode == 3:      # few quotes: many tokens
            s = [rnd.choice(pop) if rnd.random() < 0.9 else 97 for _ in range(ln)]
            s = [97 if c in (SQ, DQ) and rnd.random() < 0.8 else c for c in s]
        else:
            s = [rnd.choice(pop) for _ in range(ln)]
        if k % 5 == 0:
            s[-1] = BS
        if k % 7 == 0:
            s[-1] = rnd.choice([SQ, DQ])
        out.append((dsets[k % 3], s))
    return out


def long_inputs(ctx, exe):
    rnd = random.Random(ctx.seed)
    n = 24 if ctx.tier == "quick" else 72
    inputs = gen_long(rnd, n)
    cases = []
    for k, (d, s) in enumerate(inputs):
        dt = tok(d) if d else "-"
        cases.append(x_c12.Case(k + 1, [("split", [dt, tok(s)], "?", None), ("tok", [dt, tok(s)], "?", None)], {"d": d, "s": s}))
    got = {}

    def recorder(c, at, ret):
        got[(c.sid, at)] = untok(ret)
    x_c12.run_cases(ctx, exe, [], cases, lambda c, at, f: "long-input " + keyfn(c, at, f), "long_inputs", recorder=recorder)
    events, index = [], []
    blank = lambda t: isinstance(t, list) and len(t) > 0 and all(ch in (32, 9, 10, 11, 12, 13) for ch in t)
    for c in cases:
        for at, op in ((0, "split"), (1, "tok")):
            if (c.sid, at) in got:
                ret = got[(c.sid, at)]
                if op == "tok" and any(blank(t) for t in ret):
                    # A trimmed token is empty or starts and ends with a non-blank (law TokAgreesWithSplitModuloTrim of the
                    # reference), so an all-blank token is a violation by itself.  It is reported under its own key and the
                    # token is normalised so that TLC still validates everything else in this event.
                    ctx.report("long-input tok d=%s ret/blank-token-not-trimmed" % dclass(c.meta["d"]),
                               "tok on a %d-character input returned an all-blank token (a trimmed token is empty or has non-blank ends)" % len(c.meta["s"]),
                               {"harness_args": [], "script_text": x_c12.Case(1, [("tok", c.steps[at][1], tok([[] if blank(t) else t for t in ret]), None)]).text(),
                                "note": "expected value = recorded value with the all-blank tokens emptied"})
                    ret = [[] if blank(t) else t for t in ret]
                events.append({"op": op, "d": c.meta["d"], "s": c.meta["s"], "ret": ret})
                index.append((c, at))
    if not events:
        raise Broken("no long input could be recorded")
    ok, pos, path, res = x_c12.validate_trace(ctx, "QuoteTrace.tla", "QuoteTrace.cfg", events, tag="long")
    ctx.add("trace_events_validated", pos)
    ctx.add("trace_scanner_steps", res.distinct)
    ctx.cov["long_inputs"] = {"strings": n, "events_recorded": len(events), "events_accepted": pos,
                              "min_len": min(len(s) for _, s in inputs), "max_len": max(len(s) for _, s in inputs),
                              "tlc_states": res.distinct, "tlc_wall_s": round(res.wall, 1)}
    if not ok:
        c, at = index[pos]
        e = events[pos]
        ctx.report("long-input trace-rejected %s d=%s" % (e["op"], dclass(e["d"])),
                   "TLC rejects the recorded result of %s on a %d-character input (event %d): the scanner of Quote.tla yields a different token list"
                   % (e["op"], len(e["s"]), pos),
                   {"harness_args": [], "script_text": x_c12.Case(1, [c.steps[at]]).text(), "event_index": pos, "event": e})
    else:
        e = events[0]
        ctx.sample({"long_input_len": len(e["s"]), "op": e["op"], "delims": txt(e["d"]), "first_60_chars": txt(e["s"][:60]),
                    "tokens": len(e["ret"]), "first_tokens": [txt(t) for t in e["ret"][:3]]})
        negative_control(ctx, events)
    return events


def negative_control(ctx, events):
    """Vacuity guard for direction (B): one character of one logged token is changed; TLC must reject exactly that event."""
    import copy
    small = sorted((e for e in events if e["ret"] and any(e["ret"])), key=lambda e: len(e["s"]))[:3]
    if len(small) < 3:
        raise Broken("negative control: not enough recorded events")
    bad = copy.deepcopy(small)
    toks = bad[1]["ret"]
    k = next(i for i, t in enumerate(toks) if t)
    toks[k][len(toks[k]) // 2] = 122 if toks[k][len(toks[k]) // 2] != 122 else 121      # one character of one token
    ok, pos, path, res = x_c12.validate_trace(ctx, "QuoteTrace.tla", "QuoteTrace.cfg", bad, tag="negctl")
    if ok or pos != 1:
        raise Broken("negative control: a corrupted token list was not rejected at the corrupted event (accepted=%s, position=%s)" % (ok, pos))
    ctx.cov["long_inputs"]["negative_control"] = "one character of a logged token changed in event 1 of 3: rejected by TLC at event 1"


def run(ctx):
    exe = harness(ctx)
    exhaustive(ctx, exe)
    histories(ctx, exe)
    long_inputs(ctx, exe)
    ctx.cov["samples"].sort(key=lambda s: json.dumps(s, sort_keys=True))
    ctx.cov["exhaustive"] = True
    ctx.cov["rule"] = ("every input string up to the length bound over the 7-character alphabet x 3 delimiter sets is scanned by TLC and its "
                       "expected outputs are compared with split, tok, num_words/get_word/get_pword and join of the implementation; a case is "
                       "counted non-trivial when the input holds a quote or a backslash or yields at least two tokens (cases are distinct by "
                       "construction: one per (input, delimiter set)); plus every generated evaluation history of one tok object")
    ctx.assumptions += ["ASan build of the current tree (clang -O1)", "C locale",
                        "delimiter sets do not contain quote characters or the backslash"]


def replay(ctx, path):
    return x_c12.replay_file(harness(ctx), [], path, ctx.rundir)
