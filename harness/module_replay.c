/* X05 (extension): replays spec/ModuleLife.tla transitions on real spif_module_t objects and records executions for
 * ModuleLifeTrace.
 * usage: module_replay <paths-file> <debug-level> <cap> <flags> <scriptfile> [first]
 *     paths-file   lines "<id> <path text>" (the catalogue of spec/ModuleLife.tla, made by checks/x05.py)
 *     debug-level  libast_debug_level while the script runs (0/1/3/5)
 *     cap          the libraries' own counters are reported saturating at cap
 *     flags        "-" or "main": report the balance of the handle on the program (dlopen(NULL)) and whether each object holds one
 *
 * dlopen / dlclose / dlsym / dlerror / exit are interposed at link time (-Wl,--wrap=...; x05_record is exported with
 * -Wl,--export-dynamic-symbol so that the shared objects can report to the harness).  exit() only matters while a NULL-argument
 * call whose stated outcome is libast's fatal exit is in progress: it then returns to the harness by longjmp.  The dl wrappers
 *   - keep the loader's view: one entry per handle with its open count (successful dlopen - successful dlclose), the order of
 *     first opens, the library it maps (by file name), the balance of dlopen(NULL) / dlclose(main handle);
 *   - refuse and count every dlsym / dlclose on a handle that is not open ("stale"), so that a use after close is an
 *     observation and not a crash inside ld.so;
 *   - inject the scheduled fault of a step: `dlopen` (the next dlopen of a file fails), a symbol name (every dlsym of it fails);
 *   - account the heap the loader itself allocates, so that the per-script heap balance is the library's own.
 * The modules (harness/module_mod.c) report every invocation to x05_record() below and count it in their own block.
 *
 * State token: {a={h,live,mh,name,path},b={..},g=[open libraries in order of first open],inst=[[init,run,done] per library 1..5,
 *               read from the library's x05_counts through spif_module_getsym],main=<balance>,refs=[open count per library],stale=<n>}
 * Return token: {calls=[[fn,lib],...],r=<value>}   fn 0 init, 1 run, 2 done, 3 echo, in the order they ran during the call.
 */
#include "common.h"
#include <dlfcn.h>
#include <sys/wait.h>
#include <libast/module.h>

#define NVAR 5
#define MAXPATHS 32
#define MAXH 1024

/* ---- interposition ------------------------------------------------------------------------------------------------- */
extern void *__real_dlopen(const char *, int);
extern int __real_dlclose(void *);
extern void *__real_dlsym(void *, const char *);
extern char *__real_dlerror(void);
extern void __real_exit(int) __attribute__((noreturn));
#include <setjmp.h>
/* the library's fatal path is `print; exit(-1)`: while a NULL-argument call whose stated outcome is the fatal exit is in
 * progress, exit() comes back to the harness instead of ending the process (no fork per call) */
static jmp_buf fatal_env; static volatile int fatal_armed; static volatile int fatal_code;
void __wrap_exit(int code) {
    if (fatal_armed) { fatal_armed = 0; fatal_code = code; longjmp(fatal_env, 1); }
    __real_exit(code);
}

static int x05_active;                    /* the sanitizer runtime resolves its interceptors through dlsym before main() */
static int x05_internal;                  /* read-back by the harness itself: no accounting */
typedef struct { void *h; int var; int refs; long order; } hent;
static hent H[MAXH]; static int nH; static long order_stamp;
static void *main_handle_seen; static long main_opens, main_closes;
static long stale_uses;
static int fault_dlopen; static const char *fault_sym;
static long loader_bytes;                 /* net heap allocated inside the loader */
static const char *variant_file[NVAR + 1] = { "", "full.so", "noinit.so", "initfail.so", "bare.so", "veto.so" };

static int variant_of_path(const char *p) {
    const char *b = strrchr(p, '/'); int v;
    b = b ? b + 1 : p;
    for (v = 1; v <= NVAR; v++) if (!strcmp(b, variant_file[v])) return v;
    return 0;
}
static hent *hfind(void *h) { int i; for (i = 0; i < nH; i++) if (H[i].h == h) return &H[i]; return NULL; }
static int special_handle(void *h) { return h == NULL || h == RTLD_DEFAULT || h == RTLD_NEXT || h == main_handle_seen; }

void *__wrap_dlopen(const char *path, int flags) {
    void *h; size_t b0; hent *e;
    if (!x05_active) return __real_dlopen(path, flags);
    b0 = vh_heap();
    if (path && fault_dlopen && !x05_internal) { fault_dlopen = 0; h = __real_dlopen("/x05-injected-dlopen-failure/none.so", flags); }
    else h = __real_dlopen(path, flags);
    loader_bytes += (long) vh_heap() - (long) b0;
    if (!path) { main_handle_seen = h; if (h && !x05_internal) main_opens++; return h; }
    if (x05_internal) return h;
    if (!h) return h;
    e = hfind(h);
    if (!e) {
        if (nH >= MAXH) {                 /* recycle a closed entry (a later use of that old handle is still seen: it is in no entry) */
            int i; for (i = 0; i < nH && H[i].refs; i++) { }
            if (i >= nH) { fprintf(stderr, "x05: handle table full\n"); _exit(7); }
            e = &H[i];
        } else e = &H[nH++];
        e->h = h; e->refs = 0;
    }
    if (e->refs == 0) { e->var = variant_of_path(path); e->order = ++order_stamp; }
    e->refs++;
    return h;
}
static void set_loader_error(void) { (void) __real_dlsym(RTLD_DEFAULT, "x05_symbol_that_does_not_exist"); }
int __wrap_dlclose(void *h) {
    size_t b0; int r; hent *e;
    if (!x05_active) return __real_dlclose(h);
    if (h && h == main_handle_seen) {
        b0 = vh_heap(); r = __real_dlclose(h); loader_bytes += (long) vh_heap() - (long) b0;
        if (!x05_internal && r == 0) main_closes++;
        return r;
    }
    e = hfind(h);
    if (!e || e->refs == 0) {             /* a handle that is not open: never handed to the loader */
        if (!x05_internal) stale_uses++;
        b0 = vh_heap(); set_loader_error(); loader_bytes += (long) vh_heap() - (long) b0;
        return -1;
    }
    b0 = vh_heap(); r = __real_dlclose(h); loader_bytes += (long) vh_heap() - (long) b0;
    if (r == 0) e->refs--;
    return r;
}
void *__wrap_dlsym(void *h, const char *name) {
    size_t b0; void *p; hent *e;
    if (!x05_active) return __real_dlsym(h, name);
    b0 = vh_heap();
    if (!special_handle(h) && (!(e = hfind(h)) || e->refs == 0)) {
        if (!x05_internal) stale_uses++;
        set_loader_error(); p = NULL;
    } else if (fault_sym && !x05_internal && name && !strcmp(name, fault_sym)) {
        set_loader_error(); p = NULL;
    } else p = __real_dlsym(h, name);
    loader_bytes += (long) vh_heap() - (long) b0;
    return p;
}
char *__wrap_dlerror(void) {
    size_t b0; char *r;
    if (!x05_active) return __real_dlerror();
    b0 = vh_heap(); r = __real_dlerror(); loader_bytes += (long) vh_heap() - (long) b0;
    return r;
}

/* ---- the modules report here --------------------------------------------------------------------------------------- */
#define MAXCALLS 64
static int call_fn[MAXCALLS], call_lib[MAXCALLS], ncalls;
static void *last_init_self;
void x05_record(int mod, int fn, void *arg) {
    if (ncalls < MAXCALLS) { call_fn[ncalls] = fn; call_lib[ncalls] = mod; ncalls++; }
    if (fn == 0) last_init_self = arg;
}

/* ---- catalogue -------------------------------------------------------------------------------------------------------- */
static char *path_text[MAXPATHS]; static char *path_base[MAXPATHS];
static const char *name_text[3] = { NULL, "alpha", "omega" };
static int level = 0, cap = 2, track_main = 0;
static void load_paths(const char *file) {
    size_t len; char *buf = vh_readfile(file, &len), *p = buf;
    while (*p) {
        char *nl = strchr(p, '\n'), *sp; int id;
        if (nl) *nl = 0;
        sp = strchr(p, ' ');
        if (sp) {
            *sp = 0; id = atoi(p);
            if (id > 0 && id < MAXPATHS) { char *b; path_text[id] = strdup(sp + 1); b = strrchr(path_text[id], '/'); path_base[id] = b ? b + 1 : path_text[id]; }
        }
        if (!nl) break;
        p = nl + 1;
    }
    free(buf);
}
static int base_id(int p) { return (p == 8 || (p >= 11 && p <= 15)) ? 1 : p; }
static int name_id(spif_str_t s) {
    const char *t; int p;
    if (SPIF_STR_ISNULL(s)) return 0;
    t = (const char *) SPIF_STR_STR(s);
    if (!t) return 998;
    if (!strcmp(t, name_text[1])) return 1;
    if (!strcmp(t, name_text[2])) return 2;
    for (p = 1; p < MAXPATHS; p++) if (path_text[p] && base_id(p) == p && !strcmp(t, path_base[p])) return 200 + p;
    return 999;
}
static int path_id(spif_str_t s) {
    const char *t; int p;
    if (SPIF_STR_ISNULL(s)) return 0;
    t = (const char *) SPIF_STR_STR(s);
    if (!t) return 998;
    for (p = 1; p < MAXPATHS; p++) if (path_text[p] && !strcmp(t, path_text[p])) return p;
    return 999;
}

/* ---- objects ----------------------------------------------------------------------------------------------------------- */
static spif_module_t M[3];
static long heap0; static int my_abandoned;
static long own_heap(void) { return (long) vh_heap() - loader_bytes; }

static char **my_argv; static int my_argc; static long my_first, my_scripts;
static long my_steps;
/* is a catalogue library still mapped although every handle on it was closed?  (RTLD_NOLOAD never maps anything) */
static int still_mapped(void) {
    int v, bad = 0;
    for (v = 1; v <= NVAR; v++) if (path_text[20 + v]) {           /* ids 21..25: the files themselves */
        void *h = __real_dlopen(path_text[20 + v], RTLD_LAZY | RTLD_NOLOAD);
        if (h) { bad = v; __real_dlclose(h); }
    }
    return bad;
}
static void vh_begin(void) {
    int i;
    my_scripts++;
    M[1] = M[2] = (spif_module_t) NULL;
    for (i = 0; i < nH; i++) if (H[i].refs) { fprintf(stderr, "x05: handle left open by the previous script\n"); }
    nH = 0; order_stamp = 0; main_opens = main_closes = 0; stale_uses = 0; fault_dlopen = 0; fault_sym = NULL; ncalls = 0;
    my_abandoned = 0;
    libast_debug_level = (unsigned int) level;
    heap0 = own_heap();
}
static void vh_end(void) {
    int s, i; long h1;
    fault_dlopen = 0; fault_sym = NULL;
    for (s = 2; s >= 1; s--) if (M[s]) { spif_module_del(M[s]); M[s] = (spif_module_t) NULL; }
    /* whatever the objects left open is closed here, silently: a leak is a STATE observation of the step that caused it */
    x05_internal = 1;
    for (i = 0; i < nH; i++) while (H[i].refs > 0) { if (__wrap_dlclose(H[i].h)) break; }
    x05_internal = 0;
    for (i = 0; i < nH; i++) H[i].refs = 0;
    libast_debug_level = 0;
    h1 = own_heap();
    if (vh_check_heap == 0 && !getenv("X05_NO_HEAP") && !my_abandoned && h1 != heap0)
        printf("X %ld %d heap end exp=%ld got=%ld\n", vh_cur_sid, vh_cur_step, heap0, h1);
    {   /* a library that the loader keeps although nothing holds it would falsify every later script of this process: report it
         * for this script and carry on in a fresh process image (same arguments, next script) */
        int v; size_t b0 = vh_heap();
        v = still_mapped();
        loader_bytes += (long) vh_heap() - (long) b0;
        if (v) {
            char num[32]; char **av = (char **) calloc((size_t) my_argc + 2, sizeof(char *)); int i;
            if (!my_abandoned) printf("X %ld %d inv end exp=- got=library_%s_stays_mapped_after_its_last_handle_was_closed\n", vh_cur_sid,
                                      vh_cur_step > 0 ? vh_cur_step - 1 : 0, variant_file[v]);
            printf("DONE %ld %ld\n", my_scripts, my_steps);
            fflush(stdout); fflush(stderr);
            vh_in_script = 0; vh_progress_set(vh_cur_sid, vh_cur_step, "done", 0);
            snprintf(num, sizeof(num), "%ld", my_first + my_scripts);
            for (i = 0; i < 6 && i < my_argc; i++) av[i] = my_argv[i];
            av[i++] = num; av[i] = NULL;
            execv("/proc/self/exe", av);
            _exit(9);
        }
    }
}

static int lib_of_handle(void *h) { hent *e; if (!h) return 0; e = hfind(h); return e ? (e->var ? e->var : 98) : 99; }
static int lib_of_addr(void *p) {
    Dl_info di; int v;
    if (!p) return 0;
    if (!dladdr(p, &di) || !di.dli_fname) return 9;
    v = variant_of_path(di.dli_fname);
    return v ? v : 9;
}
struct x05_counts { int id, init, run, done; void *last; };
static int sat(int n) { return n > cap ? cap : n; }

/* an object field that points into freed memory is reported as an invariant failure (and cleared, so that the process
 * survives the clean-up) instead of being dereferenced: set_path(m, get_path(m)) must not cost a process per observation */
static const char *dangling(spif_module_t m) {
#ifdef VH_ASAN
    if (!m) return NULL;
    if (m->name && __asan_region_is_poisoned(m->name, sizeof(*m->name))) { m->name = (spif_str_t) NULL; return "name_points_to_freed_memory"; }
    if (m->path && __asan_region_is_poisoned(m->path, sizeof(*m->path))) { m->path = (spif_str_t) NULL; return "path_points_to_freed_memory"; }
#endif
    return NULL;
}
static void put_obj(vh_sb *b, spif_module_t m) {
    if (!m) { sb_puts(b, "{h=0,live=F,mh=F,name=0,path=0}"); return; }
    sb_printf(b, "{h=%d,live=T,mh=%c,name=%d,path=%d}", lib_of_handle(m->module_handle),
              (track_main && m->main_handle) ? 'T' : 'F', name_id(m->name), path_id(m->path));
}
static void put_state(vh_sb *b) {
    int v, i, first = 1; long ord[NVAR + 1]; int refs[NVAR + 1];
    struct x05_counts *cnt[NVAR + 1];
    memset(ord, 0, sizeof(ord)); memset(refs, 0, sizeof(refs)); memset(cnt, 0, sizeof(cnt));
    for (i = 0; i < nH; i++) if (H[i].refs > 0 && H[i].var >= 1 && H[i].var <= NVAR) {
        int s;
        v = H[i].var; refs[v] += H[i].refs; if (!ord[v] || H[i].order < ord[v]) ord[v] = H[i].order;
        /* the library's own counters, through the public lookup of an object that holds it (else straight from the loader) */
        x05_internal = 1;
        for (s = 1; s <= 2 && !cnt[v]; s++)
            if (M[s] && M[s]->module_handle == H[i].h) cnt[v] = (struct x05_counts *) spif_module_getsym(M[s], (spif_charptr_t) "x05_counts");
        if (!cnt[v]) cnt[v] = (struct x05_counts *) __real_dlsym(H[i].h, "x05_counts");
        x05_internal = 0;
        if (cnt[v] && lib_of_addr(cnt[v]) != v) cnt[v] = NULL;
    }
    sb_puts(b, "{a="); put_obj(b, M[1]); sb_puts(b, ",b="); put_obj(b, M[2]);
    sb_puts(b, ",g=[");
    for (;;) {                                   /* open libraries by order of first open */
        int best = 0;
        for (v = 1; v <= NVAR; v++) if (ord[v] && (!best || ord[v] < ord[best])) best = v;
        if (!best) break;
        sb_printf(b, "%s%d", first ? "" : ",", best); first = 0; ord[best] = 0;
    }
    sb_puts(b, "],inst=[");
    for (v = 1; v <= NVAR; v++) {
        if (cnt[v]) sb_printf(b, "%s[%d,%d,%d]", v > 1 ? "," : "", sat(cnt[v]->init), sat(cnt[v]->run), sat(cnt[v]->done));
        else sb_printf(b, "%s[%s]", v > 1 ? "," : "", refs[v] ? "?,?,?" : "0,0,0");
    }
    sb_printf(b, "],main=%ld,refs=[", track_main ? main_opens - main_closes : 0L);
    for (v = 1; v <= NVAR; v++) sb_printf(b, "%s%d", v > 1 ? "," : "", refs[v]);
    sb_printf(b, "],stale=%ld}", stale_uses);
}
static void put_ret_int(vh_sb *b, long r) {
    int i;
    sb_puts(b, "{calls=[");
    for (i = 0; i < ncalls; i++) sb_printf(b, "%s[%d,%d]", i ? "," : "", call_fn[i], call_lib[i]);
    sb_printf(b, "],r=%ld}", r);
}

/* NULL-argument calls; at level >= 1 the stated outcome is the fatal exit (caught through the interposed exit()) */
static long null_raw(const char *what, spif_module_t m) {
    if (!strcmp(what, "init")) return spif_module_init((spif_module_t) NULL) ? 1 : 0;
    if (!strcmp(what, "done")) return spif_module_done((spif_module_t) NULL) ? 1 : 0;
    if (!strcmp(what, "del")) return spif_module_del((spif_module_t) NULL) ? 1 : 0;
    if (!strcmp(what, "dup")) return spif_module_dup((spif_module_t) NULL) ? 1 : 0;
    if (!strcmp(what, "type")) {           /* C: the type of nothing is the library's text for a NULL class name */
        spif_classname_t c = spif_module_type((spif_module_t) NULL);
        return (c && strcmp((const char *) c, SPIF_NULLSTR_TYPE(classname))) ? 1 : 0;
    }
    if (!strcmp(what, "load")) return spif_module_load((spif_module_t) NULL) ? 1 : 0;
    if (!strcmp(what, "unload")) return spif_module_unload((spif_module_t) NULL) ? 1 : 0;
    if (!strcmp(what, "run")) return spif_module_run((spif_module_t) NULL) ? 1 : 0;
    if (!strcmp(what, "call")) return spif_module_call((spif_module_t) NULL, (spif_charptr_t) "echo", (spif_ptr_t) 0x5a5a) ? 1 : 0;
    if (!strcmp(what, "getsym")) return spif_module_getsym((spif_module_t) NULL, (spif_charptr_t) "echo") ? 1 : 0;
    if (!strcmp(what, "sym")) return spif_module_getsym(m, (spif_charptr_t) NULL) ? 1 : 0;
    if (!strcmp(what, "fname")) return spif_module_call(m, (spif_charptr_t) NULL, (spif_ptr_t) 0x5a5a) ? 1 : 0;
    return 95;
}
static long null_call(const char *what, spif_module_t m, int lvl) {
    volatile long r = 0;
    libast_debug_level = (unsigned int) lvl;
    if (setjmp(fatal_env) == 0) {
        fatal_armed = 1;
        r = null_raw(what, m);
        fatal_armed = 0;
    } else r = (fatal_code & 0xff) == 255 ? 99 : 96;
    libast_debug_level = (unsigned int) level;
    return r;
}

/* show output -> line records */
static void put_show(vh_sb *b, spif_module_t m, int ind) {
    spif_str_t s = spif_module_show(m, (spif_charptr_t) "m", (spif_str_t) NULL, (size_t) ind);
    const char *t = s ? (const char *) SPIF_STR_STR(s) : NULL; int n = 0;
    sb_puts(b, "{calls=[],r=[");
    while (t && *t) {
        const char *nl = strchr(t, '\n'); size_t len = nl ? (size_t) (nl - t) : strlen(t), i = 0; char line[512]; const char *k = "other"; int v = 0;
        while (i < len && t[i] == ' ') i++;
        snprintf(line, sizeof(line), "%.*s", (int) (len - i > 500 ? 500 : len - i), t + i);
        if (!strncmp(line, "(spif_module_t) m:  0x", 22) && strlen(line) > 2 && !strcmp(line + strlen(line) - 2, " {") && !strchr(line, '"')) k = "open";
        else if (!strcmp(line, "}")) k = "close";
        else if (!strncmp(line, "(spif_str_t) name:  ", 20) || !strncmp(line, "(spif_str_t) path:  ", 20)) {
            int isname = line[13] == 'n';
            if (!strcmp(line + 20, "{ ((spif_str_t) NULL) }")) k = "strnull";
            else { k = "str"; v = isname ? name_id(m->name) : path_id(m->path);
                   if (!strstr(line, (const char *) SPIF_STR_STR(isname ? m->name : m->path))) k = "other"; }
        } else if (!strncmp(line, "(spif_ptr_t) module_handle:  ", 29)) {
            if (!strcmp(line + 29, "(nil)")) { k = "mh"; v = 0; }
            else if (!strncmp(line + 29, "0x", 2) && strncmp(line + 31, "0x", 2) && strcmp(line + 31, "(nil)")) { k = "mh"; v = 1; }
        } else if (!strncmp(line, "(spif_ptr_t) main_handle:  ", 27)) {
            if (!strncmp(line + 27, "0x", 2) && strncmp(line + 29, "0x", 2) && strcmp(line + 29, "(nil)")) { k = "main"; v = 1; }
        }
        sb_printf(b, "%s{i=%d,k=%s,v=%d}", n ? "," : "", (int) i, k, v);
        n++;
        if (!nl) break;
        t = nl + 1;
    }
    sb_puts(b, "]}");
    if (s) spif_str_del(s);
}

#define OP(s) (!strcmp(op, s))
#define ARG(i) (st->nargs > (i) ? st->args[i] : "")
/* run / call / the two handle setters: executed first in a forked child whose fatal signals kill it silently; when the child
 * dies the step is reported as an invariant failure and NOT executed here, so one such defect does not cost a process restart
 * (and a sanitizer report) per observation.  The child exits 0 when the call came back. */
static long risky_op(const char *op, spif_module_t m, const vh_step_t *st) {
    if (OP("run")) return spif_module_run(m) ? 1 : 0;
    if (OP("call")) {
        const char *fn = !strcmp(ARG(1), "echo") ? "echo" : "x05_nosuch";
        spif_ptr_t p = spif_module_call(m, (spif_charptr_t) fn, (spif_ptr_t) 0x5a5a);
        return p == (spif_ptr_t) 0x5a5a ? 1 : (p ? 2 : 0);
    }
    if (OP("set_mh_same")) return spif_module_set_module_handle(m, spif_module_get_module_handle(m)) ? 1 : 0;
    if (OP("set_main_same")) return spif_module_set_main_handle(m, spif_module_get_main_handle(m)) ? 1 : 0;
    if (OP("null_fname")) return null_call("fname", m, atoi(ARG(1)));
    return 95;
}
static int in_child;
/* A probe verdict is reused, within one harness process, for the same call shape: operation + arguments + library held by the
 * object + libraries held by the other object (a fork of a sanitizer process costs milliseconds and there are 10^5 such steps). */
#define NCACHE 512
static struct { char key[72]; char verdict[64]; } pcache[NCACHE]; static int npcache;
static const char *probe_child_raw(const char *op, spif_module_t m, const vh_step_t *st);
static int lib_of_handle(void *h);
static const char *probe_child(const char *op, spif_module_t m, const vh_step_t *st) {
    char key[72]; int i; const char *v; spif_module_t other = (m == M[1]) ? M[2] : M[1];
    if (in_child || getenv("X05_NO_PROBE")) return NULL;
    snprintf(key, sizeof(key), "%s|%s|%s|%d|%d|%d", op, ARG(1), ARG(2), lib_of_handle(m->module_handle), other ? lib_of_handle(other->module_handle) : -1,
             m->name ? 1 : 0);
    for (i = 0; i < npcache; i++) if (!strcmp(pcache[i].key, key)) return pcache[i].verdict[0] ? pcache[i].verdict : NULL;
    v = probe_child_raw(op, m, st);
    if (npcache < NCACHE) { snprintf(pcache[npcache].key, sizeof(pcache[0].key), "%s", key); snprintf(pcache[npcache].verdict, sizeof(pcache[0].verdict), "%s", v ? v : ""); npcache++; }
    return v;
}
static const char *probe_child_raw(const char *op, spif_module_t m, const vh_step_t *st) {
    pid_t pid; int stt = 0; static char msg[96];
    fflush(stdout); fflush(stderr);
    pid = fork();
    if (pid < 0) return "fork_failed";
    if (pid == 0) {
        vh_in_script = 0;
        signal(SIGSEGV, SIG_DFL); signal(SIGBUS, SIG_DFL); signal(SIGILL, SIG_DFL); signal(SIGFPE, SIG_DFL); signal(SIGABRT, SIG_DFL);
        alarm(5);
        (void) risky_op(op, m, st);
        _exit(0);
    }
    if (waitpid(pid, &stt, 0) < 0) return "waitpid_failed";
    if (WIFSIGNALED(stt)) { snprintf(msg, sizeof(msg), "call_killed_by_signal_%s", WTERMSIG(stt) == SIGSEGV ? "SEGV" : (WTERMSIG(stt) == SIGALRM ? "ALRM" : "other")); return msg; }
    if (WIFEXITED(stt) && WEXITSTATUS(stt) != 0) { snprintf(msg, sizeof(msg), "call_died_with_exit_status_%d", WEXITSTATUS(stt)); return msg; }
    return NULL;
}
static const char *step_inner(const vh_step_t *st, vh_sb *ret, vh_sb *state) {
    const char *op = st->op; int s = atoi(ARG(0)); spif_module_t m = (s >= 1 && s <= 2) ? M[s] : (spif_module_t) NULL; long r = 0;
    int shown = 0;
    ncalls = 0; fault_dlopen = 0; fault_sym = NULL;
    if (OP("null_self")) r = null_call(ARG(0), (spif_module_t) NULL, atoi(ARG(1)));
    else if (OP("new")) { if (s < 1 || s > 2 || M[s]) return "bad_script"; M[s] = spif_module_new(); r = M[s] ? 1 : 0; }
    else if (!m) return "bad_script_no_object";
    else if (OP("del")) { r = spif_module_del(m) ? 1 : 0; M[s] = (spif_module_t) NULL; }
    else if (OP("done")) r = spif_module_done(m) ? 1 : 0;
    else if (OP("init")) r = spif_module_init(m) ? 1 : 0;
    else if (OP("dup")) { int t = atoi(ARG(1)); if (t < 1 || t > 2 || M[t]) return "bad_script"; M[t] = spif_module_dup(m); r = M[t] ? 1 : 0; }
    else if (OP("set_name")) { int n = atoi(ARG(1)); r = spif_module_set_name(m, n ? spif_str_new_from_ptr((spif_charptr_t) name_text[n]) : (spif_str_t) NULL) ? 1 : 0; }
    else if (OP("set_path")) {
        int p = atoi(ARG(1));
        if (p && (p >= MAXPATHS || !path_text[p])) return "bad_script_path";
        r = spif_module_set_path(m, p ? spif_str_new_from_ptr((spif_charptr_t) path_text[p]) : (spif_str_t) NULL) ? 1 : 0;
    }
    else if (OP("set_name_same")) r = spif_module_set_name(m, spif_module_get_name(m)) ? 1 : 0;
    else if (OP("set_path_same")) r = spif_module_set_path(m, spif_module_get_path(m)) ? 1 : 0;
    else if (OP("set_mh_same") || OP("set_main_same")) {
        const char *d = probe_child(op, m, st);
        if (d) { put_ret_int(ret, 0); put_state(state); my_abandoned = 1; return d; }
        r = risky_op(op, m, st);
    }
    else if (OP("load")) {
        if (!strcmp(ARG(1), "dlopen")) fault_dlopen = 1; else if (!strcmp(ARG(1), "init")) fault_sym = "init";
        last_init_self = NULL;
        r = spif_module_load(m) ? 1 : 0;
        if (ncalls && call_fn[0] == 0 && last_init_self != (void *) m) return "init_received_another_object";
    }
    else if (OP("unload")) { if (!strcmp(ARG(1), "done")) fault_sym = "done"; r = spif_module_unload(m) ? 1 : 0; }
    else if (OP("run") || OP("call")) {
        const char *d;
        if (OP("run")) { if (!strcmp(ARG(1), "run")) fault_sym = "run"; }
        else if (!strcmp(ARG(2), "sym")) fault_sym = !strcmp(ARG(1), "echo") ? "echo" : "x05_nosuch";
        d = probe_child(op, m, st);
        if (d) { fault_sym = NULL; put_ret_int(ret, 0); put_state(state); my_abandoned = 1; return d; }
        r = risky_op(op, m, st);
    }
    else if (OP("getsym")) {
        const char *sym = !strcmp(ARG(1), "mod") ? "x05_counts" : (!strcmp(ARG(1), "ext") ? "strlen" : "x05_nosuch");
        if (!strcmp(ARG(2), "sym")) fault_sym = sym;
        r = lib_of_addr(spif_module_getsym(m, (spif_charptr_t) sym));
    }
    else if (OP("null_sym")) r = null_call("sym", m, atoi(ARG(1)));
    else if (OP("null_fname")) {          /* call(m, NULL, ..) walks into the uninitialised branch of spif_module_call */
        const char *d = probe_child(op, m, st);
        if (d) { put_ret_int(ret, 98); put_state(state); my_abandoned = 1; return d; }
        r = risky_op(op, m, st);
    }
    else if (OP("type")) {
        spif_classname_t c = spif_module_type(m);
        r = ((spif_class_t) c == SPIF_CLASS_VAR(module) && SPIF_OBJ_CLASS(m) == SPIF_CLASS_VAR(module)
             && strstr((const char *) SPIF_CLASS_VAR(module)->classname, "module")) ? 1 : 0;
    }
    else if (OP("comp")) {
        int t = atoi(ARG(1)); int ab, ba;
        if (t < 1 || t > 2 || !M[t]) return "bad_script";
        ab = (int) spif_module_comp(m, M[t]); ba = (int) spif_module_comp(M[t], m);
        /* 77 = "unequal, opposite signs" is only reported when the expectation asks for that class (rule E: which sign is free) */
        if (!strcmp(st->exp_ret, "{calls=[],r=77}") && ab == -ba && ab != 0 && ab >= -1 && ab <= 1) r = 77;
        else r = 10 * (ab + 1) + (ba + 1);
    }
    else if (OP("comp_null")) {
        int ab = (int) spif_module_comp(m, (spif_module_t) NULL), ba = (int) spif_module_comp((spif_module_t) NULL, m);
        r = 10 * (ab + 1) + (ba + 1);
    }
    else if (OP("show")) { put_show(ret, m, atoi(ARG(1))); shown = 1; }
    else return "unknown_op";
    fault_dlopen = 0; fault_sym = NULL;
    {   const char *d = dangling(M[1]); if (!d) d = dangling(M[2]);
        if (d) { if (!shown) put_ret_int(ret, r); put_state(state); my_abandoned = 1; return d; } }
    if (!shown) put_ret_int(ret, r);
    put_state(state);
    if (st->exp_state[0] != '?' && strcmp(state->p, st->exp_state)) my_abandoned = 1;
    return NULL;
}

/* A lookup through an UNLOADED object starts with dlsym(NULL, ..) = the default scope.  When glibc answers such a lookup made
 * by the program with a symbol of a dlopened library it marks that library NODELETE: it stays mapped (and in the global scope)
 * for the life of the process, whatever dlclose says.  The harness process serves thousands of scripts, so these steps
 * (run / call / getsym on an unloaded object while a catalogue library is open - none of them changes the abstract state)
 * are executed in a forked child that reports its tokens through a pipe. */
static int any_library_open(void) { int i; for (i = 0; i < nH; i++) if (H[i].refs > 0) return 1; return 0; }
static const char *step_in_child(const vh_step_t *st, vh_sb *ret, vh_sb *state) {
    int fd[2]; pid_t pid; int stt = 0; static char buf[1 << 16]; static char msg[128]; size_t n = 0; ssize_t k; char *a, *b, *c;
    if (pipe(fd)) return "pipe_failed";
    fflush(stdout); fflush(stderr);
    pid = fork();
    if (pid < 0) return "fork_failed";
    if (pid == 0) {
        const char *inv; FILE *f;
        close(fd[0]); vh_in_script = 0; in_child = 1;
        signal(SIGSEGV, SIG_DFL); signal(SIGBUS, SIG_DFL); signal(SIGILL, SIG_DFL); signal(SIGFPE, SIG_DFL); signal(SIGABRT, SIG_DFL);
        alarm(5);
        inv = step_inner(st, ret, state);
        f = fdopen(fd[1], "w");
        fprintf(f, "%s\n%s\n%s\n", ret->p, state->p, inv ? inv : "-");
        fflush(f);
        _exit(0);
    }
    close(fd[1]);
    while (n < sizeof(buf) - 1 && (k = read(fd[0], buf + n, sizeof(buf) - 1 - n)) > 0) n += (size_t) k;
    buf[n] = 0; close(fd[0]);
    if (waitpid(pid, &stt, 0) < 0) return "waitpid_failed";
    if (WIFSIGNALED(stt)) {
        snprintf(msg, sizeof(msg), "call_killed_by_signal_%s", WTERMSIG(stt) == SIGSEGV ? "SEGV" : (WTERMSIG(stt) == SIGALRM ? "ALRM" : "other"));
        put_ret_int(ret, 0); put_state(state); my_abandoned = 1; return msg;
    }
    a = buf; b = strchr(a, '\n'); if (!b) return "child_report_truncated"; *b++ = 0;
    c = strchr(b, '\n'); if (!c) return "child_report_truncated"; *c++ = 0;
    if (strchr(c, '\n')) *strchr(c, '\n') = 0;
    sb_puts(ret, a); sb_puts(state, b);
    if (st->exp_state[0] != '?' && strcmp(state->p, st->exp_state)) my_abandoned = 1;
    if (strcmp(c, "-")) { snprintf(msg, sizeof(msg), "%s", c); my_abandoned = 1; return msg; }
    return NULL;
}
static const char *vh_step(const vh_step_t *st, vh_sb *ret, vh_sb *state) {
    const char *op = st->op; int s = atoi(ARG(0));
    my_steps++;
    if ((OP("run") || OP("call") || OP("getsym")) && s >= 1 && s <= 2 && M[s] && !M[s]->module_handle && any_library_open() && !getenv("X05_NO_PROBE"))
        return step_in_child(st, ret, state);
    return step_inner(st, ret, state);
}

int main(int argc, char **argv) {
    if (argc < 6) { fprintf(stderr, "usage: %s <paths-file> <level> <cap> <flags> <scriptfile> [first]\n", argv[0]); return 2; }
    my_argv = argv; my_argc = argc; my_first = argc > 6 ? atol(argv[6]) : 0;
    load_paths(argv[1]);
    level = atoi(argv[2]); cap = atoi(argv[3]); track_main = strstr(argv[4], "main") != NULL;
    libast_set_program_name("module_replay");
    vh_check_heap = 0;          /* the balance is taken here, net of the loader's own allocations */
    x05_active = 1;
    {   /* warm-up outside every measured window: the loader's lazily created structures, dlerror's buffer, stdio */
        void *h;
        x05_internal = 1;
        h = __wrap_dlopen(NULL, RTLD_LAZY); if (h) __wrap_dlclose(h);
        (void) __wrap_dlopen("/x05-warm-up/none.so", RTLD_LAZY); (void) __wrap_dlerror();
        x05_internal = 0;
        fprintf(stderr, "module_replay: level %d cap %d main %d\n", level, cap, track_main);
    }
    return vh_main(argc, argv, 5);
}
