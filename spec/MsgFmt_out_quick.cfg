SPECIFICATION Spec
CONSTANTS
  Names <- NamesQuick
  Vers = {}
  Msgs <- MsgsQuick
  MacroMsgs <- MacroMsgsQuick
  Levels <- LevelsQuick
  Clocks <- ClocksQuick
  Sites <- SitesQuick
  Macros <- MacrosAll
  D = 4
  Extras = FALSE
  AsBuilt = FALSE
  Obs <- ObsEmit
INVARIANTS TypeOK OwnershipSound NoLeak NoNullDeref NoUseAfterFree NoRecursion SetIdempotent SilentWritesNothing PrefixLaw GateLaw ControlLaw FormatLaws MacroFormats
CHECK_DEADLOCK FALSE
