------------------------------ MODULE QuoteTrace ------------------------------
(* Direction (B) for C12: long inputs (50..5000 characters) were given to the real spiftool_split /        *)
(* spif_tok_eval and the returned token lists were logged.  For every logged event TLC runs the SAME       *)
(* scanner step machine of Quote.tla over the logged input, character by character, and at the Finish step *)
(* the observation hook pins the machine's token list to the logged one.                                   *)
(* File named by env TRACE: one JSON object per line  {"op":"split"|"tok","d":[..],"s":[..],"ret":[[..],..]} *)
EXTENDS Quote, IOUtils
VARIABLES l, fin
Tr == ndJsonDeserialize(IOEnv.TRACE)

\* Long-count events: {"op":"split_rep"|"tok_rep","d":[..],"s":B,"k":K,"ret":{"n":N,"first":[[..],..],"periodic":true}} - the real
\* function was given B repeated K times (K up to 2^16 and beyond); the scanner runs over B alone and the law RepeatLaw of Quote.tla
\* (checked by TLC on the bounded universe) gives the expectation: K * (tokens of B) tokens, periodic, first period = tokens of B.
IsRep == Tr[l].op \in {"split_rep", "tok_rep"}
Logged(ts) == IF Tr[l].op \in {"split", "split_rep"} THEN ts ELSE [i \in 1 .. Len(ts) |-> Trim(ts[i])]
ObsTrace(op, args, ret, post) ==
    IF IsRep THEN LET r == Tr[l].ret IN
                  /\ EndsWithFreeDelim(d, s)
                  /\ r.n = Tr[l].k * Len(ret) /\ r.periodic = TRUE /\ r.first = Logged(ret)
    ELSE Logged(ret) = Tr[l].ret

TraceInit == /\ l = 1 /\ fin = FALSE /\ s = Tr[1].s /\ d = Tr[1].d
             /\ pos = 1 /\ quote = 0 /\ cur = <<>> /\ toks = <<>> /\ intok = FALSE /\ done = FALSE

IsScanEvent == Tr[l].op \in {"split", "tok", "split_rep", "tok_rep"}
\* events that are not scans: the word utilities on the logged text, join on a logged token list
\*   {"op":"words","d":[],"s":[..],"ret":{"n":N,"w":[[..],..],"p":[..]}}      {"op":"join","d":[],"s":[],"toks":[[..],..],"ret":[[..],[..],[..]]}
\*   {"op":"words_rep","d":[],"s":B,"k":K,"idx":[i,..],"ret":{"n":N,"w":[[..],..],"p":[..]}}   num_words(B^K), get_word / get_pword at idx
WordsRepMatches == LET r == Tr[l].ret  ix == Tr[l].idx IN
                   /\ EndsWithFreeBlank(s)
                   /\ r.n = Tr[l].k * NumWords(s)
                   /\ r.w = [j \in 1 .. Len(ix) |-> WordOfRepeated(s, ix[j])]
                   /\ r.p = [j \in 1 .. Len(ix) |-> PWordOfRepeated(s, ix[j])]
PureExpected == IF Tr[l].op = "words"
                THEN LET nw == NumWords(s) IN [n |-> nw, w |-> [i \in 1 .. nw |-> GetWord(i, s)], p |-> [i \in 1 .. nw |-> GetPWord(i, s)]]
                ELSE [k \in 1 .. Len(JoinSeps) |-> Join(JoinSeps[k], Tr[l].toks)]
PureMatches == IF Tr[l].op = "words_rep" THEN WordsRepMatches
               ELSE IF Tr[l].op = "words"
               THEN LET e == PureExpected r == Tr[l].ret IN r.n = e.n /\ r.w = e.w /\ r.p = e.p
               ELSE Tr[l].ret = PureExpected
PureEvent == /\ ~done /\ ~IsScanEvent /\ PureMatches
             /\ done' = TRUE /\ UNCHANGED <<s, d, pos, quote, cur, toks, intok, l, fin>>
RejectPure == /\ ~done /\ ~IsScanEvent /\ ~PureMatches
              /\ PrintT(<<"TRACE_REJECTED_AFTER", l - 1, "OF", Len(Tr)>>)
              /\ UNCHANGED <<vars, l, fin>>
ScanStep == IsScanEvent /\ (SkipDelim \/ OpenQuote \/ CloseQuote \/ OtherQuoteLiteral \/ EscapedDelimOrQuote \/ Plain \/ EndToken \/ Finish)
\* the scan is complete and the logged tokens differ from the reference's: say where, and stop
RejectCase == /\ IsScanEvent /\ ScanNext(d, s, Cur).kind = "Finish" /\ ~ObsTrace("split", <<d, s>>, toks, TRUE)
              /\ PrintT(<<"TRACE_REJECTED_AFTER", l - 1, "OF", Len(Tr)>>)
              /\ UNCHANGED <<vars, l, fin>>
NextEvent == /\ done /\ l < Len(Tr)
             /\ l' = l + 1 /\ s' = Tr[l + 1].s /\ d' = Tr[l + 1].d
             /\ pos' = 1 /\ quote' = 0 /\ cur' = <<>> /\ toks' = <<>> /\ intok' = FALSE /\ done' = FALSE
             /\ UNCHANGED fin
Accept == /\ done /\ l = Len(Tr) /\ ~fin
          /\ PrintT(<<"TRACE_ACCEPTED", l>>)
          /\ fin' = TRUE /\ UNCHANGED <<vars, l>>
TraceStep == (ScanStep /\ UNCHANGED <<l, fin>>) \/ RejectCase \/ PureEvent \/ RejectPure \/ NextEvent \/ Accept
TracePosInBounds == IsScanEvent => PosInBounds
TraceSpec == TraceInit /\ [][TraceStep]_<<vars, l, fin>>
================================================================================
