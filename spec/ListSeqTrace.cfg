SPECIFICATION TraceSpec
CONSTANTS
  Elems = {1}
  MaxLen = 100000
  Idx = {0}
  Obs <- ObsTrace
POSTCONDITION TraceAccepted
CHECK_DEADLOCK FALSE
