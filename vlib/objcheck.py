"""Direction (A) for object specifications: TLC's emitted transition relation -> level-by-level transition
cover + random walks, replayed on the implementation by a harness, per implementation variant (class)."""
import os, time, json
from .core import tok, log, Broken
from .graph import Graph, LevelPlanner, step_line
from .tlc import run_tlc
from .replay import run_scripts


def tlc_graph(ctx, module, cfg, ignore_untaken=(), timeout=3000, workers=None, heap="8g"):
    """Runs TLC exhaustively, collects the emitted edges into a Graph, records stats in ctx.cov.
    A TLC property violation is a VIOLATION of the design-level part (key 'spec:<cfg>')."""
    g = Graph()
    res = run_tlc(module, cfg, ctx.rundir, on_edge=g.add, timeout=timeout, workers=workers, heap=heap)
    ctx.add("states", res.distinct)
    ctx.add("transitions", res.generated)
    ctx.add("edges_emitted", res.edges)
    ctx.cov.setdefault("tlc_runs", []).append({
        "module": module, "cfg": cfg, "distinct_states": res.distinct, "states_generated": res.generated,
        "depth": res.depth, "edges_emitted": res.edges, "distinct_edges": g.n_edges(), "wall_s": round(res.wall, 1),
        "actions": {a: list(v) for a, v in sorted(res.coverage.items()) if a[:2] == "Op" or a in ("Next",)}})
    if not res.ok:
        ctx.report("spec:%s" % cfg, "TLC reports a violated property of the specification itself: %s" % (res.violation or "")[:600],
                   {"tlc": res.violation, "cfg": cfg})
    unt = [a for a in res.untaken(ignore_untaken) if a.startswith("Op")]
    if unt:
        raise Broken("vacuity: actions never taken in %s/%s: %s" % (module, cfg, unt))
    if res.edges == 0:
        raise Broken("no edges emitted by %s/%s" % (module, cfg))
    return g, res


def pair_cover(ctx, g, lp, exe, variant, hargs, keyfn, cap, line=step_line, env=None, jobs=None):
    """2-step transition cover: every verified state-changing edge e1 followed by every edge e2 enabled in its post-state.
    The single-edge cover reaches each abstract state by ONE history (the shortest); an implementation carries hidden state
    (capacity, tail pointers, stale bytes) that depends on the history, so a defect in e1 that only e2 exposes needs e1;e2
    executed in a row.  Scripts: path(pre(e1)) + e1 + [all self-loops of post(e1)], and path + e1 + e2 for each move e2."""
    from .graph import Script
    # Enumerating every (e1, e2) pair of a million-edge graph before sampling costs minutes and gigabytes: count first, then
    # pick by a threshold on a hash of the two edges' TEXTS (deterministic, independent of the order in which TLC happened to
    # emit the edges, and of the sample size only through the threshold).
    import zlib
    salt = zlib.crc32(str(ctx.seed).encode())
    verified = lp.verified
    node_out = {}

    def outs_of(v):
        r = node_out.get(v)
        if r is None:
            o = [i for i in g.out[v] if i in verified]
            r = node_out[v] = ([i for i in o if g.is_loop(i)], [i for i in o if not g.is_loop(i)])
        return r
    firsts = [e1 for e1 in sorted(verified) if not g.is_loop(e1) and g.pre_key(e1) in lp.path]
    total = 0
    for e1 in firsts:
        loops, moves = outs_of(g.post_key(e1))
        total += len(moves) + (1 if loops else 0)
    cands = []
    if cap and total > cap:
        T = int(cap / float(total) * 4294967296.0)
        crc = {}

        def ecrc(i):
            c = crc.get(i)
            if c is None:
                c = crc[i] = zlib.crc32(g.line(i).encode(), salt)
            return c
        for e1 in firsts:
            loops, moves = outs_of(g.post_key(e1))
            c1 = (ecrc(e1) * 0x9E3779B1) & 0xffffffff
            if loops and ((c1 ^ 0x5bd1e995) * 0x85EBCA77 & 0xffffffff) < T:
                cands.append((e1, loops))
                if len(loops) > 1:
                    cands.append((e1, loops[::-1]))
            for e2 in moves:
                if (((c1 ^ ecrc(e2)) * 0x85EBCA77) & 0xffffffff) < T:
                    cands.append((e1, [e2]))
    else:
        for e1 in firsts:
            loops, moves = outs_of(g.post_key(e1))
            if loops:
                # the self-loops of the post-state run as ONE chain - in both orders, because a self-loop that re-establishes
                # hidden state (a setter given the value already held, which recompiles / reallocates) masks a defect of e1
                # for every query behind it in the chain
                cands.append((e1, loops))
                if len(loops) > 1:
                    cands.append((e1, loops[::-1]))
            for e2 in moves:
                cands.append((e1, [e2]))
    scripts = []
    for e1, tg in cands:
        lp.sid += 1
        scripts.append(Script(lp.sid, list(lp.path[g.pre_key(e1)]) + [e1], tg))
    if not scripts:
        return 0, 0, 0
    texts = [sc.text(g, line) for sc in scripts]
    bysid = {sc.sid: sc for sc in scripts}
    fails, _, ns, nt = run_scripts(exe, hargs, texts, ctx.rundir, jobs=jobs, env=env, tag="%s-pairs" % variant)
    seen = set()
    nf = 0
    for f in fails:
        sc = bysid.get(f.sid)
        if sc is None:
            continue
        ix = sc.edge_indexes()
        st = min(f.step, len(ix) - 1)
        e2 = g.edict(ix[st])
        e1 = g.edict(sc.prefix[-1])
        where = "prefix" if st < len(sc.prefix) - 1 else ("first" if st == len(sc.prefix) - 1 else "second")
        key = "pair %s after %s (%s)" % (keyfn(variant, e2, f), e1["op"], where)
        nf += 1
        if key in seen:
            if key in ctx.violations:
                ctx.violations[key][2] += 1
            continue
        seen.add(key)
        ctx.report(key, "%s: 2-step cover: %s at step %d (%s) after (%s): exp=%s got=%s %s" % (
            variant, f.kind, f.step, g.line(ix[st]), g.line(sc.prefix[-1]), f.exp, f.got, f.sig),
            {"variant": variant, "harness_args": hargs, "script": sc.describe(g, st), "failure": repr(f), "detail": f.detail,
             "script_text": sc.text(g, line)})
    ctx.cov.setdefault("replay", {}).setdefault(variant, {}).update(
        {"pair_scripts": len(scripts), "pair_candidates": total, "pair_failures": nf})
    ctx.add("traces_validated_against_impl", ns)
    ctx.add("evaluations", nt)
    return ns, nt, nf


def replay_cover(ctx, g, inits, exe, variant, hargs, keyfn, walks=(0, 0), line=step_line, env=None, jobs=None,
                 max_levels=200, max_violation_keys=40, pairs=0):
    """Transition cover + walks for one implementation variant.  keyfn(variant, edge_or_None, fail) -> finding key."""
    lp = LevelPlanner(g, inits)
    nscripts = nsteps = 0
    distinct = 0
    t0 = time.time()
    sample_done = False
    while lp.level < max_levels:
        scripts = lp.next_level()
        if not scripts:
            break
        texts = [s.text(g, line) for s in scripts]
        bysid = {s.sid: s for s in scripts}
        # a crash inside a loop chain hides the rest of the chain: re-run the remainder until the chain is consumed
        failed = {}
        fails_all = []
        stopped = None
        todo = list(zip(scripts, texts))
        rounds = 0
        while todo and rounds < 50:
            rounds += 1
            try:
                fails, _, ns, nt = run_scripts(exe, hargs, [t for _, t in todo], ctx.rundir, jobs=jobs, env=env, tag="%s-L%d" % (variant, lp.level))
            except Broken as stop:       # hang budget exhausted: report what was seen, then end the check
                stopped = stop
                break
            nscripts += ns
            nsteps += nt
            again = []
            for f in fails:
                s = bysid.get(f.sid)
                if s is None:
                    continue
                npre = len(s.prefix)
                st = f.step
                if f.kind in ("heap",) or st >= npre + len(s.targets):
                    st = npre + len(s.targets) - 1      # end-of-script failures are charged to the last target
                    f.step = st
                failed.setdefault(s.sid, set()).add(st)
                fails_all.append(f)
                hard = f.kind in ("crash", "hang", "exit", "state", "inv")
                if hard and st >= npre and st < npre + len(s.targets) - 1:
                    # remainder of the chain was not executed
                    rest = s.targets[st - npre + 1:]
                    lp.sid += 1
                    from .graph import Script
                    ns_ = Script(lp.sid, list(s.prefix), rest)
                    lp.pending[ns_.sid] = ns_
                    bysid[ns_.sid] = ns_
                    again.append((ns_, ns_.text(g, line)))
            todo = again
        if not sample_done and scripts:
            big = max(scripts, key=lambda s: len(s.prefix))
            ctx.sample({"variant": variant, "script": big.describe(g)[:12]})
            sample_done = True
        seen_keys = set()
        for f in fails_all:
            s = bysid[f.sid]
            ix = s.edge_indexes()
            e = g.edges[ix[f.step]][2] if f.step < len(ix) else None
            in_prefix = f.step < len(s.prefix)
            key = keyfn(variant, e, f)
            if in_prefix:
                key = "nondeterministic-prefix " + key
            what = "%s: %s at step %d (%s) exp=%s got=%s %s" % (variant, f.kind, f.step, step_line(e) if e else f.op, f.exp, f.got, f.sig)
            if key in seen_keys:
                if key in ctx.violations:
                    ctx.violations[key][2] += 1
                continue
            seen_keys.add(key)
            ctx.report(key, what, {"variant": variant, "harness_args": hargs, "script": s.describe(g, f.step), "failure": repr(f),
                                   "detail": f.detail, "script_text": s.text(g, line)})
        if stopped is not None:
            raise stopped
        lp.feed(failed)
        if len(ctx.violations) > max_violation_keys:
            ctx.notes.append("stopped %s after %d distinct violation keys" % (variant, len(ctx.violations)))
            break
    covered = len(lp.verified)
    bad = len(lp.bad)
    unreached = lp.unreached_nodes()
    # walks over verified edges
    wn, wl = walks
    wfail = 0
    if wn and not ctx.violations:
        ws = lp.walks(wn, wl, ctx.seed, inits)
        texts = [s.text(g, line) for s in ws]
        bysid = {s.sid: s for s in ws}
        fails, _, ns, nt = run_scripts(exe, hargs, texts, ctx.rundir, jobs=jobs, env=env, tag="%s-walk" % variant)
        nscripts += ns
        nsteps += nt
        seen = set()
        for f in fails:
            s = bysid[f.sid]
            ix = s.edge_indexes()
            st = min(f.step, len(ix) - 1)
            e = g.edges[ix[st]][2]
            key = "walk " + keyfn(variant, e, f)
            wfail += 1
            if key in seen:
                continue
            seen.add(key)
            ctx.report(key, "%s: random walk over verified edges failed: %s at step %d (%s) exp=%s got=%s %s" % (
                variant, f.kind, f.step, step_line(e), f.exp, f.got, f.sig),
                {"variant": variant, "harness_args": hargs, "script": s.describe(g, st), "failure": repr(f), "detail": f.detail,
                 "script_text": s.text(g, line)})
        if ws:
            ctx.sample({"variant": variant, "walk": ws[0].describe(g)[:10]})
    ctx.cov.setdefault("replay", {})[variant] = {
        "edges_total": g.n_edges(), "edges_verified_on_impl": covered, "edges_failed": bad,
        "states_unreached_through_verified_edges": len(unreached), "levels": lp.level,
        "scripts": nscripts, "steps": nsteps, "walks": wn, "walk_len": wl, "walk_failures": wfail,
        "wall_s": round(time.time() - t0, 1)}
    ctx.add("traces_validated_against_impl", nscripts)
    ctx.add("evaluations", nsteps)
    if pairs and not ctx.violations:
        pair_cover(ctx, g, lp, exe, variant, hargs, keyfn, pairs, line=line, env=env, jobs=jobs)
    return lp


def replay_file(exe, hargs, path, rundir, env=None):
    """--replay: run the recorded script_text of a replay file and print what happens."""
    d = json.load(open(path))
    rp = d.get("replay") or {}
    txt = rp.get("script_text")
    if not txt:
        print("replay file has no script_text")
        return 2
    fails, recs, ns, nt = run_scripts(exe, rp.get("harness_args", hargs), [txt], rundir, jobs=1, env=env, tag="replay")
    for f in fails:
        print("REPRODUCED", f)
        if f.detail:
            print(f.detail)
    if not fails:
        print("not reproduced: script passes (%d steps)" % nt)
    return 1 if fails else 0
