SPECIFICATION Spec
CONSTANTS
  Cls = "tok"
  T = {1, 2, 3}
  Obs <- ObsEmit
INVARIANT TypeOK
PROPERTY Independent
CHECK_DEADLOCK FALSE
