"""Core of the /verif machinery: context, evidence, findings, violation reporting.

Exit codes of a check: 0 held / 1 violation (VIOLATION line printed) / 2 machinery broken.
"""
import json, os, sys, time, shutil, hashlib, re, atexit, signal

VERIF = os.path.dirname(os.path.dirname(os.path.abspath(__file__)))
REPO = os.environ.get("VERIF_REPO", "/repo")
BUILD = os.path.join(VERIF, ".build")
EVID = os.path.join(VERIF, "evidence")
NCPU = int(os.environ.get("VERIF_JOBS", str(os.cpu_count() or 4)))


class Broken(Exception):
    """The machinery itself failed (exit 2, never a VIOLATION)."""


def log(*a):
    print("[vcheck]", *a, file=sys.stderr, flush=True)


def tok(v):
    """Canonical single-token rendering of a JSON value (shared with harness/common.h).

    int -> decimal, bool -> T/F, None -> -, str -> itself (must not contain blanks),
    list -> [a,b,c], dict -> {k=v,...} in sorted key order.
    """
    if v is True:
        return "T"
    if v is False:
        return "F"
    if v is None:
        return "-"
    if isinstance(v, int):
        return str(v)
    if isinstance(v, str):
        return v if v != "" else '""'
    if isinstance(v, (list, tuple)):
        return "[" + ",".join(tok(x) for x in v) + "]"
    if isinstance(v, dict):
        return "{" + ",".join("%s=%s" % (k, tok(v[k])) for k in sorted(v)) + "}"
    raise TypeError(v)


class Findings:
    """known_findings.json: committed, never written at run time."""

    def __init__(self):
        self.path = os.path.join(VERIF, "known_findings.json")
        self.entries = []
        if os.path.exists(self.path):
            self.entries = list(json.load(open(self.path)).get("findings", []))
        # per-property fragments (same format), merged at load time
        import glob
        for fp in sorted(glob.glob(os.path.join(VERIF, "known_findings.d", "*.json"))):
            self.entries += json.load(open(fp)).get("findings", [])

    def lookup(self, prop, key):
        for e in self.entries:
            if e.get("property") != prop or e.get("status") != "known":
                continue
            if e.get("key") == key:
                return e
            if e.get("key_re") and re.fullmatch(e["key_re"], key):
                return e
        return None


class Ctx:
    def __init__(self, prop, tier, level, seed=None):
        self.prop = prop
        self.tier = tier
        self.level = level
        self.seed = int(os.environ.get("VERIF_SEED", "20261003")) if seed is None else seed
        self.repo = REPO
        self.t0 = time.time()
        self.rundir = os.path.join(BUILD, "run-%s-%d" % (prop, os.getpid()))
        shutil.rmtree(self.rundir, ignore_errors=True)
        os.makedirs(self.rundir, exist_ok=True)
        atexit.register(lambda: shutil.rmtree(self.rundir, ignore_errors=True))
        self.findings = Findings()
        self.violations = {}   # key -> (what, replay_path)
        self.known_hit = {}    # key -> what
        self.cov = {"samples": []}
        self.assumptions = []
        self.notes = []

    # ---- reporting -------------------------------------------------------
    def report(self, key, what, replay):
        """A failing case.  key = the specific failing thing; replay = JSON-able object."""
        e = self.findings.lookup(self.prop, key)
        if e is not None:
            if key not in self.known_hit:
                self.known_hit[key] = e.get("what", what)
            return False
        if key in self.violations:
            self.violations[key][2] += 1
            return True
        os.makedirs(os.path.join(EVID, "replays"), exist_ok=True)
        h = hashlib.sha1(key.encode()).hexdigest()[:10]
        path = os.path.join(EVID, "replays", "%s-%s.json" % (self.prop, h))
        with open(path, "w") as f:
            json.dump({"property": self.prop, "key": key, "what": what, "replay": replay}, f, indent=1)
        self.violations[key] = [what, path, 1]
        return True

    def sample(self, s, cap=12):
        if len(self.cov["samples"]) < cap:
            self.cov["samples"].append(s)

    def add(self, k, n):
        self.cov[k] = self.cov.get(k, 0) + n

    # ---- finishing -------------------------------------------------------
    def write_evidence(self):
        os.makedirs(EVID, exist_ok=True)
        cov = dict(self.cov)
        if not cov.get("samples"):
            cov["samples"] = ["(none recorded)"]
        ev = {
            "property_id": self.prop, "tier": self.tier, "seed": self.seed, "level": self.level,
            "coverage": cov, "assumptions": self.assumptions,
            "wall_s": round(time.time() - self.t0, 2),
            "violations": len(self.violations),
            "known_findings_hit": sorted(self.known_hit),
            "violation_keys": sorted(self.violations),
            "notes": self.notes,
        }
        tmp = os.path.join(EVID, "%s.json.tmp%d" % (self.prop, os.getpid()))
        with open(tmp, "w") as f:
            json.dump(ev, f, indent=1, sort_keys=True)
        os.replace(tmp, os.path.join(EVID, "%s.json" % self.prop))

    def finish(self):
        self.write_evidence()
        for k in sorted(self.known_hit):
            print("KNOWN-FINDING: property=%s %s :: %s" % (self.prop, k, self.known_hit[k]))
        for k in sorted(self.violations):
            what, path, n = self.violations[k]
            print("VIOLATION property=%s replay=%s key=%r n=%d :: %s" % (self.prop, path, k, n, what))
        sys.stdout.flush()
        return 1 if self.violations else 0


def untok(t):
    """Inverse of tok() for tokens produced by the harness (strings that look like ints come back as ints)."""
    pos = [0]

    def val():
        c = t[pos[0]]
        if c == "[":
            pos[0] += 1
            out = []
            while t[pos[0]] != "]":
                out.append(val())
                if t[pos[0]] == ",":
                    pos[0] += 1
            pos[0] += 1
            return out
        if c == "{":
            pos[0] += 1
            out = {}
            while t[pos[0]] != "}":
                j = t.index("=", pos[0])
                k = t[pos[0]:j]
                pos[0] = j + 1
                out[k] = val()
                if t[pos[0]] == ",":
                    pos[0] += 1
            pos[0] += 1
            return out
        j = pos[0]
        while j < len(t) and t[j] not in ",]}":
            j += 1
        w = t[pos[0]:j]
        pos[0] = j
        if w == "T":
            return True
        if w == "F":
            return False
        if w == "-":
            return None
        if w == '""':
            return ""
        try:
            return int(w)
        except ValueError:
            return w
    return val()
