"""X04 (extension beyond the 20 listed properties, DESIGN.md section 10): diagnostic output and small utilities -
src/msgs.c, the globals of src/debug.c + the statement macros of include/libast.h that C20 leaves out, src/file.c.
Not registered in MANIFEST.json (the property list is fixed); run with ./vcheck X04 quick|thorough.

spec/MsgFmt.tla   the program name / version lifecycle with an ownership ledger, the silent flag, the runtime debug level and
                  every printer / statement macro as an action that computes the exact bytes written, the value returned and
                  how control leaves the statement; a printf subset (Expand / FmtOf) with its own laws.
spec/TempFile.tla spiftool_temp_file as a state machine over the environment (TMPDIR, TMP, umask, the files that exist).
Both are bound in both directions: (A) every transition TLC generates is executed by harness/msg_replay.c /
harness/tmpfile_replay.c on an ASan build (fd 1 and fd 2 captured in files, per-script heap balance), (B) recorded executions of
long random / size-sweep / all-byte-value / extreme-value call sequences are validated by TLC against the Trace modules."""
import os, re, json, random, subprocess
from vlib import build, objcheck, trace
from vlib.core import tok, untok, Broken, log
from vlib.tlc import run_tlc
from vlib.replay import run_scripts

PROPERTY = "X04"
LEVEL = "model_checking"
LEVEL_TEXT = ("TLC explores MsgFmt.tla (program name / version lifecycle x silent x runtime level 0/1/3/5 x every printer and statement "
              "macro, a printf subset with width / precision / flags / 64-bit values as 16-bit limbs) and TempFile.tla (TMPDIR / TMP / umask "
              "/ live files x templates x buffer lengths x environment faults) exhaustively in a small scope, checks the laws of the "
              "references (output = name ++ marker ++ Expand(message), silent => nothing written, gates, control, format algebra, ledger: "
              "no leak / dangling pointer / NULL dereference / unbounded recursion; mode 0600, umask restored, failure leaves nothing, "
              "buffer = prefix of the path within len) and REFUTES the same ledger laws on the as-built ownership mechanism of msgs.c; "
              "every transition is then executed on the real functions in ASan builds with DEBUG=4 and DEBUG=0 (bytes written to fd 2 and "
              "fd 1, return value, control, projected state incl. the heap bytes the library holds compared after every step; 2-step "
              "cover; random walks; all of it again behind an adversarial prelude: errno preset, same-address-different-content call), "
              "and long recorded executions (sizes around 8..8192 and BUFSIZ, every byte value in names / messages / templates, extreme "
              "64-bit values, levels up to UINT_MAX, len up to SIZE_MAX, 300 temp files in a row) are validated by TLC against the Trace "
              "modules.")
LEVEL_NOTE = ("extension, not one of the 20 properties: genuine defects are recorded in known_findings.d/X04.json, not repaired. Bounded "
              "scope for the exhaustive part, sampled beyond it. The printf semantics is a subset (no floating point, no positional "
              "arguments, no %n); variadic arguments are passed as 64-bit words (LP64 calling convention trusted). Compile-time DEBUG 5 "
              "(tracked allocator) and the gating matrix itself belong to C15 / C20. Trusted: TLC, the harnesses, ASan, glibc's mkstemp.")
TECHNIQUE = "TLA+ specs + TLC: transition cover replayed on the implementation + TLC trace validation of recorded executions"
DESIGN_REF = "DESIGN.md section 10"

DEF_NAME = [108, 105, 98, 97, 115, 116]
DEF_VER = [48, 46, 56, 46, 49]
MSG_INIT = {"name": DEF_NAME, "nst": "static", "ver": DEF_VER, "vst": "static", "silent": False, "level": 0, "hb": 0}
OUTPUT_OPS = ("dprintf", "print_error", "print_warning", "fatal_error", "macro")


# ---- MsgFmt: script lines ---------------------------------------------------------------------------------------------
def msg_args(items):
    """The variadic arguments of a message: [1, codes...] = char *, [2, l3, l2, l1, l0] = 64-bit value."""
    out = []
    for it in items:
        k = it["k"]
        if k == "lit":
            continue
        if k == "s":
            out.append([1] + list(it["t"]))
        elif k == "c":
            out.append([2, 0, 0, 0, it["t"][0]])
        else:
            out.append([2] + list(it["t"]))
    return out


def text_of(codes):
    return bytes(codes).decode("latin-1")


def msg_line(e):
    """One edge / event of MsgFmt -> the operation part of a harness script line."""
    op, a = e["op"], e["args"]
    if op in ("set_name", "set_ver"):
        return "%s %s" % (op, tok(a[0]))
    if op in ("set_name_alias", "set_ver_alias", "set_level"):
        return "%s %d" % (op, a[0])
    if op == "set_silent":
        return "%s %s" % (op, tok(bool(a[0])))
    if op in ("dprintf", "print_error", "print_warning", "fatal_error"):
        return "%s %s %s" % (op, tok(a[1]), tok(msg_args(a[0])))
    if op == "macro":
        return "macro %s %s %s %s %s" % (a[0], text_of(a[1]["tag"]), tok(a[2]), tok(a[4]), tok(msg_args(a[3])))
    return op


def msg_step_line(e):
    return "%s = %s %s" % (msg_line(e), tok(e["ret"]), tok(e["post"]))


# ---- MsgFmt: finding keys ----------------------------------------------------------------------------------------------
def _slot_class(st, txt, default):
    if st != "heap":
        return st
    return "heap:default-text" if txt == default else "heap"


def _diff_fields(exp, got):
    try:
        a, b = untok(exp), untok(got)
    except Exception:
        return "?"
    if isinstance(a, dict) and isinstance(b, dict):
        return "+".join(sorted(k for k in set(a) | set(b) if a.get(k) != b.get(k))) or "?"
    return "value"


def msg_argclass(e):
    op, a, p = e["op"], e["args"], e["pre"]
    if op.startswith("set_name") or op == "unset_name":
        pre = "pre=" + _slot_class(p["nst"], p["name"], DEF_NAME)
        if op == "set_name":
            return pre + ",arg=" + ("same-text" if a[0] == p["name"] and p["nst"] != "unset" else ("default-text" if a[0] == DEF_NAME else "other-text"))
        if op == "set_name_alias":
            return pre + ",arg=" + ("stored-pointer" if a[0] == 0 else "pointer-into-stored-text")
        return pre
    if op.startswith("set_ver") or op == "unset_ver":
        pre = "pre=" + _slot_class(p["vst"], p["ver"], DEF_VER)
        if op == "set_ver":
            return pre + ",arg=" + ("same-text" if a[0] == p["ver"] and p["vst"] != "unset" else ("default-text" if a[0] == DEF_VER else "other-text"))
        if op == "set_ver_alias":
            return pre + ",arg=" + ("stored-pointer" if a[0] == 0 else "pointer-into-stored-text")
        return pre
    if op in OUTPUT_OPS:
        lv = p["level"]
        return "name=%s,%s,level%s" % ("unset" if p["nst"] == "unset" else "set", "silent" if p["silent"] else "loud", "=0" if lv == 0 else ">=1")
    return "-"


def msg_keyfn(variant, e, f):
    op = e["op"] if e else f.op
    if e and op == "macro":
        op = "macro:" + e["args"][0]
    d = ""
    if f.kind == "inv":
        d = re.sub(r"\d+", "N", f.got)
    elif f.kind in ("crash", "hang", "exit"):
        d = f.sig
    elif f.kind in ("ret", "state"):
        d = _diff_fields(f.exp, f.got)
    return "%s %s [%s] %s%s" % (variant.split("+")[0], op, msg_argclass(e) if e else "-", f.kind, ("/" + d) if d else "")


# ---- builds -----------------------------------------------------------------------------------------------------------
_EXE = {}


def msg_harness(ctx, d):
    if d not in _EXE:
        libdir, cflags = build.build_lib(ctx.repo, debug_level=(None if d == 4 else d))
        exe = build.build_harness("msg_replay-d%d" % d, ["msg_replay.c"], libdir, cflags)
        out = subprocess.run([exe, "--sites"], capture_output=True, text=True, timeout=60).stdout.split("\n")
        if out[0] != "DEBUG %d" % d:
            raise Broken("msg_replay built with %r, wanted DEBUG %d" % (out[0], d))
        _EXE[d] = (exe, {w[1]: (w[2], int(w[3])) for w in (x.split() for x in out[1:]) if len(w) == 4 and w[0] == "SITE"})
    return _EXE[d]


def check_repo_defaults(ctx):
    cfg = open(os.path.join(ctx.repo, "config.h")).read()
    pk = re.search(r'^#define PACKAGE "([^"]*)"', cfg, re.M)
    vr = re.search(r'^#define VERSION "([^"]*)"', cfg, re.M)
    if not pk or not vr or list(pk.group(1).encode()) != DEF_NAME or list(vr.group(1).encode()) != DEF_VER:
        raise Broken("config.h PACKAGE/VERSION differ from DefName/DefVer of spec/MsgFmt.tla")


# ---- TLC graphs: all bounded models are explored up front, three at a time, while nothing else runs -------------------------
_GRAPHS = {}


def graph_plan(ctx):
    t = ctx.tier
    return [("MC_MsgFmt.tla", "MsgFmt_life_%s.cfg" % t), ("MC_MsgFmt.tla", "MsgFmt_unset_%s.cfg" % t), ("MC_MsgFmt.tla", "MsgFmt_out_%s.cfg" % t),
            ("MC_MsgFmt.tla", "MsgFmt_out0_%s.cfg" % t), ("MC_TempFile.tla", "TempFile_%s.cfg" % t), ("MC_TempFile.tla", "TempFile_d0_%s.cfg" % t)]


def prefetch_graphs(ctx):
    from concurrent.futures import ThreadPoolExecutor
    from vlib.graph import Graph

    def one(mc):
        g = Graph()
        res = run_tlc(mc[0], mc[1], ctx.rundir, on_edge=g.add, timeout=3000, workers=2 if ctx.tier == "quick" else 4, heap="4g")
        return g, res
    plan = graph_plan(ctx)
    with ThreadPoolExecutor(3 if ctx.tier == "quick" else 1) as ex:
        for mc, (g, res) in zip(plan, ex.map(one, plan)):
            _GRAPHS[mc[1]] = (g, res)


def tlc_graph(ctx, module, cfg):
    """objcheck.tlc_graph's bookkeeping for a graph explored by prefetch_graphs (operations that emitted nothing are checked by
    the callers per operation NAME: TLC lists some actions of these modules as anonymous disjuncts of Next)."""
    if cfg not in _GRAPHS:
        prefetch_graphs(ctx)
    g, res = _GRAPHS[cfg]
    ctx.add("states", res.distinct)
    ctx.add("transitions", res.generated)
    ctx.add("edges_emitted", res.edges)
    ctx.cov.setdefault("tlc_runs", []).append({
        "module": module, "cfg": cfg, "distinct_states": res.distinct, "states_generated": res.generated, "depth": res.depth,
        "edges_emitted": res.edges, "distinct_edges": g.n_edges(), "wall_s": round(res.wall, 1),
        "actions": {a: list(v) for a, v in sorted(res.coverage.items()) if a[:2] == "Op"}})
    if not res.ok:
        ctx.report("spec:%s" % cfg, "TLC reports a violated property of the specification itself: %s" % (res.violation or "")[:600],
                   {"tlc": res.violation, "cfg": cfg})
    if res.edges == 0:
        raise Broken("no edges emitted by %s/%s" % (module, cfg))
    return g, res


# ---- MsgFmt: direction A ---------------------------------------------------------------------------------------------
def msg_graph(ctx, cfg, d, need_ops):
    g, res = tlc_graph(ctx, "MC_MsgFmt.tla", cfg)
    ops = {}
    sites = {}
    for i in range(g.n_edges()):
        h = g._head[i]
        w = h.split(" ", 2)
        name = w[0] + (":" + w[1] if w[0] == "macro" else "")
        ops[name] = ops.get(name, 0) + 1
    missing = [o for o in need_ops if o not in ops]
    if missing:
        raise Broken("vacuity: %s emitted no transition for %s" % (cfg, missing))
    ctx.cov.setdefault("edges_per_operation", {})[cfg] = dict(sorted(ops.items()))
    # the probe sites of the specification must be the #line directives of the harness
    exe, hs = msg_harness(ctx, d)
    for i in range(g.n_edges()):
        if g._head[i].startswith("macro "):
            s = g.edict(i)["args"][1]
            sites[text_of(s["tag"])] = (text_of(s["file"]), s["line"])
    for t, v in sites.items():
        if hs.get(t) != v:
            raise Broken("probe site %s: specification %r, harness %r" % (t, v, hs.get(t)))
    return g


LIFE_OPS = ["set_name", "set_name_null", "set_name_alias", "unset_name", "set_ver", "set_ver_null", "set_ver_alias", "unset_ver",
            "set_silent", "set_level", "dprintf", "print_error", "print_warning", "fatal_error"]
MACROS = ["moo", "assert", "require", "nr", "nrv", "abort", "dopt", "dobj", "dconf", "dmem"] + ["dp%d" % k for k in range(1, 10)]
OUT_OPS = ["set_name", "set_silent", "set_level", "dprintf", "print_error", "print_warning", "fatal_error"] + ["macro:" + m for m in MACROS]


def cover(ctx, g, init, exe, variant, hargs, keyfn, line, walks, pairs, env=None):
    """objcheck.replay_cover + walks + 2-step cover.  Local work-around for a slip in the shared planner (vlib/graph.py,
    LevelPlanner.feed): when a chain of self-loops dies inside one target, the targets BEHIND it are marked verified by the first
    script and - re-run as the remainder - marked bad by the second, so an edge that crashes can end up in both sets and be used
    by the random walks.  Here the walks and pairs are planned after `verified -= bad`."""
    from vlib.graph import step_line
    lp = objcheck.replay_cover(ctx, g, [tok(init)], exe, variant, hargs, keyfn, walks=(0, 0), line=line, pairs=0, jobs=4, env=env)
    lp.verified -= lp.bad
    wn, wl = walks
    if wn and not ctx.violations:
        ws = lp.walks(wn, wl, ctx.seed, [tok(init)])
        texts = [s.text(g, line) for s in ws]
        bysid = {s.sid: s for s in ws}
        fails, _, ns, nt = run_scripts(exe, hargs, texts, ctx.rundir, jobs=4, env=env, tag="%s-walk" % variant)
        seen = set()
        for f in fails:
            s = bysid[f.sid]
            ix = s.edge_indexes()
            st = min(f.step, len(ix) - 1)
            e = g.edges[ix[st]][2]
            key = "walk " + keyfn(variant, e, f)
            if key in seen:
                continue
            seen.add(key)
            ctx.report(key, "%s: random walk over verified edges failed: %s at step %d (%s) exp=%s got=%s %s" % (
                variant, f.kind, f.step, line(e), f.exp, f.got, f.sig),
                {"variant": variant, "harness_args": hargs, "script": s.describe(g, st), "failure": repr(f), "detail": f.detail,
                 "script_text": s.text(g, line)})
        rp = ctx.cov["replay"][variant]
        rp.update({"walks": wn, "walk_len": wl, "walk_failures": len(fails), "walk_steps": nt})
        ctx.add("traces_validated_against_impl", ns)
        ctx.add("evaluations", nt)
        if ws:
            ctx.sample({"variant": variant, "walk": [line(g.edict(i))[:200] for i in ws[0].edge_indexes()[:6]]})
    if pairs and not ctx.violations:
        objcheck.pair_cover(ctx, g, lp, exe, variant, hargs, keyfn, pairs, line=line, env=env, jobs=4)
    return lp


def msg_direction_a(ctx):
    q = ctx.tier == "quick"
    plan = [("life", "MsgFmt_life_%s.cfg" % ctx.tier, 4, LIFE_OPS, (150, 25) if q else (500, 40), 1500 if q else 8000),
            ("unset", "MsgFmt_unset_%s.cfg" % ctx.tier, 4, ["unset_name", "set_level", "macro:moo", "macro:dp1", "macro:require", "macro:assert"],
             (40, 20) if q else (200, 40), 500 if q else 3000),
            ("out", "MsgFmt_out_%s.cfg" % ctx.tier, 4, OUT_OPS, (100, 25) if q else (400, 40), 1000 if q else 3000),
            ("out0", "MsgFmt_out0_%s.cfg" % ctx.tier, 0, OUT_OPS + ["unset_name", "set_name_null", "set_name_alias"], (60, 20) if q else (300, 40), 800 if q else 3000)]
    for tag, cfg, d, need, walks, pairs in plan:
        g = msg_graph(ctx, cfg, d, need)
        exe, _ = msg_harness(ctx, d)
        for prelude in ((0,) if (q and tag in ("life", "unset")) else (0, 1)):
            variant = "msg-D%d+%s%s" % (d, tag, "+prelude" if prelude else "")
            cover(ctx, g, MSG_INIT, exe, variant, [str(prelude)], msg_keyfn, msg_step_line,
                  walks if not prelude else (walks[0] // 3, walks[1]), pairs if not prelude else 0, env={"VH_WATCHDOG": "60"})


# ---- MsgFmt: direction B (recorded executions validated by TLC) ---------------------------------------------------------
SIZES = sorted({t + d for t in (8, 16, 32, 64, 128, 256, 512, 1024, 2048, 4096, 8192) for d in (-1, 0, 1)})
EXTREME = [0, 1, -1, 7, 2**31 - 1, 2**31, -2**31, 2**31 + 1, 2**32 - 1, 2**32, 2**32 + 5, 3 * 2**32 + 1, 2**40, 2**62, 2**63 - 1,
           2**63 - 9, -2**63, -2**63 + 1, 2**64 - 1]
BIG_LEVELS = [2**31 - 1, 2**31, 2**32 - 1]
SITE_DEFS = [("s0", "a.c", 7), ("s1", "abcdefgh.ijk", 1000), ("s2", "dir/long_file_name.c", 12345), ("s3", "p%d.c", 99)]
TLC_BIG = 2**30          # any level >= 10 is the same to the specification (it compares with 1..9): huge levels are clamped for TLC


def limbs(v):
    v &= (1 << 64) - 1
    return [(v >> 48) & 0xffff, (v >> 32) & 0xffff, (v >> 16) & 0xffff, v & 0xffff]


def item(k, t, w=0, fl="n", prec=-1, lng=False):
    return {"k": k, "t": list(t), "w": w, "fl": fl, "prec": prec, "lng": lng}


def fmt_of(items):
    """Mirror of FmtOf (MsgFmt.tla); the Trace module re-derives the format from the items and rejects a disagreement."""
    out = []
    for it in items:
        if it["k"] == "lit":
            for c in it["t"]:
                out += [37, 37] if c == 37 else [c]
            continue
        out.append(37)
        if it["fl"] == "l":
            out.append(45)
        elif it["fl"] == "z":
            out.append(48)
        if it["w"] > 0:
            out += list(str(it["w"]).encode())
        if it["prec"] >= 0:
            out += [46] + list(str(it["prec"]).encode())
        if it["lng"]:
            out.append(108)
        out.append({"s": 115, "c": 99, "d": 100, "u": 117, "x": 120}[it["k"]])
    return out


def rand_text(rnd, n, lo=1):
    return [rnd.randint(lo, 255) for _ in range(n)]


class MsgGen:
    """Builds one execution: a list of events (op, args) with a rough mirror of the name state, used ONLY to stay away from the
    four known-defect triggers (NULL argument, pointer into a heap copy, a private copy with the default text, output without
    a name at level >= 1) - those are covered in direction A.  TLC evaluating MsgFmtTrace is the oracle."""

    def __init__(self, rnd):
        self.rnd, self.ev = rnd, []
        self.name, self.nstatic = list(DEF_NAME), True
        self.ver, self.vstatic = list(DEF_VER), True

    def add(self, op, *args):
        self.ev.append({"op": op, "args": list(args)})

    def set_name(self, t):
        t = list(t)
        if t == DEF_NAME and not (self.nstatic or self.name == t):
            t = t + [33]
        if t != self.name:
            self.nstatic = False
        self.name = t
        self.add("set_name", t)

    def set_ver(self, t):
        t = list(t)
        if t == DEF_VER and not (self.vstatic or self.ver == t):
            t = t + [33]
        if t != self.ver:
            self.vstatic = False
        self.ver = t
        self.add("set_ver", t)

    def alias(self):
        if self.rnd.random() < 0.5:
            self.add("set_name_alias", 0)
        else:
            self.add("set_ver_alias", 0)

    def printer(self, op, items):
        if len([i for i in items if i["k"] != "lit"]) > 6:
            raise Broken("generator: more than six arguments")
        self.add(op, items, fmt_of(items))

    def macro(self, mac, site, clk, items):
        tag, f, ln = site
        self.add("macro", mac, {"tag": list(tag.encode()), "file": list(f.encode()), "line": ln}, limbs(clk),
                 items if mac in MSG_MACROS else [], fmt_of(items if mac in MSG_MACROS else []))

    def rand_items(self, maxarg=6, big=False):
        rnd = self.rnd
        items, nargs = [], 0
        for _ in range(rnd.randint(0, 7)):
            r = rnd.random()
            if r < 0.35 or nargs >= maxarg:
                items.append(item("lit", rand_text(rnd, rnd.choice([0, 1, 2, 5, 17, 64]))))
                continue
            nargs += 1
            w = rnd.choice([0, 0, 0, 1, 4, 12, 13, 40]) if not big else rnd.choice([0, 255, 256, 1000, 4095, 4097, 5000])
            if r < 0.6:
                n = rnd.choice([0, 1, 3, 12, 13, 30]) if not big else rnd.choice(SIZES + [20000])
                prec = rnd.choice([-1, -1, 0, 2, n, n + 3])
                items.append(item("s", rand_text(rnd, n), w, rnd.choice(["n", "l"]), prec))
            elif r < 0.68:
                items.append(item("c", [rnd.randint(1, 255)], w, rnd.choice(["n", "l"])))
            else:
                items.append(item(rnd.choice("dux"), limbs(rnd.choice(EXTREME + [rnd.getrandbits(64), rnd.getrandbits(31)])), w,
                                  rnd.choice(["n", "l", "z"]), -1, rnd.random() < 0.5))
        return items


MSG_MACROS = {"dopt", "dobj", "dconf", "dmem"} | {"dp%d" % k for k in range(1, 10)}
PRINTERS = ["dprintf", "print_error", "print_warning", "fatal_error"]


def msg_histories(ctx):
    rnd = random.Random(ctx.seed + 4)
    q = ctx.tier == "quick"
    hs = []
    # 1. random call sequences
    for k in range(8 if q else 60):
        g = MsgGen(rnd)
        for _ in range(50 if q else 120):
            r = rnd.random()
            if r < 0.12:
                n = rnd.choice([0, 1, 2, 6, 7, 40])
                g.set_name(rnd.choice([rand_text(rnd, n), DEF_NAME, g.name, DEF_NAME[:3], DEF_NAME + [88], [112, 37, 115]]))
            elif r < 0.18:
                g.set_ver(rnd.choice([rand_text(rnd, rnd.choice([0, 1, 5])), DEF_VER, g.ver]))
            elif r < 0.21:
                g.alias()
            elif r < 0.27:
                g.add("set_silent", rnd.random() < 0.4)
            elif r < 0.37:
                g.add("set_level", rnd.choice([0, 0, 1, 2, 3, 5, 9] + BIG_LEVELS))
            elif r < 0.70:
                g.printer(rnd.choice(PRINTERS), g.rand_items())
            else:
                mac = rnd.choice(MACROS)
                g.macro(mac, rnd.choice(SITE_DEFS), rnd.choice(EXTREME[3:] + [1045855757]) & (2**64 - 1), g.rand_items(maxarg=6))
        hs.append(("random", g.ev))
    # 2. size sweep of the program name: every threshold crossed, every printer and the name-bearing macros behind it
    g = MsgGen(rnd)
    for n in (SIZES if not q else [s for s in SIZES if s in (7, 8, 9, 255, 256, 257, 1023, 1024, 1025, 4095, 4096, 4097, 8191, 8192, 8193)]):
        g.set_name([65 + (i * 7 + i // 26) % 26 for i in range(n)])
        g.printer("print_error", [item("lit", [120, 10])])
        g.printer("print_warning", [item("s", [121]), item("lit", [10])])
        g.printer("fatal_error", [item("d", limbs(n)), item("lit", [10])])
        g.macro("assert", SITE_DEFS[n % 4], 1045855757, [])
        g.macro("abort", SITE_DEFS[(n + 1) % 4], 1045855757, [])
    hs.append(("name-sizes", g.ev))
    # 3. size sweep of the expansion: long arguments, wide fields, the number libast_dprintf returns
    g = MsgGen(rnd)
    g.add("set_level", 9)
    for n in (SIZES + [20000] if not q else [7, 8, 9, 255, 256, 257, 4095, 4096, 4097, 8191, 8192, 8193, 20000]):
        body = [97 + (i * 5 + i // 26) % 26 for i in range(n)]
        g.printer("dprintf", [item("s", body), item("lit", [124])])
        g.printer("print_error", [item("lit", body[:2000]), item("s", body, 0, "n", n // 2)])
        g.printer("dprintf", [item("d", limbs(-n), n, "z"), item("s", [120], n + 1, "l"), item("x", limbs(n), n - 1 if n > 1 else 0, "n", -1, True)])
        g.macro("dp%d" % (1 + n % 9), SITE_DEFS[n % 4], 2**32 + n, [item("s", body), item("lit", [10])])
        g.macro("dopt", SITE_DEFS[(n + 2) % 4], n, [item("s", body, n + 5), item("lit", [10])])
    hs.append(("expansion-sizes", g.ev))
    # 4. every byte value in every position class of names, literal text and arguments
    g = MsgGen(rnd)
    g.add("set_level", 3)
    for c in range(1, 256):
        g.set_name({0: [c, 110, 109], 1: [110, c, 109], 2: [110, 109, c]}[c % 3])
        g.printer(PRINTERS[c % 3], [item("lit", [c, 58, c]), item("s", [c, 37, c]), item("c", [c]), item("lit", [37, c, 10])])
        if c % 8 == 0:
            g.set_ver([c] * (c % 5))
            g.macro("dp3", SITE_DEFS[c % 4], c, [item("s", [c] * 3, 5, "l"), item("lit", [c])])
    hs.append(("all-bytes", g.ev))
    # 5. extreme values through every numeric conversion, as level, as clock
    g = MsgGen(rnd)
    for v in EXTREME:
        for conv in "dux":
            g.printer("dprintf", [item(conv, limbs(v)), item("lit", [32]), item(conv, limbs(v), 0, "n", -1, True), item("lit", [32]),
                                  item(conv, limbs(v), 22, "z", -1, True), item(conv, limbs(v), 21, "l"), item("lit", [124])])
        g.macro("moo", SITE_DEFS[v % 4], v & (2**64 - 1), [])
    for lv in [0, 1, 2, 3, 4, 5, 6, 7, 8, 9, 10] + BIG_LEVELS:
        g.add("set_level", lv)
        for mac in MACROS:
            g.macro(mac, SITE_DEFS[lv % 4], 2**31 + lv, [item("lit", [76]), item("u", limbs(lv)), item("lit", [10])])
        g.printer("dprintf", [item("lit", [10])])
    hs.append(("extremes", g.ev))
    # 6. repetition: the same calls over and over - the bytes held must not grow, the pointer is kept for equal texts
    g = MsgGen(rnd)
    for i in range(120 if q else 600):
        g.set_name([[97], [98, 98], [98, 98], DEF_NAME[:5], [97]][i % 5])
        if i % 3 == 0:
            g.set_ver([[49], [49], [50, 46, 48]][(i // 3) % 3])
        if i % 7 == 0:
            g.alias()
        if i % 10 == 0:
            g.printer("print_warning", [item("d", limbs(i)), item("lit", [10])])
    hs.append(("repetition", g.ev))
    return hs


def clamp_level(v):
    return v if v < TLC_BIG else TLC_BIG


def msg_direction_b(ctx, d=4):
    exe, _ = msg_harness(ctx, d)
    hs = msg_histories(ctx)
    texts = ["S %d\n%s\nE\n" % (k + 1, "\n".join("%s = ? ?" % msg_line(e) for e in ev)) for k, (fam, ev) in enumerate(hs)]
    nev = 0
    for prelude in (0, 1):
        fails, recs, ns, nt = run_scripts(exe, [str(prelude)], texts, ctx.rundir, jobs=4, tag="msg-rec%d" % prelude,
                                          env={"VH_TOKEN_MAX": str(1 << 20), "VH_WATCHDOG": "120"})
        bad = set()
        for f in fails:
            bad.add(f.sid)
            fam, ev = hs[f.sid - 1]
            e = ev[min(f.step, len(ev) - 1)]
            ctx.report("trace-run msg-D%d %s %s%s" % (d, e["op"] + (":" + e["args"][0] if e["op"] == "macro" else ""), f.kind,
                                                     ("/" + (f.sig or re.sub(r"\d+", "N", f.got))) if (f.sig or f.kind == "inv") else ""),
                       "recorded run (%s, prelude %d) failed before validation at step %d: %r" % (fam, prelude, f.step, f),
                       {"variant": "msg-D%d" % d, "harness_args": [str(prelude)], "script_text": texts[f.sid - 1], "failure": repr(f), "detail": f.detail})
        by = {}
        for sid, step, ret, state in recs:
            by.setdefault(sid, []).append((step, ret, state))
        events, index = [], []
        for sid in sorted(by):
            if sid in bad:
                continue
            fam, ev = hs[sid - 1]
            events.append({"op": "reset", "args": [], "ret": True, "post": MSG_INIT})
            index.append((sid, -1))
            for step, ret, state in sorted(by[sid]):
                e = ev[step]
                post = untok(state)
                if isinstance(post.get("level"), int):
                    post["level"] = clamp_level(post["level"])
                args = [clamp_level(a) for a in e["args"]] if e["op"] == "set_level" else e["args"]
                events.append({"op": e["op"], "args": args, "ret": untok(ret), "post": post})
                index.append((sid, step))
        if not events:
            continue
        ok, pos, path = trace.validate(ctx, "MsgFmtTrace.tla", "MsgFmtTrace_d%d.cfg" % d, events, tag="msg%d" % prelude, timeout=1500)
        if ok:
            nev += len(events)
            if prelude == 0:
                for k, (fam, ev) in enumerate(hs[-6:]):
                    ctx.sample({"trace_family": fam, "events": len(ev), "first": [msg_line(x)[:100] for x in ev[:3]]})
        else:
            sid, step = index[pos] if pos < len(index) else (None, None)
            evb = events[pos] if pos < len(events) else None
            fam = hs[sid - 1][0] if sid else "?"
            nev += pos
            ctx.report("trace-rejected msg-D%d %s [%s]" % (d, (evb["op"] + (":" + evb["args"][0] if evb["op"] == "macro" else "")) if evb else "?", fam),
                       "TLC rejects the recorded execution (%s, prelude %d) at event %d: %s; state before: %s" % (
                           fam, prelude, pos, json.dumps(evb)[:600], json.dumps(events[pos - 1]["post"])[:300] if pos else "init"),
                       {"variant": "msg-D%d" % d, "harness_args": [str(prelude)], "script_text": texts[sid - 1] if sid else "", "event": evb and json.dumps(evb)[:4000],
                        "event_index": pos, "step": step})
        ctx.add("traces_validated_against_impl", len(by) - len(bad))
    ctx.add("trace_events_validated", nev)
    ctx.cov.setdefault("trace_families", {})["msg"] = {fam: len(ev) for fam, ev in hs[-5:]}
    ctx.cov["trace_families"]["msg"]["random_executions"] = len(hs) - 5


# ---- TempFile ------------------------------------------------------------------------------------------------------------
TMP_INIT = {"tmpdir": "unset", "tmp": "unset", "umask": 18, "level": 0, "live": []}
HUGE = 1073741824
HUGE_REAL = [2**30, 2**31 - 1, 2**31, 2**32 - 1, 2**32, 2**32 + 3, 2**32 + 300, 2**40 + 1, 2**63, 2**64 - 1]
DIR_KIND = {"ta": "ok", "tb": "ok", "tl": "ok", "dflt": "ok", "no": "missing", "ro": "readonly", "nd": "notdir"}
DIR_TEXT = {"ta": "ta", "tb": "tb", "tl": "l" * 200, "no": "no", "ro": "ro", "nd": "nd", "dflt": "/tmp"}


def real_len(e):
    """The len argument really passed for an edge: the specification's Huge stands for every value >= 2^30; which one is
    used is a deterministic function of the edge."""
    import zlib
    ln = e["args"][2]
    if ln < HUGE:
        return ln
    return HUGE_REAL[zlib.crc32(("%s|%s" % (tok(e["args"][0]), tok(e["pre"]))).encode()) % len(HUGE_REAL)]


def len_class(v):
    if v < 2**31:
        return "fits-int32"
    s32 = v & 0xffffffff
    if s32 >= 2**31:
        s32 -= 2**32
    return "over-int32:low-word<=0" if s32 <= 0 else ("over-int32:low-word<256" if s32 < 256 else "over-int32:low-word>=256")


def tmp_line(e):
    op, a = e["op"], e["args"]
    if op == "temp_file":
        return "temp_file %s %d %d %s" % (tok(a[0]), a[1], real_len(e), a[3])
    if op == "temp_file_zero":
        return "temp_file_zero %s" % tok(a[0])
    if op == "set_env":
        return "set_env %s %s" % (a[0], a[1])
    return "%s %s" % (op, " ".join(tok(x) for x in a))


def tmp_step_line(e):
    return "%s = %s %s" % (tmp_line(e), tok(e["ret"]), tok(e["post"]))


def tmp_argclass(e):
    if e["op"] not in ("temp_file", "temp_file_zero"):
        return "-"
    p = e["pre"]
    d = p["tmpdir"] if p["tmpdir"] != "unset" else (p["tmp"] if p["tmp"] != "unset" else "dflt")
    path = DIR_TEXT[d] + "/" + bytes(e["args"][0]).decode("latin-1") + "XXXXXX"
    cut = "fits" if len(path) <= 255 else ("cut-usable" if path[:255].endswith("XXXXXX") else "cut-unusable")
    if e["op"] == "temp_file_zero":
        return "dir=%s,path=%s,level%s" % (DIR_KIND[d], cut, "=0" if p["level"] == 0 else ">=1")
    v = real_len(e)
    return "dir=%s,path=%s,fault=%s,len=%s" % (DIR_KIND[d], cut, e["args"][3], len_class(v) if v >= 2**30 else ("short" if v <= len(path) else "enough"))


def tmp_keyfn(variant, e, f):
    op = e["op"] if e else f.op
    d = ""
    if f.kind == "inv":
        d = re.sub(r"\d+", "N", f.got)
    elif f.kind in ("crash", "hang", "exit"):
        d = f.sig
    elif f.kind in ("ret", "state"):
        d = _diff_fields(f.exp, f.got)
    return "%s %s [%s] %s%s" % (variant.split("+")[0], op, tmp_argclass(e) if e else "-", f.kind, ("/" + d) if d else "")


def tmp_harness(ctx, d):
    k = ("tmp", d)
    if k not in _EXE:
        libdir, cflags = build.build_lib(ctx.repo, debug_level=(None if d == 4 else d))
        _EXE[k] = build.build_harness("tmpfile_replay-d%d" % d, ["tmpfile_replay.c"], libdir, cflags, ldflags=["-Wl,--wrap=fchmod"])
    return _EXE[k]


TMP_OPS = ["temp_file", "temp_file_zero", "remove", "set_env", "set_umask", "set_level"]


def tmp_direction_a(ctx):
    q = ctx.tier == "quick"
    for tag, cfg, d, walks, pairs in (("tmp", "TempFile_%s.cfg" % ctx.tier, 4, (80, 25) if q else (500, 40), 1500 if q else 8000),
                                      ("tmp0", "TempFile_d0_%s.cfg" % ctx.tier, 0, (30, 20) if q else (300, 40), 800 if q else 3000)):
        g, res = tlc_graph(ctx, "MC_TempFile.tla", cfg)
        ops = {}
        for i in range(g.n_edges()):
            w = g._head[i].split(" ", 1)[0]
            ops[w] = ops.get(w, 0) + 1
        if [o for o in TMP_OPS if o not in ops]:
            raise Broken("vacuity: %s emitted no transition for %s" % (cfg, [o for o in TMP_OPS if o not in ops]))
        ctx.cov.setdefault("edges_per_operation", {})[cfg] = dict(sorted(ops.items()))
        exe = tmp_harness(ctx, d)
        for prelude in ((0,) if q else (0, 1)):         # (quick: the prelude runs in direction B)
            variant = "tmp-D%d+%s%s" % (d, tag, "+prelude" if prelude else "")
            cover(ctx, g, TMP_INIT, exe, variant, [str(prelude)], tmp_keyfn, tmp_step_line,
                  walks if not prelude else (walks[0] // 3, walks[1]), pairs if not prelude else 0, env={"VH_WATCHDOG": "120"})


def tmp_cap(tmpl, ln):
    return max(len(tmpl) + 1, 300 if ln >= HUGE else ln)


def tmp_histories(ctx):
    """Direction B.  Stays away from the two known-defect triggers (len >= 2^31, a failing fchmod): direction A covers them."""
    rnd = random.Random(ctx.seed + 9)
    q = ctx.tier == "quick"
    hs = []
    okdirs = ["ta", "tb", "tl"]
    alldirs = ["ta", "tb", "tl", "no", "ro", "nd", "unset", "unset"]
    legal = [c for c in range(1, 256) if c != 47]

    def tf(ev, tmpl, ln, fault="none"):
        ev.append({"op": "temp_file", "args": [list(tmpl), tmp_cap(tmpl, min(ln, HUGE)), ln, fault]})
    # 1. random sequences
    for k in range(6 if q else 50):
        ev, nl = [], 0
        for _ in range(60 if q else 150):
            r = rnd.random()
            if r < 0.15:
                ev.append({"op": "set_env", "args": [rnd.choice(["TMPDIR", "TMP"]), rnd.choice(alldirs)]})
            elif r < 0.20:
                ev.append({"op": "set_umask", "args": [rnd.choice([0, 18, 63, 7, 511, 219])]})
            elif r < 0.25:
                ev.append({"op": "set_level", "args": [rnd.choice([0, 0, 1, 3, 5])]})
            elif r < 0.32 and nl:
                ev.append({"op": "remove", "args": [rnd.randint(1, nl)]})   # (nl is only a rough mirror; TLC decides)
                nl -= 1
            elif r < 0.36:
                ev.append({"op": "temp_file_zero", "args": [rand_text_from(rnd, legal, rnd.choice([0, 1, 5]))]})
            else:
                n = rnd.choice([0, 1, 2, 5, 30, 44, 47, 48, 49, 50, 60, 200, 245, 246, 247, 248, 260, 400])
                t = rand_text_from(rnd, legal, n)
                if rnd.random() < 0.2 and n:
                    t = t[:-min(n, 6)] + [88] * min(n, 6)
                ln = rnd.choice([1, 2, 3, 4, 8, 9, 10, 11, 64, 200, 254, 255, 256, 257, 1000, 2**30, 2**31 - 1, len(t) + 3, len(t) + 9, len(t) + 10])
                tf(ev, t, ln, rnd.choice(["none", "none", "none", "nofd"]))
                nl += 1
        hs.append(("random", ev))
    # 2. every byte value in the template, first / inner / last
    ev = [{"op": "set_env", "args": ["TMPDIR", "ta"]}]
    for c in legal:
        tf(ev, {0: [c, 110, 109], 1: [110, c, 109], 2: [110, 109, c]}[c % 3], 64)
        if c % 16 == 0:
            for _ in range(16):
                ev.append({"op": "remove", "args": [1]})
    hs.append(("all-bytes", ev))
    # 3. path length sweep around the 255-character internal buffer, in the short and in the 200-character directory,
    #    x template ending in X or not, x len around the path length
    ev = []
    for d in ("ta", "tl"):
        ev.append({"op": "set_env", "args": ["TMPDIR", d]})
        base = len(DIR_TEXT[d]) + 1 + 6
        for n in [255 - base + k for k in (-3, -2, -1, 0, 1, 2, 3, 5, 6, 7, 40)]:
            for endx in (False, True):
                t = [97 + (i % 26) for i in range(n)]
                if endx:
                    t[-1] = 88
                for ln in (base + n - 1, base + n, base + n + 1, 255, 256, 257, 2**31 - 1):
                    tf(ev, t, ln)
                ev.append({"op": "remove", "args": [1]})
    hs.append(("path-sizes", ev))
    # 4. many files in a row from one template: all different, all private, then all removed
    ev = [{"op": "set_env", "args": ["TMP", "tb"]}, {"op": "set_umask", "args": [0]}]
    nrow = 120 if q else 1000
    for i in range(nrow):
        tf(ev, [116, 46], 40)
    for i in range(nrow):
        ev.append({"op": "remove", "args": [1 if i % 2 else nrow - i]})
    hs.append(("many-files", ev))
    # 5. len sweep (every value 1..40 and around the powers of two) on one short path
    ev = [{"op": "set_env", "args": ["TMPDIR", "tb"]}]
    for ln in list(range(1, 41)) + [s for s in SIZES if s > 40] + [2**30, 2**31 - 1]:
        tf(ev, [120, 121, 122], ln)
        ev.append({"op": "remove", "args": [1]})
    hs.append(("len-sweep", ev))
    return hs


def rand_text_from(rnd, alphabet, n):
    return [rnd.choice(alphabet) for _ in range(n)]


def tmp_event_line(e):
    a = e["args"]
    if e["op"] == "temp_file":
        return "temp_file %s %d %d %s" % (tok(a[0]), a[1], a[2], a[3])
    return tmp_line(e)


def tmp_direction_b(ctx, d=4):
    exe = tmp_harness(ctx, d)
    hs = tmp_histories(ctx)
    texts = ["S %d\n%s\nE\n" % (k + 1, "\n".join("%s = ? ?" % tmp_event_line(e) for e in ev)) for k, (fam, ev) in enumerate(hs)]
    nev = 0
    for prelude in (0, 1):
        fails, recs, ns, nt = run_scripts(exe, [str(prelude)], texts, ctx.rundir, jobs=4, tag="tmp-rec%d" % prelude,
                                          env={"VH_TOKEN_MAX": str(1 << 18), "VH_WATCHDOG": "300"})
        bad = set()
        for f in fails:
            bad.add(f.sid)
            fam, ev = hs[f.sid - 1]
            e = ev[min(f.step, len(ev) - 1)]
            ctx.report("trace-run tmp-D%d %s %s%s" % (d, e["op"], f.kind, ("/" + (f.sig or re.sub(r"\d+", "N", f.got))) if (f.sig or f.kind == "inv") else ""),
                       "recorded run (%s, prelude %d) failed before validation at step %d: %r" % (fam, prelude, f.step, f),
                       {"variant": "tmp-D%d" % d, "harness_args": [str(prelude)], "script_text": texts[f.sid - 1], "failure": repr(f), "detail": f.detail})
        by = {}
        for sid, step, ret, state in recs:
            by.setdefault(sid, []).append((step, ret, state))
        events, index = [], []
        for sid in sorted(by):
            if sid in bad:
                continue
            fam, ev = hs[sid - 1]
            events.append({"op": "reset", "args": [], "ret": True, "post": TMP_INIT})
            index.append((sid, -1))
            for step, ret, state in sorted(by[sid]):
                e = ev[step]
                args = list(e["args"])
                if e["op"] == "temp_file":
                    args[2] = min(args[2], HUGE)
                events.append({"op": e["op"], "args": args, "ret": untok(ret), "post": untok(state)})
                index.append((sid, step))
        if not events:
            continue
        ok, pos, path = trace.validate(ctx, "TempFileTrace.tla", "TempFileTrace_d%d.cfg" % d, events, tag="tmp%d" % prelude, timeout=1500)
        if ok:
            nev += len(events)
            if prelude == 0:
                for fam, ev in hs[-4:]:
                    ctx.sample({"trace_family": fam, "events": len(ev), "first": [tmp_event_line(x)[:100] for x in ev[:3]]})
        else:
            sid, step = index[pos] if pos < len(index) else (None, None)
            evb = events[pos] if pos < len(events) else None
            fam = hs[sid - 1][0] if sid else "?"
            nev += pos
            ctx.report("trace-rejected tmp-D%d %s [%s]" % (d, evb["op"] if evb else "?", fam),
                       "TLC rejects the recorded execution (%s, prelude %d) at event %d: %s; state before: %s" % (
                           fam, prelude, pos, json.dumps(evb)[:900], json.dumps(events[pos - 1]["post"])[:300] if pos else "init"),
                       {"variant": "tmp-D%d" % d, "harness_args": [str(prelude)], "script_text": texts[sid - 1] if sid else "", "event": evb and json.dumps(evb)[:4000],
                        "event_index": pos, "step": step})
        ctx.add("traces_validated_against_impl", len(by) - len(bad))
    ctx.add("trace_events_validated", nev)
    ctx.cov.setdefault("trace_families", {})["tmp"] = {fam: len(ev) for fam, ev in hs[-4:]}
    ctx.cov["trace_families"]["tmp"]["random_executions"] = len(hs) - 4


def msg_asbuilt(ctx):
    """Design-level verdict on the ownership mechanism exactly as msgs.c has it: TLC must refute each ledger law by itself."""
    from concurrent.futures import ThreadPoolExecutor
    cases = (("leak", "NoLeak"), ("nullderef", "NoNullDeref"), ("uaf", "NoUseAfterFree"), ("recursion", "NoRecursion"))

    def one(c):
        return run_tlc("MC_MsgFmt.tla", "MsgFmt_asbuilt_%s.cfg" % c[0], ctx.rundir, workers=1, coverage=False, timeout=600, heap="1g")
    with ThreadPoolExecutor(4) as ex:
        results = list(ex.map(one, cases))
    out = {}
    for (b, inv), res in zip(cases, results):
        out[inv] = bool(res.violation and ("Invariant %s is violated" % inv) in res.violation)
        if not out[inv]:
            raise Broken("TLC did not refute %s on the as-built mechanism: %s" % (inv, (res.violation or "\n".join(res.tail[-5:]))[:400]))
    ctx.cov["asbuilt_mechanism_refuted_by_tlc"] = out


def run(ctx):
    check_repo_defaults(ctx)
    msg_asbuilt(ctx)
    prefetch_graphs(ctx)
    msg_direction_a(ctx)
    msg_direction_b(ctx)
    tmp_direction_a(ctx)
    tmp_direction_b(ctx)
    if ctx.tier == "thorough":          # the same recorded families on the DEBUG=0 build
        msg_direction_b(ctx, 0)
        tmp_direction_b(ctx, 0)
    ctx.cov["exhaustive"] = True
    ctx.cov["rule"] = ("every transition TLC generates for MsgFmt / TempFile in the bounded scope is executed as the last step of a script "
                       "whose prefix consists of verified transitions (bytes written, return value, control, projected state compared "
                       "after every step), with and without the adversarial prelude, on builds with DEBUG 4 and 0; plus 2-step cover, "
                       "random walks and TLC validation of recorded executions")
    ctx.assumptions += ["ASan build of the current tree (clang -O1)", "C locale", "LP64: variadic arguments travel as 64-bit words"]


def replay(ctx, path):
    d = json.load(open(path))
    rp = d.get("replay") or {}
    variant = rp.get("variant", "msg-D4")
    m = re.match(r"(msg|tmp)-D(\d)", variant)
    dbg = int(m.group(2)) if m else 4
    exe = tmp_harness(ctx, dbg) if (m and m.group(1) == "tmp") else msg_harness(ctx, dbg)[0]
    return objcheck.replay_file(exe, rp.get("harness_args", ["0"]), path, ctx.rundir, env={"VH_TOKEN_MAX": str(1 << 20)})
