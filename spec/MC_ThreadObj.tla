------------------------------ MODULE MC_ThreadObj ------------------------------
EXTENDS ThreadObj
ObsEmit(op, args, ret, post) ==
    PrintT(ToJson([pre |-> Pre, op |-> op, args |-> args, ret |-> ret, post |-> post]))
ObsNone(op, args, ret, post) == TRUE
================================================================================
