/* C16 runtime for the GENERATED case file (checks/c16.py writes one case per row of spec/NullGuardTable.json):
 * per-type factories of valid arguments, value snapshots of the other arguments, classification of the returned
 * value, and the fork-per-case driver.
 *
 * usage: null_guard <listfile>        lines "<row id> <variant letter m|z|n|a|s|p|c|b|e> <runtime level> [<global setting>]"
 *   global setting (the client-controlled globals every guard diagnostic is built from), applied in the child before the call:
 *     default | nameL<n> (program name of n bytes) | nameF<k> (program name containing printf conversions, k-th of NG_FMT_NAMES)
 *             | verL<n> | verF<k> (the same for the program version)
 * One output line per case:
 *   prefix=<ok|bad|na>: a warning / fatal diagnostic carries "<registered program name>:  Warning:  " resp. "FATAL:  " verbatim
 *   E row=<id> variant=<m|z|n|a> level=<n> env=<setting> ended=<returned|exit|crash|signal> rv=<class> changed=<0|1> heapdelta=<n> diag=<none|warning|debug|fatal|asan>
 *     status=<n> info=<first line of the diagnostic, blanks as _>
 */
#ifndef NULL_GUARD_RT_H
#define NULL_GUARD_RT_H
#include <config.h>
#include <libast.h>
#include <stdio.h>
#include <stdlib.h>
#include <string.h>
#include <unistd.h>
#include <fcntl.h>
#include <math.h>
#include <signal.h>
#include <regex.h>
#include <sys/wait.h>
#include <sys/stat.h>
#include <sanitizer/allocator_interface.h>

/* ---- factories: a valid, mid-range value of every parameter type ------------------------------------------ */
static int ng_empties;               /* variant "empties": the valid arguments are in their empty / empty-accepting content class */
static spif_str_t ng_str(void) { return spif_str_new_from_ptr((spif_charptr_t) (ng_empties ? "" : "alpha beta")); }
static spif_ustr_t ng_ustr(void) { return spif_ustr_new_from_ptr((spif_charptr_t) (ng_empties ? "" : "alpha beta")); }
static spif_mbuff_t ng_mbuff(void) { return spif_mbuff_new_from_ptr((spif_byteptr_t) "0123456789", 10); }
static spif_charptr_t ng_chars(void) { return (spif_charptr_t) strdup(ng_empties ? "" : "alpha beta"); }
static spif_byteptr_t ng_bytes(void) { spif_byteptr_t p = (spif_byteptr_t) malloc(16); memcpy(p, "0123456789abcdef", 16); return p; }
static spif_obj_t ng_obj(void) { return SPIF_OBJ(spif_str_new_from_ptr((spif_charptr_t) "beta")); }
static spif_objpair_t ng_pair(void) {
    spif_obj_t k = SPIF_OBJ(spif_str_new_from_ptr((spif_charptr_t) "key")), v = SPIF_OBJ(spif_str_new_from_ptr((spif_charptr_t) "value"));
    spif_objpair_t p = spif_objpair_new_from_both(k, v);
    SPIF_OBJ_DEL(k); SPIF_OBJ_DEL(v);
    return p;
}
static spif_tok_t ng_tok(void) { spif_tok_t t = spif_tok_new_from_ptr((spif_charptr_t) "one two three"); if (t) spif_tok_eval(t); return t; }
static spif_url_t ng_url(void) { return spif_url_new_from_ptr((spif_charptr_t) "http://user:pw@www.example.com:8080/path?query"); }
static spif_regexp_t ng_regexp(void) { return spif_regexp_new_from_ptr((spif_charptr_t) (ng_empties ? "a*" : "al+")); }
static spif_socket_t ng_socket(void) { return spif_socket_new(); }
static spif_obj_t ng_elem(int k) { static const char *w[] = { "alpha", "beta", "gamma" }; return SPIF_OBJ(spif_str_new_from_ptr((spif_charptr_t) w[k % 3])); }
static int ng_nullslots;             /* variant "nullslots": lists carry a NULL element, the way insert_at pads */
static spif_list_t ng_list(int c) {
    spif_list_t l = c == 0 ? SPIF_LIST_NEW(array) : (c == 1 ? SPIF_LIST_NEW(linked_list) : SPIF_LIST_NEW(dlinked_list));
    int k; for (k = 0; k < (ng_empties ? 0 : 3); k++) SPIF_LIST_APPEND(l, ng_elem(k));
    if (ng_nullslots) SPIF_LIST_INSERT_AT(l, ng_elem(3), 4);          /* index 3 becomes a NULL placeholder */
    return l;
}
static spif_vector_t ng_vector(int c) {
    spif_vector_t v = c == 0 ? SPIF_VECTOR_NEW(array) : (c == 1 ? SPIF_VECTOR_NEW(linked_list) : SPIF_VECTOR_NEW(dlinked_list));
    int k; for (k = 0; k < (ng_empties ? 0 : 3); k++) SPIF_VECTOR_INSERT(v, ng_elem(k));
    return v;
}
static spif_map_t ng_map(int c) {
    spif_map_t m = c == 0 ? SPIF_MAP_NEW(array) : (c == 1 ? SPIF_MAP_NEW(linked_list) : SPIF_MAP_NEW(dlinked_list));
    int k;
    for (k = 0; k < (ng_empties ? 0 : 3); k++) { spif_obj_t key = ng_elem(k), val = ng_elem(k + 1); SPIF_MAP_SET(m, key, val); SPIF_OBJ_DEL(key); SPIF_OBJ_DEL(val); }
    return m;
}
static spif_iterator_t ng_iter(int c) { return SPIF_LIST_ITERATOR(ng_list(c)); }
extern spif_class_t SPIF_CLASS_VAR(linked_list_item), SPIF_CLASS_VAR(dlinked_list_item);     /* not declared in the headers */
extern spif_iteratorclass_t SPIF_ITERATORCLASS_VAR(array), SPIF_ITERATORCLASS_VAR(linked_list), SPIF_ITERATORCLASS_VAR(dlinked_list);
static spif_obj_t ng_item(int c) {          /* c: 1 linked_list_item, 2 dlinked_list_item - a real node (with data) of a real list */
    spif_list_t l = ng_list(c);
    return c == 1 ? SPIF_OBJ(SPIF_LINKED_LIST(l)->head) : SPIF_OBJ(SPIF_DLINKED_LIST(l)->head);
}
static FILE *ng_file(void) { FILE *f = tmpfile(); if (f) { fputs("first line\nsecond line\n", f); rewind(f); } return f; }
static int ng_fd(void) { return open("/dev/null", O_RDONLY); }
static regex_t **ng_rexp_slot(void) { static regex_t *slot = NULL; return &slot; }
static spif_charptr_t *ng_strlist(void) {
    spif_charptr_t *l = (spif_charptr_t *) malloc(3 * sizeof(spif_charptr_t));
    l[0] = ng_chars(); l[1] = ng_chars(); l[2] = NULL;
    return l;
}

static spifmem_memrec_t *ng_memrec(void) { static spifmem_memrec_t m; m.cnt = 0; m.ptrs = NULL; return &m; }
static spif_ptr_t ng_ctx_handler(spif_charptr_t line, spif_ptr_t state) { (void) line; return state; }
static spif_charptr_t ng_conf_builtin(spif_charptr_t arg) { return arg; }
static spif_thread_data_t ng_thread_func(spif_thread_data_t d) { return d; }
static char **ng_argv(void) { static char *v[] = { (char *) "prog", (char *) "word", NULL, NULL, NULL, NULL, NULL, NULL, NULL, NULL, NULL }; return v; }

/* ---- snapshots of the arguments that are NOT the NULL one ----------------------------------------------------- */
static char ng_snapbuf[2][1 << 16];
static size_t ng_snaplen[2];
static int ng_phase;
static void ng_snap_add(const char *s, size_t n) {
    size_t room = sizeof(ng_snapbuf[0]) - 1 - ng_snaplen[ng_phase];
    if (n > room) n = room;
    memcpy(ng_snapbuf[ng_phase] + ng_snaplen[ng_phase], s, n);
    ng_snaplen[ng_phase] += n;
    ng_snapbuf[ng_phase][ng_snaplen[ng_phase]] = 0;
}
static void ng_snap_begin(int phase) { ng_phase = phase; ng_snaplen[phase] = 0; ng_snapbuf[phase][0] = 0; }
static void ng_snap_obj(const void *p) {         /* deep textual dump through the object's own show method */
    spif_obj_t o = (spif_obj_t) p; spif_str_t s;
    if (!o) { ng_snap_add("<null>;", 7); return; }
    s = (spif_str_t) (SPIF_OBJ_CALL_METHOD(o, show)(o, "arg", (spif_str_t) NULL, 0));
    if (s && SPIF_STR_STR(s)) ng_snap_add((const char *) SPIF_STR_STR(s), strlen((const char *) SPIF_STR_STR(s)));
    ng_snap_add(";", 1);
    if (s) spif_str_del(s);
}
static void ng_snap_chars(const void *p) { if (p) ng_snap_add((const char *) p, strlen((const char *) p)); ng_snap_add(";", 1); }
static void ng_snap_bytes(const void *p) { if (p) ng_snap_add((const char *) p, 10); ng_snap_add(";", 1); }
static void ng_snap_item(const void *p) {        /* list nodes are not objects (no class pointer): data and link fields, then the datum */
    if (p) { ng_snap_add((const char *) p, 2 * sizeof(void *)); ng_snap_obj(*(void *const *) p); }
    ng_snap_add(";", 1);
}
static void ng_snap_file(FILE *f) { char b[32]; snprintf(b, sizeof(b), "%ld;", f ? ftell(f) : -1L); ng_snap_add(b, strlen(b)); }
static void ng_snap_strlist(spif_charptr_t *l) { int k; for (k = 0; l && l[k]; k++) ng_snap_chars(l[k]); ng_snap_add(";", 1); }
static int ng_changed(void) { return ng_snaplen[0] != ng_snaplen[1] || memcmp(ng_snapbuf[0], ng_snapbuf[1], ng_snaplen[0]) != 0; }

/* ---- the measured window and the returned value ----------------------------------------------------------------- */
static size_t ng_h0, ng_h1;
static char ng_rv[48] = "UNSET";
static unsigned ng_level;          /* the runtime debug level is in force for the call itself only (factories and snapshots run at 0) */
#define NG_CALL_BEGIN() (libast_debug_level = ng_level, ng_h0 = __sanitizer_get_current_allocated_bytes())
#define NG_CALL_END()   (ng_h1 = __sanitizer_get_current_allocated_bytes(), libast_debug_level = 0)
static void ng_rv_bool(spif_bool_t v) { strcpy(ng_rv, v == FALSE ? "FALSE" : (v == TRUE ? "TRUE" : "BOOL_OTHER")); }
static void ng_rv_cmp(spif_cmp_t v) {
    strcpy(ng_rv, v == SPIF_CMP_LESS ? "CMP_LESS" : (v == SPIF_CMP_EQUAL ? "CMP_EQUAL" : (v == SPIF_CMP_GREATER ? "CMP_GREATER" : "CMP_OTHER")));
}
static void ng_rv_double(double v) { strcpy(ng_rv, isnan(v) ? "NAN" : "NUMBER"); }
static void ng_rv_long(long v) { if (v == -1) strcpy(ng_rv, "MINUS1"); else if (v == 0) strcpy(ng_rv, "ZERO"); else snprintf(ng_rv, sizeof(ng_rv), "INT_%ld", v); }
static void ng_rv_ulong(unsigned long v, unsigned long all_ones) { if (v == all_ones) strcpy(ng_rv, "MINUS1"); else if (v == 0) strcpy(ng_rv, "ZERO"); else snprintf(ng_rv, sizeof(ng_rv), "INT_%lu", v); }
static void ng_rv_ptr(const void *p) { strcpy(ng_rv, p ? "NONNULL" : "NULL"); }
static void ng_rv_typename(const char *p) { strcpy(ng_rv, !p ? "NULL" : (!strncmp(p, "{ ((spif_", 9) ? "TYPENAME" : "NONNULL")); }
static void ng_rv_void(void) { strcpy(ng_rv, "VOID"); }

struct ng_case { int id; char variant; void (*fn)(void); };
extern spif_charptr_t libast_program_name;      /* declared in libast_internal.h only */
static const char *NG_FMT_NAMES[] = { "100%sure", "load%n", "%-d%s%s%s", "50%", "%5$s and %*d", "%%s", NULL };
static char *ng_setting_text(const char *env) {          /* the string the setting registers, NULL for default */
    const char *p = env + (env[0] == 'n' ? 4 : 3); char *t; long n;
    if (!strcmp(env, "default")) return NULL;
    if (*p == 'F') { n = atol(p + 1); return strdup(NG_FMT_NAMES[n]); }
    n = atol(p + 1);
    t = (char *) malloc((size_t) n + 1);
    { long k; for (k = 0; k < n; k++) t[k] = (char) ('a' + (k * 3 + k / 26) % 26); }
    t[n] = 0;
    return t;
}
#endif /* NULL_GUARD_RT_H */

/* second inclusion, after the generated NG_CASES table:  #define NG_MAIN  +  #include "null_guard_rt.h" */
#if defined(NG_MAIN) && !defined(NG_MAIN_DONE)
#define NG_MAIN_DONE
static const struct ng_case *ng_find(int id, char variant) {
    size_t k;
    for (k = 0; k < sizeof(NG_CASES) / sizeof(NG_CASES[0]); k++) if (NG_CASES[k].id == id && NG_CASES[k].variant == variant) return &NG_CASES[k];
    return NULL;
}

static void ng_run(int id, char variant, int level, const char *env) {
    const struct ng_case *c = ng_find(id, variant);
    int ep[2], rp[2], status = 0; pid_t pid; ssize_t n; size_t total = 0, kept = 0;
    static char err[1 << 15], tmp[1 << 15], res[256];
    const char *ended, *diag, *prefix = "na"; char info[100]; size_t i, j;
    char *setting = ng_setting_text(env);
    if (!c) { printf("E row=%d variant=%c level=%d env=%s ended=unknown_row\n", id, variant, level, env); return; }
    if (pipe(ep) || pipe(rp)) { perror("pipe"); exit(2); }
    fflush(stdout);
    pid = fork();
    if (pid < 0) { perror("fork"); exit(2); }
    if (pid == 0) {
        char out[200]; int len;
        close(ep[0]); close(rp[0]);
        dup2(ep[1], 2); close(ep[1]);
        setvbuf(stderr, NULL, _IONBF, 0);
        alarm(10);
        libast_debug_level = 0;
        if (setting) { if (env[0] == 'n') libast_set_program_name(setting); else libast_set_program_version(setting); }
        ng_level = (unsigned) level;
        c->fn();
        len = snprintf(out, sizeof(out), "rv=%s changed=%d heapdelta=%ld", ng_rv, ng_changed(), (long) ng_h1 - (long) ng_h0);
        if (write(rp[1], out, (size_t) len) < 0) { }
        _exit(0);
    }
    close(ep[1]); close(rp[1]);
    while ((n = read(ep[0], tmp, sizeof(tmp))) > 0) {
        size_t room = sizeof(err) - 1 - kept, take = (size_t) n < room ? (size_t) n : room;
        memcpy(err + kept, tmp, take); kept += take; total += (size_t) n;
        if (total > (16u << 20)) { kill(pid, SIGKILL); break; }
    }
    err[kept] = 0;
    n = read(rp[0], res, sizeof(res) - 1);
    res[n > 0 ? n : 0] = 0;
    close(ep[0]); close(rp[0]);
    waitpid(pid, &status, 0);
    if (strstr(err, "AddressSanitizer")) diag = "asan";
    else if (strstr(err, "FATAL:")) diag = "fatal";
    else if (strstr(err, "Warning:")) diag = "warning";
    else if (total == 0) diag = "none";
    else diag = "debug";                     /* REQUIRE's log line, or any D_* statement that is live at this level */
    if (!strcmp(diag, "warning") || !strcmp(diag, "fatal")) {          /* "<program name>:  Warning:  " verbatim */
        const char *name = (setting && env[0] == 'n') ? setting : (const char *) libast_program_name;
        size_t ln = strlen(name); char *want = (char *) malloc(ln + 32);
        sprintf(want, "%s:  %s:  ", name, !strcmp(diag, "warning") ? "Warning" : "FATAL");
        prefix = strstr(err, want) ? "ok" : "bad";
        free(want);
    }
    if (WIFSIGNALED(status)) ended = "signal";
    else if (n > 0) ended = "returned";
    else if (!strcmp(diag, "asan")) ended = "crash";
    else ended = "exit";
    /* first informative line of the diagnostic */
    {
        const char *p = err, *q;
        if ((q = strstr(err, "ERROR: AddressSanitizer")) != NULL) p = q;
        for (i = 0, j = 0; p[i] && p[i] != '\n' && j < sizeof(info) - 1; i++) info[j++] = (p[i] == ' ' || p[i] == '\t') ? '_' : p[i];
        info[j] = 0;
        if (!j) strcpy(info, "-");
    }
    if (getenv("NG_VERBOSE")) fprintf(stderr, "---- row %d variant %c level %d: captured diagnostic ----\n%s\n", id, variant, level, err);
    printf("E row=%d variant=%c level=%d env=%s ended=%s %s diag=%s prefix=%s status=%d info=%s\n", id, variant, level, env, ended,
           n > 0 ? res : "rv=- changed=0 heapdelta=0", diag, prefix, WIFEXITED(status) ? WEXITSTATUS(status) : 128 + WTERMSIG(status), info);
}

int main(int argc, char **argv) {
    FILE *f; char *text, *line, *save = NULL; long sz;
    if (argc < 2 || !(f = fopen(argv[1], "r"))) { fprintf(stderr, "usage: %s <listfile>\n", argv[0]); return 2; }
    fseek(f, 0, SEEK_END); sz = ftell(f); rewind(f);
    text = (char *) malloc((size_t) sz + 1);
    if (fread(text, 1, (size_t) sz, f) != (size_t) sz) { perror("read"); return 2; }
    text[sz] = 0;
    fclose(f);
    /* every string the factories hand out ("alpha beta") also resolves as a path: a directory holding an entry of the same name */
    mkdir("alpha beta", 0755);
    { FILE *e = fopen("alpha beta/alpha beta", "w"); if (e) { fputs("first line\nsecond line\n", e); fclose(e); } }
    setvbuf(stdout, NULL, _IOLBF, 0);
    printf("CASES %lu\n", (unsigned long) (sizeof(NG_CASES) / sizeof(NG_CASES[0])));
    for (line = strtok_r(text, "\n", &save); line; line = strtok_r(NULL, "\n", &save)) {
        int id, level, k; char variant, env[64];
        strcpy(env, "default");
        k = sscanf(line, "%d %c %d %63s", &id, &variant, &level, env);
        if (k >= 3) ng_run(id, variant, level, env);
    }
    printf("DONE\n");
    free(text);
    return 0;
}
#endif /* NG_MAIN */
