SPECIFICATION Spec
CONSTANTS
  Bytes <- BytesQuick
  Texts <- TextsLen5
  TextsB <- TextsBLen5
  MaxLenA = 5
  MaxLenB = 1
  Idx <- IdxLen5
  Cnt <- CntLen5
  NCnt <- NCntLen5
  Obs <- ObsEmit
INVARIANTS TypeOK QueriesInRange CmpLaw SpliceLaw SubLaw HugeLaw GapLaw ShapeLaw
PROPERTY Independence
CHECK_DEADLOCK FALSE
