------------------------------ MODULE MC_DebugGate ------------------------------
(* The full configuration matrix of DebugGate and the emitter (one JSON line per generated transition). *)
EXTENDS DebugGate
AllCompile == 0 .. 5
AllRun     == 0 .. 6
ObsEmit(op, args, ret, post) ==
    PrintT(ToJson([pre |-> Pre, op |-> op, args |-> args, ret |-> ret, post |-> post]))
================================================================================
