------------------------------ MODULE ExpandTrace ------------------------------
(* Trace validation for C10 (direction B): every expansion recorded on the implementation - input text,  *)
(* complete environment, result, projected store - is re-computed by the SAME scanner actions of Expand  *)
(* and the recorded result must be one of the acceptable results.  The file named by env TRACE holds one *)
(* JSON object per line:                                                                                 *)
(*   {"op":"expand", "reset":bool, "env":[[name,value],...], "prog":[name,version], "input":[..], "isnull":bool,          *)
(*    "dirs":[{"path":[..],"isdir":bool,"ents":[{"name":[..],"kind":".."},..]},..],                      *)
(*    "got":[..], "store":[[k,v],..]}                                                                    *)
(* or {"op":"register", "reset":bool, "name":[..], "kind":0..2, "ret":n}  (n-th application built-in registered)   *)
(* reset = the recording process started from an empty store.  One JSON verdict line is printed per      *)
(* event; an event whose value the specification does not claim is consumed without comparing.           *)
EXTENDS Expand, IOUtils
VARIABLES l,       \* index of the event being replayed
          lost     \* the model no longer knows the store (an unclaimed event since the last reset)
Tr == ndJsonDeserialize(IOEnv.TRACE)

EnvTrace(e, nm) == LET ev == Tr[e].env
                       hit == {i \in 1 .. Len(ev) : ev[i][1] = nm}
                   IN IF hit = {} THEN <<>> ELSE ev[CHOOSE i \in hit : TRUE][2]
\* the directory fixtures the recording side built for this event: [path, isdir, ents]; any other path is unknown (X)
DirTrace(e, path) == LET ds == Tr[e].dirs
                         hit == {i \in 1 .. Len(ds) : ds[i].path = path}
                     IN IF hit = {} THEN [known |-> FALSE, isdir |-> FALSE, ents |-> <<>>]
                        ELSE LET d == ds[CHOOSE i \in hit : TRUE] IN [known |-> TRUE, isdir |-> d.isdir, ents |-> d.ents]
StartsNone(st, rg) == {}
RegNone == <<>>
AppNameTr(e) == Tr[e].prog[1]         \* program name / version in force when the event was recorded
AppVersionTr(e) == Tr[e].prog[2]

\* the text contains "%put" in any case: the only way for an expansion to change the store
HasPut(t) == \E i \in 1 .. Len(t) - 3 : t[i] = PCT /\ Lower(t[i + 1]) = 112 /\ Lower(t[i + 2]) = 117 /\ Lower(t[i + 3]) = 116

Matches(ret, post, ev) ==
    /\ ~ev.isnull
    /\ \/ ev.got \in ret.outs
       \/ ret.trunc /\ \E o \in ret.outs : Len(o) >= 1 /\ ev.got = SubSeq(o, 1, Len(o) - 1)    \* E: cut at the limit or one before
    /\ post = ev.store
ObsTrace(op, args, ret, post) ==
    LET ev == Tr[l]
        cl == ret.claimed /\ ~lost
        ok == cl => Matches(ret, post, ev)
    IN /\ lost' = (lost \/ (~ret.claimed /\ HasPut(args[2])))     \* only %put can change the store
       /\ PrintT(ToJson([l |-> l, ok |-> ok, claimed |-> cl, why |-> IF lost THEN "store-unknown" ELSE ret.why,
                         trunc |-> ret.trunc, alts |-> Cardinality(ret.outs)]))

TraceInit == Init /\ l = 1 /\ lost = FALSE
\* reset = the event is the first of its history: the recording process started it with an empty store and a fresh table
RegNow == IF Tr[l].reset THEN <<>> ELSE reg
TraceNext ==
    \/ /\ phase = "idle" /\ l <= Len(Tr) /\ Tr[l].op = "expand"
       /\ phase' = "scan" /\ envid' = l /\ stack' = <<Frame(Tr[l].input, "top", 0)>>
       /\ LET st == IF Tr[l].reset THEN <<>> ELSE store IN store' = st /\ store0' = st
       /\ reg' = RegNow
       /\ l' = l /\ lost' = (lost /\ ~Tr[l].reset)
    \/ /\ phase = "idle" /\ l <= Len(Tr) /\ Tr[l].op = "register"            \* lifecycle event: the same OpRegister rule of Expand
       /\ LET nm == Tr[l].name kind == Tr[l].kind
              okname == RegNameOK(nm, RegNow)
          IN /\ reg' = Append(RegNow, [name |-> nm, kind |-> kind])
             /\ PrintT(ToJson([l |-> l, ok |-> okname /\ kind \in 0 .. 2 /\ Tr[l].ret = Len(RegNow) + 1, claimed |-> TRUE, why |-> "register",
                               trunc |-> FALSE, alts |-> 0]))
       /\ LET st == IF Tr[l].reset THEN <<>> ELSE store IN store' = st /\ store0' = st
       /\ UNCHANGED <<phase, envid, stack>>
       /\ l' = l + 1 /\ lost' = (lost /\ ~Tr[l].reset)
       /\ (l + 1 > Len(Tr)) => PrintT("TRACE_DONE")
    \/ /\ Scan
       /\ l' = IF phase' = "idle" THEN l + 1 ELSE l
       /\ IF phase' = "idle" THEN TRUE ELSE lost' = lost
       /\ (phase' = "idle" /\ l + 1 > Len(Tr)) => PrintT("TRACE_DONE")
TraceSpec == TraceInit /\ [][TraceNext]_<<vars, l, lost>>
================================================================================
