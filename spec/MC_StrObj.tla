------------------------------ MODULE MC_StrObj ------------------------------
(* Bounded models of StrObj for TLC: the argument universes (a .cfg cannot hold negative numbers or   *)
(* sequences), the exploration constraint, and the edge emitter (one JSON line per generated          *)
(* transition).  Characters: 97 'a', 66 'B', 32 ' ', 65 'A', 98 'b', 55 '7', 200 (a high-bit byte),    *)
(* 9 TAB, 10 NL.                                                                                       *)
EXTENDS StrObj

ObsEmit(op, args, ret, either, post) ==
    PrintT(ToJson([pre |-> Pre, op |-> op, args |-> args, ret |-> IF either THEN "*" ELSE ret, post |-> post]))

Over(s, S) == \A k \in 1 .. Len(s) : s[k] \in S        \* s is a text over the alphabet S

------------------------------------------------------------------------------------------
(* quick: alphabet {a, B, space}, texts <= 4, indices -6..6 *)
QAlpha == {97, 66, 32}
UQuick == [
    maxlen |-> 4,
    chars  |-> QAlpha,                 charsr |-> {32},
    idx    |-> -6 .. 6,                idxr   |-> {-1, 0, 1},      idxo |-> {-3, -1, 0, 1, 2, 3},
    cnt    |-> -2 .. 5,                cntr   |-> {0, 1},          cnto |-> {0, 1, 2, 3},
    n      |-> 0 .. 5,                 nr     |-> {0, 1},          no   |-> {0, 1, 2, 3},
    ptrs   |-> {<<>>, <<97>>, <<32, 66>>, <<97, 66, 32>>},       ptrsr  |-> {<<>>, <<66>>},
    cmps   |-> {<<>>, <<97>>, <<65>>, <<97, 98>>, <<32, 66>>, <<97, 66, 32, 32>>},   cmpsr |-> {<<97>>},
    spls   |-> {<<>>, <<97, 66>>},     splsr  |-> {<<32>>},
    lits   |-> {<<>>, <<66, 32>>},
    nums   |-> {0, 7, -3, 12},         numsr  |-> {7},
    buffs  |-> {<<<<>>, 0>>, <<<<97>>, 1>>, <<<<97, 66, 32>>, 2>>, <<<<97, 0, 66>>, 3>>, <<<<0, 97>>, 2>>, <<<<32, 66, 0, 0>>, 4>>},
    nullbuffs |-> {0, 3},
    bigs   |-> {<<57, 57, 57, 57, 57, 57, 57, 57, 57, 57, 57, 57, 57, 57, 57, 57, 57, 57, 57, 57, 57, 57>>},
    fps    |-> {<<>>, <<97>>, <<97, 10>>, <<10>>, <<32, 66, 10, 97, 10>>, <<97, 66, 32>>},
    fds    |-> {<<>>, <<97>>, <<32, 66>>, <<97, 66, 32, 32>>, <<97, 10>>},
    fptr   |-> {0, 1},                 fdtr   |-> {0, 1, 3} ]
QNumTexts   == {NumText(k) : k \in UQuick.nums}
\* exploration bound: texts over the alphabet (plus the number renderings), and while both slots are alive a bound on
\* their combined length.  States outside are still generated, emitted and replayed as *targets*; they are only not
\* expanded further.
ConstraintQuick ==
    /\ (Over(a, QAlpha) \/ a \in QNumTexts \/ a \in UQuick.bigs) /\ (Over(b, QAlpha) \/ b \in QNumTexts)
    /\ (al /\ bl) => (Len(a) + Len(b) <= 3 /\ Over(a, QAlpha) /\ Over(b, QAlpha))

------------------------------------------------------------------------------------------
(* thorough: 4-symbol alphabet with a high-bit byte and a digit, texts <= 5, indices -6..6 *)
TAlpha == {97, 66, 200, 55}
UThorough == [
    maxlen |-> 5,
    chars  |-> TAlpha \cup {32},       charsr |-> {32, 200},
    idx    |-> -6 .. 6,                idxr   |-> {-1, 0, 1, 2},   idxo |-> -4 .. 4,
    cnt    |-> -1 .. 6,                cntr   |-> {0, 1, 2},       cnto |-> 0 .. 4,
    n      |-> 0 .. 6,                 nr     |-> {0, 1, 2},       no   |-> 0 .. 4,
    ptrs   |-> {<<>>, <<97>>, <<200, 66>>, <<55, 55>>, <<97, 66, 200>>},        ptrsr  |-> {<<>>, <<66>>, <<200, 55>>},
    cmps   |-> {<<>>, <<65>>, <<97, 98>>, <<200>>, <<55, 66>>, <<97, 66, 200, 55, 55>>},   cmpsr |-> {<<97>>, <<200>>},
    spls   |-> {<<>>, <<97, 200>>},    splsr  |-> {<<55>>},
    lits   |-> {<<>>, <<66, 200>>},
    nums   |-> {0, 7, -3, 12, 77777},  numsr  |-> {7},
    buffs  |-> {<<<<>>, 0>>, <<<<97>>, 1>>, <<<<97, 66, 200>>, 2>>, <<<<97, 0, 66>>, 3>>, <<<<0, 97>>, 2>>, <<<<200, 66, 0, 0>>, 4>>,
                <<<<55, 55, 55, 55, 55>>, 5>>},
    nullbuffs |-> {0, 3},
    bigs   |-> {<<57, 57, 57, 57, 57, 57, 57, 57, 57, 57, 57, 57, 57, 57, 57, 57, 57, 57, 57, 57, 57, 57>>},
    fps    |-> {<<>>, <<97>>, <<97, 10>>, <<10>>, <<200, 66, 10, 97, 10>>, <<97, 66, 200>>, <<10, 10>>},
    fds    |-> {<<>>, <<97>>, <<200, 66>>, <<97, 66, 55, 200>>, <<97, 10>>},
    fptr   |-> {0, 1},                 fdtr   |-> {0, 1, 3} ]
TNumTexts   == {NumText(k) : k \in UThorough.nums}
ConstraintThorough ==
    /\ (Over(a, TAlpha) \/ a \in TNumTexts \/ a \in UThorough.bigs) /\ (Over(b, TAlpha) \/ b \in TNumTexts)
    /\ (al /\ bl) => (Len(a) + Len(b) <= 3 /\ Over(a, TAlpha) /\ Over(b, TAlpha))
    /\ (~al /\ bl) => Len(b) <= 3

------------------------------------------------------------------------------------------
(* thorough, second scope: blanks and longer texts: alphabet {a, space, TAB}, texts <= 6, fewer argument values *)
T2Alpha == {97, 32, 9}
UThorough2 == [
    maxlen |-> 6,
    chars  |-> T2Alpha,                charsr |-> {9},
    idx    |-> {-7, -6, -1, 0, 1, 3, 5, 6},   idxr   |-> {-1, 0},     idxo |-> {-1, 0, 2},
    cnt    |-> {-1, 0, 1, 3, 6, 7},    cntr   |-> {0, 1},          cnto |-> {0, 1, 3},
    n      |-> {0, 1, 6, 7},           nr     |-> {0, 6},          no   |-> {0, 1, 3},
    ptrs   |-> {<<>>, <<9>>, <<97, 32, 97>>},       ptrsr  |-> {<<32>>},
    cmps   |-> {<<>>, <<9>>, <<97, 32, 97, 9, 32, 97>>},   cmpsr |-> {<<97>>},
    spls   |-> {<<>>, <<9, 97>>},      splsr  |-> {<<32>>},
    lits   |-> {<<>>, <<9, 32>>},
    nums   |-> {0},                    numsr  |-> {0},
    buffs  |-> {<<<<9, 97, 32, 9, 97, 32>>, 6>>, <<<<32, 0, 97>>, 3>>},
    nullbuffs |-> {6},
    bigs   |-> {<<57, 57, 57, 57, 57, 57, 57, 57, 57, 57, 57, 57, 57, 57, 57, 57, 57, 57, 57, 57, 57, 57>>},
    fps    |-> {<<9, 97, 32, 9, 97, 32, 10, 97>>, <<32, 10>>},
    fds    |-> {<<9, 97, 32, 9, 97, 32>>, <<32>>},
    fptr   |-> {0, 1},                 fdtr   |-> {0, 1, 3} ]
ConstraintThorough2 ==
    /\ (Over(a, T2Alpha) \/ a = <<48>> \/ a \in UThorough2.bigs) /\ (Over(b, T2Alpha) \/ b = <<48>>)
    /\ (al /\ bl) => Len(a) + Len(b) <= 3
    /\ (~al /\ bl) => Len(b) <= 3
================================================================================
