/* X04: replay / trace-recording harness for spec/TempFile.tla - spiftool_temp_file (src/file.c).
 *
 * usage: tmpfile_replay <prelude 0|1> <scriptfile> [first]
 *   prelude 1: errno preset before every call, and every temp_file call is preceded by the same call on the SAME buffer (same
 *   address, same length) holding another template of the same length; the decoy's file is removed, its result discarded.
 * Link with -Wl,--wrap=fchmod (fault injection).
 *
 * Test bed, created in a private directory below the working directory (which becomes the cwd, so the relative values of
 * TMPDIR / TMP are short texts the specification knows): ta, tb, tl (200 x 'l') writable; ro without write permission;
 * nd a regular file; "no" does not exist; dflt = /tmp.  When running as root every library call is made with the effective uid
 * of "nobody", so that permissions mean something.
 *
 * Script operations:
 *   set_env TMPDIR|TMP <dir id|unset>      set_umask m      set_level n      remove k
 *   temp_file [template] cap len fault     fault = none | nofd (descriptor table full) | fchmod (fchmod fails)
 *        ret {buf=[the buffer up to and including its first NUL, generated characters as '#'],ctl=returns,diag=none|warning|other,
 *             fd=T|F|bad:..,made=<new directory entries>,mode=<mode of the new file|-1>,nfd=<change of the open descriptor count>,
 *             rest=<every byte of the cap-byte buffer behind that NUL is what the caller had there>,um=<umask afterwards>}
 *   temp_file_zero [template]              len = 0, in a child process
 * State token: {level=N,live=[dir ids of the files still held],tmp=..,tmpdir=..,umask=N}
 */
#include "common.h"
#include <fcntl.h>
#include <dirent.h>
#include <sys/stat.h>
#include <sys/wait.h>
#include <sys/resource.h>

/* ---- fault injection --------------------------------------------------------------------------------------------------- */
static int fail_fchmod = 0, fchmod_calls = 0;
int __real_fchmod(int fd, mode_t m);
int __wrap_fchmod(int fd, mode_t m) { fchmod_calls++; if (fail_fchmod) { errno = EPERM; return -1; } return __real_fchmod(fd, m); }

/* ---- test bed ------------------------------------------------------------------------------------------------------------- */
static const char *DIR_ID[] = { "ta", "tb", "tl", "ro", "nd", "no", "dflt", NULL };
static char tl_name[201];
static const char *dir_path(const char *id) {
    if (!strcmp(id, "tl")) return tl_name;
    if (!strcmp(id, "dflt")) return "/tmp";
    return id;
}
static int am_root = 0;
static void drop(void) { if (am_root && seteuid(65534)) { perror("seteuid"); exit(2); } }
static void undrop(void) { if (am_root && seteuid(0)) { perror("seteuid back"); exit(2); } }
static char bed[128];
static void make_bed(void) {
    int fd;
    snprintf(bed, sizeof(bed), "x04t-%ld", (long) getpid());
    memset(tl_name, 'l', 200); tl_name[200] = 0;
    if (mkdir(bed, 0755) || chdir(bed)) { perror(bed); exit(2); }
    if (mkdir("ta", 0777) || mkdir("tb", 0777) || mkdir(tl_name, 0777) || mkdir("ro", 0555)) { perror("mkdir"); exit(2); }
    chmod("ta", 0777); chmod("tb", 0777); chmod(tl_name, 0777); chmod("ro", 0555);
    fd = open("nd", O_WRONLY | O_CREAT, 0644); if (fd >= 0) close(fd);
    am_root = (geteuid() == 0);
}

/* ---- TMPDIR / TMP without setenv (glibc's setenv allocates and never releases: it would unbalance the per-script heap check) -- */
extern char **environ;
static char *envv[8192]; static int env_base = 0, has_td = 0, has_t = 0; static char env_td[320], env_t[320];
static void env_apply(void) { int n = env_base; if (has_td) envv[n++] = env_td; if (has_t) envv[n++] = env_t; envv[n] = NULL; environ = envv; }
static void env_init(void) {
    char **e; env_base = 0;
    for (e = environ; e && *e && env_base < 8000; e++) if (strncmp(*e, "TMPDIR=", 7) && strncmp(*e, "TMP=", 4)) envv[env_base++] = *e;
    has_td = has_t = 0; env_apply();
}
static void env_set(const char *var, const char *val) {
    int td = !strcmp(var, "TMPDIR");
    if (td) { has_td = val != NULL; if (val) snprintf(env_td, sizeof(env_td), "TMPDIR=%s", val); }
    else { has_t = val != NULL; if (val) snprintf(env_t, sizeof(env_t), "TMP=%s", val); }
    env_apply();
}

/* ---- directory snapshots ------------------------------------------------------------------------------------------------- */
typedef struct { char **name; int n, cap; } names_t;
static void names_free(names_t *s) { int i; for (i = 0; i < s->n; i++) free(s->name[i]); free(s->name); s->name = NULL; s->n = s->cap = 0; }
static void names_add(names_t *s, const char *x) {
    if (s->n == s->cap) { s->cap = s->cap ? s->cap * 2 : 64; s->name = (char **) realloc(s->name, (size_t) s->cap * sizeof(char *)); }
    s->name[s->n++] = strdup(x);
}
static int names_has(const names_t *s, const char *x) { int i; for (i = 0; i < s->n; i++) if (!strcmp(s->name[i], x)) return 1; return 0; }
/* all entries "<dir id>/<name>" of the private test bed.  /tmp is shared with every other program and is NOT scanned: there a new
 * file is identified through the returned descriptor (/proc/self/fd), so "nothing left behind on failure" is checked in the
 * private directories only */
static void snapshot(names_t *s, const char *prefix) {
    int k; char full[1024];
    for (k = 0; DIR_ID[k]; k++) {
        const char *p = dir_path(DIR_ID[k]); DIR *d; struct dirent *e;
        if (!strcmp(DIR_ID[k], "nd") || !strcmp(DIR_ID[k], "no") || !strcmp(DIR_ID[k], "dflt")) continue;
        d = opendir(p);
        if (!d) continue;
        while ((e = readdir(d))) {
            if (!strcmp(e->d_name, ".") || !strcmp(e->d_name, "..")) continue;
            snprintf(full, sizeof(full), "%s/%s", DIR_ID[k], e->d_name);
            names_add(s, full);
        }
        closedir(d);
    }
    /* anything that appeared in the bed itself or instead of "nd" / "no" */
    { DIR *d = opendir("."); struct dirent *e;
      if (d) { while ((e = readdir(d))) { int j, known = !strcmp(e->d_name, ".") || !strcmp(e->d_name, "..");
                   for (j = 0; DIR_ID[j] && !known; j++) if (!strcmp(e->d_name, dir_path(DIR_ID[j]))) known = 1;
                   if (!known) { snprintf(full, sizeof(full), "./%s", e->d_name); names_add(s, full); } }
               closedir(d); } }
}
static void real_path(const char *entry, char *out, size_t n) {      /* "<dir id>/<name>" -> the path the library used */
    const char *sl = strchr(entry, '/'); char id[16]; size_t k = (size_t) (sl - entry);
    memcpy(id, entry, k); id[k] = 0;
    snprintf(out, n, "%s/%s", !strcmp(id, ".") ? "." : dir_path(id), sl + 1);
}
static int count_fds(void) {
    DIR *d = opendir("/proc/self/fd"); struct dirent *e; int n = 0;
    if (!d) return -1;
    while ((e = readdir(d))) if (e->d_name[0] != '.') n++;
    closedir(d);
    return n - 1;                                                      /* the directory stream's own descriptor */
}
static mode_t cur_umask(void) { mode_t m = umask(0); umask(m); return m; }

/* ---- capture of fd 1 / fd 2 (diagnostics of a refused call) ------------------------------------------------------------------ */
static int cap_fd[2] = { -1, -1 }, saved_fd[2];
static void cap_open(void) {
    int k; for (k = 0; k < 2; k++) { char nm[64]; snprintf(nm, sizeof(nm), "cap%d", k); cap_fd[k] = open(nm, O_RDWR | O_CREAT | O_TRUNC, 0600);
        if (cap_fd[k] < 0) { perror(nm); exit(2); } unlink(nm); }
}
static void cap_begin(void) { int k; fflush(stdout); fflush(stderr);
    for (k = 0; k < 2; k++) { if (ftruncate(cap_fd[k], 0) || lseek(cap_fd[k], 0, SEEK_SET) < 0) exit(2); saved_fd[k] = dup(k + 1); dup2(cap_fd[k], k + 1); } }
static void cap_end(void) { int k; fflush(stdout); fflush(stderr); for (k = 0; k < 2; k++) { dup2(saved_fd[k], k + 1); close(saved_fd[k]); } }
static const char *diag_class(void) {
    static char b[4096]; off_t n = lseek(cap_fd[1], 0, SEEK_END), o = lseek(cap_fd[0], 0, SEEK_END); ssize_t c;
    if (n == 0 && o == 0) return "none";
    if (o != 0) return "stdout";
    c = pread(cap_fd[1], b, sizeof(b) - 1, 0); b[c > 0 ? c : 0] = 0;
    if (strstr(b, ":  FATAL:  ASSERT failed")) return "fatal";
    if (strstr(b, ":  Warning:  ASSERT failed")) return "warning";
    return "other";
}

/* ---- state ---------------------------------------------------------------------------------------------------------------- */
typedef struct { int fd; char entry[600]; char dir[8]; } live_t;
static live_t live[4096]; static int nlive = 0;
static int prelude = 0, errno_turn = 0, bed_ready = 0;
static const int ERRNOS[4] = { ERANGE, EINTR, EAGAIN, ENOMEM };
static void preset_errno(void) { if (prelude) errno = ERRNOS[errno_turn++ & 3]; }

static void vh_begin(void) {
    if (!bed_ready) {
        make_bed(); cap_open(); env_init(); bed_ready = 1;
#ifdef VH_ASAN
        { int fd = dup(2); if (fd >= 0) { fcntl(fd, F_SETFD, FD_CLOEXEC); __sanitizer_set_report_fd((void *) (long) fd); } }
#endif
    }
    env_set("TMPDIR", NULL); env_set("TMP", NULL); umask(022); libast_debug_level = 0; nlive = 0; fail_fchmod = 0;
}
static void remove_entry(const char *entry) { char p[1024]; real_path(entry, p, sizeof(p)); unlink(p); }
static void vh_end(void) {
    int i; for (i = 0; i < nlive; i++) { close(live[i].fd); remove_entry(live[i].entry); }
    nlive = 0; env_set("TMPDIR", NULL); env_set("TMP", NULL); umask(022); libast_debug_level = 0;
}
static void put_state(vh_sb *b) {
    int i; const char *td = getenv("TMPDIR"), *t = getenv("TMP");
    sb_printf(b, "{level=%u,live=[", libast_debug_level);
    for (i = 0; i < nlive; i++) { if (i) sb_putc(b, ','); sb_puts(b, live[i].dir); }
    sb_puts(b, "],tmp=");
    sb_puts(b, !t ? "unset" : (!strcmp(t, tl_name) ? "tl" : t));
    sb_puts(b, ",tmpdir=");
    sb_puts(b, !td ? "unset" : (!strcmp(td, tl_name) ? "tl" : td));
    sb_printf(b, ",umask=%d}", (int) cur_umask());
}

/* the buffer as observed: bytes through the first NUL; rest = everything behind it equals the caller's original contents
 * (orig: template, NUL, 0xAA fill) */
static int put_buf(vh_sb *ret, const unsigned char *buf, size_t cap, const long *codes, int n) {
    size_t z, k; int rest = 1;
    for (z = 0; z < cap && buf[z]; z++) ;
    sb_puts(ret, "{buf="); sb_bytes(ret, buf, z < cap ? z + 1 : cap);
    if (z >= cap) return 0;                          /* no terminator inside the buffer */
    for (k = z + 1; k < cap; k++) {
        unsigned char o = k < (size_t) n ? (unsigned char) codes[k] : (k == (size_t) n ? 0 : 0xAA);
        if (buf[k] != o) rest = 0;
    }
    return rest;
}

/* one observed call: buffer of exactly cap bytes; returns through the tokens */
typedef struct { int fd; int made; char entry[600]; int nfd; } obs_t;
static int lowest_free_fd(void) { int fd = open("/dev/null", O_RDONLY); if (fd >= 0) close(fd); return fd; }

static int call_lib(unsigned char *buf, size_t len, const char *fault) {
    struct rlimit rl, lim; int fd, nofd = !strcmp(fault, "nofd");
    fail_fchmod = !strcmp(fault, "fchmod");
    if (nofd) { getrlimit(RLIMIT_NOFILE, &rl); lim = rl; lim.rlim_cur = (rlim_t) lowest_free_fd(); setrlimit(RLIMIT_NOFILE, &lim); }
    preset_errno();
    drop();
    fd = spiftool_temp_file((spif_charptr_t) buf, len);
    undrop();
    if (nofd) setrlimit(RLIMIT_NOFILE, &rl);
    fail_fchmod = 0;
    return fd;
}

static void do_temp_file(const char *tmpl_tok, size_t cap, size_t len, const char *fault, vh_sb *ret) {
    static long codes[1 << 12]; int n = vh_intlist(tmpl_tok, codes, 1 << 12), i, fd, fds0, fds1, made = 0;
    unsigned char *buf = (unsigned char *) malloc(cap ? cap : 1); names_t before = { 0, 0, 0 }, after = { 0, 0, 0 };
    char prefix[4200], newent[600] = "", path[1024] = ""; const char *diag, *fdtok = "F"; char fdbuf[96]; long mode = -1; mode_t um;
    struct stat sb, eb;

    for (i = 0; i < n && i < (int) sizeof(prefix) - 1; i++) prefix[i] = (char) codes[i];
    prefix[i] = 0;
    if (prelude) {                                   /* the decoy: same buffer, same length, another template */
        names_t b0 = { 0, 0, 0 }, b1 = { 0, 0, 0 }; char dpre[4200]; int dfd, fdsd = count_fds(), k;
        memset(buf, 0xAA, cap);
        for (i = 0; i < n; i++) buf[i] = 'q';
        if ((size_t) n < cap) buf[n] = 0;
        memset(dpre, 'q', (size_t) n); dpre[n] = 0;
        snapshot(&b0, dpre);
        cap_begin(); dfd = call_lib(buf, len, "none"); cap_end();
        snapshot(&b1, dpre);
        if (dfd >= 0) close(dfd);
        for (i = 0; i < b1.n; i++) if (!names_has(&b0, b1.name[i])) remove_entry(b1.name[i]);
        for (k = 3; count_fds() > fdsd && k < 1024; k++) { }       /* (nothing to do: dfd was closed) */
        names_free(&b0); names_free(&b1);
    }
    memset(buf, 0xAA, cap);
    for (i = 0; i < n && (size_t) i < cap; i++) buf[i] = (unsigned char) codes[i];
    if ((size_t) n < cap) buf[n] = 0;
    snapshot(&before, prefix);
    fds0 = count_fds();
    cap_begin();
    fd = call_lib(buf, len, fault);
    cap_end();
    fds1 = count_fds();
    um = cur_umask();
    diag = diag_class();
    snapshot(&after, prefix);
    for (i = 0; i < after.n; i++) if (!names_has(&before, after.name[i])) { if (!made) snprintf(newent, sizeof(newent), "%s", after.name[i]); made++; }
    if (!made && fd >= 0) {                          /* the shared default directory */
        char lnk[64], tgt[1024]; ssize_t c; snprintf(lnk, sizeof(lnk), "/proc/self/fd/%d", fd); c = readlink(lnk, tgt, sizeof(tgt) - 1);
        if (c > 5) { tgt[c] = 0; if (!strncmp(tgt, "/tmp/", 5) && !strchr(tgt + 5, '/')) { snprintf(newent, sizeof(newent), "dflt/%s", tgt + 5); made = 1; } }
    }
    if (made) { real_path(newent, path, sizeof(path)); if (!lstat(path, &eb)) mode = (long) (eb.st_mode & 07777); }
    if (fd >= 0) {
        int fl = fcntl(fd, F_GETFL);
        if (fstat(fd, &sb)) fdtok = "bad:fstat";
        else if (!S_ISREG(sb.st_mode)) fdtok = "bad:not-regular";
        else if (made != 1 || sb.st_ino != eb.st_ino || sb.st_dev != eb.st_dev) fdtok = "bad:not-the-new-file";
        else if (sb.st_size != 0) fdtok = "bad:not-empty";
        else if (sb.st_nlink != 1) fdtok = "bad:links";
        else if ((fl & O_ACCMODE) != O_RDWR) fdtok = "bad:not-read-write";
        else if (write(fd, "x", 1) != 1 || ftruncate(fd, 0)) fdtok = "bad:not-writable";
        else fdtok = "T";
    }
    /* the buffer, with the generated characters of the new file's name abstracted where they were copied faithfully */
    if (made == 1) {
        size_t pl = strlen(path), k;
        for (k = pl >= 6 ? pl - 6 : 0; k < pl && k < cap; k++) if (buf[k] == (unsigned char) path[k]) buf[k] = '#';
    }
    i = put_buf(ret, buf, cap, codes, n);
    sb_printf(ret, ",ctl=returns,diag=%s,fd=%s,made=%d,mode=%ld,nfd=%d,rest=%s,um=%d}", diag, fdtok, made, mode, fds1 - fds0, i ? "T" : "F", (int) um);
    /* bookkeeping: a returned descriptor with its file is held by the program; anything else is cleaned up so that the next
     * step starts from what the specification's state says */
    if (fd >= 0 && made == 1 && nlive < 4096) {
        const char *sl = strchr(newent, '/'); size_t k = (size_t) (sl - newent);
        live[nlive].fd = fd; snprintf(live[nlive].entry, sizeof(live[nlive].entry), "%s", newent);
        memcpy(live[nlive].dir, newent, k < 7 ? k : 7); live[nlive].dir[k < 7 ? k : 7] = 0;
        nlive++;
    } else {
        if (fd >= 0) close(fd);
        for (i = 0; i < after.n; i++) if (!names_has(&before, after.name[i])) remove_entry(after.name[i]);
        if (fd < 0 && fds1 > fds0) {                 /* a descriptor leaked by the failed call: find and close it */
            int k; for (k = 3; k < 4096 && count_fds() > fds0; k++) {
                int j, mine = (k == cap_fd[0] || k == cap_fd[1]); char lnk[64], tgt[1024]; ssize_t c;
                for (j = 0; j < nlive; j++) if (live[j].fd == k) mine = 1;
                if (mine) continue;
                snprintf(lnk, sizeof(lnk), "/proc/self/fd/%d", k); c = readlink(lnk, tgt, sizeof(tgt) - 1);
                if (c > 0) { tgt[c] = 0; if (strstr(tgt, "(deleted)")) close(k); }
            }
        }
    }
    (void) fdbuf;
    names_free(&before); names_free(&after); free(buf);
}

static void do_temp_file_zero(const char *tmpl_tok, vh_sb *ret) {
    static long codes[1 << 12]; int n = vh_intlist(tmpl_tok, codes, 1 << 12), i, rp[2], status = 0, made = 0, got; pid_t pid;
    size_t cap = (size_t) n + 1; unsigned char *buf = (unsigned char *) malloc(cap); names_t before = { 0, 0, 0 }, after = { 0, 0, 0 };
    char prefix[4200], path[1024]; struct { int fd; long ino; long mode; int um; int nfd; unsigned char buf[4200]; char link[600]; } r; int rest; const char *diag; long mode = -1;
    for (i = 0; i < n; i++) { buf[i] = (unsigned char) codes[i]; prefix[i] = (char) codes[i]; }
    buf[n] = 0; prefix[n] = 0;
    memset(&r, 0, sizeof(r)); r.fd = -1;
    snapshot(&before, prefix);
    if (pipe(rp)) { perror("pipe"); exit(2); }
    cap_begin();
    pid = fork();
    if (pid < 0) { perror("fork"); exit(2); }
    if (pid == 0) {
        struct stat sb; int f0;
        close(rp[0]); vh_in_script = 0;
        f0 = count_fds();
        r.fd = call_lib(buf, 0, "none");
        r.nfd = count_fds() - f0; r.um = (int) cur_umask();
        if (r.fd >= 0 && !fstat(r.fd, &sb)) {
            char lnk[64]; ssize_t c; r.ino = (long) sb.st_ino; r.mode = (long) (sb.st_mode & 07777);
            snprintf(lnk, sizeof(lnk), "/proc/self/fd/%d", r.fd); c = readlink(lnk, r.link, sizeof(r.link) - 1); r.link[c > 0 ? c : 0] = 0;
        }
        memcpy(r.buf, buf, cap);
        fflush(stdout); fflush(stderr);
        if (write(rp[1], &r, sizeof(r)) < 0) { }
        _exit(0);
    }
    close(rp[1]);
    got = (read(rp[0], &r, sizeof(r)) == (ssize_t) sizeof(r));
    close(rp[0]);
    waitpid(pid, &status, 0);
    cap_end();
    diag = diag_class();
    snapshot(&after, prefix);
    for (i = 0; i < after.n; i++) if (!names_has(&before, after.name[i])) {
        struct stat eb; real_path(after.name[i], path, sizeof(path)); made++;
        if (!lstat(path, &eb)) { mode = (long) (eb.st_mode & 07777); if (got && r.fd >= 0 && (long) eb.st_ino != r.ino) r.fd = -2; }
        unlink(path);
    }
    if (!made && got && r.fd >= 0 && !strncmp(r.link, "/tmp/", 5) && !strchr(r.link + 5, '/')) {      /* the shared default directory */
        struct stat eb;
        if (!lstat(r.link, &eb) && (long) eb.st_ino == r.ino) { made = 1; mode = (long) (eb.st_mode & 07777); unlink(r.link); }
    }
    rest = put_buf(ret, got ? r.buf : buf, cap, codes, n);
    if (got && WIFEXITED(status) && WEXITSTATUS(status) == 0)
        sb_printf(ret, ",ctl=returns,diag=%s,fd=%s,made=%d,mode=%ld,nfd=%d,rest=%s,um=%d}", diag, r.fd >= 0 ? "T" : (r.fd == -2 ? "bad:not-the-new-file" : "F"), made, mode,
                  r.fd >= 0 ? r.nfd - 1 : r.nfd, rest ? "T" : "F", r.um);
    else
        sb_printf(ret, ",ctl=%s,diag=%s,fd=F,made=%d,mode=%ld,nfd=0,rest=%s,um=%d}", WIFSIGNALED(status) ? "signal" : (WEXITSTATUS(status) == 255 ? "exits" : "exits-other"),
                  diag, made, mode, rest ? "T" : "F", (int) cur_umask());
    names_free(&before); names_free(&after); free(buf);
}

static const char *vh_step(const vh_step_t *st, vh_sb *ret, vh_sb *state) {
    const char *op = st->op;
    if (!strcmp(op, "set_env")) {
        const char *v;
        if (st->nargs < 2) return "set_env-needs-variable-and-value";
        v = st->args[1];
        env_set(st->args[0], !strcmp(v, "unset") ? NULL : dir_path(v));
        sb_puts(ret, "T");
    } else if (!strcmp(op, "set_umask")) {
        umask((mode_t) vh_int(st->args[0])); sb_puts(ret, "T");
    } else if (!strcmp(op, "set_level")) {
        libast_debug_level = (unsigned int) strtoul(st->args[0], NULL, 10); sb_puts(ret, "T");
    } else if (!strcmp(op, "remove")) {
        long k = vh_int(st->args[0]);
        if (k < 1 || k > nlive) sb_puts(ret, "F");               /* the program holds fewer than k files */
        else {
            close(live[k - 1].fd); remove_entry(live[k - 1].entry);
            memmove(&live[k - 1], &live[k], (size_t) (nlive - k) * sizeof(live_t)); nlive--;
            sb_puts(ret, "T");
        }
    } else if (!strcmp(op, "temp_file")) {
        if (st->nargs < 4) return "temp_file-needs-template-cap-len-fault";
        do_temp_file(st->args[0], (size_t) strtoul(st->args[1], NULL, 10), (size_t) strtoul(st->args[2], NULL, 10), st->args[3], ret);
    } else if (!strcmp(op, "temp_file_zero")) {
        do_temp_file_zero(st->nargs > 0 ? st->args[0] : "[]", ret);
    } else return "unknown-operation";
    put_state(state);
    return NULL;
}

int main(int argc, char **argv) {
    if (argc < 3) { fprintf(stderr, "usage: %s <prelude 0|1> <scriptfile> [first]\n", argv[0]); return 2; }
    prelude = atoi(argv[1]);
    return vh_main(argc, argv, 2);
}
