SPECIFICATION Spec
CONSTANTS
  MaxD = 5
  MaxS = 4
  MaxMsgs = 1
  Mech = "repaired"
  Obs <- ObsEmit
INVARIANTS FdFieldValidOrMinus1 OneOwnerPerDescriptor NoOrphanDescriptor AllDeletedMeansAllClosed
CHECK_DEADLOCK FALSE
