SPECIFICATION Spec
CONSTANTS
  Configs <- ConfigsC11
  CapMod = 65536
  LineMax = 20479
  AlphaOf <- AlphaMC
  Sc <- ScMC
  LineOf <- LineMC
  FixedLen <- FixedLenMC
  FixedLine <- FixedLineMC
  Obs <- ObsEmit
INVARIANTS IndexBelowCapacity IndicesMirrorStacks DeliveredOnceInOrder BeginEndPaired InnermostContext UnknownFallsToNull StateThreaded StacksRestored
CHECK_DEADLOCK FALSE
