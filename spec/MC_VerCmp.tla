------------------------------- MODULE MC_VerCmp -------------------------------
(* Bounded model of VerCmp: the symbol alphabets of the two universes and the row emitter.                 *)
EXTENDS VerCmp
S(c) == <<c>>
\* raw universe, quick: 1 0 a . pre rc snap alpha beta  ; thorough: + 2 b -
RawSymsQuick    == << S(49), S(48), S(97), S(46), W_pre, W_rc, W_snap, W_alpha, W_beta >>
RawSymsThorough == << S(49), S(50), S(48), S(97), S(98), S(46), S(45), W_pre, W_rc, W_snap, W_alpha, W_beta >>
\* well-formed versions: numbers 0 1 2 10 and 4294967297 (beyond 32 bits); words: the five pre-release words,
\* two plain words, and one longer word that begins with a pre-release word (E)
BIG == <<52, 50, 57, 52, 57, 54, 55, 50, 57, 55>>
NumValsQuick    == << S(48), S(49), <<49, 48>>, BIG >>
NumValsThorough == << S(48), S(49), <<49, 48>>, BIG >>
Words8 == << W_snap, W_pre, W_alpha, W_beta, W_rc, S(97), S(112), W_pre \o S(97) >>
SufNums == << <<>>, S(49), S(50) >>
ObsEmit(op, args, ret, post) == PrintT(ToJson([op |-> op, args |-> args, r |-> ret, lv |-> DebugLevels]))
================================================================================
