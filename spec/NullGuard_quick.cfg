SPECIFICATION Spec
CONSTANTS
  Levels = {0, 1}
  Obs <- ObsEmit
INVARIANTS TypeOK LevelZeroIsSoft SoftAlwaysAllowed
CHECK_DEADLOCK FALSE
