SPECIFICATION Spec
CONSTANTS
  MaxD = 5
  MaxS = 4
  MaxMsgs = 1
  NbSlots <- NoSlots
  Outs <- AllOuts
  RecvToggles = TRUE
  Mech = "asbuilt"
  Obs <- ObsNone
INVARIANTS FdFieldValidOrMinus1 OneOwnerPerDescriptor NoOrphanDescriptor AllDeletedMeansAllClosed
CHECK_DEADLOCK FALSE
