------------------------------ MODULE MC_SockLife ------------------------------
EXTENDS SockLife
AllOuts == {"ok", "fail", "socket", "bind", "listen", "unbound", "connect", "nolistener", "isconn", "eagain", "dupfail", "eintr",
            "bad", "epipe", "reset", "badfd", "notconn", "peerdead"}
\* the mode configuration: the kernel's own answers and the failures of dup(), no other injected failure
ModeOuts == {"ok", "fail", "eagain", "dupfail", "isconn"}
ModeOutsThorough == {"ok", "fail", "unbound", "nolistener", "isconn", "eagain", "dupfail", "bad"}
NoSlots == {}
AllSlots == {"lis", "cli", "acc", "cp"}
ModeSlotsQuick == {"lis", "acc", "cp"}
ObsEmit(op, args, ret, post) ==
    PrintT(ToJson([pre |-> Pre, op |-> op, args |-> args, ret |-> ret, post |-> post]))
ObsNone(op, args, ret, post) == TRUE
================================================================================
