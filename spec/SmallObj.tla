-------------------------------- MODULE SmallObj --------------------------------
(* C05/C06 for the small value classes objpair, tok, url and regexp: construction, property      *)
(* setters (which take ownership of the object handed in and delete the one they replace), dup,   *)
(* done, del and comp, with an original (slot A) and a copy (slot B).  After every step the       *)
(* harness reads back BOTH slots, so a dup that shares storage, a done/del that invalidates the   *)
(* other slot, or a setter that leaks/frees twice is visible (state mismatch, ASan, heap balance). *)
(*                                                                                                *)
(* An object is [live, p, q, r]; ids index small per-class text tables of the harness, 0 = NULL:  *)
(*   objpair: p = key, q = value                    tok: p = src, q = sep, r = 1 iff evaluated    *)
(*   url:     p = text, q = host set by the setter (0 = as parsed, 9 = cleared: set to NULL)      *)
(*   regexp:  p = pattern, q = flags (0 none, 1 = "i")                                             *)
(* Texts are chosen so that id order = text order (comp is stated to follow the text / the key).  *)
(* url and regexp ARE strs (subclasses): the program may hand them to the str class's own mutators *)
(* (parent entry points); their text id 1 is a text of blanks only, which trim empties (p = 0).     *)
(* Whatever entry point is used, the object stays an object of ITS class (the harness checks the    *)
(* class pointer, type() and the class name of every live slot after every step).                   *)
EXTENDS Integers, Sequences, TLC, Json
CONSTANTS Cls, T, Obs(_, _, _, _)
VARIABLES A, B
vars == <<A, B>>

Dead == [live |-> FALSE, p |-> 0, q |-> 0, r |-> 0]
Obj(p, q, r) == [live |-> TRUE, p |-> p, q |-> q, r |-> r]
St(x, y) == [a |-> x, b |-> y]
Pre == St(A, B)
Step(op, args, ret, x, y) == /\ A' = x /\ B' = y /\ Obs(op, args, ret, St(x, y))

CmpInt(m, n) == IF m < n THEN -1 ELSE IF m > n THEN 1 ELSE 0
IsPair == Cls = "objpair"
IsTok  == Cls = "tok"
IsUrl  == Cls = "url"
IsRe   == Cls = "regexp"

(* constructors (slot A must be free) *)
OpNew          == /\ ~A.live /\ Cls \in {"objpair", "tok", "regexp"} /\ Step("new", <<>>, TRUE, Obj(0, 0, 0), B)
OpNewFromPtr(t)== /\ ~A.live /\ Cls \in {"tok", "url", "regexp"} /\ Step("new_from_ptr", <<t>>, TRUE, Obj(t, 0, 0), B)
OpNewFromKey(t)   == /\ ~A.live /\ IsPair /\ Step("new_from_key", <<t>>, TRUE, Obj(t, 0, 0), B)
OpNewFromValue(t) == /\ ~A.live /\ IsPair /\ Step("new_from_value", <<t>>, TRUE, Obj(0, t, 0), B)
OpNewFromBoth(t, u) == /\ ~A.live /\ IsPair /\ Step("new_from_both", <<t, u>>, TRUE, Obj(t, u, 0), B)

(* property setters: the object takes ownership of the argument and deletes what it replaces *)
OpSetP(t) == /\ A.live /\ Cls \in {"objpair", "tok"}
             /\ Step("set_p", <<t>>, TRUE, [A EXCEPT !.p = t, !.r = IF IsTok THEN A.r ELSE 0], B)
OpSetQ(t) == /\ A.live /\ Cls \in {"objpair", "tok", "url"}
             /\ Step("set_q", <<t>>, TRUE, [A EXCEPT !.q = t], B)
\* clearing a property: the setter is handed NULL, deletes what it held and stores NULL
Cleared == IF IsUrl THEN 9 ELSE 0
OpClearQ  == /\ A.live /\ Cls \in {"objpair", "tok", "url"} /\ (IsUrl => A.p # 0)
             /\ Step("clear_q", <<>>, TRUE, [A EXCEPT !.q = Cleared], B)
OpBClearQ == /\ B.live /\ Cls \in {"objpair", "tok", "url"} /\ (IsUrl => B.p # 0)
             /\ Step("b_clear_q", <<>>, TRUE, A, [B EXCEPT !.q = Cleared])
\* the FIRST component is cleared the same way (a pair without key, a tokenizer without source: eval is then refused
\* and must leave the token list of an earlier evaluation alone)
OpClearP  == /\ A.live /\ Cls \in {"objpair", "tok"} /\ Step("clear_p", <<>>, TRUE, [A EXCEPT !.p = 0], B)
OpBClearP == /\ B.live /\ Cls \in {"objpair", "tok"} /\ Step("b_clear_p", <<>>, TRUE, A, [B EXCEPT !.p = 0])
OpSetFlags(f) == /\ A.live /\ IsRe /\ A.p # 0 /\ Step("set_flags", <<f>>, TRUE, [A EXCEPT !.q = f], B)
OpGetP == /\ A.live /\ Step("get_p", <<>>, A.p, A, B)
OpGetQ == /\ A.live /\ Step("get_q", <<>>, A.q, A, B)

(* tok: (re-)evaluation replaces the token list *)
OpEval == /\ A.live /\ IsTok
          /\ IF A.p = 0 THEN Step("eval", <<>>, FALSE, A, B)
                        ELSE Step("eval", <<>>, TRUE, [A EXCEPT !.r = 1], B)
(* regexp: matching; the truth table of the harness's patterns 1="  ", 2="a", 3="b+" on subjects 1="a" 2="bb" 3="A" 4="c" *)
Match(pat, fl, s) == \/ (pat = 2 /\ s = 1) \/ (pat = 2 /\ s = 3 /\ fl = 1) \/ (pat = 3 /\ s = 2)
OpMatches(s) == /\ A.live /\ IsRe /\ A.p # 0 /\ Step("matches", <<s>>, Match(A.p, A.q, s), A, B)

(* parent entry points: the str class's mutators applied to a url / regexp *)
IsStrSub == Cls \in {"url", "regexp"}
Trimmed(p) == IF p = 1 THEN 0 ELSE p            \* id 1 is all blanks; the other texts have none at their ends
\* ("host cleared" is not observable on a url without text: it reads as "as parsed")
AfterTrim(o) == [o EXCEPT !.p = Trimmed(o.p), !.q = IF IsUrl /\ Trimmed(o.p) = 0 /\ o.q = 9 THEN 0 ELSE o.q]
OpStrTrim  == /\ A.live /\ IsStrSub /\ Step("str_trim", <<>>, TRUE, AfterTrim(A), B)
OpBStrTrim == /\ B.live /\ IsStrSub /\ Step("b_str_trim", <<>>, TRUE, A, AfterTrim(B))
\* a mutator of the parent followed by its inverse (upcase/downcase, reverse twice, append/prepend/splice and cut again)
\* leaves the value - and the class - as it was
RoundTrips == {"case", "reverse", "append", "prepend", "splice"}
OpStrRound(m) == /\ A.live /\ IsStrSub /\ A.p # 0 /\ Step("str_round", <<m>>, TRUE, A, B)
\* the empty text has two representations: absent (after done / trim) and PRESENT BUT EMPTY - cut away every character with
\* the parent's splice, or construct the object from "".  Both read as p = 0.
OpStrCut   == /\ A.live /\ IsStrSub /\ A.p # 0 /\ Step("str_cut", <<>>, TRUE, AfterTrim([A EXCEPT !.p = 1]), B)
OpBStrCut  == /\ B.live /\ IsStrSub /\ B.p # 0 /\ Step("b_str_cut", <<>>, TRUE, A, AfterTrim([B EXCEPT !.p = 1]))
OpNewEmpty == /\ ~A.live /\ IsStrSub /\ Step("new_empty", <<>>, TRUE, Obj(0, 0, 0), B)

(* the object protocol *)
OpDup  == /\ A.live /\ ~B.live /\ Step("dup", <<>>, TRUE, A, A)
OpDone == /\ A.live /\ Step("done", <<>>, TRUE, Obj(0, 0, 0), B)           \* C06: done() leaves it empty and reusable
OpDel  == /\ A.live /\ Step("del", <<>>, TRUE, Dead, B)
OpBDel == /\ B.live /\ Step("b_del", <<>>, TRUE, A, Dead)
OpBDone == /\ B.live /\ Step("b_done", <<>>, TRUE, A, Obj(0, 0, 0))
OpBSetQ(t) == /\ B.live /\ Cls \in {"objpair", "tok", "url"} /\ Step("b_set_q", <<t>>, TRUE, A, [B EXCEPT !.q = t])
OpBSetFlags(f) == /\ B.live /\ IsRe /\ B.p # 0 /\ Step("b_set_flags", <<f>>, TRUE, A, [B EXCEPT !.q = f])
OpBEval == /\ B.live /\ IsTok /\ B.p # 0 /\ Step("b_eval", <<>>, TRUE, A, [B EXCEPT !.r = 1])
\* the copy must be a full citizen: delete the original and carry on with the copy
OpAdopt == /\ A.live /\ B.live /\ Step("adopt", <<>>, TRUE, B, Dead)

(* comp: STATED to follow the key (objpair) / the text (tok by src, url, regexp); NULL parts order first *)
KeyOf(o) == o.p
OpComp == /\ A.live /\ B.live /\ (Cls \in {"url", "regexp"} => (A.p # 0 /\ B.p # 0))
          /\ Step("comp", <<>>, CmpInt(KeyOf(A), KeyOf(B)), A, B)
OpCompRev == /\ A.live /\ B.live /\ (Cls \in {"url", "regexp"} => (A.p # 0 /\ B.p # 0))
             /\ Step("comp_rev", <<>>, CmpInt(KeyOf(B), KeyOf(A)), A, B)
OpCompNull == /\ A.live /\ Step("comp_null", <<>>, 1, A, B)                 \* NULL is below every object

Init == A = Dead /\ B = Dead
Next == \/ OpClearP \/ OpBClearP \/ OpStrCut \/ OpBStrCut \/ OpNewEmpty
        \/ OpStrTrim \/ OpBStrTrim \/ (\E m \in RoundTrips : OpStrRound(m))
        \/ OpClearQ \/ OpBClearQ \/ OpNew \/ OpGetP \/ OpGetQ \/ OpEval \/ OpDup \/ OpDone \/ OpDel \/ OpBDel \/ OpBDone \/ OpBEval \/ OpAdopt
        \/ OpComp \/ OpCompRev \/ OpCompNull
        \/ \E t \in T : OpNewFromPtr(t) \/ OpNewFromKey(t) \/ OpNewFromValue(t) \/ OpSetP(t) \/ OpSetQ(t) \/ OpBSetQ(t)
        \/ \E t, u \in T : OpNewFromBoth(t, u)
        \/ \E f \in {0, 1} : OpSetFlags(f) \/ OpBSetFlags(f)
        \/ \E s \in 1 .. 4 : OpMatches(s)
Spec == Init /\ [][Next]_vars

TypeOK == /\ A \in [live : BOOLEAN, p : T \cup {0}, q : T \cup {0, 9}, r : {0, 1}]
          /\ B \in [live : BOOLEAN, p : T \cup {0}, q : T \cup {0, 9}, r : {0, 1}]
          /\ (~A.live => A = Dead) /\ (~B.live => B = Dead)
\* independence: an action addressed to one slot never changes the other (except dup/adopt, which define it)
Independent == [][ \/ A' = A \/ B' = B \/ (A' = B /\ B' = Dead) ]_vars
================================================================================
