#!/usr/bin/env python3
"""usage: mark_after.py <seed-id> <seedtest-log>   records the re-verification of a seed that was missed at its first run
(confirmed_by_coordinator.result_after_strengthening = "DETECTED <first finding key>" or "MISSED")."""
import json, re, sys
sid, logf = sys.argv[1:3]
t = open(logf).read()
p = "/verif/seeded/%s/meta.json" % sid
m = json.load(open(p))
c = m.setdefault("confirmed_by_coordinator", {})
det = re.search(r"exit=1 violations=[1-9]", t)
fv = next((l for l in t.splitlines() if l.startswith("VIOLATION")), "")
mk = re.search(r"key='([^']*)'", fv)
c["result_after_strengthening"] = ("DETECTED " + (mk.group(1) if mk else "")) if det else "MISSED"
c["log_after_strengthening"] = [l for l in t.splitlines() if not l.startswith("VIOLATION")][-4:]
json.dump(m, open(p, "w"), indent=1)
print(sid, c["result_after_strengthening"][:120])
