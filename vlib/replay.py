"""Running scripts through a replay harness with crash containment, in parallel."""
import os, re, subprocess, time
from concurrent.futures import ThreadPoolExecutor
from .core import NCPU, Broken, log

ASAN_OPTS = ("halt_on_error=1:abort_on_error=0:detect_leaks=0:allocator_may_return_null=1:"
             "detect_stack_use_after_return=0:symbolize=1:print_legend=0:print_summary=1:"
             "handle_abort=0:max_malloc_fill_size=4096:malloc_fill_byte=190:free_fill_byte=221")


# A change that breaks progress makes every script that reaches it cost a full watchdog period; after MAX_HANGS hung scripts
# in one check run the harness runs stop: the caller reports the hangs it has seen (violations), and the next attempt to run
# scripts ends the check (vcheck prints the collected violations and exits 1).
MAX_HANGS = int(os.environ.get("VERIF_MAX_HANGS", "8"))
_hangs = {"n": 0}


class StepFail:
    """One failing step.  kind: ret|state|inv|heap|crash|hang|exit"""
    __slots__ = ("sid", "step", "kind", "op", "exp", "got", "sig", "detail")

    def __init__(self, sid, step, kind, op, exp="", got="", sig="", detail=""):
        self.sid, self.step, self.kind, self.op, self.exp, self.got, self.sig, self.detail = sid, step, kind, op, exp, got, sig, detail

    def __repr__(self):
        return "StepFail(sid=%s step=%s %s %s exp=%s got=%s sig=%s)" % (self.sid, self.step, self.kind, self.op, self.exp, self.got, self.sig)


_RE_ASAN = re.compile(r"ERROR: AddressSanitizer: (\S+)")
_RE_FRAME = re.compile(r"^\s+#\d+ 0x[0-9a-f]+ in (\S+) (\S+)")


def asan_signature(stderr_text):
    """(error class, first frame inside the repository's sources)"""
    m = _RE_ASAN.search(stderr_text)
    if not m:
        if "libast" in stderr_text and "FATAL" in stderr_text.upper():
            return "fatal-exit", ""
        return "died", ""
    cls = m.group(1)
    if cls.endswith(":"):
        cls = cls[:-1]
    acc = ""
    m2 = re.search(r"^(READ|WRITE) of size (\d+)", stderr_text[m.end():], re.M)
    if m2:
        acc = m2.group(1).lower()
    frame = ""
    for line in stderr_text[m.end():].splitlines():
        f = _RE_FRAME.match(line)
        if f:
            fn, loc = f.group(1), f.group(2)
            if "/src/" in loc and "/harness/" not in loc and "compiler-rt" not in loc:
                frame = fn
                break
        if line.startswith("0x") or "is located" in line:
            break
    return cls + ("-" + acc if acc else ""), frame


def _run_one(exe, args, script_texts, rundir, tag, env, timeout):
    """Feed scripts to one harness process chain; restart behind every crash. Returns (fails, records, nscripts, nsteps)."""
    tag = re.sub(r"[^A-Za-z0-9_.-]", "_", tag)
    path = os.path.join(rundir, "scripts-%s.txt" % tag)
    with open(path, "w") as f:
        for t in script_texts:
            f.write(t)
    first = 0
    prog = os.path.join(rundir, "progress-%s.bin" % tag)
    fails, records = [], []
    tot_scripts = tot_steps = 0
    e = dict(os.environ)
    e["ASAN_OPTIONS"] = ASAN_OPTS
    e["LC_ALL"] = "C"
    e.update(env or {})
    e["VH_PROGRESS"] = prog
    n = len(script_texts)
    restarts = 0
    while first < n and _hangs["n"] < MAX_HANGS:
        errp = os.path.join(rundir, "stderr-%s.txt" % tag)
        with open(errp, "wb") as ef:
            try:
                r = subprocess.run([exe] + list(args) + [path, str(first)], stdout=subprocess.PIPE, stderr=ef, env=e,
                                   timeout=timeout, cwd=rundir)
                out = r.stdout.decode("latin-1")
                rc = r.returncode
            except subprocess.TimeoutExpired as te:
                out = (te.stdout or b"").decode("latin-1")
                rc = -9
        done = False
        died = None
        seen_sids = []
        for line in out.splitlines():
            c = line[:1]
            if c == "X":
                p = line.split(" ", 5)
                rest = p[5] if len(p) > 5 else ""
                m = re.match(r"exp=(\S*) got=(\S*)(?: ret=(\S*))?", rest)
                fails.append(StepFail(int(p[1]), int(p[2]), p[3], p[4], m.group(1) if m else "", m.group(2) if m else rest,
                                      detail=(m.group(3) or "") if m else ""))
            elif c == "R":
                p = line.split(" ", 4)
                records.append((int(p[1]), int(p[2]), p[3], p[4] if len(p) > 4 else ""))
            elif c in "CHQ" and line[1:2] == " ":
                p = line.split(" ")
                died = (c, int(p[1]), int(p[2]), p[3] if len(p) > 3 else "")
            elif line.startswith("DONE "):
                p = line.split()
                tot_scripts += int(p[1])
                tot_steps += int(p[2])
                done = True
        if done and died is None:
            break
        # the process died: find the script
        err = open(errp, "rb").read().decode("latin-1")
        if died is None:
            # no C/H/Q line (the process died inside the sanitizer's own report, was killed, ...): use the shared progress record
            import struct
            try:
                raw = open(prog, "rb").read()
                psid, pstep, pin = struct.unpack_from("lii", raw, 0)
                pop = raw[16:56].split(b"\0", 1)[0].decode("latin-1")
            except Exception:
                psid, pstep, pin, pop = -1, -1, 0, ""
            if pin and psid >= 0:
                died = ("C", psid, pstep, pop or "?")
            else:
                raise Broken("harness %s died without a death record (rc=%s); stderr tail:\n%s" % (exe, rc, err[-2000:]))
        kind = {"C": "crash", "H": "hang", "Q": "exit"}[died[0]]
        if kind == "hang":
            _hangs["n"] += 1
        sig = asan_signature(err) if kind == "crash" else (kind, "")
        if kind == "exit" and "atal" in err:
            sig = ("fatal-exit", "")
        fails.append(StepFail(died[1], died[2], kind, died[3], sig="%s@%s" % sig, detail=err[-1500:] if kind != "crash" else _asan_brief(err)))
        # locate ordinal of the dead script
        sid_line = "S %d\n" % died[1]
        idx = None
        for k in range(first, n):
            if script_texts[k].startswith(sid_line):
                idx = k
                break
        if idx is None:
            raise Broken("cannot locate dead script %s" % (died,))
        tot_scripts += idx - first + 1
        first = idx + 1
        restarts += 1
    try:
        os.unlink(path)
    except OSError:
        pass
    return fails, records, tot_scripts, tot_steps


def _asan_brief(err):
    i = err.find("ERROR: AddressSanitizer")
    return err[i:i + 1800] if i >= 0 else err[-1200:]


def run_scripts(exe, args, script_texts, rundir, jobs=None, env=None, timeout=3600, tag="r"):
    """Runs all scripts, split over `jobs` processes.  Returns (fails, records, nscripts, nsteps)."""
    if not script_texts:
        return [], [], 0, 0
    if _hangs["n"] >= MAX_HANGS:
        raise Broken("%d scripts hung (watchdog): the implementation does not make progress; stopping the check" % _hangs["n"])
    # the number of harness processes follows the machine (VERIF_JOBS, default: all cores), not the caller's hint: the hints
    # date from the time when ten builders shared the machine
    jobs = max(1, min(NCPU, (len(script_texts) + 49) // 50))
    # interleave so that each process gets a similar mix
    parts = [script_texts[i::jobs] for i in range(jobs)]
    fails, records = [], []
    ns = nt = 0
    with ThreadPoolExecutor(jobs) as ex:
        futs = [ex.submit(_run_one, exe, args, parts[i], rundir, "%s-%d-%d" % (tag, os.getpid(), i), env, timeout) for i in range(jobs)]
        for f in futs:
            a, b, c, d = f.result()
            fails += a
            records += b
            ns += c
            nt += d
    return fails, records, ns, nt
