--------------------------------- MODULE TokObj ---------------------------------
(* C12, the tok OBJECT with a history: one spif_tok_t is given a source (spif_tok_set_src), possibly another  *)
(* separator (spif_tok_set_sep), and evaluated - again and again.  STATED: the tok class produces exactly the  *)
(* token list of the quoting grammar for its input, i.e. after every evaluation the token list is             *)
(* TokEval(current separator, current source) of Quote.tla and nothing of an earlier source survives -        *)
(* in particular when the new source is empty or holds only delimiters.                                       *)
(* State: the object (osep, osrc, otoks, oev) and the history of evaluations so far (hist), which is the       *)
(* replay script: every generated history is executed on ONE real object, the token list compared after        *)
(* every evaluation.  The scanner variables of Quote.tla stay idle here.                                       *)
EXTENDS Quote

CONSTANTS HistSources,      \* source texts offered to set_src
          HistSeps,         \* separator strings offered (<<>> = none: white space)
          HistMax,          \* evaluations per object
          LongHistSources   \* sources offered when a history grows beyond two evaluations

VARIABLES osep, osrc,       \* the object's current separator and source
          otoks,            \* its token list
          oev,              \* it has been evaluated at least once
          hist              \* <<[d, s, toks], ...>>: the evaluations so far with the expected list after each
ovars == <<osep, osrc, otoks, oev, hist>>

Idle == /\ s = <<>> /\ d = <<>> /\ pos = 1 /\ quote = 0 /\ cur = <<>> /\ toks = <<>> /\ intok = FALSE /\ done = FALSE

HInit == Idle /\ osep = <<>> /\ osrc = <<>> /\ otoks = <<>> /\ oev = FALSE /\ hist = <<>>

\* set_src(ss) [+ set_sep(dd)] + eval on the same object; long = this is the third or a later evaluation of the object
\* (then only the short sources are offered, and only to objects whose whole history is short)
EvalWith(dd, ss, long) ==
    LET ts == TokEval(dd, ss) IN
    /\ (Len(hist) >= 2) = long
    /\ Len(hist) < HistMax
    /\ (long => \A k \in 1 .. Len(hist) : hist[k].s \in LongHistSources)
    /\ osep' = dd /\ osrc' = ss /\ otoks' = ts /\ oev' = TRUE
    /\ hist' = Append(hist, [d |-> dd, s |-> ss, toks |-> ts])
    /\ UNCHANGED vars
    /\ (Len(hist) >= 1 => Obs("history", hist', ts, TRUE))
OpEvalFresh(dd, ss)             == ~oev /\ EvalWith(dd, ss, FALSE)                   \* first evaluation of a new object
OpEvalAgain(ss, long)           == oev /\ EvalWith(osep, ss, long)                   \* new source, same separator
OpEvalAgainNewSep(dd, ss, long) == oev /\ dd # osep /\ EvalWith(dd, ss, long)       \* new source and new separator

\* (disjuncts over CONSTANT sets, so that TLC reports one coverage count per action)
HNext == \/ \E ss \in HistSources : \/ OpEvalAgain(ss, FALSE)
                                     \/ \E dd \in HistSeps : OpEvalFresh(dd, ss) \/ OpEvalAgainNewSep(dd, ss, FALSE)
         \/ \E ss \in LongHistSources : OpEvalAgain(ss, TRUE) \/ \E dd \in HistSeps : OpEvalAgainNewSep(dd, ss, TRUE)
HSpec == HInit /\ [][HNext]_<<vars, ovars>>

(* laws *)
OnlyDelims(dd, ss) == \A k \in 1 .. Len(ss) : IsDelim(dd, ss[k])
\* S: the token list is a function of the CURRENT separator and source alone
TokensOfCurrentSourceOnly == oev => /\ otoks = TokEval(osep, osrc)
                                    /\ hist[Len(hist)] = [d |-> osep, s |-> osrc, toks |-> otoks]
\* S: an empty or all-delimiter source has no tokens, whatever was evaluated before
BlankSourceHasNoTokens == (oev /\ OnlyDelims(osep, osrc)) => otoks = <<>>
\* the same (separator, source) gives the same list at every place of a history
HistoryIrrelevant == \A i \in 1 .. Len(hist), j \in 1 .. Len(hist) :
                        (hist[i].d = hist[j].d /\ hist[i].s = hist[j].s) => hist[i].toks = hist[j].toks
================================================================================
