SPECIFICATION TraceSpec
CONSTANTS
  Limit = 20479
  NameMax = 127
  AppName <- AppNameTr
  AppVersion <- AppVersionTr
  Starts <- StartsNone
  RegOffer <- RegNone
  EnvGet <- EnvTrace
  DirGet <- DirTrace
  Obs <- ObsTrace
INVARIANTS OutputBounded NeverReadsPastEnd
CHECK_DEADLOCK FALSE
