-------------------------------- MODULE CmpRef --------------------------------
(* Reference comparison operators shared by Cmp.tla (laws of the reference, checked over a bounded *)
(* universe) and CmpLaws.tla (the implementation's recorded comparison tables).                    *)
EXTENDS Integers, Sequences

CmpInt(a, b) == IF a < b THEN -1 ELSE IF a > b THEN 1 ELSE 0

RECURSIVE LexCmp(_, _)
LexCmp(s, t) == IF s = <<>> /\ t = <<>> THEN 0
                ELSE IF s = <<>> THEN -1
                ELSE IF t = <<>> THEN 1
                ELSE IF Head(s) # Head(t) THEN CmpInt(Head(s), Head(t))
                ELSE LexCmp(Tail(s), Tail(t))

RefCmp(kd, p, q) ==
    IF p.null /\ q.null THEN 0
    ELSE IF p.null THEN -1
    ELSE IF q.null THEN 1
    ELSE IF kd = "text" THEN LexCmp(p.v, q.v)
    ELSE LexCmp(p.k, q.k)

================================================================================
