SPECIFICATION Spec
CONSTANTS
  MaxLen = 40
  NRand = 24
  BitStep = 11
  NRandSeeds = 3
  Keys <- MCKeys
  Seeds <- MCSeeds
  Obs <- ObsEmit
INVARIANTS TypeOK JenkinsSame Jenkins32Law MixReversible FnvShiftAdd RangeOK
CHECK_DEADLOCK FALSE
