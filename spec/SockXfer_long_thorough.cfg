SPECIFICATION Spec
CONSTANTS
  Lens <- LensLongThorough
  Modes <- ModesAll
  KW = 0
  KR = 0
  WPats <- WPatsLong
  RPats <- RPatsLong
  PathLens <- DefaultPath
  SunPathMax = 107
  QueueCap = 250
  Chunk = 4096
  SendMech = "repaired"
  RecvMech = "repaired"
  Obs <- ObsEmit
INVARIANTS TypeOK PairEstablished CursorInsideBuffer SizeNeverShrinksBelowData CursorTracksData EofEndsLoop SendCompleteMeansAll ReceivedEqualsSent CallBudget
CHECK_DEADLOCK TRUE
