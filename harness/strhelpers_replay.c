/* C13: runs the cases emitted by TLC from spec/StrHelpers.tla on the real helpers.
 * usage: strhelpers_replay <scriptfile> [first]
 * Steps (state token is always "-"):
 *   strncpy <size> <src> <buf0> = {buf=[size bytes],ret=T|F}    spiftool_safe_strncpy(dest, src, size)
 *   strncat <size> <src> <buf0> = {buf=[size bytes],ret=T|F}    spiftool_safe_strncat(dest, src, size)
 *        dest = the middle `size` bytes of an exact-size heap block  [16 guard bytes | size | 16 guard bytes];
 *        the guard zones are compared after the call (writes there are not visible to ASan),
 *        everything outside the block is ASan redzone.  src is an exact-size heap copy.
 *   strncpy_roomy | strncat_roomy <size> <src> <buf0> = {buf=[..],ret=T|F}   declared size up to INT_MAX, buf0 = the bytes the
 *        reference models (old string + source + NUL); the block is exactly that long, a guard byte follows
 *   strncpy_alias <size> <k> <mem> = {buf=[mem afterwards],ret=T|F}   spiftool_safe_strncpy(buf, buf + k, size): same buffer
 *   substr  <s> <idx> <cnt>     = [..] | -                      spiftool_substr (NULL = "-")
 *   chomp|condense|down|up|rev <s> = [..]      the in-place helper on an exact-size heap copy of s (len+1 bytes:
 *        byte -1 and byte len+1 are redzone); the returned pointer must be the argument (condense: may be realloc'd)
 *   al <helper> <a> <s> [<ns>] = [..] | [[..],..]   the helper (chomp|condense|down|up|rev|safe) on s placed a = 0..7 bytes
 *        behind an aligned address, after an adversarial prelude at the same address (see aligned_op)
 *   safe <s> = [[..],..]                        spiftool_safe_str(copy of s, n) for n = 0..len
 */
#include "c12_util.h"

#define GUARD 16
#define GBYTE 0xA5

static void vh_begin(void) { }
static void vh_end(void) { }
static char msg[160];

static const char *copy_op(int cat, int roomy, const vh_step_t *st, vh_sb *ret) {
    long size = vh_int(st->args[0]), i; long declared = size; size_t sl, bl;
    unsigned char *src = cu_text(st->args[1], &sl), *b0 = vh_bytes(st->args[2], &bl, 0), *blk, *dest;
    spif_bool_t r; const char *bad = NULL;
    if (roomy) {
        /* the declared size is larger than everything that has to be written (up to INT_MAX): the block holds the bl bytes
         * the reference models, the byte behind them is already a guard byte */
        if ((long) bl > size || bl < 1) { free(src); free(b0); return "bad_case:roomy_buffer_longer_than_size"; }
        size = (long) bl;
    }
    if ((long) bl != size || size < 1) { free(src); free(b0); return "bad_case:buffer_length!=size"; }
    blk = (unsigned char *) malloc((size_t) size + 2 * GUARD);
    memset(blk, GBYTE, (size_t) size + 2 * GUARD);
    dest = blk + GUARD;
    /* adversarial prelude (purity): the same call just before, on the same addresses, with a different source of the
     * same length, and errno left at ERANGE; then the buffers are refilled and the real call is made */
    if (sl > 0) {
        size_t k;
        memcpy(dest, b0, (size_t) size);
        for (k = 0; k < sl; k++) { unsigned char c = src[k]; src[k] = (unsigned char) ((c == 'q') ? 'r' : 'q'); }
        if (cat) (void) spiftool_safe_strncat((spif_charptr_t) dest, (spif_charptr_t) src, (spif_int32_t) declared);
        else (void) spiftool_safe_strncpy((spif_charptr_t) dest, (spif_charptr_t) src, (spif_int32_t) declared);
        { unsigned char *again = cu_text(st->args[1], NULL); memcpy(src, again, sl + 1); free(again); }
        memset(blk, GBYTE, (size_t) size + 2 * GUARD);
    }
    errno = ERANGE;
    memcpy(dest, b0, (size_t) size);
    r = cat ? spiftool_safe_strncat((spif_charptr_t) dest, (spif_charptr_t) src, (spif_int32_t) declared)
            : spiftool_safe_strncpy((spif_charptr_t) dest, (spif_charptr_t) src, (spif_int32_t) declared);
    for (i = 0; i < GUARD && !bad; i++) {
        if (blk[GUARD - 1 - i] != GBYTE) { snprintf(msg, sizeof(msg), "wrote_before_dest:byte_-%ld", i + 1); bad = msg; }
        else if (blk[GUARD + size + i] != GBYTE) { snprintf(msg, sizeof(msg), "wrote_past_size:byte_size+%ld", i); bad = msg; }
    }
    sb_puts(ret, "{buf="); sb_bytes(ret, dest, (size_t) size); sb_puts(ret, ",ret="); sb_bool(ret, r ? 1 : 0); sb_putc(ret, '}');
    free(blk); free(src); free(b0);
    return bad;
}

/* strncpy_alias <size> <k> <mem>: safe_strncpy(buf, buf + k, size) with buf = the bytes of mem inside an exact-size block between
 * two guard zones: source and destination are the SAME buffer (k = 0: truncation in place; k > 0: a tail moved to the front) */
static const char *alias_op(const vh_step_t *st, vh_sb *ret) {
    long size = vh_int(st->args[0]), k = vh_int(st->args[1]), i; size_t ml;
    unsigned char *m = vh_bytes(st->args[2], &ml, 0), *blk, *dest; spif_bool_t r; const char *bad = NULL;
    if (size < 1 || k < 0 || (size_t) k >= ml || (size_t) size > ml || !memchr(m + k, 0, ml - (size_t) k)) { free(m); return "bad_case:alias"; }
    blk = (unsigned char *) malloc(ml + 2 * GUARD);
    memset(blk, GBYTE, ml + 2 * GUARD);
    dest = blk + GUARD;
    memcpy(dest, m, ml);
    errno = ERANGE;
    r = spiftool_safe_strncpy((spif_charptr_t) dest, (spif_charptr_t) (dest + k), (spif_int32_t) size);
    for (i = 0; i < GUARD && !bad; i++) {
        if (blk[GUARD - 1 - i] != GBYTE) { snprintf(msg, sizeof(msg), "wrote_before_dest:byte_-%ld", i + 1); bad = msg; }
        else if (blk[GUARD + ml + (size_t) i] != GBYTE) { snprintf(msg, sizeof(msg), "wrote_past_buffer:byte_+%ld", i); bad = msg; }
    }
    sb_puts(ret, "{buf="); sb_bytes(ret, dest, ml); sb_puts(ret, ",ret="); sb_bool(ret, r ? 1 : 0); sb_putc(ret, '}');
    free(blk); free(m);
    return bad;
}

/* one in-place helper on a fresh exact-size copy; which: 0 chomp 1 condense 2 down 3 up 4 rev 5 safe(n) */
static const char *inplace_one(int which, const char *text, long n, vh_sb *ret) {
    size_t len; unsigned char *s = cu_text(text, &len); spif_charptr_t r = NULL;
    switch (which) {
      case 0: r = spiftool_chomp((spif_charptr_t) s); break;
      case 1: r = spiftool_condense_whitespace((spif_charptr_t) s); s = NULL; break;     /* may have been realloc'd */
      case 2: r = spiftool_downcase_str((spif_charptr_t) s); break;
      case 3: r = spiftool_upcase_str((spif_charptr_t) s); break;
      case 4: r = (spif_charptr_t) strrev((char *) s); break;
      case 5: r = spiftool_safe_str((spif_charptr_t) s, (unsigned short) n); break;
    }
    if (!r) { if (s) free(s); return "returned_NULL"; }
    if (which != 1 && (unsigned char *) r != s) { free(s); return "returned_pointer!=argument"; }
    sb_cstr(ret, (unsigned char *) r);
    if (which == 1) { FREE(r); } else free(s);
    return NULL;
}

static spif_charptr_t call_inplace(int which, unsigned char *p, long n) {
    switch (which) {
      case 0: return spiftool_chomp((spif_charptr_t) p);
      case 2: return spiftool_downcase_str((spif_charptr_t) p);
      case 3: return spiftool_upcase_str((spif_charptr_t) p);
      case 4: return (spif_charptr_t) strrev((char *) p);
      case 5: return spiftool_safe_str((spif_charptr_t) p, (unsigned short) n);
    }
    return NULL;
}
/* al <helper> <a> <s> [<ns>]: the helper on the text placed `a` bytes (0..7) behind a 16-byte aligned heap address,
 * the terminator being the last byte of the block (redzone right behind it).  Before the real call the same helper
 * is run at the SAME address on different content of the same length with errno = ERANGE (purity); the result of the
 * real call is what is compared.  condense (it reallocs its argument) only with a = 0 and without the same-address prelude. */
static const char *aligned_op(const vh_step_t *st, vh_sb *ret) {
    static const char *names[6] = { "chomp", "condense", "down", "up", "rev", "safe" };
    int which = -1, k; long a = vh_int(st->args[1]); size_t len; unsigned char *s = cu_text(st->args[2], &len), *blk, *p;
    static long ns[64]; int nn = 1, q; spif_charptr_t r;
    for (k = 0; k < 6; k++) if (!strcmp(st->args[0], names[k])) which = k;
    if (which < 0 || a < 0 || a > 7 || (which == 1 && a != 0)) { free(s); return "bad_case:al"; }
    ns[0] = 0;
    if (which == 5) {
        if (st->nargs != 4) { free(s); return "bad_case:al_safe_needs_ns"; }
        nn = vh_intlist(st->args[3], ns, 64);
        if (nn > 64) nn = 64;
        sb_putc(ret, '[');
    }
    for (q = 0; q < nn; q++) {
        blk = (unsigned char *) malloc((size_t) a + len + 1);
        p = blk + a;
        if (which == 1) {
            memcpy(p, s, len + 1);
            errno = ERANGE;
            r = spiftool_condense_whitespace((spif_charptr_t) p);
            if (!r) { free(s); return "returned_NULL"; }
            sb_cstr(ret, (unsigned char *) r);
            FREE(r);
            continue;
        }
        cu_alt_content(0, p, s, len);
        errno = ERANGE;
        (void) call_inplace(which, p, ns[q]);
        memcpy(p, s, len + 1);
        errno = EINTR;
        r = call_inplace(which, p, ns[q]);
        if ((unsigned char *) r != p) { free(blk); free(s); return "returned_pointer!=argument"; }
        if (q) sb_putc(ret, ',');
        sb_cstr(ret, p);
        free(blk);
    }
    if (which == 5) sb_putc(ret, ']');
    free(s);
    return NULL;
}

static const char *do_step(const vh_step_t *st, vh_sb *ret, vh_sb *state) {
    const char *op = st->op, *bad;
    sb_putc(state, '-');
    if (!strcmp(op, "strncpy") && st->nargs == 3) return copy_op(0, 0, st, ret);
    if (!strcmp(op, "strncat") && st->nargs == 3) return copy_op(1, 0, st, ret);
    if (!strcmp(op, "strncpy_alias") && st->nargs == 3) return alias_op(st, ret);
    if (!strcmp(op, "strncpy_roomy") && st->nargs == 3) return copy_op(0, 1, st, ret);
    if (!strcmp(op, "strncat_roomy") && st->nargs == 3) return copy_op(1, 1, st, ret);
    if (!strcmp(op, "al") && (st->nargs == 3 || st->nargs == 4)) return aligned_op(st, ret);
    if (!strcmp(op, "substr") && st->nargs == 3) {
        unsigned char *s = cu_text(st->args[0], NULL);
        spif_charptr_t r = spiftool_substr((spif_charptr_t) s, (spif_int32_t) vh_int(st->args[1]), (spif_int32_t) vh_int(st->args[2]));
        sb_cstr(ret, (unsigned char *) r);
        if (r) FREE(r);
        free(s);
        return NULL;
    }
    if (st->nargs == 1) {
        static const char *names[5] = { "chomp", "condense", "down", "up", "rev" };
        int k;
        for (k = 0; k < 5; k++) {
            if (!strcmp(op, names[k])) return inplace_one(k, st->args[0], 0, ret);
        }
        if (!strcmp(op, "safe")) {
            long len, n; size_t l; unsigned char *tmp = cu_text(st->args[0], &l);
            len = (long) l; free(tmp);
            sb_putc(ret, '[');
            for (n = 0; n <= len; n++) {
                if (n) sb_putc(ret, ',');
                if ((bad = inplace_one(5, st->args[0], n, ret))) return bad;
            }
            sb_putc(ret, ']');
            return NULL;
        }
    }
    snprintf(msg, sizeof(msg), "unknown_op_%s/%d", op, st->nargs);
    return msg;
}

/* every step at every run-time debug level of VH_LEVELS (c12_util.h) */
static const char *vh_step(const vh_step_t *st, vh_sb *ret, vh_sb *state) { return cu_step_at_levels(do_step, st, ret, state); }

int main(int argc, char **argv) {
    libast_set_program_name("strhelpers_replay");
    DEBUG_LEVEL = 0;
    cu_levels_init();
    return vh_main(argc, argv, 1);
}
