"""Content-addressed builds of /repo's library (ASan, hooks on) and of harness executables.

Everything is compiled from the CURRENT working tree of the repository; the cache key is a
hash over all sources, headers, config.h and the flags, so an edited tree is always rebuilt.
Nothing is written inside the repository.
"""
import os, hashlib, subprocess, glob, fcntl, shutil, time, re
from concurrent.futures import ThreadPoolExecutor
from .core import VERIF, BUILD, REPO, NCPU, Broken, log

CC = "clang"
LIB_SOURCES = ("array builtin_hashes conf debug dlinked_list file linked_list mbuff mem module msgs obj "
               "objpair options pthreads regexp socket str strings snprintf tok url ustr").split()
BASE_CFLAGS = ["-O1", "-g", "-fno-omit-frame-pointer", "-fno-optimize-sibling-calls", "-w",
               "-DHAVE_CONFIG_H", "-DLIBAST_VERIF"]
ASAN = ["-fsanitize=address"]
LIBS = ["-lpcre", "-lX11", "-ldl", "-lm"]


def _sha_files(paths, extra):
    h = hashlib.sha256()
    for p in sorted(paths):
        h.update(p.encode())
        with open(p, "rb") as f:
            h.update(f.read())
    h.update(repr(extra).encode())
    return h.hexdigest()[:16]


def repo_inputs(repo=REPO):
    fs = [os.path.join(repo, "src", s + ".c") for s in LIB_SOURCES]
    fs += glob.glob(os.path.join(repo, "include", "*.h")) + glob.glob(os.path.join(repo, "include", "libast", "*.h"))
    fs.append(os.path.join(repo, "config.h"))
    for f in fs:
        if not os.path.exists(f):
            raise Broken("missing repository input " + f)
    return fs


def _prune(keep_prefix, keep):
    """Remove old cache entries of one family (keeps disk use bounded)."""
    ents = [d for d in glob.glob(os.path.join(BUILD, keep_prefix + "*")) if os.path.isdir(d)]
    ents.sort(key=lambda d: os.path.getmtime(d), reverse=True)
    for d in ents[keep:]:
        shutil.rmtree(d, ignore_errors=True)


def include_flags(repo, shim=None):
    inc = []
    if shim:
        inc.append("-I" + shim)
    inc += ["-I" + repo, "-I" + os.path.join(repo, "include"), "-I" + os.path.join(repo, "include", "libast")]
    return inc


def make_shim(repo, debug_level):
    """A directory holding a config.h identical to the repository's but with another DEBUG."""
    src = open(os.path.join(repo, "config.h")).read()
    new, n = re.subn(r"^#define DEBUG \d+\s*$", "#define DEBUG %d" % debug_level, src, flags=re.M)
    if n != 1:
        raise Broken("cannot rewrite DEBUG in config.h")
    key = hashlib.sha256(new.encode()).hexdigest()[:12]
    d = os.path.join(BUILD, "shim-%s" % key)
    os.makedirs(d, exist_ok=True)
    p = os.path.join(d, "config.h")
    if not os.path.exists(p):
        with open(p + ".tmp%d" % os.getpid(), "w") as f:
            f.write(new)
        os.replace(p + ".tmp%d" % os.getpid(), p)
    return d


def build_lib(repo=REPO, debug_level=None, asan=True, defines=(), tag=""):
    """Returns (libdir, cflags) where libdir/libast.a is the current tree compiled with the flags."""
    os.makedirs(BUILD, exist_ok=True)
    shim = make_shim(repo, debug_level) if debug_level is not None else None
    cflags = BASE_CFLAGS + (ASAN if asan else []) + ["-D" + d for d in defines]
    inc = include_flags(repo, shim)
    key = _sha_files(repo_inputs(repo), (cflags, debug_level, tag))
    libdir = os.path.join(BUILD, "lib-" + key)
    lock = open(os.path.join(BUILD, ".lock-lib-" + key), "w")
    fcntl.flock(lock, fcntl.LOCK_EX)
    try:
        if not os.path.exists(os.path.join(libdir, "libast.a")):
            t0 = time.time()
            tmp = libdir + ".tmp%d" % os.getpid()
            shutil.rmtree(tmp, ignore_errors=True)
            os.makedirs(tmp)

            def cc(s):
                cmd = [CC] + cflags + inc + ["-c", os.path.join(repo, "src", s + ".c"), "-o", os.path.join(tmp, s + ".o")]
                r = subprocess.run(cmd, capture_output=True, text=True)
                if r.returncode != 0:
                    raise Broken("compile failed: %s\n%s" % (" ".join(cmd), r.stderr[-3000:]))
            with ThreadPoolExecutor(NCPU) as ex:
                list(ex.map(cc, LIB_SOURCES))
            subprocess.check_call(["ar", "rcs", os.path.join(tmp, "libast.a")] + [os.path.join(tmp, s + ".o") for s in LIB_SOURCES])
            for s in LIB_SOURCES:
                os.unlink(os.path.join(tmp, s + ".o"))
            shutil.rmtree(libdir, ignore_errors=True)
            os.rename(tmp, libdir)
            log("built libast (%s) in %.1fs -> %s" % (" ".join(cflags[-3:]), time.time() - t0, libdir))
            _prune("lib-", 120)
        else:
            os.utime(libdir)
    finally:
        fcntl.flock(lock, fcntl.LOCK_UN)
        lock.close()
    return libdir, cflags + inc


def build_harness(name, sources, libdir, cflags, extra=(), ldflags=(), link_lib=True):
    """Compile harness/<sources> against the library; returns the executable path."""
    srcs = [s if os.path.isabs(s) else os.path.join(VERIF, "harness", s) for s in sources]
    deps = srcs + glob.glob(os.path.join(VERIF, "harness", "*.h"))
    key = _sha_files(deps, (libdir, cflags, extra, ldflags, link_lib))
    exe = os.path.join(BUILD, "bin", "%s-%s" % (name, key))
    os.makedirs(os.path.dirname(exe), exist_ok=True)
    lock = open(os.path.join(BUILD, ".lock-bin-" + name), "w")
    fcntl.flock(lock, fcntl.LOCK_EX)
    try:
        if not os.path.exists(exe):
            cmd = [CC] + cflags + list(extra) + ["-I" + os.path.join(VERIF, "harness")] + srcs
            if link_lib:
                cmd += [os.path.join(libdir, "libast.a")]
            cmd += list(ldflags) + LIBS + ["-o", exe + ".tmp%d" % os.getpid()]
            r = subprocess.run(cmd, capture_output=True, text=True)
            if r.returncode != 0:
                raise Broken("harness compile failed: %s\n%s" % (" ".join(cmd), r.stderr[-4000:]))
            os.replace(exe + ".tmp%d" % os.getpid(), exe)
            old = sorted(glob.glob(os.path.join(BUILD, "bin", name + "-*")), key=os.path.getmtime, reverse=True)
            for o in old[40:]:
                try:
                    os.unlink(o)
                except OSError:
                    pass
    finally:
        fcntl.flock(lock, fcntl.LOCK_UN)
        lock.close()
    return exe
