/* C18 replay harness: evaluates TLC-generated hash vectors on the real spifhash_* functions.
 *
 * Script step:   <fn> <key> <seed> = <expected> same
 *   fn       jenkins | jenkinsLE | jenkins32 | rotating | one_at_a_time | fnv
 *   key      [b0,b1,...] bytes; for jenkins32 [[hi,lo],...] = the 32-bit words (two 16-bit limbs each)
 *   seed     [hi,lo]
 *   expected [hi,lo]  (or ? to record the value: trace validation)
 *
 * Every vector is evaluated at all 8 start alignments (address mod 8 = 0..7) in these placements:
 *   E   exact-size heap block of a+len bytes, key in its last len bytes: the key ENDS at the ASan redzone
 *       (a = 0: it also STARTS right behind the left redzone); the a bytes before the key hold 0xA5
 *   E2  (a > 0) the same with 0x5A before the key: a value that depends on bytes before the key shows up
 *   M   block of 8+a+len+tail bytes whose first 8-byte granule is poisoned by hand: for a = 0 the key starts right
 *       behind a poisoned granule at an address that is 8 mod 16; foreign bytes on both sides
 *   P   purity under an adversarial prelude: the function is first called on the SAME address and length holding the
 *       complemented bytes (a cache keyed by address+length would now be stale), errno is preset to ERANGE, then the
 *       real key is written to the same place and hashed (at odd alignments with the run-time debug level raised
 *       to 5): the value must be the same as everywhere else
 *   B   the six PUBLIC functions called BY NAME (not through a function pointer) on ONE buffer whose contents are rewritten
 *       between the calls: a straight-line pair (complemented bytes, then the key) and a 3-round loop (two other contents,
 *       then the key), same pointer / length / seed every time.  The header is part of the contract: a prototype
 *       attribute that lets an optimising caller merge or hoist these calls shows here.  The check runs this harness built
 *       at -O1 and at -O2.
 *   N   (empty key only) the key given as (NULL, 0, seed): the definitions never touch the key when the length is 0,
 *       so NULL is one more legitimate place for the empty key
 * Further step kinds:
 *   steps [a,b,c,byte] <seed> = [8 values] same     the native step/finish operators of c18_ref.h against TLC's (OpSteps)
 *   huge <fn> <len [hi,lo]> <align> <seed> = * ok   extreme lengths (2^31 .. 2^32-1 bytes, 2^30.. words): the key is a lazily
 *        zeroed MAP_NORESERVE mapping with a few non-zero islands (start, around 2^30, 2^31, 3*2^30, end); the library's
 *        value must equal the fold of the (TLC-bound) native step operators over the same bytes
 * On every ordinary vector the native fold is also compared with TLC's expected value (disagreement = machinery error).
 * ASan therefore sees any read outside [key, key+len); the returned token is the value of the first
 * placement, the state token is "same" iff every placement returned that value.
 */
#include "common.h"
#include <stdint.h>
#include <sys/mman.h>
#include "c18_ref.h"

typedef spif_uint32_t (*hfn_t)(spif_uint8_t *, spif_uint32_t, spif_uint32_t);
#define H_CALLS_PER_VECTOR 44          /* E:8 E2:7 M:8 P:8x2 B:2+3 */
#define H_EXTRA_CALLS_EMPTY_KEY 2       /* N at run-time debug level 0 and 5 */

static int key_modified = 0;
static volatile spif_uint32_t prelude_sink = 0;
static void vh_begin(void) { key_modified = 0; }
static void vh_end(void) { }

static void die_machinery(const char *msg) {
    fprintf(stderr, "hash_replay: machinery error: %s\n", msg);
    fflush(stderr);
    vh_in_script = 0;
    _exit(2);
}

/* all unsigned integers of a token, brackets and commas ignored */
static size_t all_ints(const char *t, unsigned long *out, size_t max) {
    size_t n = 0; const char *p = t;
    while (*p) {
        if (*p >= '0' && *p <= '9') {
            char *e; unsigned long v = strtoul(p, &e, 10);
            if (n < max) out[n] = v;
            n++; p = e;
        } else p++;
    }
    return n;
}

static hfn_t lookup(const char *op, int *words) {
    *words = 0;
    if (!strcmp(op, "jenkins")) return spifhash_jenkins;
    if (!strcmp(op, "jenkinsLE")) return spifhash_jenkinsLE;
    if (!strcmp(op, "jenkins32")) { *words = 1; return spifhash_jenkins32; }
    if (!strcmp(op, "rotating")) return spifhash_rotating;
    if (!strcmp(op, "one_at_a_time")) return spifhash_one_at_a_time;
    if (!strcmp(op, "fnv")) return spifhash_fnv;
    return NULL;
}

/* one evaluation: key bytes copied to blk+off, blk of exactly total bytes, optional poisoned first granule */
static spif_uint32_t eval_at(hfn_t fn, const unsigned char *kb, size_t nbytes, spif_uint32_t lenarg, spif_uint32_t seed,
                             size_t off, size_t tail, unsigned char fill, int poison_first, unsigned want_align, int prelude)
{
    size_t total = off + nbytes + tail, i;
    unsigned char *blk = (unsigned char *) malloc(total ? total : 1);
    unsigned char *key;
    spif_uint32_t r;

    if (!blk) die_machinery("malloc failed");
    if (((uintptr_t) blk) & 15) die_machinery("allocator does not return 16-byte aligned blocks");
    for (i = 0; i < off; i++) blk[i] = (unsigned char) (fill + (poison_first ? i * 29 : 0));
    for (i = 0; i < tail; i++) blk[off + nbytes + i] = (unsigned char) (~fill + i * 31);
    key = blk + off;
    if (nbytes) memcpy(key, kb, nbytes);
    if ((((uintptr_t) key) & 7) != want_align) die_machinery("key alignment is not the requested one");
#ifdef VH_ASAN
    if (total == 0) __asan_poison_memory_region(blk, 1);           /* len 0 at the block start: nothing is readable */
    if (poison_first) __asan_poison_memory_region(blk, 8);
#endif
    if (prelude) {
        for (i = 0; i < nbytes; i++) key[i] = (unsigned char) ~kb[i];
        prelude_sink ^= fn((spif_uint8_t *) key, lenarg, seed);
        if (nbytes) memcpy(key, kb, nbytes);
        errno = ERANGE;
        if (want_align & 1) libast_debug_level = (want_align == 1) ? 1 : ((want_align == 3) ? 3 : 5);   /* nor on the run-time debug level */
    }
    r = fn((spif_uint8_t *) key, lenarg, seed);
    libast_debug_level = 0;
#ifdef VH_ASAN
    if (total == 0) __asan_unpoison_memory_region(blk, 1);
    if (poison_first) __asan_unpoison_memory_region(blk, 8);
#endif
    /* the key must be untouched (the functions take a non-const pointer) */
    if (nbytes && memcmp(key, kb, nbytes)) key_modified = 1;
    free(blk);
    return r;
}


/* ---- calls by name on one rewritten buffer ------------------------------------------------------------------ */
/* r[0]: straight-line pair, value of the 2nd call; r[1..3]: the loop's three values (only r[3] hashes the key itself;
 * r[1], r[2] are kept so that the calls cannot be dropped) */
#define BYNAME_BODY(FN) do { \
        for (i = 0; i < n; i++) buf[i] = (unsigned char) ~kb[i]; \
        sink ^= FN((spif_uint8_t *) buf, lenarg, seed); \
        for (i = 0; i < n; i++) buf[i] = kb[i]; \
        r[0] = FN((spif_uint8_t *) buf, lenarg, seed); \
        for (round = 0; round < 3; round++) { \
            for (i = 0; i < n; i++) buf[i] = (unsigned char) (kb[i] ^ (round == 0 ? 0x55 : (round == 1 ? 0xFF : 0x00))); \
            r[1 + round] = FN((spif_uint8_t *) buf, lenarg, seed); \
        } \
    } while (0)
static volatile spif_uint32_t sink = 0;
static int byname(const char *op, unsigned char *buf, const unsigned char *kb, size_t n, spif_uint32_t lenarg, spif_uint32_t seed,
                  spif_uint32_t r[4])
{
    size_t i; int round;
    if (!strcmp(op, "jenkins")) BYNAME_BODY(spifhash_jenkins);
    else if (!strcmp(op, "jenkinsLE")) BYNAME_BODY(spifhash_jenkinsLE);
    else if (!strcmp(op, "jenkins32")) BYNAME_BODY(spifhash_jenkins32);
    else if (!strcmp(op, "rotating")) BYNAME_BODY(spifhash_rotating);
    else if (!strcmp(op, "one_at_a_time")) BYNAME_BODY(spifhash_one_at_a_time);
    else if (!strcmp(op, "fnv")) BYNAME_BODY(spifhash_fnv);
    else return -1;
    return 5;
}

/* ---- extreme lengths ------------------------------------------------------------------------------------ */
#define HUGE_SPAN ((uint64_t) 1 << 32)
static unsigned char *huge_base = NULL;
static uint64_t island_pos[64]; static int n_islands = 0;

static void huge_islands(unsigned char *key, uint64_t nbytes, uint32_t salt)
{
    static const uint64_t marks[] = { 0, (uint64_t) 1 << 30, ((uint64_t) 1 << 31) - 8, ((uint64_t) 1 << 31) + 5, (uint64_t) 3 << 30 };
    uint64_t x = 88172645463325252ULL ^ salt; size_t m; int j;
    for (j = 0; j < n_islands; j++) memset(huge_base + island_pos[j], 0, 16);      /* back to all-zero */
    n_islands = 0;
#define ISLAND(POS, CNT) do { uint64_t p_ = (POS); int q_; \
        island_pos[n_islands++] = (uint64_t) ((key + p_) - huge_base); \
        for (q_ = 0; q_ < (CNT); q_++) { x ^= x << 13; x ^= x >> 7; x ^= x << 17; key[p_ + q_] = (unsigned char) ((x >> 24) | 1); } } while (0)
    for (m = 0; m < sizeof(marks) / sizeof(marks[0]); m++)
        if (marks[m] + 13 <= nbytes) ISLAND(marks[m], 13);
    if (nbytes >= 32) ISLAND(nbytes - 14, 14);                                      /* the last bytes, incl. every tail position */
#undef ISLAND
}

static const char *huge_step(const vh_step_t *st, vh_sb *ret, vh_sb *state)
{
    unsigned long lv[2], sd[2]; int words; hfn_t fn; uint64_t units, nbytes; unsigned align; spif_uint32_t seed, lib, ref;
    unsigned char *key;
    if (st->nargs != 4) die_machinery("bad huge step");
    fn = lookup(st->args[0], &words);
    if (!fn || all_ints(st->args[1], lv, 2) != 2 || all_ints(st->args[3], sd, 2) != 2) die_machinery("bad huge step");
    units = ((uint64_t) lv[0] << 16) | lv[1];
    nbytes = words ? units * 4 : units;
    align = (unsigned) atoi(st->args[2]);
    seed = (spif_uint32_t) ((sd[0] << 16) | sd[1]);
    if (units > 0xFFFFFFFFULL || nbytes > HUGE_SPAN + 4096 || align > 7) die_machinery("huge step out of range");
    if (!huge_base) {
        huge_base = (unsigned char *) mmap(NULL, HUGE_SPAN + (1 << 20), PROT_READ | PROT_WRITE,
                                           MAP_PRIVATE | MAP_ANONYMOUS | MAP_NORESERVE, -1, 0);
        if (huge_base == (unsigned char *) MAP_FAILED) die_machinery("cannot map 4 GiB (MAP_NORESERVE)");
    }
    key = huge_base + 4096 + align;
    huge_islands(key, nbytes, (uint32_t) (units * 2654435761U) ^ seed);
    lib = fn((spif_uint8_t *) key, (spif_uint32_t) units, seed);
    ref = c18_ref(st->args[0], key, units, seed);
    sb_printf(ret, "[%u,%u]", (unsigned) (lib >> 16), (unsigned) (lib & 0xffff));
    if (lib == ref) sb_puts(state, "ok");
    else sb_printf(state, "differs:ref=[%u,%u]", (unsigned) (ref >> 16), (unsigned) (ref & 0xffff));
    return NULL;
}

static const char *steps_step(const vh_step_t *st, vh_sb *ret, vh_sb *state)
{
    unsigned long v[8]; uint32_t a, b, c, a0, b0, c0; uint8_t byte; uint32_t out[8]; int i;
    if (st->nargs != 2 || all_ints(st->args[0], v, 8) != 8) die_machinery("bad steps step");
    a0 = a = (uint32_t) ((v[0] << 16) | v[1]); b0 = b = (uint32_t) ((v[2] << 16) | v[3]); c0 = c = (uint32_t) ((v[4] << 16) | v[5]);
    byte = (uint8_t) v[7];
    C18_MIX(a, b, c);
    out[0] = a; out[1] = b; out[2] = c;
    out[3] = c18_oaat_step(b0, byte); out[4] = c18_oaat_fin(c0);
    out[5] = c18_rot_step(b0, byte); out[6] = c18_rot_fin(c0); out[7] = c18_fnv1a_step(b0, byte);
    (void) a0;
    sb_putc(ret, '[');
    for (i = 0; i < 8; i++) sb_printf(ret, "%s[%u,%u]", i ? "," : "", (unsigned) (out[i] >> 16), (unsigned) (out[i] & 0xffff));
    sb_putc(ret, ']');
    sb_puts(state, "same");
    if (strcmp(st->exp_ret, "?") && strcmp(st->exp_ret, ret->p)) {
        fprintf(stderr, "steps: TLC %s native %s\n", st->exp_ret, ret->p);
        die_machinery("native step operators of c18_ref.h disagree with Hashes.tla");
    }
    return NULL;
}

static const char *vh_step(const vh_step_t *st, vh_sb *ret, vh_sb *state)
{
    static unsigned long nums[1 << 16];
    static unsigned char kb[1 << 17];
    unsigned long sd[2];
    int words; size_t n, nbytes, i; unsigned a;
    hfn_t fn;
    spif_uint32_t seed, lenarg, first = 0, v, nref; int have = 0, calls = 0;
    char diff[160]; diff[0] = 0;

    if (!strcmp(st->op, "huge")) return huge_step(st, ret, state);
    if (!strcmp(st->op, "steps")) return steps_step(st, ret, state);
    fn = lookup(st->op, &words);

    if (!fn || st->nargs != 2) die_machinery("bad step");
    n = all_ints(st->args[0], nums, sizeof(nums) / sizeof(nums[0]));
    if (n > sizeof(nums) / sizeof(nums[0])) die_machinery("key too long");
    if (all_ints(st->args[1], sd, 2) != 2) die_machinery("bad seed");
    seed = (spif_uint32_t) ((sd[0] << 16) | sd[1]);
    if (words) {
        if (n % 2) die_machinery("odd limb count");
        nbytes = (n / 2) * 4; lenarg = (spif_uint32_t) (n / 2);
        for (i = 0; i < n / 2; i++) {           /* the words as this host stores them */
            spif_uint32_t w = (spif_uint32_t) ((nums[2 * i] << 16) | nums[2 * i + 1]);
            memcpy(kb + 4 * i, &w, 4);
        }
    } else {
        nbytes = n; lenarg = (spif_uint32_t) n;
        for (i = 0; i < n; i++) kb[i] = (unsigned char) nums[i];
    }

#define NOTE(TAG) do { \
        if (!have) { first = v; have = 1; } \
        else if (v != first && !diff[0]) \
            snprintf(diff, sizeof(diff), "differs:align=%u,place=%s,got=[%u,%u]", a, TAG, (unsigned) (v >> 16), (unsigned) (v & 0xffff)); \
    } while (0)
#define ONE(OFF, TAIL, FILL, POISON, PRELUDE, TAG) do { \
        v = eval_at(fn, kb, nbytes, lenarg, seed, (OFF), (TAIL), (FILL), (POISON), a, (PRELUDE)); calls += 1 + (PRELUDE); \
        if (!have) { first = v; have = 1; } \
        else if (v != first && !diff[0]) \
            snprintf(diff, sizeof(diff), "differs:align=%u,place=%s,got=[%u,%u]", a, TAG, (unsigned) (v >> 16), (unsigned) (v & 0xffff)); \
    } while (0)

    for (a = 0; a < 8; a++) {
        ONE(a, 0, 0xA5, 0, 0, "E");
        if (a) ONE(a, 0, 0x5A, 0, 0, "E2");
        ONE(8 + a, 5 + a, 0x3C, 1, 0, "M");
        ONE(a, 0, 0xC3, 0, 1, "P");
    }
    {
        spif_uint32_t r[4]; unsigned char *buf = (unsigned char *) malloc(nbytes ? nbytes : 1);
        int k = byname(st->op, buf, kb, nbytes, lenarg, seed, r);
        if (k < 0) die_machinery("by-name table");
        calls += k; a = 0;
        v = r[0]; NOTE("B-pair");
        v = r[3]; NOTE("B-loop");
        sink ^= r[1] ^ r[2];
        free(buf);
    }
    if (nbytes == 0) {
        a = 0; v = fn((spif_uint8_t *) NULL, lenarg, seed); calls++;
        NOTE("NULL");
        calls++;
        if (!diff[0]) {     /* (a difference is already on record: report that rather than a possible exit) */
            libast_debug_level = 5; v = fn((spif_uint8_t *) NULL, lenarg, seed); libast_debug_level = 0;
            NOTE("NULL,debug=5");
        }
    }
    if (calls != H_CALLS_PER_VECTOR + (nbytes == 0 ? H_EXTRA_CALLS_EMPTY_KEY : 0)) die_machinery("placement count");
    sb_printf(ret, "[%u,%u]", (unsigned) (first >> 16), (unsigned) (first & 0xffff));
    sb_puts(state, diff[0] ? diff : "same");
    /* the native fold of c18_ref.h against TLC: directly when TLC's value is at hand, otherwise reported for the check to
       compare once TLC has judged the recorded value */
    nref = c18_ref(st->op, kb, lenarg, seed);
    if (strcmp(st->exp_ret, "?")) {
        unsigned long ex[2];
        if (all_ints(st->exp_ret, ex, 2) == 2 && (spif_uint32_t) ((ex[0] << 16) | ex[1]) != nref)
            die_machinery("native fold of c18_ref.h disagrees with TLC's value");
    } else if (nref != first) sb_printf(state, ";nref=[%u,%u]", (unsigned) (nref >> 16), (unsigned) (nref & 0xffff));
    if (key_modified) return "key-bytes-modified";
    return NULL;
}

int main(int argc, char **argv)
{
    /* the reference vectors are those of a little-endian host (the property's stated assumption) */
    { spif_uint32_t one = 1; if (*(unsigned char *) &one != 1) die_machinery("big-endian host: vectors do not apply"); }
    if (argc > 1 && !strcmp(argv[1], "--calls-per-vector")) { printf("%d %d\n", H_CALLS_PER_VECTOR, H_EXTRA_CALLS_EMPTY_KEY); return 0; }
    return vh_main(argc, argv, 1);
}
