#!/bin/sh
# usage: mkseed.sh <ID>  -- scratch git worktree of /repo at /tmp/seed-<ID> with the generated (ignored) build files copied in, built once
ID=$1
git -C /repo worktree add -q /tmp/seed-$ID HEAD || exit 1
rsync -a --ignore-existing --exclude .git /repo/ /tmp/seed-$ID/
cd /tmp/seed-$ID && touch src/*.c && make -j8 >/dev/null 2>&1 && make -C test libast-test >/dev/null 2>&1
mkdir -p /tmp/seed-$ID-out
echo "worktree /tmp/seed-$ID ready: $(git -C /tmp/seed-$ID status --short | wc -l) modified files"
