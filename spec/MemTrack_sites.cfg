SPECIFICATION Spec
CONSTANTS
  Ids = {1, 2}
  Sizes = {8, 24}
  Sites = {1, 5, 6, 7}
  StrLens = {5}
  CallocShapes <- ShapesPool4
  SrcOffsets = {0}
  CallocWraps <- WrapsAll
  HugeSizes <- HugeAll
  Levels = {0, 5}
  Obs <- ObsEmit
INVARIANTS TypeOK TableIsLiveSet UnknownPointerNoChange ReallocNullAllocates ReallocZeroFrees ReallocKeepsOthers RefusedChangesNothing
PROPERTY LevelConstant
CHECK_DEADLOCK FALSE
