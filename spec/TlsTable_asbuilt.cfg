SPECIFICATION Spec
CONSTANTS
  MaxAllocs = 3
  Placeholder = FALSE
  Obs <- ObsNone
INVARIANTS TypeOK HandleStable NoAlias
CHECK_DEADLOCK FALSE
