-------------------------------- MODULE UrlObj --------------------------------
(* C14 (and the url part of C05/C06): libast URL objects.                                       *)
(*                                                                                              *)
(* Reference level.  A URL value is a text (sequence of character codes) and seven optional      *)
(* components.  Parse is the left-to-right scan of the accepted shape                            *)
(*      [proto:][//][user[:passwd]@]host[:port][/path][?query]                                  *)
(* Unparse is the canonical serialiser.  The environment (the protocol / service databases)      *)
(* is a parameter lk of the parse: <<"ip",0>> the protocol word is an IP protocol name,           *)
(* <<"tcp",p>> / <<"udp",p>> it is a tcp / udp service with port p, <<"no",0>> it is neither.         *)
(* The laws of the property statement are stated on the reference itself (section "laws") and    *)
(* model-checked over a universe of component tuples; the object actions (section "object")      *)
(* are what the implementation is bound to by replay and by trace validation.                    *)
(*                                                                                              *)
(* Optional value:  <<>> = absent,  <<s>> = present with text s (s may be empty).                *)
(* Rule kinds (DESIGN.md 3): S = stated by the property, C = as-built convention, I = ideal.     *)
EXTENDS Integers, Sequences, FiniteSets, TLC, Json

CONSTANTS Parts,       \* record: for each of the seven fields the set of texts offered to set / to Assemble
          Texts,       \* texts offered to OpParse
          Lookups,     \* lookup outcomes offered where the default-port rule consults the environment
          WithBuild,   \* BOOLEAN: include new()+setters construction
          Obs(_, _, _, _)

VARIABLES a,       \* slot A: the URL under test
          b,       \* slot B: a copy (dup) or a re-parse of A's text
          fresh    \* model bound only: A was made by new() and not unparsed yet (setters are offered only then)
vars == <<a, b, fresh>>

Fields == <<"proto", "user", "passwd", "host", "port", "path", "query">>
None == <<>>
Some(s) == <<s>>
AllAbsent == [proto |-> None, user |-> None, passwd |-> None, host |-> None, port |-> None, path |-> None, query |-> None]
NoObj == [live |-> FALSE, t |-> <<>>, c |-> AllAbsent]
Mk(t, c) == [live |-> TRUE, t |-> t, c |-> c]

COLON == 58   SLASH == 47   AT == 64   QUEST == 63
IsAlnum(ch) == (ch >= 48 /\ ch <= 57) \/ (ch >= 65 /\ ch <= 90) \/ (ch >= 97 /\ ch <= 122)
AllAlnum(s) == \A i \in 1 .. Len(s) : IsAlnum(s[i])
Sub(t, i, j) == SubSeq(t, i, j)                    \* empty when j < i
\* position of the first ch in t[from..to], 0 if none
First(t, ch, from, to) ==
    LET S == {i \in from .. to : t[i] = ch} IN
    IF S = {} THEN 0 ELSE CHOOSE i \in S : \A j \in S : i <= j
Localhost == <<108, 111, 99, 97, 108, 104, 111, 115, 116>>

------------------------------------------------------------------------------------------
(* Parse: the scan.  Positions are 1-based; pend is the position just behind the authority part. *)
ParseN(t) ==
    LET n      == Len(t)
        colon  == First(t, COLON, 1, n)
        hasPr  == colon > 0 /\ \A i \in 1 .. (colon - 1) : IsAlnum(t[i])     \* S: leading alnum run + ':'
        p0     == IF hasPr THEN colon + 1 ELSE 1
        p1     == IF p0 + 1 <= n /\ t[p0] = SLASH /\ t[p0 + 1] = SLASH THEN p0 + 2 ELSE p0   \* S: optional //
        slash  == First(t, SLASH, p1, n)                                      \* S: path starts at the first /
        q1     == IF slash > 0 THEN First(t, QUEST, slash, n) ELSE First(t, QUEST, p1, n)
        pend   == IF slash > 0 THEN slash ELSE IF q1 > 0 THEN q1 ELSE n + 1
        at     == First(t, AT, p1, pend - 1)                                  \* C: the first @ ends the auth info
        uc     == IF at > 0 THEN First(t, COLON, p1, at - 1) ELSE 0           \* C: the first : splits user / passwd
        p2     == IF at > 0 THEN at + 1 ELSE p1
        hc     == First(t, COLON, p2, pend - 1)                               \* C: the first : splits host / port
    IN [proto  |-> IF hasPr THEN Some(Sub(t, 1, colon - 1)) ELSE None,
        user   |-> IF at > 0 THEN Some(Sub(t, p1, (IF uc > 0 THEN uc ELSE at) - 1)) ELSE None,
        passwd |-> IF at > 0 /\ uc > 0 THEN Some(Sub(t, uc + 1, at - 1)) ELSE None,
        host   |-> IF hc > 0 THEN Some(Sub(t, p2, hc - 1))
                   ELSE IF p2 # pend THEN Some(Sub(t, p2, pend - 1)) ELSE None,
        port   |-> IF hc > 0 THEN Some(Sub(t, hc + 1, pend - 1)) ELSE None,
        path   |-> IF slash > 0 THEN Some(Sub(t, slash, (IF q1 > 0 THEN q1 - 1 ELSE n))) ELSE None,
        query  |-> IF q1 > 0 THEN Some(Sub(t, q1 + 1, n)) ELSE None]

\* decimal text of a port number
RECURSIVE Dec(_)
Dec(k) == IF k < 10 THEN <<48 + k>> ELSE Dec(k \div 10) \o <<48 + (k % 10)>>

\* S: the environment is consulted only when a protocol but no port was given
Consults(c) == c.proto # None /\ c.port = None
\* S: port filled from the service database; a protocol-only match ("ip") or no match ("no") fills nothing
DefPort(c, lk) == IF Consults(c) /\ lk[1] \in {"tcp", "udp"} THEN [c EXCEPT !.port = Some(Dec(lk[2]))] ELSE c
ParseL(t, lk) == DefPort(ParseN(t), lk)

------------------------------------------------------------------------------------------
(* Unparse *)
Opt(o) == IF o = None THEN <<>> ELSE o[1]
\* C: a port without a host gets the host "localhost" (unparse stores it in the object)
Canon(c) == IF c.port # None /\ c.host = None THEN [c EXCEPT !.host = Some(Localhost)] ELSE c
\* text of components c; the // is written iff sl
Assemble(c, sl) ==
    (IF c.proto # None THEN c.proto[1] \o <<COLON>> ELSE <<>>)
    \o (IF sl THEN <<SLASH, SLASH>> ELSE <<>>)
    \o (IF c.user # None
        THEN c.user[1] \o (IF c.passwd # None THEN <<COLON>> \o c.passwd[1] ELSE <<>>) \o <<AT>> ELSE <<>>)
    \o (IF c.host # None
        THEN c.host[1] \o (IF c.port # None THEN <<COLON>> \o c.port[1] ELSE <<>>) ELSE <<>>)
    \o Opt(c.path)
    \o (IF c.query # None THEN <<QUEST>> \o c.query[1] ELSE <<>>)
\* S: canonical text, // iff host
Unparse(c) == Assemble(Canon(c), Canon(c).host # None)
\* the components the canonical text stands for (a password without a user is not written)
TextCanon(c) == LET k == Canon(c) IN IF k.user = None THEN [k EXCEPT !.passwd = None] ELSE k

------------------------------------------------------------------------------------------
(* object: one action per call *)
\* the observable value of a slot: liveness, text, the seven components in the order of Fields
View(o) == [live |-> o.live, t |-> o.t,
            c |-> <<o.c.proto, o.c.user, o.c.passwd, o.c.host, o.c.port, o.c.path, o.c.query>>]
St(x, y) == [a |-> View(x), b |-> View(y)]
Pre == St(a, b)
Step(op, args, ret, x, y, f) == /\ a' = x /\ b' = y /\ fresh' = f /\ Obs(op, args, ret, St(x, y))

\* lookup outcomes worth distinguishing for text t: all of them if the rule consults the environment,
\* otherwise the most adversarial one only (every word is a service): the result must not depend on it
LookupsFor(t) == IF Consults(ParseN(t)) THEN Lookups ELSE {lk \in Lookups : lk[1] = "tcp"}

OpParse(t, lk)  == /\ ~a.live /\ ~b.live
                   /\ Step("parse", <<t, lk>>, TRUE, Mk(t, ParseL(t, lk)), b, FALSE)
OpNew           == /\ WithBuild /\ ~a.live /\ ~b.live
                   /\ Step("new", <<>>, TRUE, Mk(<<>>, AllAbsent), b, TRUE)
\* setter: v = None stores NULL (the old component is released either way)
OpSet(f, v)     == /\ a.live /\ fresh /\ ~b.live /\ a.c[f] # v
                   /\ Step("set", <<f, v>>, TRUE, Mk(a.t, [a.c EXCEPT ![f] = v]), b, TRUE)
OpUnparse       == /\ a.live
                   /\ Step("unparse", <<>>, TRUE, Mk(Unparse(a.c), Canon(a.c)), b, FALSE)
\* I (C05): dup is an equal, independent copy: same text, same components
OpDup           == /\ a.live /\ ~b.live /\ Step("dup", <<>>, TRUE, a, a, fresh)
\* S: parsing the text again (spif_url_new_from_str of A)
OpReparse(lk)   == /\ a.live /\ ~b.live
                   /\ Step("reparse", <<lk>>, TRUE, a, Mk(a.t, ParseL(a.t, lk)), fresh)
OpDelB          == /\ b.live /\ Step("b_del", <<>>, TRUE, a, NoObj, fresh)
OpDel           == /\ a.live /\ Step("del", <<>>, TRUE, NoObj, b, FALSE)
\* the copy is a full citizen: delete A (if still there) and carry on with B
OpAdopt         == /\ b.live /\ Step("adopt", <<>>, TRUE, b, NoObj, FALSE)

Init == a = NoObj /\ b = NoObj /\ fresh = FALSE
Next == \/ \E t \in Texts : \E lk \in LookupsFor(t) : OpParse(t, lk)
        \/ OpNew
        \/ \E i \in 1 .. 7 : \E v \in {None} \cup {Some(s) : s \in Parts[Fields[i]]} : OpSet(Fields[i], v)
        \/ OpUnparse \/ OpDup \/ OpDelB \/ OpDel \/ OpAdopt
        \/ \E lk \in Lookups : lk \in LookupsFor(a.t) /\ OpReparse(lk)
Spec == Init /\ [][Next]_vars

TypeOK == /\ a.live \in BOOLEAN /\ b.live \in BOOLEAN
          /\ (~a.live => a = NoObj) /\ (~b.live => b = NoObj)
------------------------------------------------------------------------------------------
(* laws of the reference, checked over the universe of component tuples (LawSpec: one initial     *)
(* state per tuple, a.c = the tuple)                                                              *)
OptVals(f) == {None} \cup {Some(s) : s \in Parts[f]}
AllTuples == [proto : OptVals("proto"), user : OptVals("user"), passwd : OptVals("passwd"), host : OptVals("host"),
              port : OptVals("port"), path : OptVals("path"), query : OptVals("query")]

Has(o, S)  == o # None /\ \E i \in 1 .. Len(o[1]) : o[1][i] \in S
\* first ':' of the text preceded by alnums only: would be read as a protocol
ProtoLike(t) == LET k == First(t, COLON, 1, Len(t)) IN k > 0 /\ \A i \in 1 .. (k - 1) : IsAlnum(t[i])
\* the accepted shape: a password needs a user, user and port need a host, // needs a host, a path starts with /
WF(c, sl) == /\ (c.passwd # None => c.user # None)
             /\ (c.user # None => c.host # None) /\ (c.port # None => c.host # None)
             /\ (sl => c.host # None)
             /\ (c.host # None => c.host[1] # <<>>)
             /\ (c.path # None => (c.path[1] # <<>> /\ c.path[1][1] = SLASH))
\* syntactic condition under which the text of c can be read back in one way only
Unamb(c, sl) ==
    /\ (c.proto # None => AllAlnum(c.proto[1]))
    /\ (c.proto = None => ~ProtoLike(Assemble(c, sl)))
    /\ ~Has(c.user, {COLON, AT, SLASH, QUEST})
    /\ ~Has(c.passwd, {AT, SLASH, QUEST})
    /\ ~Has(c.host, {COLON, SLASH, QUEST} \cup (IF c.user = None THEN {AT} ELSE {}))
    /\ ~Has(c.port, {SLASH, QUEST} \cup (IF c.user = None THEN {AT} ELSE {}))
    /\ ~Has(c.path, {QUEST})
    /\ (c.path = None => ~Has(c.query, {SLASH}))
    /\ (c.passwd # None => c.user # None)
    /\ ((c.host # None /\ c.host[1] = <<>>) => c.port # None)
    /\ (c.path # None => (c.path[1] # <<>> /\ c.path[1][1] = SLASH))
    /\ ((~sl /\ c.user = None /\ c.host = None /\ c.path # None /\ Len(c.path[1]) >= 2) => c.path[1][2] # SLASH)
    /\ (sl => (c.user # None \/ c.host # None))

\* an object whose text is in step with its components and unambiguous re-parses to exactly its components
\* (its canonical ones: a password without user is not written)
UnparsedIsFixpoint == (a.live /\ a.t = Unparse(a.c) /\ Unamb(TextCanon(a.c), TextCanon(a.c).host # None))
                         => ParseN(a.t) = TextCanon(a.c)

c0 == a.c
\* S: parsing an assembled URL yields exactly its components, with and without //
LawAssembleParse == \A sl \in BOOLEAN : (WF(c0, sl) /\ Unamb(c0, sl)) => ParseN(Assemble(c0, sl)) = c0
\* the syntactic condition is exact on the universe: every other well-formed tuple really is read back differently
LawUnambExact    == \A sl \in BOOLEAN : (WF(c0, sl) /\ ~Unamb(c0, sl)) => ParseN(Assemble(c0, sl)) # c0
\* S: parsing the canonical text yields the canonical components (any tuple, also outside the shape)
LawUnparseParse  == LET k == TextCanon(c0) IN Unamb(k, k.host # None) => ParseN(Unparse(c0)) = k
\* S: unparse . parse . unparse = unparse on every tuple whose canonical text is unambiguous.  (Not on all tuples:
\* TLC refutes the unqualified law, e.g. query "x/y" alone gives "?x/y", read as host "?x" + path "/y", rewritten
\* as "//?x/y".  NonIdempotentReport lists these.)
LawIdempotent    == LET k == TextCanon(c0) IN Unamb(k, k.host # None) => Unparse(ParseN(Unparse(c0))) = Unparse(c0)
NonIdempotentReport == Unparse(ParseN(Unparse(c0))) # Unparse(c0) =>
                          PrintT(ToJson([nonidem |-> c0, text |-> Unparse(c0), again |-> Unparse(ParseN(Unparse(c0)))]))
\* S: default port only for protocol-without-port, and the URL with the filled-in port is a fixpoint
LawDefaultPort   == \A sl \in BOOLEAN, lk \in Lookups :
                       (WF(c0, sl) /\ Unamb(c0, sl)) =>
                          LET c1 == ParseL(Assemble(c0, sl), lk) IN
                          /\ c1 = DefPort(c0, lk)
                          /\ ((c0.proto = None \/ c0.port # None \/ lk[1] \in {"ip", "no"}) => c1 = c0)
                          /\ (Unamb(TextCanon(c1), c1.host # None) => ParseL(Unparse(c1), lk) = TextCanon(c1))
\* report (never fails): the ambiguous assemblies of the universe, computed rather than assumed
AmbiguousReport  == \A sl \in BOOLEAN :
                       (WF(c0, sl) /\ ParseN(Assemble(c0, sl)) # c0) =>
                          PrintT(ToJson([amb |-> c0, sl |-> sl, text |-> Assemble(c0, sl), reads |-> ParseN(Assemble(c0, sl))]))

\* enumeration of the universe in two steps so that TLC's workers share it: initial states fix proto/user/passwd,
\* one step chooses the other four parts (fresh is used as the phase marker here)
LawInit == /\ a \in {Mk(<<>>, [AllAbsent EXCEPT !.proto = p, !.user = u, !.passwd = w]) :
                        p \in OptVals("proto"), u \in OptVals("user"), w \in OptVals("passwd")}
           /\ b = NoObj /\ fresh = TRUE
LawNext == /\ fresh /\ fresh' = FALSE /\ b' = b
           /\ \E h \in OptVals("host"), po \in OptVals("port"), pa \in OptVals("path"), q \in OptVals("query") :
                 a' = Mk(<<>>, [a.c EXCEPT !.host = h, !.port = po, !.path = pa, !.query = q])
LawSpec == LawInit /\ [][LawNext]_vars
================================================================================
