---------------------------- MODULE MC_ModuleLife ----------------------------
(* Bounded models of ModuleLife for TLC and the edge emitter: one JSON line per generated transition. *)
EXTENDS ModuleLife
ObsEmit(op, args, ret, post) ==
    PrintT(ToJson([pre |-> Pre, op |-> op, args |-> args, ret |-> ret, post |-> post]))
ObsNone(op, args, ret, post) == TRUE
================================================================================
