/* C15: replays MemTrack.tla scripts on spifmem_malloc / calloc / strdup / realloc / free.
 * usage: mem_replay <runtime-level> <pool-size> <scriptfile> [first]
 *
 * The pool of block "addresses" of the specification is a set of fixed slots owned by this harness.  The C
 * allocator underneath the library is interposed at link time (-Wl,--wrap=malloc,calloc,realloc,free): while
 * a tracked call is in progress (armed), the library's request for a user block is answered with the slot the
 * script names (environment choice t of the spec: which address malloc returns, whether realloc moves and
 * where to).  That makes address reuse, in-place and moving realloc, stale pointers and foreign pointers all
 * executable and deterministic (under ASan a natural realloc always moves and a stale free aborts).
 * Everything that is not a pool slot (the tracker's own table array, stdio, this harness) goes to the real
 * (ASan) allocator, so the table array sits in an exact-size ASan block.
 *
 * State token: {after=ok|refused,blocks=[never|live|freed,...],level=n,sizes=[allocator-side size of each live block],table=[{file=[codes],id=n,line=n,size=n},...]}
 *   blocks = the allocator-side view of the pool (what the library really obtained / released),
 *   table  = the tracker's private table read through spifmem_verif_malloc_rec(), address -> slot id.
 * The table is compared as a SET: records are listed in the order in which their ids occur in the expected
 * token (the order of the array is not part of the property).
 */
#include "common.h"

extern spifmem_memrec_t *spifmem_verif_malloc_rec(void);

void *__real_malloc(size_t);
void *__real_calloc(size_t, size_t);
void *__real_realloc(void *, size_t);
void __real_free(void *);

#define NSLOT 8
#define CAP 96
enum { S_NEVER = 0, S_LIVE = 1, S_FREED = 2 };
typedef struct { unsigned char *base; int status; size_t size; } slot_t;
static slot_t slot[NSLOT + 1];
static int nslot = NSLOT;
static int armed;                 /* a tracked call is in progress */
static int want_target;           /* slot the allocator must hand out next (0 = no allocation expected) */
static void *foreign;             /* foreign block handed to the current call (real heap) */
static void *stray[16]; static int nstray;
static const char *anomaly;       /* first unexpected allocator event of the current call */
static int stale_free, foreign_freed;
static unsigned level;
static char invmsg[256];

#ifdef VH_ASAN
# define POISON(p, n)   __asan_poison_memory_region((p), (n))
# define UNPOISON(p, n) __asan_unpoison_memory_region((p), (n))
#else
# define POISON(p, n)
# define UNPOISON(p, n)
#endif

static int slot_of(const void *p) {
    int i;
    for (i = 1; i <= nslot; i++) if (slot[i].base && (const void *) slot[i].base == p) return i;
    return 0;
}
static void note(const char *m) { if (!anomaly) anomaly = m; }

static void *hand_out(int t, size_t n, int zero) {
    slot_t *s = &slot[t];
    if (n > CAP) { note("request_larger_than_slot"); n = CAP; }
    if (s->status == S_LIVE) note("allocator_asked_to_hand_out_a_live_block");
    UNPOISON(s->base, CAP);
    memset(s->base, zero ? 0 : 0xBE, CAP);
    POISON(s->base + n, CAP - n);
    s->status = S_LIVE; s->size = n;
    return s->base;
}

/* a size no allocator can satisfy: refused with NULL, as libc does (the specification's HugeSizes) */
#define NG_HUGE(n) ((n) > ((size_t) -1) / 4)
static size_t size_arg(const char *tok) {          /* -1 = SIZE_MAX, -2 = 2^62, -3 = PTRDIFF_MAX + 1 */
    long v = vh_int(tok);
    if (v >= 0) return (size_t) v;
    return v == -1 ? (size_t) -1 : (v == -2 ? ((size_t) 1 << 62) : ((size_t) 1 << 63));
}

static size_t count_arg(const char *tok, size_t esize) {       /* calloc counts whose product with esize exceeds SIZE_MAX */
    long v = vh_int(tok); size_t q = ((size_t) -1) / esize + 1;   /* smallest count that overflows: ceil(2^64 / esize) */
    if (v > -10) return size_arg(tok);
    return v == -11 ? q + (((size_t) -1) % esize == esize - 1 ? 1 : 0) : (v == -12 ? q : (v == -13 ? q + 3 : q));
}
static int last_refused;          /* the previous tracked call was a refused request (the specification's `after`) */

void *__wrap_malloc(size_t n) {
    int t;
    if (!armed) return __real_malloc(n);
    if (NG_HUGE(n)) return NULL;
    if (!want_target) { note("unexpected_malloc"); return __real_malloc(n); }
    t = want_target; want_target = 0;
    return hand_out(t, n, 0);
}
void *__wrap_calloc(size_t c, size_t n) {
    int t;
    if (!armed) return __real_calloc(c, n);
    if (NG_HUGE(c) || NG_HUGE(n) || (n && c > ((size_t) -1) / n)) return NULL;
    if (!want_target) { note("unexpected_calloc"); return __real_calloc(c, n); }
    t = want_target; want_target = 0;
    return hand_out(t, c * n, 1);
}
void *__wrap_realloc(void *p, size_t n) {
    int i = slot_of(p);
    if (i) {
        slot_t *s = &slot[i];
        if (!armed) { note("pool_realloc_outside_call"); return NULL; }
        if (NG_HUGE(n)) return NULL;                /* refused: the old block stays exactly as it is */
        if (s->status != S_LIVE) {             /* stale pointer: libc would be in undefined territory; answer with a stray block */
            void *q = __real_malloc(n ? n : 1);
            if (nstray < 16) stray[nstray++] = q;
            return q;
        }
        if (!want_target) { note("unexpected_realloc"); return p; }
        if (n == 0) note("realloc_size_0_reached_libc");
        if (want_target == i) {                /* in place */
            want_target = 0;
            if (n > CAP) { note("request_larger_than_slot"); n = CAP; }
            UNPOISON(s->base, CAP);
            if (n > s->size) memset(s->base + s->size, 0xBE, n - s->size);
            POISON(s->base + n, CAP - n);
            s->size = n;
            return p;
        } else {                               /* moved */
            int t = want_target; size_t old = s->size; unsigned char tmp[CAP];
            want_target = 0;
            memcpy(tmp, s->base, old);
            s->status = S_FREED; s->size = 0; POISON(s->base, CAP);
            hand_out(t, n, 0);
            memcpy(slot[t].base, tmp, old < slot[t].size ? old : slot[t].size);
            return slot[t].base;
        }
    }
    if (p && p == foreign) {
        void *q = __real_realloc(p, n);
        foreign = NULL; foreign_freed++;
        if (q && nstray < 16) stray[nstray++] = q;
        return q;
    }
    return __real_realloc(p, n);
}
void __wrap_free(void *p) {
    int i = slot_of(p);
    if (i) {
        slot_t *s = &slot[i];
        if (s->status == S_LIVE) { s->status = S_FREED; s->size = 0; POISON(s->base, CAP); }
        else stale_free++;                     /* double free of a stale pointer: swallowed, the pool is ours */
        return;
    }
    if (p && p == foreign) { foreign = NULL; foreign_freed++; }
    __real_free(p);
}

/* ---- projection ------------------------------------------------------------------------------ */
static const char *stname(int s) { return s == S_LIVE ? "live" : (s == S_FREED ? "freed" : "never"); }

/* ids in the order they occur in the expected state token ("id=N") */
static int expected_order(const char *exp, int *ord, int max) {
    int n = 0; const char *p = exp;
    while ((p = strstr(p, "id=")) != NULL) {
        if (n < max) ord[n++] = atoi(p + 3);
        p += 3;
    }
    return n;
}

static const char *project(const char *exp_state, vh_sb *out) {
    spifmem_memrec_t *mr = spifmem_verif_malloc_rec();
    size_t cnt = mr->cnt, k; int i, ord[64], nord, done[64];
    static int ids[64];
    sb_printf(out, "{after=%s,blocks=[", last_refused ? "refused" : "ok");
    for (i = 1; i <= nslot; i++) { if (i > 1) sb_putc(out, ','); sb_puts(out, stname(slot[i].status)); }
    sb_printf(out, "],level=%u,sizes=[", libast_debug_level);
    for (i = 1; i <= nslot; i++) { if (i > 1) sb_putc(out, ','); sb_int(out, slot[i].status == S_LIVE ? (long) slot[i].size : 0); }
    sb_puts(out, "],table=[");
    if (cnt > 60) { snprintf(invmsg, sizeof(invmsg), "table.cnt=%lu", (unsigned long) cnt); return invmsg; }
    if (cnt > 0 && !mr->ptrs) return "table.ptrs=NULL_with_cnt>0";
    for (k = 0; k < cnt; k++) {
        int id = slot_of(mr->ptrs[k].ptr);
        ids[k] = id ? id : 99;
        done[k] = 0;
        if (!memchr(mr->ptrs[k].file, 0, sizeof(mr->ptrs[k].file))) return "table.file_not_terminated";
    }
    nord = expected_order(exp_state, ord, 64);
    {
        int first = 1, pass;
        for (pass = 0; pass <= nord; pass++) {
            for (k = 0; k < cnt; k++) {
                spifmem_ptr_t *r = &mr->ptrs[k];
                if (done[k]) continue;
                if (pass < nord && ids[k] != ord[pass]) continue;
                done[k] = 1;
                if (!first) sb_putc(out, ',');
                first = 0;
                sb_puts(out, "{file=");
                sb_bytes(out, (const unsigned char *) r->file, strlen((const char *) r->file));
                sb_printf(out, ",id=%d,line=%lu,size=%lu}", ids[k], (unsigned long) r->line, (unsigned long) r->size);
                if (pass < nord) break;       /* one record per expected position */
            }
        }
    }
    sb_puts(out, "]}");
    return NULL;
}

/* ---- script interface ------------------------------------------------------------------------ */
static void vh_begin(void) {
    int i;
    for (i = 1; i <= nslot; i++) { slot[i].status = S_NEVER; slot[i].size = 0; POISON(slot[i].base, CAP); }
    libast_debug_level = level;
    armed = 0; want_target = 0; foreign = NULL; nstray = 0; anomaly = NULL; last_refused = 0;
}
static void vh_end(void) {
    int i; spifmem_memrec_t *mr = spifmem_verif_malloc_rec();
    for (i = 1; i <= nslot; i++) {
        if (slot[i].status == S_LIVE) { armed = 1; spifmem_free("slot", "end.c", 1, slot[i].base); armed = 0; }
    }
    /* C15: once every block has been released the table is empty */
    if (mr->cnt != 0) {
        printf("X %ld %d inv end exp=- got=table_not_empty_at_quiescence:cnt=%lu\n", vh_cur_sid, vh_cur_step, (unsigned long) mr->cnt);
        mr->cnt = 0;        /* containment only: the next script starts from an empty table again */
    }
    for (i = 1; i <= nslot; i++)
        if (slot[i].status == S_LIVE) printf("X %ld %d inv end exp=- got=block_not_released_by_free\n", vh_cur_sid, vh_cur_step);
    libast_debug_level = 0;
}

static void *leaked;              /* a result block that is neither a pool slot nor a known stray */
static void ret_ptr(vh_sb *ret, void *p) {
    int i, k;
    if (!p) { sb_int(ret, 0); return; }
    i = slot_of(p);
    sb_int(ret, i ? i : -1);
    if (!i) {
        for (k = 0; k < nstray; k++) if (stray[k] == p) return;
        leaked = p;
    }
}
static char *file_arg(const char *t) { return (char *) vh_bytes(t, NULL, 1); }

#define OP(s) (!strcmp(op, s))
static const char *vh_step(const vh_step_t *st, vh_sb *ret, vh_sb *state) {
    const char *op = st->op, *inv = NULL;
    char *file = NULL;
    anomaly = NULL; stale_free = 0; foreign_freed = 0; want_target = 0; nstray = 0; foreign = NULL; leaked = NULL;
    last_refused = (st->nargs > 1 && st->args[1][0] == '-' && (OP("malloc") || OP("calloc") || OP("realloc")));

    if (OP("malloc")) {
        void *p;
        file = file_arg(st->args[2]);
        want_target = (int) vh_int(st->args[0]);
        armed = 1; p = spifmem_malloc(file, (unsigned long) vh_int(st->args[3]), size_arg(st->args[1])); armed = 0;
        ret_ptr(ret, p);
    } else if (OP("calloc")) {
        unsigned char *p; size_t n = vh_int(st->args[1]) < 0 ? 0 : (size_t) (vh_int(st->args[1]) * vh_int(st->args[2])), k;
        file = file_arg(st->args[3]);
        want_target = (int) vh_int(st->args[0]);
        armed = 1; p = (unsigned char *) spifmem_calloc(file, (unsigned long) vh_int(st->args[4]), count_arg(st->args[1], (size_t) vh_int(st->args[2])), (size_t) vh_int(st->args[2])); armed = 0;
        ret_ptr(ret, p);
        if (p && slot_of(p)) for (k = 0; k < n; k++) if (p[k]) inv = "calloc_block_not_zeroed";
    } else if (OP("strdup")) {
        char lit[64], *src = lit, *p; int n = (int) vh_int(st->args[1]), k;
        int from = st->nargs > 4 ? (int) vh_int(st->args[4]) : 0, off = st->nargs > 5 ? (int) vh_int(st->args[5]) : 0;
        if (from > 0) {                  /* the text sits inside a live tracked block that is larger than the text */
            if (slot[from].status != S_LIVE || slot[from].size < (size_t) (n + 1 + off)) return "strdup_source_block_unusable";
            src = (char *) slot[from].base + off;
        }
        for (k = 0; k < n; k++) src[k] = (char) ('a' + k % 26);
        src[n] = 0;
        file = file_arg(st->args[2]);
        want_target = (int) vh_int(st->args[0]);
        armed = 1; p = spifmem_strdup("src", file, (unsigned long) vh_int(st->args[3]), src); armed = 0;
        ret_ptr(ret, p);
        if (p && slot_of(p) && strcmp(p, src)) inv = "strdup_contents_differ";
    } else if (OP("realloc")) {
        long a = vh_int(st->args[0]); void *p, *r; size_t n = size_arg(st->args[1]);
        int t = (int) vh_int(st->args[2]), was_foreign = 0;
        file = file_arg(st->args[3]);
        if (a == 0) p = NULL;
        else if (a < 0) { foreign = __real_malloc(16); memset(foreign, 0x5A, 16); p = foreign; was_foreign = 1; }
        else p = slot[a].base;
        want_target = t;
        armed = 1; r = spifmem_realloc("p", file, (unsigned long) vh_int(st->args[4]), p, n); armed = 0;
        if (was_foreign) {
            int k, mine = 0;
            for (k = 0; k < nstray; k++) if (stray[k] == r) mine = 1;
            if (n && r && !mine) inv = "realloc_of_foreign_pointer_returned_something_else";
            if (!foreign_freed) inv = "foreign_block_not_passed_to_libc";
        }
        ret_ptr(ret, r);
    } else if (OP("free")) {
        long a = vh_int(st->args[0]); void *p; int was_foreign = 0;
        if (a == 0) p = NULL;
        else if (a < 0) { foreign = __real_malloc(16); p = foreign; was_foreign = 1; }
        else p = slot[a].base;
        armed = 1; spifmem_free("p", "free.c", 99, p); armed = 0;
        if (was_foreign && !foreign_freed) inv = "foreign_block_not_released";   /* FREE() of a valid heap pointer frees it, tracked or not */
        sb_bool(ret, 1);
    } else if (OP("dump")) {
        /* MALLOC_DUMP() writes to LIBAST_DEBUG_FD = stderr: capture it in memory */
        char *buf = NULL, *q; size_t blen = 0; FILE *save = stderr, *ms = open_memstream(&buf, &blen);
        long cnt = -1, total = -1;
        stderr = ms;
        spifmem_dump_mem_tables();
        stderr = save;
        fclose(ms);
        if (buf && (q = strstr(buf, "PTR:  ")) != NULL) cnt = strtol(q + 6, NULL, 10);
        if (buf && (q = strstr(buf, "Total allocated memory:")) != NULL) total = strtol(q + 23, NULL, 10);
        free(buf);
        sb_printf(ret, "{cnt=%ld,total=%ld}", cnt, total);
    } else {
        return "unknown_op";
    }
    if (file) free(file);
    /* whatever the call left behind that the tracker does not own */
    { int k; for (k = 0; k < nstray; k++) __real_free(stray[k]); nstray = 0; }
    if (leaked) {               /* containment: hand an unexpected real block back through the tracker so that later steps are unaffected */
        armed = 1; spifmem_free("leaked", "cleanup.c", 1, leaked); armed = 0; leaked = NULL;
    }
    if (foreign) { __real_free(foreign); foreign = NULL; }
    if (want_target) { want_target = 0; return "library_did_not_ask_the_allocator_for_a_block"; }
    if (anomaly) return anomaly;
    if (inv) return inv;
    return project(st->exp_state, state);
}

int main(int argc, char **argv) {
    int i;
    if (argc < 4) { fprintf(stderr, "usage: %s <level> <pool-size> <scriptfile> [first]\n", argv[0]); return 2; }
    level = (unsigned) atoi(argv[1]);
    nslot = atoi(argv[2]);
    if (nslot < 1 || nslot > NSLOT) { fprintf(stderr, "pool size 1..%d\n", NSLOT); return 2; }
    for (i = 1; i <= NSLOT; i++) slot[i].base = (unsigned char *) __real_malloc(CAP);
    if (getenv("MEM_QUIET")) {          /* DEBUG=5 builds print every table edit: keep ASan's fd 2, silence the FILE */
        static char nbuf[BUFSIZ];
        FILE *n = fopen("/dev/null", "w");
        if (n) { setvbuf(n, nbuf, _IOFBF, sizeof(nbuf)); stderr = n; }   /* no lazily allocated stdio buffer inside a heap-balance window */
    }
    spifmem_init();
    return vh_main(argc, argv, 3);
}
