------------------------------- MODULE TempFile -------------------------------
(* X04 (extension, DESIGN.md section 10): spiftool_temp_file (src/file.c) as a state machine over its environment.       *)
(*                                                                                                                         *)
(* State:  tmpdir, tmp  the environment variables TMPDIR / TMP: "unset" or the id of a directory of the test bed           *)
(*         umask        the file mode creation mask of the process                                                         *)
(*         level        the runtime debug level (a failed ASSERT is fatal at level >= 1)                                   *)
(*         live         the temporary files the program still holds (descriptor open, file exists): their directories,     *)
(*                      in creation order                                                                                   *)
(* One action per call; OpTempFile computes, from the documentation of the function, the path that is tried, whether a     *)
(* file comes into being, its mode, the contents of the caller's buffer afterwards (the six generated characters are       *)
(* abstracted to '#'), the change of the descriptor table and the umask afterwards.                                        *)
(* Rule kinds: S stated by the function's documentation, I ideal (divergence = finding), C as-built convention, X excluded. *)
EXTENDS Integers, Sequences, FiniteSets, TLC, Json

CONSTANTS FaultLen,    \* model bound: the len with which the environment faults are combined
          Dirs,        \* directory ids offered as values of TMPDIR
          TmpDirs,     \* directory ids offered as values of TMP
          Templates,   \* template texts
          Lens,        \* values of the len argument (>= 1); Huge stands for every value >= 2^30 (SIZE_MAX, 2^31, 2^32 + k ...)
          Faults,      \* environment faults: "none", "nofd" (descriptor table full), "fchmod" (fchmod fails)
          Umasks, Levels,
          MaxLive,     \* model bound on the number of live files
          D,           \* compile-time DEBUG of the build
          Obs(_, _, _, _)

VARIABLES tmpdir, tmp, umask, level, live
vars == <<tmpdir, tmp, umask, level, live>>

Huge == 1073741824
PathMax == 255                                   \* file.c: spif_char_t buff[256]
X6   == <<88, 88, 88, 88, 88, 88>>               \* "XXXXXX"
M6   == <<35, 35, 35, 35, 35, 35>>               \* the six generated characters, abstracted
FillByte == 170                                  \* what the caller's buffer holds behind the template

\* the test bed (harness/tmpfile_replay.c creates exactly this, relative to its working directory)
DirText(d) == CASE d = "ta" -> <<116, 97>> [] d = "tb" -> <<116, 98>> [] d = "no" -> <<110, 111>> [] d = "ro" -> <<114, 111>>
                [] d = "nd" -> <<110, 100>> [] d = "tl" -> [i \in 1 .. 200 |-> 108] [] d = "dflt" -> <<47, 116, 109, 112>>
DirKind(d) == CASE d \in {"ta", "tb", "tl", "dflt"} -> "ok"      \* exists, writable
                [] d = "no" -> "missing" [] d = "ro" -> "readonly" [] d = "nd" -> "notdir"

Take(s, n) == SubSeq(s, 1, IF n < Len(s) THEN n ELSE Len(s))
Max(a, b)  == IF a > b THEN a ELSE b

\* S: "The file is created in $TMPDIR, or $TMP, or /tmp if all else fails"
Chosen(td, t) == IF td # "unset" THEN td ELSE IF t # "unset" THEN t ELSE "dflt"
\* S/C: the path tried is <dir>/<template>XXXXXX, cut to the 255 characters the internal buffer holds (Conv_PathCut)
Tried(d, tmpl) == Take(DirText(d) \o <<47>> \o tmpl \o X6, PathMax)
\* mkstemp refuses a path that does not end in XXXXXX (C: a cut path is refused unless the cut leaves six X)
Usable(p) == Len(p) >= 6 /\ SubSeq(p, Len(p) - 5, Len(p)) = X6
Created(p) == SubSeq(p, 1, Len(p) - 6) \o M6

\* the caller's buffer: cap bytes, the template and its terminator in front
Cap(tmpl, len)  == Max(Len(tmpl) + 1, IF len >= Huge THEN 300 ELSE len)
Buf0(tmpl, cap) == tmpl \o <<0>> \o [i \in 1 .. (cap - Len(tmpl) - 1) |-> FillByte]
\* S: "up to len characters of the path and filename of the newly-created file are copied into the buffer": at most len - 1
\* characters and a terminator, nothing behind them is touched (spiftool_safe_strncpy, C13)
Copied(path, len) == Take(path, len - 1) \o <<0>>
BufAfter(tmpl, cap, path, len) == LET c == Copied(path, len) IN c \o SubSeq(Buf0(tmpl, cap), Len(c) + 1, cap)

\* what is observed of the buffer: its bytes up to and including the first terminator, and whether every byte behind that is
\* still what the caller had there (rest; always TRUE in the reference - BufferLaw below states it on the whole buffer)
HeadOf(b) == SubSeq(b, 1, CHOOSE i \in 1 .. Len(b) : b[i] = 0 /\ \A j \in 1 .. (i - 1) : b[j] # 0)
Ret(ok, buf, made, mode, nfd, um, diag, ctl) ==
    [fd |-> ok, buf |-> HeadOf(buf), rest |-> TRUE, made |-> made, mode |-> mode, nfd |-> nfd, um |-> um, diag |-> diag, ctl |-> ctl]

View(td, t, um, lv, lf) == [tmpdir |-> td, tmp |-> t, umask |-> um, level |-> lv, live |-> lf]
Pre == View(tmpdir, tmp, umask, level, live)
Step(op, args, ret, td, t, um, lv, lf) ==
    /\ tmpdir' = td /\ tmp' = t /\ umask' = um /\ level' = lv /\ live' = lf
    /\ Obs(op, args, ret, View(td, t, um, lv, lf))

-------------------------------------------------------------------------------
\* the outcome of one call with len >= 1
Outcome(td, t, um, tmpl, len, fault) ==
    LET d    == Chosen(td, t)
        p    == Tried(d, tmpl)
        cap  == Cap(tmpl, len)
        \* S: a descriptor for a NEW file, or -1.  I: a call that fails leaves nothing behind - no file, no descriptor,
        \* the caller's buffer as it was (FailureLeavesNothing)
        ok   == Usable(p) /\ DirKind(d) = "ok" /\ fault = "none"
    IN  [ok |-> ok, dir |-> d, cap |-> cap,
         ret |-> IF ok THEN Ret(TRUE, BufAfter(tmpl, cap, Created(p), len), 1, 384, 1, um, "none", "returns")   \* S: mode 0600 whatever the umask
                 ELSE Ret(FALSE, Buf0(tmpl, cap), 0, -1, 0, um, "none", "returns")]                              \* S: the umask is restored

OpTempFile(tmpl, len, fault) ==
    LET o == Outcome(tmpdir, tmp, umask, tmpl, len, fault) IN
    /\ len >= 1 /\ (o.ok => Len(live) < MaxLive)
    /\ Step("temp_file", <<tmpl, o.cap, len, fault>>, o.ret, tmpdir, tmp, umask, level, IF o.ok THEN Append(live, o.dir) ELSE live)

\* len = 0.  C (Conv_LenZeroRefused): with debugging compiled in the call is refused by ASSERT_RVAL(len > 0) - a warning and -1
\* at level 0, fatal at level >= 1; compiled out (D = 0) the file is made and the buffer left alone ("if the len parameter is
\* non-zero ... are copied").  The probe runs in a child process; a file it makes is removed at once.
OpTempFileZero(tmpl) ==
    LET o == Outcome(tmpdir, tmp, umask, tmpl, 1, "none")
        b == Buf0(tmpl, Len(tmpl) + 1)
    IN  Step("temp_file_zero", <<tmpl>>,
             IF D = 0 THEN (IF o.ok THEN Ret(TRUE, b, 1, 384, 0, umask, "none", "returns") ELSE Ret(FALSE, b, 0, -1, 0, umask, "none", "returns"))
             ELSE IF level >= 1 THEN Ret(FALSE, b, 0, -1, 0, umask, "fatal", "exits")
             ELSE Ret(FALSE, b, 0, -1, 0, umask, "warning", "returns"),
             tmpdir, tmp, umask, level, live)

\* the program closes the descriptor of its k-th live file and removes the file
OpRemove(k) == IF k \in 1 .. Len(live)
               THEN Step("remove", <<k>>, TRUE, tmpdir, tmp, umask, level, SubSeq(live, 1, k - 1) \o SubSeq(live, k + 1, Len(live)))
               ELSE Step("remove", <<k>>, FALSE, tmpdir, tmp, umask, level, live)          \* (it holds fewer than k files: nothing to do)
OpSetEnv(var, val) == /\ var \in {"TMPDIR", "TMP"}
                      /\ Step("set_env", <<var, val>>, TRUE, IF var = "TMPDIR" THEN val ELSE tmpdir, IF var = "TMP" THEN val ELSE tmp, umask, level, live)
OpUmask(m)    == Step("set_umask", <<m>>, TRUE, tmpdir, tmp, m, level, live)
OpSetLevel(n) == Step("set_level", <<n>>, TRUE, tmpdir, tmp, umask, n, live)

Init == tmpdir = "unset" /\ tmp = "unset" /\ umask = 18 /\ level = 0 /\ live = <<>>
Next == \/ \E tmpl \in Templates, len \in Lens, f \in Faults : (f = "none" \/ len = FaultLen) /\ OpTempFile(tmpl, len, f)
        \/ \E tmpl \in Templates : OpTempFileZero(tmpl)
        \/ \E k \in 1 .. MaxLive : OpRemove(k)
        \/ \E val \in Dirs \cup {"unset"} : OpSetEnv("TMPDIR", val)
        \/ \E val \in TmpDirs \cup {"unset"} : OpSetEnv("TMP", val)
        \/ \E m \in Umasks : OpUmask(m)
        \/ \E n \in Levels : OpSetLevel(n)
Spec == Init /\ [][Next]_vars

-------------------------------------------------------------------------------
(* laws of the reference *)
TypeOK == /\ tmpdir \in Dirs \cup {"unset"} /\ tmp \in TmpDirs \cup {"unset"} /\ umask \in Umasks \cup {18}
          /\ level \in Levels \cup {0} /\ Len(live) <= MaxLive /\ \A i \in 1 .. Len(live) : DirKind(live[i]) = "ok"
Outs == {Outcome(tmpdir, tmp, umask, tmpl, len, f) : tmpl \in Templates, len \in Lens, f \in Faults}
\* S: TMPDIR wins over TMP, TMP over the default
EnvPrecedence == /\ (tmpdir # "unset" => Chosen(tmpdir, tmp) = tmpdir)
                 /\ (tmpdir = "unset" /\ tmp # "unset" => Chosen(tmpdir, tmp) = tmp)
                 /\ (tmpdir = "unset" /\ tmp = "unset" => Chosen(tmpdir, tmp) = "dflt")
\* S: a new file has mode 0600 and the umask of the process is what it was, success or not
ModeAndUmask == \A o \in Outs : o.ret.um = umask /\ (o.ok => o.ret.mode = 384) /\ (~o.ok => o.ret.mode = -1)
\* I: failure leaves nothing behind
FailureLeavesNothing == \A tmpl \in Templates, len \in Lens, f \in Faults :
    LET o == Outcome(tmpdir, tmp, umask, tmpl, len, f) IN
    ~o.ok => o.ret.buf = tmpl \o <<0>> /\ o.ret.rest /\ o.ret.made = 0 /\ o.ret.nfd = 0 /\ ~o.ret.fd
\* S: the buffer afterwards: a terminator within the first len bytes, in front of it a prefix of the created path - the whole
\* path when len allows -, behind it nothing touched; the path lies in the chosen directory and fits the internal buffer
BufferLaw == \A tmpl \in Templates, len \in Lens :
    LET o == Outcome(tmpdir, tmp, umask, tmpl, len, "none")
        path == Created(Tried(o.dir, tmpl))
        b == BufAfter(tmpl, o.cap, path, len)
        z == CHOOSE i \in 1 .. Len(b) : b[i] = 0 /\ \A j \in 1 .. (i - 1) : b[j] # 0
    IN  o.ok => /\ Len(b) = o.cap /\ o.ret.buf = HeadOf(b)
                /\ z <= len /\ z <= Len(path) + 1
                /\ SubSeq(b, 1, z - 1) = SubSeq(path, 1, z - 1)
                /\ (len > Len(path) => z = Len(path) + 1)
                /\ \A i \in (z + 1) .. Len(b) : b[i] = Buf0(tmpl, o.cap)[i]
                /\ Len(path) <= PathMax
                /\ SubSeq(path, 1, Len(DirText(o.dir)) + 1) = DirText(o.dir) \o <<47>>
\* live files only ever sit in usable directories; removing one forgets exactly one
LiveLaw == [][Len(live') <= Len(live) + 1 /\ Len(live') >= Len(live) - 1]_vars
===============================================================================
