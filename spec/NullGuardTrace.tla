----------------------------- MODULE NullGuardTrace -----------------------------
(* Direction (B) for C16: every recorded call of the generated harness (row, runtime level, how  *)
(* the call ended, class of the returned value, whether another argument changed, heap delta,    *)
(* class of the diagnostic) is judged against NullGuard's Allowed.  One JSON line is printed per  *)
(* REJECTED event (all events are consumed, so one TLC run yields every rejection).              *)
EXTENDS NullGuard, IOUtils
VARIABLE l
Tr == ndJsonDeserialize(IOEnv.TRACE)

IsSoft(e)  == /\ e.ended = "returned" /\ e.changed = FALSE /\ PrefixOK(e.prefix)
              /\ (Expected(e.row, e.variant) = "ANY" \/ (e.rv = Expected(e.row, e.variant) /\ e.heapdelta = 0))
              /\ e.diag \in {"none", "warning", "debug"}
IsFatal(e) == /\ e.ended = "exit" /\ e.diag = "fatal" /\ e.status # 0 /\ e.prefix = "ok"
Accept(e)  == /\ e.variant \in Variants(e.row)
              /\ \/ "soft" \in Allowed(e.row, e.level) /\ IsSoft(e)
                 \/ "fatal" \in Allowed(e.row, e.level) /\ IsFatal(e)

ObsTrace(op, args, ret, post) == TRUE
TraceInit == Init /\ l = 1
TraceStep ==
    /\ l <= Len(Tr)
    /\ l' = l + 1
    /\ level' = Tr[l].level /\ last' = Tr[l].row
    /\ Tr[l].row \in RowIds
    /\ (Accept(Tr[l]) \/ PrintT(ToJson([rejected |-> l, row |-> Tr[l].row, key |-> Rows[Tr[l].row].key])))
TraceSpec == TraceInit /\ [][TraceStep]_<<vars, l>>
TraceAccepted == \/ TLCGet("stats").diameter - 1 = Len(Tr)
                 \/ PrintT(<<"TRACE_REJECTED_AFTER", TLCGet("stats").diameter - 1, "OF", Len(Tr)>>) /\ FALSE
================================================================================
