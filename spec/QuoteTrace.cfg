SPECIFICATION TraceSpec
CONSTANTS
  Alphabet = {97}
  MaxLen = 0
  DelimSets = {}
  Obs <- ObsTrace
INVARIANT TracePosInBounds
CHECK_DEADLOCK FALSE
