"""C11: the config subsystem is memory-safe, spawns nothing, makes private temp files and is re-usable (ConfLife.tla)."""
import os, re, json, random, time
from vlib import x_c09, trace
from vlib.core import tok, untok, Broken, log
from vlib.tlc import run_tlc
from vlib.replay import run_scripts, ASAN_OPTS
import checks.c09 as c09

PROPERTY = "C11"
LEVEL = "exploration"
LEVEL_TEXT = ("Two parts. (1) Model checking: TLC explores ConfLife.tla - init / register context / register built-in / parse / expand / "
              "temp file / free in ALL orders and any number of cycles over a finite abstraction (8-bit indices, doubled capacities, "
              "built-in sentinel, variable-list head), with up to 255 contexts and 255 built-ins, checking IndexBelowCapacity, "
              "BuiltinSentinel, AfterFreeNoResidue, FileStackRestored; the same model with the pinned 8-bit capacities / uncleared "
              "growth / unreset variable list is shown to violate them. (2) Exploration under instruments: drivers linked against the "
              "ASan build of the current tree with system/fork/vfork/execve/popen wrapped at link time (log and refuse) and "
              "spiftool_temp_file observed run spec-shaped adversarial files (lines of 20478..20482 and 41000 bytes, missing final "
              "newline, NUL bytes, lone %, 300 unmatched begin, 255/300 contexts, 40/300 built-ins, include chains and self-inclusion), "
              "the C09 behaviours, seeded random byte strings (2000 quick, 150000 thorough), random file/dir/path triples around PATH_MAX and short/long temp-file "
              "templates; every recorded event stream (snapshots of the private indices, descriptor census, spawn attempts, temp-file "
              "modes and names, heap balance per init..free cycle) is validated by TLC against ConfLife (Spawn enabled only by a "
              "back-quote / %exec / %preproc in the consumed text; TempFile mode 0600 and fresh name; stacks restored; nothing left "
              "after free). 5 s CPU watchdog per input.")
LEVEL_NOTE = ("'Memory-safe for all byte strings / all path strings' is sampled under ASan, not proved: the claim is 'no violation on "
              "everything explored'. The lifecycle/capacity/spawn-enabling part is model checked over a finite abstraction and bound to "
              "the code by TLC trace validation. Whether a text contains a trigger (back-quote, %exec, %preproc) is computed by the driver "
              "from the bytes it generated. The functional result of value expansion is C10's subject; here only its safety, "
              "spawning, descriptors and heap balance are judged. Trusted: TLC, harness/conf_replay.c, ASan, the link-time wrappers.")
TECHNIQUE = "TLA+ lifecycle spec model-checked by TLC + instrumented drivers (ASan, link-time spawn refusal) with TLC trace validation of the recorded event streams"
DESIGN_REF = "DESIGN.md section 6 C11"

MAGIC = x_c09.MAGIC
bl = x_c09.blist


def flags(blobs):
    d = b"\n".join(blobs).lower()
    return {"bq": b"`" in d, "ex": b"%exec" in d, "pp": b"%preproc" in d}


class Script:
    """One execution of the driver: steps plus what python needs to turn the recorded results into trace events."""

    def __init__(self, fam):
        self.fam = fam
        self.lines = []
        self.meta = []
        self.blobs = []        # contents of the files created so far (for the trigger flags)

    def add(self, line, **meta):
        self.lines.append(line + " = ? ?")
        self.meta.append(meta)

    def file(self, name, data):
        self.blobs.append(data)
        self.add("file %s %s" % (bl(name.encode()), bl(data)), op="file")

    def init(self):
        self.add("init", op="init")

    def free(self):
        self.add("free", op="free")

    def reg(self, name, h):
        self.add("reg %s %d" % (bl(name.encode()), h), op="regctx", isnull=(name.lower() == "null"))

    def regbi(self, name):
        self.add("regbi %s" % bl(name.encode()), op="regbi")

    def parse(self, name, dir=None, path=None):
        if path is None:
            self.add("parse %s" % bl(name.encode()), op="parse", t=flags(self.blobs))
        else:
            self.add("parse %s %s %s" % (bl(name.encode()), bl(dir.encode()) if dir is not None else "-", bl(path.encode())), op="parse", t=flags(self.blobs))

    def prog(self, name):
        self.add("prog %s" % bl(name.encode()), op="rename", p=sum(name.encode()) % 1000)

    def mkdir(self, name):
        self.add("mkdir %s" % bl(name.encode()), op="mkdir")

    def remove_cwd(self, name):
        """the process steps into a fresh directory and removes it: its working directory cannot be named any more"""
        self.add("mkdir %s" % bl(name.encode()), op="mkdir")
        self.add("chdir %s" % bl(name.encode()), op="chdir")
        self.add("rmdir %s" % bl(("@W/" + name).encode()), op="rmcwd")

    def back_cwd(self):
        self.add("chdir %s" % bl(b"@W"), op="backcwd")

    def expand(self, data):
        self.add("expand %s" % bl(data), op="expand", t=flags([data]))

    def text(self, sid):
        return "S %d\n%s\nE\n" % (sid, "\n".join(self.lines))


def one_file(fam, body, regs=("null", "A"), cycles=1, magic=True):
    s = Script(fam)
    s.file("m.cfg", (MAGIC if magic else b"") + body)
    for _ in range(cycles):
        s.init()
        for i, r in enumerate(regs):
            s.reg(r, i + 1)
        s.parse("m.cfg")
        s.free()
    return s


def adversarial(rnd):
    out = []
    for n in (20477, 20478, 20479, 20480, 20481, 20482, 41000):
        for fill in (b"a", b"x y ", b"$HOME ", b"% "):
            line = (fill * (n // len(fill) + 1))[:n]
            out.append(one_file("adv:longline", b"begin A\n" + line + b"\nafter\nend\n"))
            out.append(one_file("adv:longline-nonl", b"begin A\nbefore\n" + line))
    out.append(one_file("adv:nonl", b"begin A\nlast line without newline"))
    out.append(one_file("adv:nonl", b"x"))
    out.append(one_file("adv:empty", b"", magic=False))
    out.append(one_file("adv:empty", b"\n", magic=False))
    out.append(one_file("adv:magic-only", b""))
    out.append(one_file("adv:magic-long", b"-" * 300 + b">\nbegin A\nt\nend\n"))
    for body in (b"a\0b\nnext\n", b"\0\n", b"begin A\0B\nx\nend\n", b"begin A\n\0\0\0\nz\nend\n", b"%\0\n", b"t\0" * 200 + b"\n"):
        out.append(one_file("adv:nul", body))
    for body in (b"%\n", b"  %  \n", b"%\"\n", b"% \n%\n%\n", b"begin A\n%\nend\n", b"%include\n", b"%include \n", b"%include  \n%preproc\n"):
        out.append(one_file("adv:lone-percent", body))
    for n in (255, 256, 300):
        out.append(one_file("adv:unmatched-begin", b"begin A\n" * n + b"text\n", cycles=2))
        out.append(one_file("adv:unmatched-begin", b"begin A\n" * n + b"text\n" + b"end\n" * n + b"text\n"))
    out.append(one_file("adv:surplus-end", b"end\n" * 300 + b"t\n"))
    for n in (19, 20, 40, 255, 256, 300):
        s = Script("adv:contexts-%d" % n)
        s.file("m.cfg", MAGIC + b"begin c%03d\nt\nend\nbegin c001\nt\nend\n" % min(n, 259))
        for _ in range(2):
            s.init()
            s.reg("null", 0)
            for i in range(1, n + 1):
                s.reg("c%03d" % i, i % 260)
            s.parse("m.cfg")
            s.free()
        out.append(s)
    for n in (2, 3, 4, 13, 33, 40, 153, 255, 300):
        s = Script("adv:builtins-%d" % n)
        s.file("m.cfg", MAGIC + b"begin A\nv %zz9() %b001() %nosuch(1) %version()\n%b002(x)\nend\n")
        for _ in range(2):
            s.init()
            s.reg("null", 0)
            s.reg("A", 1)
            for i in range(1, n + 1):
                s.regbi("b%03d" % i)
            s.expand(b"x %nosuch y %b001() %zz")
            s.parse("m.cfg")
            s.free()
        out.append(s)
    for n in (9, 10, 20, 159, 161, 254):
        s = Script("adv:include-chain-%d" % n)
        for k in range(1, n + 1):
            s.file("f%03d.cfg" % k, MAGIC + b"a\n%%include f%03d.cfg\nb\n" % (k + 1))
        s.file("f%03d.cfg" % (n + 1), MAGIC + b"leaf\n")
        s.init(); s.reg("null", 1); s.parse("f001.cfg"); s.free()
        out.append(s)
    s = Script("adv:include-self")
    s.file("m.cfg", MAGIC + b"a\n%include m.cfg\nb\n")
    s.init(); s.reg("null", 1); s.parse("m.cfg"); s.free()
    out.append(s)
    # variables across cycles: what a cycle leaves behind must not be visible to the next one
    s = Script("adv:cycles-put")
    s.file("m.cfg", MAGIC + b"%put(k v)\n%put(a b)\nbegin A\nx %get(k)\nend\n%put(zz 1)\n")
    for _ in range(3):
        s.init(); s.reg("null", 1); s.reg("A", 2); s.parse("m.cfg"); s.expand(b"%get(a) %put(q r)"); s.free()
    out.append(s)
    # texts that DO ask for a process: the attempt must be seen (and is refused), a temp file made for it must be private
    for body in (b"begin A\nv `echo hi`\nend\n", b"begin A\nv %exec(echo hi)\nend\n", b"%preproc cat\nbegin A\nt\nend\n"):
        out.append(one_file("adv:trigger", body))
    # ... also when the command cannot even be attempted: no temp file can be made / the command does not fit the line buffer
    s = Script("adv:trigger-notmp")
    s.add("setenv %s %s" % (bl(b"TMPDIR"), bl(b"./no-such-dir")), op="setenv")
    s.file("m.cfg", MAGIC + b"begin A\nv `echo hi` %exec(echo ho)\nend\n")
    s.init(); s.reg("null", 1); s.reg("A", 2); s.parse("m.cfg"); s.expand(b"x `echo hi` y"); s.free()
    s.add("setenv %s -" % bl(b"TMPDIR"), op="setenv")
    out.append(s)
    out.append(one_file("adv:trigger-toolong", b"begin A\nv `" + b"a" * 20460 + b"`\nv %exec(" + b"b" * 20455 + b")\nend\n"))
    return out


BUILTINS = ["appname", "version", "exec", "random", "get", "put", "dirscan"]


def builtin_near_misses():
    """Scripts with '%' + every proper prefix of every standard built-in name, and the name with one letter added or
    changed, in lower / upper / mixed case, followed by '(' , ' )' and ' (' - none of the texts contains a back-quote,
    %exec or %preproc, so no process may be created whatever the lookup does with them."""
    out = []
    for b in BUILTINS:
        names = [b[:k] for k in range(1, len(b))] + [b + "x", b[:-1] + ("x" if b[-1] != "x" else "y"), "x" + b, b[1:]]
        texts = []
        for nm in names:
            for v in (nm.lower(), nm.upper(), nm[:1].upper() + nm[1:].lower() if len(nm) > 1 else nm.upper()):
                for form in ("%%%s(true)", "%%%s )", "%%%s (true)", "a %%%s(echo x) b"):
                    t = (form % v).encode()
                    if any(flags([t]).values()):
                        continue             # e.g. %execx( contains %exec: a trigger by the statement's wording
                    if t not in texts:
                        texts.append(t)
        s = Script("adv:builtin-prefix")
        s.file("m.cfg", MAGIC + b"begin A\n" + b"".join(b"v " + t + b"\n" for t in texts) + b"end\n" + b"".join(t + b"\n" for t in texts[:12]))
        s.init(); s.reg("null", 1); s.reg("A", 2)
        s.parse("m.cfg")
        for t in texts:
            s.expand(t)
        s.free()
        out.append(s)
    return out


def dirscan_sweep(rnd):
    """%dirscan(dir) on directories whose regular-file names add up to about the 20480-byte result buffer: uniform name
    lengths (some dividing the buffer exactly, some not), a few files more and fewer than fit, and mixed lengths."""
    out = []

    def one(tag, names):
        s = Script("adv:dirscan")
        d = "ds" + tag
        s.add("mkdir %s" % bl(d.encode()), op="mkdir")
        for nm in names:
            s.add("file %s []" % bl((d + "/" + nm).encode()), op="file")
        s.file("m.cfg", MAGIC + b"begin A\nfiles %dirscan(" + d.encode() + b")\nend\n")
        s.init(); s.reg("null", 1); s.reg("A", 2)
        s.expand(b"%dirscan(" + d.encode() + b")")
        s.parse("m.cfg")
        s.free()
        out.append(s)

    def name(i, ln):
        return ("%04d" % i + "f" * ln)[:ln]
    for ln in (5, 7, 10, 15, 16, 31, 63, 100, 127, 200, 254, 255):
        fit = 20480 // (ln + 1)
        for extra in (-1, 0, 3):
            if ln < 10 and extra != 3:
                continue
            one("%d_%d" % (ln, extra + 1), [name(i, ln) for i in range(fit + extra)])
    for k in range(3):
        names, tot, i = [], 0, 0
        while tot < 20480 + 600:
            ln = rnd.choice([4, 9, 17, 33, 64, 90, 128, 201, 255])
            names.append(name(i, ln)); tot += ln + 1; i += 1
        one("mix%d" % k, names)
    return out


def empty_and_quote_arguments():
    """Every directive / keyword / built-in call with the EMPTY value in both spellings, a lone quote, an unterminated quote and
    quote + backslash as its argument (also after several blanks), as lines of a parsed file and as spifconf_shell_expand()
    inputs; the empty string as config file name, as context name and as built-in name."""
    out = []
    args = ['"', "'", '""', "''", '"abc', "'abc", ' "', "   '", '" ', '"\\', "'\\'", '"\\"', "", " "]
    heads = ["%include", "%preproc", "begin", "end", "%put(", "%get(", "%random(", "%dirscan(", "%exec(", "%version(", "%appname(", "%"]
    for h in heads:
        texts = []
        for a in args:
            t = (h + a + ")") if h.endswith("(") else (h + " " + a)
            texts.append(t.encode())
        s = Script("adv:empty-quote")
        s.file("m.cfg", MAGIC + b"".join(t + b"\n" for t in texts) + b"begin A\n" + b"".join(b"v " + t + b"\n" for t in texts) + b"end\n")
        s.init(); s.reg("null", 1); s.reg("A", 2); s.reg("", 3)
        s.parse("m.cfg")
        for t in texts:
            s.expand(t)
        s.free()
        out.append(s)
    s = Script("adv:empty-quote")
    s.file("m.cfg", MAGIC + b"begin \"\"\nx\nend\n%include \"\"\n%include ''\n")
    for _ in range(2):
        s.init(); s.reg("", 1); s.reg("null", 2); s.regbi("")
        s.parse(""); s.parse("m.cfg"); s.parse("", "", ""); s.parse("m.cfg", "", ""); s.parse("m.cfg", "", ":"); s.expand(b""); s.expand(b"%()")
        s.free()
    out.append(s)
    return out


def growth_inside_arguments():
    """Every expanding construct ($NAME, ${NAME}, %get(key), two of them, a nested built-in) INSIDE the argument list of every
    argument-taking built-in, at the end of a line, with values of 1 .. 20000 bytes - far more than the text that is left on the
    line: a scratch buffer sized from the UNEXPANDED text (of the argument, of the rest of the line) overflows only here, and by a
    few bytes first (sizes around the allocator's 8/16/24-byte classes)."""
    out = []
    outers = ["%appname(", "%version(", "%get(", "%put(k ", "%random(a ", "%b001(", "%dirscan(", "%get(nokey "]
    for n in (1, 7, 8, 9, 15, 16, 17, 24, 25, 100, 1000, 3000, 20000):
        big = b"G" * n
        inners = [b"$C11BIG", b"${C11BIG}", b"%get(big)", b"$C11BIG$C11BIG", b"%appname($C11BIG)"]
        texts = [b"x " + o.encode() + i + b")" for o in outers for i in inners]
        s = Script("adv:growth-in-args")
        s.add("setenv %s %s" % (bl(b"C11BIG"), bl(big)), op="setenv")
        s.file("m.cfg", MAGIC + b"begin A\n" + b"".join(b"v " + t + b"\n" for t in texts) + b"end\n")
        s.init(); s.reg("null", 1); s.reg("A", 2); s.regbi("b001")
        s.expand(b"%put(big " + big + b")")
        s.parse("m.cfg")
        for t in texts:
            s.expand(t)
        s.free()
        s.add("setenv %s -" % bl(b"C11BIG"), op="setenv")
        out.append(s)
    return out


def path_and_environment_families():
    """spifconf_parse(name, dir, path) - the form that looks the file up and changes directory - crossed with where the file
    is found (cwd, dir argument, relative / absolute / second path entry), what it is (good, wrong magic, empty, missing) and the
    process-wide state around the call (program renamed between cycles, working directory removed under the process).
    Resources judged per call by ConfLife: descriptors, working directory, and heap per init..free cycle."""
    out = []
    kinds = {"ok": MAGIC + b"begin A\nx\nend\n", "badmagic": b"<other-1.0>\nx\n", "empty": b"", "missing": None,
             "renamed": b"<prog2-0.8.1>\nbegin A\ny\nend\n"}
    places = [("cwd", None, "."), ("cwd", None, "nowhere:."), ("d", "d", "."), ("d", None, "d"), ("d", None, "nowhere:d/"),
              ("d", None, "@W/d"), ("d", None, "x:@W/d:."), ("d/e", "e", "d"), ("d/e", "d/e", "@W")]
    for removed in (False, True):
        for where, darg, path in places:
            if removed and "@W" not in path:
                continue                      # relative look-ups cannot succeed from a removed directory
            s = Script("path:" + ("removed-cwd" if removed else "plain"))
            s.mkdir("d"); s.mkdir("d/e")
            for k, data in kinds.items():
                if data is not None:
                    s.file(("" if where == "cwd" else where + "/") + k + ".cfg", data)
            for cyc, prog in enumerate(("libast", "prog2", "libast")):
                s.prog(prog)
                s.init(); s.reg("null", 1); s.reg("A", 2)
                for k in kinds:
                    if removed:
                        s.remove_cwd("gone-%d-%s" % (cyc, k))
                    s.parse(k + ".cfg", darg, path)
                    if removed:
                        s.back_cwd()
                s.free()
            s.prog("libast")
            out.append(s)
    return out


def find_boundary_sweep():
    """spifconf_find_file() exactly at the capacity of its static path buffers: for a few name lengths every search-path
    entry length from PATH_MAX-3-len(name) to PATH_MAX+1-len(name), with and without a trailing '/', as the second entry
    behind a first entry that leaves a '/' (or not) at the decisive index, and as two consecutive calls (the buffers are
    static, so what one lookup leaves is there for the next)."""
    PM = 4096
    out = []
    for L in (1, 6, 100, 255):
        s = Script("find-boundary")
        s.file("here.cfg", MAGIC)
        f = b"n" * L
        for n in range(PM - 3 - L, PM + 2 - L):
            for second in (b"a" * n, b"a" * (n - 1) + b"/"):
                for first in (b"b" * (n - 1), b"b" * (n - 1) + b"/", b"b" * (n - 2) + b"/", b"b" * n):
                    s.add("find %s - %s" % (bl(f), bl(first + b":" + second)), op="find", f=L)
                    s.add("find %s - %s" % (bl(f), bl(first)), op="find", f=L)
                    s.add("find %s - %s" % (bl(f), bl(second)), op="find", f=L)
        # the same with a dir component making up part of the name
        d = b"d" * (L // 2 + 1)
        nl = len(d) + 1 + L
        for n in range(PM - 3 - nl, PM + 2 - nl):
            s.add("find %s %s %s" % (bl(f), bl(d), bl(b"b" * (n - 1) + b":" + b"a" * n)), op="find", f=L)
            s.add("find %s %s %s" % (bl(f), bl(d), bl(b"b" * (n - 1) + b"/:" + b"a" * n)), op="find", f=L)
        out.append(s)
    return out


SOUP = [b"begin ", b"end", b"end ", b"%include ", b"%", b"$", b"${", b"$(", b"\\", b"'", b"\"", b"~", b"(", b")", b"}", b"#", b"<",
        b"%get(", b"%put(", b"%random(", b"%version", b"%appname()", b"%dirscan(", b"A", b"null", b"m.cfg", b" ", b"\t", b"\n", b"\n", b"\n"]
TRIG = [b"`", b"%exec(", b"%preproc ", b"`ls`"]


def gen_soup(rnd):
    kind = rnd.random()
    n = rnd.choice([0, 1, 2, 5, 20, 80, 300, 1500])
    trig = rnd.random() < 0.12
    if kind < 0.35:                       # raw bytes
        b = bytes(rnd.randrange(256) for _ in range(n))
    elif kind < 0.7:                      # keyword / special-character soup
        parts = []
        for _ in range(n // 3 + 1):
            parts.append(rnd.choice(SOUP) if rnd.random() < 0.7 else bytes(rnd.choice(b"abxyz09 _-=.,/") for _ in range(rnd.randint(1, 6))))
        b = b"".join(parts)
    else:                                 # line structured
        lines = []
        for _ in range(n // 8 + 1):
            r = rnd.random()
            w = bytes(rnd.choice(b"abcxyz $%\\'\"~(){}#<>/.=_-09") for _ in range(rnd.randint(0, 12)))
            lines.append(b"begin " + w if r < 0.2 else b"end" if r < 0.35 else b"%" + w if r < 0.45 else w)
        b = b"\n".join(lines) + (b"\n" if rnd.random() < 0.8 else b"")
    if trig:
        i = rnd.randint(0, len(b))
        b = b[:i] + rnd.choice(TRIG) + b[i:]
    else:
        b = b.replace(b"`", b"'")
        b = re.sub(rb"(?i)%(exec|preproc)", b"%exe_", b)
    return b


def find_cases(rnd, n):
    """Scripts with spifconf_find_file() calls: file / dir / path strings around PATH_MAX."""
    lens = [0, 1, 2, 7, 255, 256, 2040, 4000, 4090, 4093, 4094, 4095, 4096, 4097, 5000]
    plens = lens + [32766, 32767, 32768, 40000, 65535, 65536, 65541]
    out = []
    s = None
    for k in range(n):
        if k % 25 == 0:
            s = Script("find")
            s.file("here.cfg", MAGIC)
            s.add("mkdir %s" % bl(b"d"), op="mkdir")
            s.file("d/there.cfg", MAGIC)
            out.append(s)

        def word(m):
            return bytes(rnd.choice(b"abcd/.") if rnd.random() < 0.15 else 0x61 + (m % 3) for _ in range(m))
        f = rnd.choice([b"here.cfg", b"there.cfg", b"nosuch", word(rnd.choice(lens)), word(rnd.choice(lens))])
        d = rnd.choice([None, b"d", b".", b"", word(rnd.choice(lens))])
        comps = [rnd.choice([b"d", b".", b"", b"/", b"d/", word(rnd.choice(plens))]) for _ in range(rnd.randint(0, 4))]
        p = rnd.choice([None, b":".join(comps)])
        s.add("find %s %s %s" % (bl(f), bl(d) if d is not None else "-", bl(p) if p is not None else "-"), op="find", f=len(f))
    return out


def temp_cases(rnd, n, rundir):
    out = []
    s = None
    for k in range(n):
        if k % 50 == 0:
            s = Script("temp")
            mode = (k // 50) % 4
            if mode == 0:
                s.add("mkdir %s" % bl(b"t"), op="mkdir")
                s.add("setenv %s %s" % (bl(b"TMPDIR"), bl(b"t")), op="setenv")
            elif mode == 1:
                s.add("setenv %s -" % bl(b"TMPDIR"), op="setenv")
                s.add("mkdir %s" % bl(b"u"), op="mkdir")
                s.add("setenv %s %s" % (bl(b"TMP"), bl(b"u")), op="setenv")
            elif mode == 2:
                longd = b"L" * 120
                s.add("mkdir %s" % bl(longd), op="mkdir")
                s.add("setenv %s %s" % (bl(b"TMPDIR"), bl(longd)), op="setenv")
            else:
                s.add("setenv %s %s" % (bl(b"TMPDIR"), bl(b"./nonexistent-dir")), op="setenv")
            out.append(s)
        tl = rnd.choice([0, 1, 5, 11, 40, 100, 130, 200, 240, 250, 255, 300])
        tpl = bytes(rnd.choice(b"abcXYZ-_.") for _ in range(tl))
        ln = rnd.choice([tl + 1, tl + 2, tl + 8, tl + 20, 64, 256, 300, 4096])
        ln = max(ln, tl + 1)
        s.add("temp %s %d" % (bl(tpl), ln), op="temp")
    return out


def c09_behaviours(ctx):
    """(1) C09 behaviours re-run under the C11 instruments."""
    out = []

    def on_beh(b):
        if b["op"] != "parse":
            return
        inp = b["input"]
        s = Script("c09:" + inp["cfg"]["fam"])
        for f in inp["files"]:
            data = x_c09.file_bytes(f)
            if data is not None:
                s.file(bytes(f["name"]).decode(), data)
        s.prog(bytes(inp["cfg"]["prog"]).decode())
        s.init()
        for i, nm in enumerate(inp["reg"]):
            s.reg(bytes(nm).decode(), i + 1)
        s.parse(bytes(inp["files"][0]["name"]).decode())
        s.free()
        out.append(s)
    res = run_tlc("MC_ConfParse.tla", "ConfParse_c11.cfg", ctx.rundir, on_edge=on_beh, workers=2, env=c09.JAVA_ENV, coverage=False, timeout=900)
    if not res.ok:
        raise Broken("ConfParse_c11.cfg: %s" % res.violation)
    return out


def model_check(ctx):
    """Design-level part: ConfLife cycles, registrations, and the three pinned-mechanism demonstrations."""
    runs = [("ConfLife_cycles.cfg" if ctx.tier == "quick" else "ConfLife_cycles_thorough.cfg", True, None), ("ConfLife_regs.cfg", True, None),
            ("ConfLife_asbuilt_cap.cfg", False, "IndexBelowCapacity"), ("ConfLife_asbuilt_sentinel.cfg", False, "BuiltinSentinel"),
            ("ConfLife_asbuilt_vars.cfg", False, "AfterFreeNoResidue")]
    for cfg, must_hold, inv in runs:
        res = run_tlc("MC_ConfLife.tla", cfg, ctx.rundir, workers=4, timeout=1500, coverage=must_hold)
        rec = {"module": "MC_ConfLife.tla", "cfg": cfg, "distinct_states": res.distinct, "states_generated": res.generated, "depth": res.depth,
               "wall_s": round(res.wall, 1)}
        if must_hold:
            ctx.add("states", res.distinct)
            ctx.add("transitions", res.generated)
            rec["actions"] = {a: list(v) for a, v in sorted(res.coverage.items()) if a[:2] == "Op"}
            ctx.cov.setdefault("tlc_runs", []).append(rec)
            if not res.ok:
                ctx.report("spec:%s" % cfg, "TLC reports a violated property of ConfLife itself: %s" % (res.violation or "")[:600], {"tlc": res.violation, "cfg": cfg})
            unt = [a for a in res.untaken() if a.startswith("Op") and not (cfg == "ConfLife_regs.cfg" and a in ("OpParse", "OpExpand", "OpRestoreCwd"))]
            if unt:
                raise Broken("vacuity: actions never taken in %s: %s" % (cfg, unt))
        else:
            found = bool(res.violation) and inv in res.violation
            rec["expected_violation"] = inv
            rec["counterexample_found_by_tlc"] = found
            ctx.cov.setdefault("pinned_mechanism_demonstrations", []).append(rec)
            if not found:
                raise Broken("TLC did not find the %s counterexample on the pinned mechanism (%s)" % (inv, cfg))


def diagnose(e):
    """Why a recorded event is not a step of ConfLife (for the finding key only - the verdict is TLC's)."""
    op = e["op"]
    if op in ("parse", "expand"):
        o, t = e["o"], e["t"]
        trig = t["bq"] or t["ex"] or t["pp"]
        if o["ns"] > 0 and not trig:
            return "spawn-without-trigger"
        if any(tf["mode"] != 384 for tf in o["tm"]):
            return "temp-mode-not-0600"
        if any(not tf["fresh"] for tf in o["tm"]):
            return "temp-name-not-fresh"
        if o["tm"] and not trig:
            return "temp-without-trigger"
        if o["fds"] != 0:
            return "descriptors-left-open" + ("(trigger)" if trig else "")
        if not o["cwd"]:
            return "working-directory-not-restored"
        if e["snap"]["f_idx"] != 0:
            return "file-stack-not-restored"
        if o["dv"] < 0:
            return "variables-vanished"
        return "snapshot"
    if op == "free":
        if e["heap"] != 0:
            return "heap-not-released"
        if e["snap"]["nvars"] != 0:
            return "variables-left"
        if e["snap"]["tables"] != 0:
            return "tables-left"
        return "snapshot"
    if op == "temp":
        return "temp-mode-not-0600" if e["tf"]["mode"] != 384 else "temp-name-not-fresh"
    return "snapshot"


def symbolize_offsets(exe, offs):
    import subprocess
    if not offs:
        return {}
    r = subprocess.run(["llvm-symbolizer", "--obj=" + exe], input="\n".join("0x%x" % o for o in offs) + "\n", capture_output=True, text=True, timeout=300)
    sym = {}
    for o, b in zip(offs, r.stdout.strip().split("\n\n")):
        ls = b.strip().splitlines()
        sym[o] = (ls[0], ls[1]) if len(ls) >= 2 else ("?", "?")
    return sym


def symbolize_fails(exe, fails):
    """ASan runs with symbolize=0 here (an external symbolizer per crashing process costs ~130 ms and byte soup crashes
    often inside the expansion code); the frames of all crash reports are symbolised in one batch afterwards and the
    signature gets its 'first function inside the repository's sources'."""
    import subprocess
    pat = re.compile(r"#(\d+) 0x[0-9a-f]+\s+\((\S+?)\+0x([0-9a-f]+)\)")
    offs = set()
    for f in fails:
        if f.kind == "crash":
            for m in pat.finditer(f.detail or ""):
                if m.group(2) == exe:
                    offs.add((int(m.group(3), 16) - (1 if m.group(1) != "0" else 0)))
    if not offs:
        return
    sym = symbolize_offsets(exe, sorted(offs))
    for f in fails:
        if f.kind != "crash":
            continue
        frame = ""
        for m in pat.finditer(f.detail or ""):
            if m.group(2) != exe:
                continue
            fn, loc = sym.get(int(m.group(3), 16) - (1 if m.group(1) != "0" else 0), ("?", "?"))
            if "/src/" in loc and "/harness/" not in loc:
                frame = fn
                break
        f.sig = f.sig.split("@")[0] + "@" + frame
        f.detail = (f.detail or "") + "\n[first frame inside the library: %s]" % frame


def crash_key(fam, f):
    fam = re.sub(r"-\d+$", "", fam)
    if f.kind in ("crash", "hang", "exit"):
        return "%s [%s] %s/%s" % (f.op, fam, f.kind, f.sig)
    return "%s [%s] %s/%s" % (f.op, fam, f.kind, re.sub(r"\d+", "N", f.got)[:80])


def drive(ctx, exe, scripts, tag):
    """Runs the scripts (record mode), reports crashes/hangs, validates the event streams with TLC."""
    import glob, shutil
    texts = [s.text(i + 1) for i, s in enumerate(scripts)]
    t0 = time.time()
    # small batches: a crash restarts the harness behind the dead script and the restarted process re-reads its batch file
    fails, recs = [], []
    SUB = 4000
    for b0 in range(0, len(texts), SUB):
        f1, r1, ns, nt = run_scripts(exe, [], texts[b0:b0 + SUB], ctx.rundir, jobs=4, tag="%s-%d" % (tag, b0),
                                     env={"VH_WATCHDOG": "120", "ASAN_OPTIONS": ASAN_OPTS.replace("symbolize=1", "symbolize=0")})
        symbolize_fails(exe, f1)
        fails += f1
        recs += r1
        for d in glob.glob(os.path.join(ctx.rundir, "conf-*")):       # private directories of harness processes that died
            shutil.rmtree(d, ignore_errors=True)
        for d in glob.glob(os.path.join(ctx.rundir, "stderr-%s-%d-*" % (tag, b0))):
            os.unlink(d)
    dead = {}
    for f in fails:
        s = scripts[f.sid - 1]
        dead.setdefault(f.sid, f.step)
        ctx.report(crash_key(s.fam, f), "%s at step %d of a %s script: %s %s" % (f.kind, f.step, s.fam, f.sig, f.got[:200]),
                   {"harness_args": [], "wrap": True, "script_text": texts[f.sid - 1] if len(texts[f.sid - 1]) < 400000 else texts[f.sid - 1][:400000],
                    "failure": repr(f), "detail": f.detail})
    by = {}
    for sid, step, ret, state in recs:
        by.setdefault(sid, {})[step] = (ret, state)
    events, index = [], []
    nfind = 0
    for sid in sorted(by):
        s = scripts[sid - 1]
        events.append({"op": "reset"})
        index.append((sid, -1))
        nv = 0
        for step in sorted(by[sid]):
            if sid in dead and step >= dead[sid]:
                break
            m = s.meta[step]
            ret, state = by[sid][step]
            op = m["op"]
            if op in ("init", "regctx", "regbi"):
                e = {"op": op, "snap": untok(state)}
                if op == "regctx":
                    e["isnull"] = m["isnull"]
                nv = e["snap"]["nvars"]
            elif op in ("parse", "expand"):
                st = untok(state)
                e = {"op": op, "t": m["t"], "snap": st["snap"],
                     "o": {"ns": len(st["spawn"]), "tm": [{"mode": a, "fresh": b} for a, b in st["temp"]], "dv": st["snap"]["nvars"] - nv,
                           "d": st["snap"]["cs_idx"], "fds": st["fds"], "cwd": bool(st["cwd"])}}
                nv = st["snap"]["nvars"]
            elif op == "rename":
                e = {"op": "rename", "p": m["p"]}
            elif op in ("rmcwd", "backcwd"):
                if ret != "T":
                    raise Broken("harness could not %s in script %d" % (op, sid))
                e = {"op": op}
            elif op == "free":
                st = untok(state)
                e = {"op": "free", "heap": int(ret), "snap": st["snap"], "leaks": st["leaks"]}
                nv = 0
            elif op == "temp":
                if state == "-":
                    continue                   # spiftool_temp_file refused (returned -1): nothing was created
                st = untok(state)
                e = {"op": "temp", "tf": {"mode": st["mode"], "fresh": bool(st["fresh"] and st["created"])}}
                if not st["inbuf"]:
                    ctx.report("temp [%s] name-not-returned" % s.fam, "spiftool_temp_file did not hand back the (possibly truncated) path of the file it made",
                               {"harness_args": [], "wrap": True, "script_text": texts[sid - 1]})
            else:
                if op == "find":
                    nfind += 1
                    if ret != "-" and len(untok(ret)) >= 4096:
                        ctx.report("find [%s] result-longer-than-PATH_MAX" % s.fam, "spifconf_find_file returned %d bytes" % len(untok(ret)),
                                   {"harness_args": [], "wrap": True, "script_text": texts[sid - 1]})
                continue
            events.append(e)
            index.append((sid, step))
    # who allocated what was left after free: symbolise the recorded allocation stacks in one batch
    offs = sorted(set(o - 1 for e in events if e["op"] == "free" for stk in e["leaks"] for o in stk if o))
    names = symbolize_offsets(exe, offs)
    for e in events:
        if e["op"] == "free":
            fr = set()
            for stk in e["leaks"]:
                for o in stk:
                    fn, loc = names.get(o - 1, ("?", "?"))
                    if o and "/src/" in loc and "/harness/" not in loc and not fn.startswith("spiftool_get_word"):
                        fr.add(fn)
                        break
            e["leaks"] = sorted(fr)
    # TLC validation in chunks (cut at execution boundaries)
    nrej = 0
    pos = 0
    CH = 60000
    while pos < len(events):
        end = min(len(events), pos + CH)
        while end < len(events) and events[end]["op"] != "reset":
            end += 1
        part = events[pos:end]
        path = os.path.join(ctx.rundir, "trace-%s-%d.ndjson" % (tag, pos))
        with open(path, "w") as f:
            for e in part:
                f.write(json.dumps(e, separators=(",", ":")) + "\n")
        res = run_tlc("ConfLifeTrace.tla", "ConfLifeTrace.cfg", ctx.rundir, workers=1, timeout=1500, env={"TRACE": path}, coverage=False)
        m = re.search(r'"TRACE_VERDICT",\s*"(.*?)"', "\n".join(res.tail), re.S)
        if not res.ok or not m:
            raise Broken("ConfLifeTrace run failed without a verdict:\n%s" % "\n".join(res.tail[-25:]))
        rej = [int(x) for x in re.findall(r"\d+", m.group(1))]
        for r in rej:
            e = part[r - 1]
            sid, step = index[pos + r - 1]
            s = scripts[sid - 1]
            why = diagnose(e)
            nrej += 1
            # one finding per allocation site for heap left behind, so that a new leak is not hidden behind a known one
            whys = ["heap-not-released@" + o for o in (e.get("leaks") or ["?"])] if why == "heap-not-released" else [why]
            for w in whys:
                ctx.report("trace-rejected %s [%s] %s" % (e["op"], re.sub(r"-\d+$", "", s.fam), w),
                           "TLC: the recorded %s event of a %s script is not a step of ConfLife (%s): %s" % (e["op"], s.fam, w, json.dumps(e)[:500]),
                           {"harness_args": [], "wrap": True, "script_text": texts[sid - 1][:400000], "event": e, "step": step})
        os.unlink(path)
        pos = end
    # distinct non-trivial executions: different script bodies in which at least one parse/expand/find/temp call returned
    import hashlib
    seen = ctx.__dict__.setdefault("_distinct", set())
    for sid in by:
        sc = scripts[sid - 1]
        if any(sc.meta[st]["op"] in ("parse", "expand", "find", "temp") for st in by[sid]):
            seen.add(hashlib.sha1("\n".join(sc.lines).encode()).digest()[:8])
    ctx.add("trace_events_validated", len(events))
    ctx.add("trace_events_rejected", nrej)
    ctx.add("traces_validated_against_impl", len(by))
    ctx.add("evaluations", len(recs))
    ctx.cov.setdefault("driver_runs", []).append({"family": tag, "scripts": len(scripts), "steps": len(recs), "crashed_or_hung": len(fails),
                                                 "events_validated": len(events), "events_rejected": nrej, "find_calls": nfind,
                                                 "wall_s": round(time.time() - t0, 1)})
    return events


def run(ctx):
    os.environ.update(c09.JAVA_ENV)
    exe = x_c09.harness(ctx, wrap=True)
    model_check(ctx)
    log("model checking done %.0fs" % (time.time() - ctx.t0))
    rnd = random.Random(ctx.seed)
    adv = adversarial(rnd) + builtin_near_misses() + dirscan_sweep(rnd) + path_and_environment_families() + empty_and_quote_arguments() + growth_inside_arguments()
    ev = drive(ctx, exe, adv, "adversarial")
    ctx.sample({"adversarial_families": sorted(set(re.sub(r"-\d+$", "", s.fam) for s in adv))})
    log("adversarial done %.0fs" % (time.time() - ctx.t0))
    beh = c09_behaviours(ctx)
    drive(ctx, exe, beh, "c09-behaviours")
    log("c09 behaviours done %.0fs" % (time.time() - ctx.t0))
    # seeded random file trees of the C09 generator (larger files, includes, many contexts)
    trees = []
    for k in range(150 if ctx.tier == "quick" else 3000):
        cfg = c09.gen_tree(rnd, big=(k % 5 == 0))
        s = Script("rnd:tree")
        for f, (kd, lines) in enumerate(zip(cfg["kinds"], cfg["content"]), 1):
            data = x_c09.file_bytes({"kind": kd, "lines": lines, "magic": cfg["magic"][f - 1]})
            if data is not None:
                s.file("f%03d.cfg" % f, data)
        s.prog(bytes(cfg["prog"]).decode())
        for cyc in range(2):
            s.init()
            regl = (["null"] if cfg["nullmode"] == "first" else []) + [bytes(n).decode() for n in cfg["names"]] + (["null"] if cfg["nullmode"] == "last" else [])
            for i, nm in enumerate(regl):
                s.reg(nm, i + 1)
            s.parse("f001.cfg")
            s.free()
        trees.append(s)
    drive(ctx, exe, trees, "random-trees")
    nsoup = 2000 if ctx.tier == "quick" else 150000
    soup = []
    ntrig = 0
    for k in range(nsoup):
        body = gen_soup(rnd)
        s = one_file("rnd:soup", body, cycles=1, magic=(rnd.random() < 0.97))
        ntrig += 1 if any(s.meta[-2]["t"].values()) else 0
        if k % 10 == 0:
            s.lines.insert(len(s.lines) - 1, "expand %s = ? ?" % bl(body[:20000].replace(b"\0", b" ")))
            s.meta.insert(len(s.meta) - 1, {"op": "expand", "t": flags([body[:20000]])})
        soup.append(s)
    ctx.cov["random_inputs"] = {"byte_strings": nsoup, "with_spawn_trigger": ntrig, "without": nsoup - ntrig}
    for c0 in range(0, nsoup, 40000):
        drive(ctx, exe, soup[c0:c0 + 40000], "random-bytes-%d" % c0)
    log("random bytes done %.0fs" % (time.time() - ctx.t0))
    drive(ctx, exe, find_boundary_sweep() + find_cases(rnd, 300 if ctx.tier == "quick" else 6000), "find-file")
    tev = drive(ctx, exe, temp_cases(rnd, 1000 if ctx.tier == "quick" else 10000, ctx.rundir), "temp-file")
    ctx.cov["temp_files_created"] = sum(1 for e in tev if e["op"] == "temp")
    ctx.sample({"temp_event": next((e for e in tev if e["op"] == "temp"), None)})
    ctx.sample({"parse_event": next((e for e in ev if e["op"] == "parse"), None)})
    ctx.cov["evaluations"] = ctx.cov.get("evaluations", 0)
    ctx.cov["distinct_nontrivial"] = len(ctx.__dict__.get("_distinct", ()))
    ctx.cov["nontrivial_rule"] = ("an execution counts if its script body differs from every other one and at least one parse / expand / "
                                  "find_file / temp_file call of it returned (evaluations = harness steps executed, including file creation and registrations)")
    ctx.cov["exhaustive"] = False
    ctx.cov["rule"] = ("every driver execution (files -> init -> register -> parse/expand -> free, possibly several cycles) is run once under "
                       "ASan with process creation refused; each recorded event must be accepted by TLC as a step of ConfLife")
    ctx.assumptions += ["process creation is observed at system/fork/vfork/execve/popen (link-time wrappers)",
                        "ASan build of the current tree (clang -O1), 5 s CPU watchdog per parse/expand/find call",
                        "trigger flags (back-quote, %exec, %preproc) computed by the driver over all files of the input"]


def replay(ctx, path):
    d = json.load(open(path))
    rp = d.get("replay") or {}
    if rp.get("tlc"):
        print("design-level violation recorded by TLC:\n" + rp["tlc"])
        return 1
    exe = x_c09.harness(ctx, wrap=True)
    txt = rp.get("script_text")
    if not txt:
        print("replay file has no script_text")
        return 2
    fails, recs, ns, nt = run_scripts(exe, [], [txt], ctx.rundir, jobs=1, tag="replay", env={"VH_WATCHDOG": "120"})
    for f in fails:
        print("REPRODUCED", f)
        if f.detail:
            print(f.detail)
    if fails:
        return 1
    if rp.get("event"):
        want = rp.get("step")
        for sid, step, ret, state in recs:
            if step == want:
                print("recorded at step %d: ret=%s state=%s" % (step, ret, state[:600]))
                print("REPRODUCED: event rejected by ConfLifeTrace originally: %s" % json.dumps(rp["event"])[:600])
                return 1
    print("not reproduced: script passes (%d steps)" % nt)
    return 0
