SPECIFICATION Spec
CONSTANTS
  CapMod = 65536
  ClearOnGrow = TRUE
  ResetVarsOnFree = TRUE
  MaxCtx = 1
  MaxBi = 12
  MaxVars = 1
  Progs = {1}
  GrowSteps = 1
  Texts <- AllTexts
  Outcomes <- OutcomesMC
  Obs <- ObsNone
INVARIANTS IndexBelowCapacity BuiltinSentinel AfterFreeNoResidue FileStackRestored
CONSTRAINT Bounded
CHECK_DEADLOCK FALSE
