-------------------------------- MODULE TlsTable --------------------------------
(* Beyond the listed properties (DESIGN.md section 10): the thread-local-storage handle table of  *)
(* the pthreads class (spif_pthreads_tls_malloc / _calloc / _get / _realloc / _free).             *)
(*                                                                                                *)
(* A handle is an index into a list of keys.  Freeing a handle that is not the last one must keep *)
(* every other handle valid; the code's comment says so: "insert an empty placeholder so that     *)
(* numeric indexes which have already been given out will remain valid".  Mechanism level: the    *)
(* table is modelled the way the code keeps it - remove_at(h), then insert_at(NULL, h) unless h   *)
(* was the last - with the behaviour of the list's insert_at as a parameter:                      *)
(*   Placeholder = TRUE   the list accepts a NULL element (what the comment assumes)              *)
(*   Placeholder = FALSE  the list refuses a NULL element (what spif_array_insert_at does:        *)
(*                        REQUIRE_RVAL(!SPIF_OBJ_ISNULL(obj), FALSE)) - the as-built mechanism    *)
(* TLC finds HandleStable violated for Placeholder = FALSE by itself (TlsTable_asbuilt.cfg).      *)
EXTENDS Integers, Sequences, FiniteSets, TLC, Json
CONSTANTS MaxAllocs,       \* number of allocations a behaviour may make
          Placeholder,
          Obs(_, _, _, _)

VARIABLES slots,    \* the key list: slots[i] = allocation id (> 0) or 0 for an empty placeholder
          held,     \* handles the program holds: set of <<handle, allocation id>>
          nextid    \* next allocation id
vars == <<slots, held, nextid>>

\* held is shown as a sequence indexed by handle+1: the allocation id held under that handle, 0 if none
HeldView(h) == [i \in 1 .. (MaxAllocs + 1) |-> IF \E p \in h : p[1] = i - 1 THEN (CHOOSE p \in h : p[1] = i - 1)[2] ELSE 0]
St(s, h, n) == [slots |-> s, held |-> HeldView(h), n |-> n]
Pre == St(slots, held, nextid)
Step(op, args, ret, s, h, n) == /\ slots' = s /\ held' = h /\ nextid' = n /\ Obs(op, args, ret, St(s, h, n))

RemoveIdx(s, k) == SubSeq(s, 1, k) \o SubSeq(s, k + 2, Len(s))              \* 0-based k, in range
InsertBefore(s, k, e) == SubSeq(s, 1, k) \o <<e>> \o SubSeq(s, k + 1, Len(s))
InRange(s, k) == k >= 0 /\ k < Len(s)

\* what a lookup through the table yields for handle k: the allocation id stored there, 0 if none
Lookup(s, k) == IF InRange(s, k) THEN s[k + 1] ELSE 0

OpMalloc == /\ nextid <= MaxAllocs
            /\ Step("malloc", <<>>, Len(slots), Append(slots, nextid), held \cup {<<Len(slots), nextid>>}, nextid + 1)
OpGet(k)  == Step("get", <<k>>, Lookup(slots, k), slots, held, nextid)
OpRealloc(k) == Step("realloc", <<k>>, Lookup(slots, k) # 0, slots, held, nextid)
\* the program frees a handle it holds
OpFree(p) ==
    /\ p \in held
    /\ LET k == p[1]
           removed == IF InRange(slots, k) THEN RemoveIdx(slots, k) ELSE slots
           key == Lookup(slots, k)
           after == IF k # Len(removed) /\ Placeholder /\ k <= Len(removed) THEN InsertBefore(removed, k, 0) ELSE removed
       IN Step("free", <<k>>, key # 0, after, held \ {p}, nextid)

Init == slots = <<>> /\ held = {} /\ nextid = 1
Handles == 0 .. MaxAllocs
Next == OpMalloc \/ (\E k \in Handles : OpGet(k) \/ OpRealloc(k)) \/ (\E p \in held : OpFree(p))
Spec == Init /\ [][Next]_vars

TypeOK == /\ slots \in Seq(0 .. MaxAllocs) /\ nextid \in 1 .. (MaxAllocs + 1)
          /\ held \subseteq (Handles \X (1 .. MaxAllocs))
\* THE property: every handle the program still holds designates its own allocation
HandleStable == \A p \in held : Lookup(slots, p[1]) = p[2]
\* no allocation is reachable through two handles, none is lost while held
NoAlias == \A p, q \in held : p[2] = q[2] => p = q
================================================================================
