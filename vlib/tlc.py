"""Running TLC: exhaustive model checking with edge emission, simulation, trace validation."""
import os, re, json, subprocess, shutil, time, tempfile
from .core import VERIF, Broken, log, NCPU

SPEC = os.path.join(VERIF, "spec")


class TlcResult:
    def __init__(self):
        self.generated = 0
        self.distinct = 0
        self.depth = 0
        self.coverage = {}      # action -> (distinct, generated)
        self.ok = False
        self.violation = None   # text of the first TLC error (invariant / property / assertion)
        self.rc = None
        self.wall = 0.0
        self.edges = 0
        self.tail = []

    def untaken(self, ignore=()):
        return sorted(a for a, (d, g) in self.coverage.items() if g == 0 and a not in ignore and a != "Init")


_RE_STATES = re.compile(r"^(\d+) states generated, (\d+) distinct states found")
_RE_DEPTH = re.compile(r"^The depth of the complete state graph search is (\d+)")
_RE_COV = re.compile(r"^<(\w+) line \d+, col \d+ to line \d+, col \d+ of module (\w+)(?: \([\d ]+\))?>: (\d+):(\d+)")


def run_tlc(module, cfg, rundir, on_edge=None, workers=None, timeout=1800, env=None, extra=(), heap="8g",
            depth_first=False, coverage=True, specdir=SPEC):
    """Run `tlc -config cfg module` inside specdir.  Lines that are JSON strings printed by the
    spec's Emit operator are decoded and handed to on_edge(dict)."""
    md = tempfile.mkdtemp(prefix="tlc-md-", dir=rundir)
    workers = workers or min(NCPU, 8)
    # A deep stack for EVERY thread including the main thread, on which TLC evaluates the initial predicate and constant tables:
    # JAVA_TOOL_OPTIONS reaches the JVM (worker threads) but not the launcher that creates the main thread, so the recursive
    # operators of a specification overflowed the default 8 MB there - at a JIT-dependent depth, with every enclosing TLCEval
    # re-wrapping the error for minutes.  The flag on the command line covers both.
    xss = "512m"
    m = re.search(r"-Xss(\d+[kmgKMG])", (env or {}).get("JAVA_TOOL_OPTIONS", "") + " " + os.environ.get("JAVA_TOOL_OPTIONS", ""))
    if m:
        xss = m.group(1)
    cmd = ["java", "-Xss" + xss, "-XX:+UseParallelGC", "-Xmx" + heap, "-Djava.io.tmpdir=" + md]   # TLC's scratch dirs: not in /tmp
    if depth_first:
        cmd.append("-Dtlc2.tool.queue.IStateQueue=StateDeque")
    cmd += ["-cp", "/opt/veriftools/tla/tla2tools.jar:/opt/veriftools/tla/CommunityModules-deps.jar", "tlc2.TLC"]
    cmd = _tlc_cmd(cmd)
    cmd += ["-workers", str(workers), "-metadir", md, "-noGenerateSpecTE"]
    if coverage:
        cmd += ["-coverage", "1"]
    cmd += list(extra) + ["-config", cfg, module]
    e = dict(os.environ)
    if env:
        e.update(env)
    res = TlcResult()
    t0 = time.time()
    p = subprocess.Popen(["timeout", str(timeout)] + cmd, cwd=specdir, stdout=subprocess.PIPE, stderr=subprocess.STDOUT,
                         env=e, text=True, bufsize=1 << 20)
    err = []
    in_err = 0
    for line in p.stdout:
        if line.startswith('"{'):
            res.edges += 1
            if on_edge is not None:
                on_edge(json.loads(json.loads(line)))
            continue
        line = line.rstrip("\n")
        res.tail.append(line)
        if len(res.tail) > 400:
            del res.tail[:200]
        m = _RE_STATES.match(line)
        if m:
            res.generated, res.distinct = int(m.group(1)), int(m.group(2))
            continue
        m = _RE_DEPTH.match(line)
        if m:
            res.depth = int(m.group(1))
            continue
        m = _RE_COV.match(line)
        if m:
            res.coverage[m.group(1)] = (int(m.group(3)), int(m.group(4)))
            continue
        if line.startswith("Error:") or in_err:
            if line.startswith("Error:"):
                in_err = 40
            err.append(line)
            in_err -= 1
    p.wait()
    res.rc = p.returncode
    res.wall = time.time() - t0
    shutil.rmtree(md, ignore_errors=True)
    if err:
        res.violation = "\n".join(err[:60])
    res.ok = (res.rc == 0 and not err)
    if res.rc == 124:
        raise Broken("TLC timed out after %ds on %s/%s" % (timeout, module, cfg))
    if res.rc not in (0, 12, 13) and not err:
        raise Broken("TLC failed rc=%s on %s/%s:\n%s" % (res.rc, module, cfg, "\n".join(res.tail[-40:])))
    return res


_TLC_CMD = None


def _tlc_cmd(default):
    """Prefer the exact java invocation used by the installed `tlc` wrapper (classpath with CommunityModules)."""
    global _TLC_CMD
    if _TLC_CMD is None:
        w = shutil.which("tlc")
        cp = None
        if w:
            try:
                txt = open(w).read()
                m = re.search(r"-cp\s+\"?([^\s\"]+)\"?", txt)
                if m:
                    cp = m.group(1)
            except Exception:
                pass
        _TLC_CMD = cp or ""
    if _TLC_CMD:
        out = list(default)
        i = out.index("-cp")
        out[i + 1] = _TLC_CMD
        return out
    return default
