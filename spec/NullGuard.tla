------------------------------- MODULE NullGuard -------------------------------
(* C16: NULL-argument calls fail soft.                                                          *)
(*                                                                                              *)
(* The contract is the committed table NullGuardTable (one row per entry point or class-table   *)
(* slot x pointer-parameter position; seeded once from the pinned sources' entry guards and      *)
(* reviewed - never re-derived from the tree under test).  This module says what a call of a     *)
(* claimed row with NULL at the row's position (all other arguments valid) may do at a runtime  *)
(* debug level:                                                                                 *)
(*    soft  - returns the row's failure value class, leaves every other argument as it was,     *)
(*            leaves the heap balance as it was; a warning / debug line is allowed               *)
(*    fatal - the process ends through libast_fatal_error: non-zero exit status and the         *)
(*            "FATAL:" diagnostic                                                               *)
(* S: level 0 -> {soft};  level >= 1 -> {soft, fatal}.  Anything else (memory fault, wrong      *)
(* value, changed argument, allocation, silent exit) is outside Allowed.                        *)
(* TLC's part is bookkeeping (DESIGN.md): every claimed row is paired with every level and the  *)
(* table's well-formedness is checked; the strength is the exhaustive execution of the table.   *)
EXTENDS Integers, Sequences, FiniteSets, TLC, Json, NullGuardTable

CONSTANTS Levels,            \* runtime levels explored, e.g. {0, 1}
          Obs(_, _, _, _)

VARIABLES level, last        \* last = id of the row called last (0 = none yet); a run walks the table in order
vars == <<level, last>>

FailClasses == {"FALSE", "NULL", "MINUS1", "CMP_LESS", "CMP_GREATER", "CMP_EQUAL", "NAN", "ZERO", "TYPENAME", "VOID",
                "ANY"}     \* ANY: object argument of a method that documents no failure value (value and allocation not judged)
GuardKinds  == {"ASSERT_RVAL", "REQUIRE_RVAL", "ASSERT", "REQUIRE", "SPIF_OBJ_COMP_CHECK_NULL", "SPIF_COMP_CHECK_NULL", "none"}
RowIds  == 1 .. Len(Rows)
Claimed == {i \in RowIds : Rows[i].claimed}

Allowed(i, lv) == IF ~Rows[i].claimed THEN {}
                  ELSE IF lv = 0 THEN {"soft"} ELSE {"soft", "fatal"}

\* Variants of a call of row i (R8 of the table generator).  The guard sits at the function's entry, so the contract does not
\* depend on the companion arguments:  "mid"  - integer arguments at a mid-range value
\*                                      "zero" - every integer companion argument 0      (a length of 0 is not a licence to skip the guard)
\*                                      "neg"  - every signed integer companion argument -1
\*                                      "allnull" - EVERY pointer argument NULL: the first entry guard decides (Rows[i].allnull)
\*                                      "nullslots" - the list arguments hold a NULL element (NULL padding of insert_at): a NULL probe
\*                                                    is refused, it never "matches" an empty slot
\*                                      "prelude" - (functions returning a string) a VALID call is made first and its result is kept:
\*                                                  the refused call must leave that earlier result as it was (static result buffers)
\*                                      "count" / "beyond" - every index argument at the number of elements of the container (the
\*                                                  "append" position) / two past it: no position is a licence to skip the guard
\*                                      "empties" - the OTHER arguments in their empty content class: empty list, "" string, a
\*                                                  pattern that accepts the empty string (NULL is not "the empty value")
Variants(i) == {"mid"} \cup (IF Rows[i].nint > 0 THEN {"zero"} ELSE {})
                       \cup (IF Rows[i].nidx > 0 THEN {"count", "beyond"} ELSE {})
                       \cup (IF Rows[i].hasempty THEN {"empties"} ELSE {})
                       \cup (IF Rows[i].haslist THEN {"nullslots"} ELSE {})
                       \cup (IF Rows[i].retchars THEN {"prelude"} ELSE {})
                       \cup (IF Rows[i].nsigned > 0 THEN {"neg"} ELSE {})
                       \cup (IF Rows[i].allnull # "NONE" THEN {"allnull"} ELSE {})
Expected(i, v) == IF v = "allnull" THEN Rows[i].allnull ELSE Rows[i].fail

\* Global settings a client controls (the program name / version registered with libast_set_program_name / _version, which every
\* guard diagnostic is built from) are NOT parameters of the contract: Allowed(i, lv) is the same under every setting, and a
\* warning / fatal diagnostic that is printed carries the registered program name verbatim as its prefix (never as a format).
\* checks/c16.py repeats guard events under names of 0 .. 4000 bytes (around 1012 .. 1025 byte by byte) and names made of printf
\* conversions; the trace specification judges them with the same Allowed.
PrefixOK(p) == p \in {"ok", "na"}

\* what the two outcomes look like to an observer (used by the trace specification)
SoftOutcome(i, v) == [ended |-> "returned", rv |-> Expected(i, v), changed |-> FALSE, heapdelta |-> 0]
FatalOutcome    == [ended |-> "exit", diag |-> "fatal"]

View(lv, l) == [level |-> lv, last |-> l]
Pre == View(level, last)
Step(op, args, ret, lv, l) == /\ level' = lv /\ last' = l /\ Obs(op, args, ret, View(lv, l))

OpSetLevel(lv) == Step("set_level", <<lv>>, TRUE, lv, last)
\* the enumeration walks the table in order (each claimed row once per pass, at whatever level is set at that moment)
NextTab == [k \in 0 .. Len(Rows) |->
               IF \E j \in Claimed : j > k THEN CHOOSE j \in Claimed : j > k /\ \A j2 \in (k + 1) .. (j - 1) : j2 \notin Claimed ELSE 0]
OpCall(i) == /\ i = NextTab[last]
             /\ \E v \in Variants(i), o \in Allowed(i, level) : Step("call", <<i, Rows[i].key, v>>, o, level, i)

Init == level = 0 /\ last = 0
Next == \/ \E lv \in Levels : OpSetLevel(lv)
        \/ (NextTab[last] # 0 /\ OpCall(NextTab[last]))
Spec == Init /\ [][Next]_vars

-------------------------------------------------------------------------------
TypeOK == level \in Levels /\ last \in {0} \cup RowIds
\* the table is a table: ids are positions, keys are unique, classes are known, a claimed row has a failure class
TableWellFormed ==
    /\ \A i \in RowIds : Rows[i].id = i /\ Rows[i].guard \in GuardKinds
    /\ \A i \in RowIds : Rows[i].claimed => Rows[i].fail \in FailClasses
    /\ \A i \in RowIds : Rows[i].allnull # "NONE" => (Rows[i].claimed /\ Rows[i].allnull \in FailClasses)
    /\ \A i \in RowIds : Rows[i].nsigned <= Rows[i].nint /\ (Rows[i].nint > 0 => Rows[i].claimed)
    /\ \A i \in RowIds : (Rows[i].guard # "none" /\ Rows[i].fail # "NONE") => Rows[i].claimed
    /\ Cardinality({Rows[i].key : i \in RowIds}) = Len(Rows)
ASSUME TableWellFormed
\* S: at level 0 a claimed call can only fail soft; a fatal end needs a debug level of 1 or more
LevelZeroIsSoft == level = 0 => \A i \in Claimed : Allowed(i, level) = {"soft"}
SoftAlwaysAllowed == \A i \in Claimed : "soft" \in Allowed(i, level)
================================================================================
