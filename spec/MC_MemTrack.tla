------------------------------ MODULE MC_MemTrack ------------------------------
(* Bounded model of MemTrack for TLC and the edge emitter (one JSON line per generated transition). *)
EXTENDS MemTrack
ShapesQuick    == {<<0, 4>>, <<3, 8>>}
ShapesThorough == {<<0, 4>>, <<3, 8>>, <<2, 1>>}
ShapesPool4    == {<<3, 8>>}
HugeAll == {-1, -2, -3}
WrapsAll == {<<-11, 4>>, <<-12, 4>>, <<-13, 8>>, <<-14, 3>>}
ObsEmit(op, args, ret, post) ==
    PrintT(ToJson([pre |-> Pre, op |-> op, args |-> args, ret |-> ret, post |-> post]))
================================================================================
