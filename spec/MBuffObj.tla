-------------------------------- MODULE MBuffObj --------------------------------
(* C07: a libast mbuff object is a faithful BYTE-SEQUENCE VALUE under any history.               *)
(*                                                                                               *)
(* State: two object slots.  A is the object under test (every public spif_mbuff_* call is an    *)
(* action on it), B is a second object: argument of the object-argument calls, result of dup /   *)
(* subbuff, and mutated/deleted on its own to show that the two are independent.                 *)
(*     a, b  - the bytes (Seq of 0..255; 0 = NUL is an ordinary byte here)                       *)
(*     al,bl - the slot holds a constructed object ("absent" = FALSE; then the bytes are <<>>)   *)
(* There is deliberately no capacity variable: capacity is a representation matter, checked by   *)
(* the harness as an invariant (size >= len, allocation >= size), not part of the value.         *)
(*                                                                                               *)
(* Rule kinds (DESIGN.md 3 / 8a):  S stated by the property, I ideal, C as-built convention,     *)
(* E either outcome accepted (return value reported as "any"), X outside the argument universe.  *)
EXTENDS Integers, Sequences, SequencesExt, TLC, Json

CONSTANTS Bytes,      \* byte values used for single-byte arguments (index, rindex, clear)
          Texts,      \* byte strings offered as pointer arguments / constructor contents for A
          TextsB,     \* byte strings offered to B's constructor / B's append
          MaxLenA,    \* model bound on Len(a)   (bound of the model, not of the module)
          MaxLenB,    \* model bound on Len(b)
          Idx,        \* index arguments (negative values count from the end)
          Cnt,        \* count arguments of splice / subbuff
          NCnt,       \* count arguments of the ncmp variants
          Obs(_, _, _, _, _)   \* observation hook (op, args, ret, anyret, post): MC_MBuffObj prints the transition,
                               \* MBuffObjTrace pins it to the recorded event of the implementation

VARIABLES a, al, b, bl
vars == <<a, al, b, bl>>

SlotView(s, live) == [live |-> live, s |-> IF live THEN s ELSE <<>>]
St(x, xl, y, yl) == [a |-> SlotView(x, xl), b |-> SlotView(y, yl)]
Pre == St(a, al, b, bl)

\* one transition: next state first, then (all primed values known) the observation
Step(op, args, ret, anyret, x, xl, y, yl) ==
    /\ a' = x /\ al' = xl /\ b' = y /\ bl' = yl
    /\ Obs(op, args, ret, anyret, St(x, xl, y, yl))
StepA(op, args, ret, anyret, x, xl) == Step(op, args, ret, anyret, x, xl, b, bl)   \* leaves B alone
StepB(op, args, ret, anyret, y, yl) == Step(op, args, ret, anyret, a, al, y, yl)   \* leaves A alone
QueryA(op, args, ret) == StepA(op, args, ret, FALSE, a, al)                        \* a query never changes anything

------------------------------------------------------------------------------------------
(* Reference operators on ideal byte sequences.  Positions are 0-based as in the C interface.   *)
(* They are written so that they stay (near) linear on sequences of tens of thousands of bytes  *)
(* (trace validation): first/last matches use SelectInSeq/SelectLastInSeq.                      *)

MinI(x, y) == IF x < y THEN x ELSE y
\* Extreme numeric arguments.  The interface takes 64-bit indices / counts / lengths (INT64_MAX, INT64_MIN, 2^32+k, 1<<62 ...);
\* TLC integers are 32-bit.  Every rule below reads such an argument only through comparisons with quantities of the size of
\* a buffer (and sums of them), so every value >= Huge is treated exactly like Huge and every value <= -Huge exactly like
\* -Huge ("+Huge = beyond any length, -Huge = before any length counted from the end").  A recorded event carries the
\* argument clipped to -Huge..Huge (and the real 64-bit value as an uninterpreted text); HugeLaw states the uniform treatment
\* as a law of the reference.  Buffers are far shorter than Huge (ASSUME below).
Huge == 1073741824                                                 \* 2^30
ASSUME MaxLenA < Huge \div 4 /\ MaxLenB < Huge \div 4
Norm(n, i) == IF i < 0 THEN i + n ELSE i                          \* S: a negative index counts from the end
Take(s, n) == SubSeq(s, 1, MinI(n, Len(s)))                       \* first n bytes (all of s if shorter), n >= 0
RevSeq(s)  == [k \in 1 .. Len(s) |-> s[Len(s) + 1 - k]]
Iota(n)    == [k \in 1 .. n |-> k]
IsSpace(c) == c \in {9, 10, 11, 12, 13, 32}                       \* isspace() in the C locale
Fill(s, c) == [k \in 1 .. Len(s) |-> c]

\* I: trim removes ALL leading and trailing white space; an all-blank buffer becomes empty
TrimRef(s) ==
    LET f == SelectInSeq(s, LAMBDA e : ~IsSpace(e))
        l == SelectLastInSeq(s, LAMBDA e : ~IsSpace(e))
    IN IF f = 0 THEN <<>> ELSE SubSeq(s, f, l)

\* S: first / last position of a byte, "not found" is reported as the length
FirstPos(s, c) == LET k == SelectInSeq(s, LAMBDA e : e = c) IN IF k = 0 THEN Len(s) ELSE k - 1
LastPos(s, c)  == LET k == SelectLastInSeq(s, LAMBDA e : e = c) IN IF k = 0 THEN Len(s) ELSE k - 1

\* t occurs in s at 0-based position k
OccursAt(s, t, k) == /\ k >= 0 /\ k + Len(t) <= Len(s)
                     /\ \A j \in 1 .. Len(t) : s[k + j] = t[j]
\* S: first position at which t occurs in s, the length when it does not (the empty t occurs at 0)
FindRef(s, t) ==
    IF Len(t) > Len(s) THEN Len(s)
    ELSE LET k == SelectInSeq(Iota(Len(s) - Len(t) + 1), LAMBDA p : OccursAt(s, t, p - 1))
         IN IF k = 0 THEN Len(s) ELSE k - 1

\* S: the order of byte sequences: unsigned-byte lexicographic, THEN length
\* (a proper prefix is smaller; equal-prefix buffers of different length are never equal).  -1 / 0 / 1
CmpRef(x, y) ==
    LET m == MinI(Len(x), Len(y))
        d == SelectInSeq(Iota(m), LAMBDA k : x[k] # y[k])
    IN IF d # 0 THEN (IF x[d] < y[d] THEN -1 ELSE 1)
       ELSE IF Len(x) < Len(y) THEN -1 ELSE IF Len(x) > Len(y) THEN 1 ELSE 0
\* C: the n-variants compare the first n bytes of either side
NCmpRef(x, y, n) == CmpRef(Take(x, n), Take(y, n))
\* C: cmp_with_ptr(p, n) compares the first n bytes of the buffer with the n bytes at p (the repository's own test
\*    compares a 6-byte buffer with 5 bytes and expects EQUAL); I: a buffer shorter than n is NOT read past its
\*    length, it is a proper prefix at best, hence smaller.
CmpPtrRef(x, p) == CmpRef(Take(x, Len(p)), p)
\* E (Conv_CmpWithPtrCountBeyondLength): the statement does not say how a count LARGER than the buffer's length is to be
\*    read when the buffer equals the first len bytes at the pointer.  Two conventions are defensible: the buffer is a proper
\*    prefix (LESS), or only the bytes the buffer has are compared (EQUAL) - the latter is established by the repository's own
\*    test "spif_mbuff_sprintf() function" (test/test.c: cmp_with_ptr(<"E", len 1>, "E\0", 2) must be EQUAL).  For exactly
\*    this argument class the return value is either EQUAL or LESS (never GREATER: checked by the harness and by
\*    MBuffObjTrace); every other case of cmp_with_ptr / ncmp_with_ptr is strict.  The value is never changed (strict).
CountBeyondLength(x, p, n) == n > Len(x) /\ n <= Len(p) /\ SubSeq(p, 1, Len(x)) = x

\* S/C: splice(idx, cnt, o): idx normalised must address an existing byte (0..len-1), 0 <= cnt <= len-idx.
\* E: a negative cnt has two defensible readings (as built: idx+len+cnt; substr convention: len-idx+cnt);
\*    `def` says whether they agree - the actions below only claim a result where they do (X otherwise).
SpliceRef(s, i, c, o) ==
    LET n == Len(s)
        k == Norm(n, i)
        R(cc) == IF cc < 0 \/ cc > n - k THEN [ok |-> FALSE, s |-> s]
                 ELSE [ok |-> TRUE, s |-> SubSeq(s, 1, k) \o o \o SubSeq(s, k + cc + 1, n)]
    IN IF k < 0 \/ k >= n THEN [ok |-> FALSE, s |-> s, def |-> TRUE]
       ELSE LET r1 == R(IF c < 0 THEN k + n + c ELSE c)
                r2 == R(IF c < 0 THEN n - k + c ELSE c)
            IN [ok |-> r1.ok, s |-> r1.s, def |-> (r1 = r2)]

\* S/C: subbuff(idx, cnt): idx as above; cnt <= 0 means "up to |cnt| before the end" (negative result refused);
\*      an over-long count is clamped (asserted by the repository's own test)
SubRef(s, i, c) ==
    LET n == Len(s)
        k == Norm(n, i)
        cc == IF c <= 0 THEN n - k + c ELSE c
    IN IF k < 0 \/ k >= n \/ cc < 0 THEN [ok |-> FALSE, s |-> <<>>]
       ELSE [ok |-> TRUE, s |-> SubSeq(s, k + 1, k + MinI(cc, n - k))]

\* decimal rendering for sprintf("%d")
RECURSIVE DecNat(_)
DecNat(n) == IF n < 10 THEN <<48 + n>> ELSE Append(DecNat(n \div 10), 48 + (n % 10))
Dec(k) == IF k < 0 THEN <<45>> \o DecNat(0 - k) ELSE DecNat(k)

\* the fixed family of formats: "lit" = the text itself is the format (no '%'), "s" = "%s", "d" = "%d", "sd" = "%s:%d"
SprintfRef(kind, t, k) ==
    CASE kind = "lit" -> t
      [] kind = "s"   -> t
      [] kind = "d"   -> Dec(k)
      [] kind = "sd"  -> t \o <<58>> \o Dec(k)

NoNul(t) == SelectInSeq(t, LAMBDA e : e = 0) = 0      \* (not a \A: TLC unfolds a quantifier in action position recursively)
Seekable(kind) == kind \in {"file", "seek"}
Kinds == {"file", "seek", "pipe", "pieces"}     \* regular file, regular file positioned at a non-zero offset,
                                                \* pipe filled before the call, pipe fed in pieces by a concurrent writer
\* the bytes of argument `src` of an object-argument call on A: the other object, or A itself (aliasing is legal)
Other(src) == IF src = "self" THEN a ELSE b
HasOther(src) == al /\ (src = "self" \/ (src = "b" /\ bl))

------------------------------------------------------------------------------------------
(* constructors of A                                                                            *)
OpNew            == /\ ~al /\ StepA("new", <<>>, TRUE, FALSE, <<>>, TRUE)
OpNewFromPtr(t)  == /\ ~al /\ Len(t) <= MaxLenA /\ StepA("new_from_ptr", <<t>>, TRUE, FALSE, t, TRUE)
OpNewFromPtrNull(n) == /\ ~al /\ StepA("new_from_ptr_null", <<n>>, TRUE, FALSE, <<>>, TRUE)          \* C: NULL -> empty
\* C (mbuff): exactly len bytes are copied (no NUL convention); capacity = max(size, len)
OpNewFromBuff(t, size) == /\ ~al /\ Len(t) <= MaxLenA /\ StepA("new_from_buff", <<t, size>>, TRUE, FALSE, t, TRUE)
OpNewFromBuffNull(n, size) == /\ ~al /\ StepA("new_from_buff_null", <<n, size>>, TRUE, FALSE, <<>>, TRUE)
\* I: the stream / descriptor constructors deliver ALL bytes from the current position to end of input, whatever
\*    the kind of input and however the reads are split.  X: an EMPTY seekable input (the stream constructor
\*    deliberately reports failure for it, a pipe yields an empty object - no claim either way).
OpNewFromFp(kind, t) == /\ ~al /\ Len(t) <= MaxLenA /\ (Seekable(kind) => t # <<>>)
                        /\ StepA("new_from_fp", <<kind, t>>, TRUE, FALSE, t, TRUE)
OpNewFromFd(kind, t) == /\ ~al /\ Len(t) <= MaxLenA /\ (Seekable(kind) => t # <<>>)
                        /\ StepA("new_from_fd", <<kind, t>>, TRUE, FALSE, t, TRUE)

(* Environment faults (direction B only: not part of the bounded Next).  The constructor / re-initialisation runs   *)
(* while the environment - the harness's interposed read() or custom stream - serves the reads according to a         *)
(* schedule (short reads, EINTR, EAGAIN / ECONNRESET / EIO at the k-th call).  What the environment actually did is   *)
(* logged with the event: hard = a read failed with an error other than EINTR, eintr = a read was interrupted,        *)
(* d = bytes delivered by all successful reads.                                                                       *)
(*   S  short reads only                -> all bytes, as without faults ("however the reads are split")               *)
(*   E  an interrupted read (EINTR)     -> all bytes (retried), OR the call is refused (no object / FALSE and an      *)
(*                                         empty object) so that the caller can retry - NEVER a truncated or shifted  *)
(*                                         value delivered as success                                                  *)
(*   E  a failed read (any other errno) -> refused, OR success with exactly the d bytes that were delivered            *)
(* A stream (FILE* ) knows only "error": every failure of its read function counts as hard.                            *)
FaultOutcomes(t, hard, eintr, d) ==
    IF hard THEN {[ok |-> FALSE, s |-> <<>>], [ok |-> TRUE, s |-> Take(t, d)]}
    ELSE IF eintr THEN {[ok |-> FALSE, s |-> <<>>], [ok |-> TRUE, s |-> t]}
    ELSE {[ok |-> TRUE, s |-> t]}
FaultArgsOK(ctor, kind, t, hard, eintr, d) ==
    /\ ctor \in {"fp", "fd"} /\ kind \in {"file", "seek", "pipe"} /\ t # <<>>
    /\ hard \in BOOLEAN /\ eintr \in BOOLEAN /\ d \in 0 .. Len(t)
OpNewFault(ctor, kind, t, sched, hard, eintr, d) ==
    /\ ~al /\ FaultArgsOK(ctor, kind, t, hard, eintr, d) /\ Len(t) <= MaxLenA
    /\ \E o \in FaultOutcomes(t, hard, eintr, d) :
          StepA("new_fault", <<ctor, kind, t, sched, hard, eintr, d>>, o.ok, FALSE, o.s, o.ok)       \* refused: no object
OpReinitFault(ctor, kind, t, sched, hard, eintr, d) ==
    /\ al /\ FaultArgsOK(ctor, kind, t, hard, eintr, d) /\ Len(t) <= MaxLenA
    /\ \E o \in FaultOutcomes(t, hard, eintr, d) :
          StepA("reinit_fault", <<ctor, kind, t, sched, hard, eintr, d>>, o.ok, FALSE, o.s, TRUE)    \* refused: EMPTY object

(* mutators of A                                                                                *)
OpAppend(src)  == /\ HasOther(src) /\ Len(a) + Len(Other(src)) <= MaxLenA
                  /\ StepA("append", <<src>>, TRUE, FALSE, a \o Other(src), TRUE)
OpAppendFromPtr(t) == /\ al /\ Len(a) + Len(t) <= MaxLenA
                      /\ StepA("append_from_ptr", <<t>>, TRUE, FALSE, a \o t, TRUE)
OpAppendFromPtrNull(n) == /\ al /\ StepA("append_from_ptr_null", <<n>>, FALSE, FALSE, a, TRUE)       \* S: refused, unchanged
OpPrepend(src) == /\ HasOther(src) /\ Len(a) + Len(Other(src)) <= MaxLenA
                  /\ StepA("prepend", <<src>>, TRUE, FALSE, Other(src) \o a, TRUE)
OpPrependFromPtr(t) == /\ al /\ Len(a) + Len(t) <= MaxLenA
                       /\ StepA("prepend_from_ptr", <<t>>, TRUE, FALSE, t \o a, TRUE)
OpPrependFromPtrNull(n) == /\ al /\ StepA("prepend_from_ptr_null", <<n>>, FALSE, FALSE, a, TRUE)
\* src = "null": a NULL object argument means "insert nothing" (pure deletion), as built and documented by the code
OpSplice(i, c, src) ==
    /\ al /\ (src = "null" \/ HasOther(src))
    /\ LET r == SpliceRef(a, i, c, IF src = "null" THEN <<>> ELSE Other(src)) IN
       /\ r.def /\ Len(r.s) <= MaxLenA
       /\ StepA("splice", <<i, c, src>>, r.ok, FALSE, r.s, TRUE)
OpSpliceFromPtr(i, c, t) ==
    /\ al
    /\ LET r == SpliceRef(a, i, c, t) IN
       /\ r.def /\ Len(r.s) <= MaxLenA
       /\ StepA("splice_from_ptr", <<i, c, t>>, r.ok, FALSE, r.s, TRUE)
OpSpliceFromPtrNull(i, c, n) ==                                    \* C: NULL pointer -> nothing inserted, whatever n
    /\ al
    /\ LET r == SpliceRef(a, i, c, <<>>) IN
       /\ r.def
       /\ StepA("splice_from_ptr_null", <<i, c, n>>, r.ok, FALSE, r.s, TRUE)
\* E: the return value of trim / reverse / clear on the EMPTY buffer is not claimed (the value stays empty: I)
OpTrim     == /\ al /\ StepA("trim", <<>>, TRUE, a = <<>>, TrimRef(a), TRUE)
OpReverse  == /\ al /\ StepA("reverse", <<>>, TRUE, a = <<>>, RevSeq(a), TRUE)
OpClear(c) == /\ al /\ StepA("clear", <<c>>, TRUE, a = <<>>, Fill(a, c), TRUE)                       \* C: keeps the length
\* sprintf replaces the value by the formatted text (E: return value when the result is empty)
OpSprintf(kind, t, k) ==
    /\ al /\ NoNul(t) /\ (kind = "lit" => 37 \notin {t[j] : j \in 1 .. Len(t)})
    /\ LET r == SprintfRef(kind, t, k) IN
       /\ Len(r) <= MaxLenA
       /\ StepA("sprintf", <<kind, t, k>>, TRUE, r = <<>>, r, TRUE)
\* done() leaves an EMPTY, fully usable object
OpDone == /\ al /\ StepA("done", <<>>, TRUE, FALSE, <<>>, TRUE)
\* done() followed by one of the init_*() calls on the same object: the object takes the new value
\* (E: return value for an empty seekable input, see the constructors; the value is empty either way)
OpReinit(ctor, kind, t) ==
    /\ al /\ Len(t) <= MaxLenA
    /\ ctor \in {"init", "ptr", "buff", "fp", "fd"}
    /\ (ctor = "init" => t = <<>>)
    /\ StepA("reinit", <<ctor, kind, t>>, TRUE, ctor \in {"fp", "fd"} /\ Seekable(kind) /\ t = <<>>, t, TRUE)
OpDel == /\ al /\ StepA("del", <<>>, TRUE, FALSE, <<>>, FALSE)

(* queries on A (never change anything)                                                         *)
OpIndex(c)  == /\ al /\ QueryA("index", <<c>>, FirstPos(a, c))
OpRindex(c) == /\ al /\ QueryA("rindex", <<c>>, LastPos(a, c))
OpFind(src) == /\ HasOther(src) /\ QueryA("find", <<src>>, FindRef(a, Other(src)))
OpFindFromPtr(t) == /\ al /\ QueryA("find_from_ptr", <<t>>, FindRef(a, t))
OpCmp(src)  == /\ HasOther(src) /\ QueryA("cmp", <<src>>, CmpRef(a, Other(src)))
OpCmpWithPtr(t) == /\ al /\ StepA("cmp_with_ptr", <<t>>, CmpPtrRef(a, t), CountBeyondLength(a, t, Len(t)), a, al)
OpNcmp(src, n) == /\ HasOther(src) /\ n >= 0 /\ QueryA("ncmp", <<src, n>>, NCmpRef(a, Other(src), n))
OpNcmpWithPtr(t, n) == /\ al /\ n >= 0 /\ n <= Len(t)
                       /\ StepA("ncmp_with_ptr", <<t, n>>, NCmpRef(a, t, n), CountBeyondLength(a, t, n), a, al)
OpSubbuffToPtr(i, c) == /\ al /\ QueryA("subbuff_to_ptr", <<i, c>>, SubRef(a, i, c))
\* subbuff creates a NEW object (here: in the free slot B); refused -> no object
OpSubbuff(i, c) ==
    /\ al /\ ~bl
    /\ LET r == SubRef(a, i, c) IN
       /\ Len(r.s) <= MaxLenB
       /\ Step("subbuff", <<i, c>>, r.ok, FALSE, a, al, r.s, r.ok)
\* dup creates an independent equal copy
OpDup == /\ al /\ ~bl /\ Len(a) <= MaxLenB /\ Step("dup", <<>>, TRUE, FALSE, a, al, a, TRUE)

(* the second object on its own                                                                 *)
OpBNewFromPtr(t) == /\ ~bl /\ Len(t) <= MaxLenB /\ StepB("b_new_from_ptr", <<t>>, TRUE, FALSE, t, TRUE)
OpBDel           == /\ bl /\ StepB("b_del", <<>>, TRUE, FALSE, <<>>, FALSE)
OpBAppendFromPtr(t) == /\ bl /\ Len(b) + Len(t) <= MaxLenB
                       /\ StepB("b_append_from_ptr", <<t>>, TRUE, FALSE, b \o t, TRUE)
OpBAppendA  == /\ bl /\ al /\ Len(b) + Len(a) <= MaxLenB /\ StepB("b_append_a", <<>>, TRUE, FALSE, b \o a, TRUE)
OpBClear(c) == /\ bl /\ StepB("b_clear", <<c>>, TRUE, b = <<>>, Fill(b, c), TRUE)
OpBReverse  == /\ bl /\ StepB("b_reverse", <<>>, TRUE, b = <<>>, RevSeq(b), TRUE)
OpBTrim     == /\ bl /\ StepB("b_trim", <<>>, TRUE, b = <<>>, TrimRef(b), TRUE)
OpBCmpA     == /\ bl /\ al /\ StepB("b_cmp_a", <<>>, CmpRef(b, a), FALSE, b, TRUE)
\* the copy is a full citizen: a fresh A is made from it
OpBDupToA   == /\ bl /\ ~al /\ Len(b) <= MaxLenA /\ Step("b_dup_to_a", <<>>, TRUE, FALSE, b, TRUE, b, bl)

Init == a = <<>> /\ al = FALSE /\ b = <<>> /\ bl = FALSE

------------------------------------------------------------------------------------------
(* Bounded next-state relation.  Model-size restrictions (MS) are NOT part of the actions' meaning - the   *)
(* trace specification re-uses the actions without them.  MS: calls that do not involve B are enumerated  *)
(* over their full argument families only while B is absent ("wide"); while B is live the object-argument *)
(* calls and a small family of A's mutators (enough to expose any sharing between the two objects) run.   *)
Srcs       == {"b", "self"}
SizesBuff  == {0, 2, 6}
SmallIdx   == {0, 1, 0 - 1}
SmallCnt   == {0, 1}
Wide       == ~bl
TextsW     == IF Wide THEN Texts ELSE {t \in Texts : Len(t) = 1}
TextsWide  == IF Wide THEN Texts ELSE {}
BytesW     == IF Wide THEN Bytes ELSE {32}
BytesWide  == IF Wide THEN Bytes ELSE {}
IdxW       == IF Wide THEN Idx ELSE SmallIdx
CntW       == IF Wide THEN Cnt ELSE SmallCnt
IdxWide    == IF Wide THEN Idx ELSE {}
SpliceTexts == {t \in TextsW : Len(t) \in {1, 3}}
StreamTexts == {t \in Texts : Len(t) \in {0, 3}}
SpliceSrcs(src) == IF src = "b" THEN SmallCnt ELSE IF Wide THEN Cnt ELSE {}
Next ==
    \/ OpNew
    \/ \E t \in Texts : OpNewFromPtr(t)
    \/ \E t \in Texts, s \in SizesBuff : OpNewFromBuff(t, s)
    \/ OpNewFromPtrNull(3) \/ OpNewFromBuffNull(3, 0) \/ OpNewFromBuffNull(0, 5)
    \/ \E k \in Kinds, t \in Texts : OpNewFromFp(k, t) \/ OpNewFromFd(k, t)
    \/ \E t \in TextsW : OpAppendFromPtr(t) \/ OpPrependFromPtr(t)
    \/ \E t \in TextsWide : OpFindFromPtr(t) \/ OpCmpWithPtr(t)
    \/ \E s \in Srcs : OpAppend(s) \/ OpPrepend(s) \/ OpFind(s) \/ OpCmp(s)
    \/ (Wide /\ OpAppendFromPtrNull(2)) \/ (Wide /\ OpPrependFromPtrNull(2))
    \/ \E s \in Srcs, n \in NCnt : OpNcmp(s, n)
    \/ \E t \in TextsWide, n \in NCnt : OpNcmpWithPtr(t, n)
    \/ \E c \in BytesWide : OpIndex(c) \/ OpRindex(c)
    \/ \E c \in BytesW : OpClear(c)
    \/ OpTrim \/ OpReverse \/ OpDone \/ OpDel \/ OpDup
    \/ \E k \in {"lit", "s"}, t \in TextsWide : OpSprintf(k, t, 0)
    \/ \E t \in TextsWide : OpReinit("ptr", "-", t) \/ OpReinit("buff", "-", t)
    \/ \E t \in {x \in TextsW : ~Wide} : OpReinit("ptr", "-", t)
    \/ \E k \in {"-"}, t \in {x \in TextsWide : x = <<>>} : OpReinit("init", k, t)
    \/ \E k \in Kinds, t \in {x \in TextsWide : x \in StreamTexts} : OpReinit("fp", k, t) \/ OpReinit("fd", k, t)
    \/ \E i \in IdxWide, c \in Cnt : OpSubbuff(i, c)
    \/ \E i \in IdxW, c \in CntW : OpSubbuffToPtr(i, c)
    \/ \E src \in {"b", "self", "null"} : \E i \in Idx, c \in SpliceSrcs(src) : OpSplice(i, c, src)
    \/ \E i \in IdxW, c \in CntW, t \in SpliceTexts : OpSpliceFromPtr(i, c, t)
    \/ \E i \in SmallIdx, c \in {x \in SmallCnt : Wide} : OpSpliceFromPtrNull(i, c, 2)
    \/ \E t \in TextsB : OpBNewFromPtr(t) \/ OpBAppendFromPtr(t)
    \/ \E c \in Bytes : OpBClear(c)
    \/ OpBDel \/ OpBAppendA \/ OpBReverse \/ OpBTrim \/ OpBCmpA \/ OpBDupToA

Spec == Init /\ [][Next]_vars

------------------------------------------------------------------------------------------
(* Laws of the reference itself, checked by TLC in every reachable state over the whole argument *)
(* universe: the oracle that conformance transfers to the code is itself verified.               *)
ByteVal == 0 .. 255
IsBytes(s) == \A j \in 1 .. Len(s) : s[j] \in ByteVal
TypeOK == /\ al \in BOOLEAN /\ bl \in BOOLEAN
          /\ IsBytes(a) /\ Len(a) <= MaxLenA /\ (~al => a = <<>>)
          /\ IsBytes(b) /\ Len(b) <= MaxLenB /\ (~bl => b = <<>>)

ElemsOf(s) == {s[j] : j \in 1 .. Len(s)}
\* S: every search result lies in 0..len, equals len exactly when the byte/text is absent, and is the FIRST (LAST) match
QueriesInRange ==
    /\ \A c \in Bytes :
         LET f == FirstPos(a, c)  l == LastPos(a, c) IN
         /\ f \in 0 .. Len(a) /\ l \in 0 .. Len(a)
         /\ (c \notin ElemsOf(a)) <=> (f = Len(a))
         /\ (c \notin ElemsOf(a)) <=> (l = Len(a))
         /\ (f < Len(a)) => (a[f + 1] = c /\ a[l + 1] = c /\ f <= l
                             /\ \A j \in 1 .. f : a[j] # c /\ \A q \in (l + 2) .. Len(a) : a[q] # c)
    /\ \A t \in Texts \cup {b} :
         LET f == FindRef(a, t) IN
         /\ f \in 0 .. Len(a)
         /\ (\E k \in 0 .. Len(a) : OccursAt(a, t, k)) => (OccursAt(a, t, f) /\ \A k \in 0 .. (f - 1) : ~OccursAt(a, t, k))
         /\ (f = Len(a)) <=> (\A k \in 0 .. (Len(a) - 1) : ~OccursAt(a, t, k))      \* not found == length

IsProperPrefix(x, y) == Len(x) < Len(y) /\ SubSeq(y, 1, Len(x)) = x
\* S: cmp is a total order on byte sequences: lexicographic, then length
CmpLaw ==
    LET U == Texts \cup TextsB \cup {a, b} IN
    /\ \A x \in U, y \in U :
         /\ CmpRef(x, y) \in {0 - 1, 0, 1}
         /\ CmpRef(x, y) = 0 - CmpRef(y, x)                         \* antisymmetric
         /\ (CmpRef(x, y) = 0) <=> (x = y)                          \* equal only when identical: length counts
         /\ IsProperPrefix(x, y) => CmpRef(x, y) = 0 - 1            \* a proper prefix is smaller
         /\ \A n \in NCnt : n >= 0 =>
              /\ NCmpRef(x, y, n) = 0 - NCmpRef(y, x, n)
              /\ (NCmpRef(x, y, n) = 0) <=> (Take(x, n) = Take(y, n))
         /\ CmpPtrRef(x, y) = NCmpRef(x, y, Len(y))
         \* Conv_CmpWithPtrCountBeyondLength: in the E class the two readings are LESS / EQUAL; outside it they coincide
         /\ \A n \in NCnt : (n >= 0 /\ n <= Len(y)) =>
              LET clamp == CmpRef(Take(x, MinI(n, Len(x))), Take(y, MinI(n, Len(x)))) IN
              IF CountBeyondLength(x, y, n) THEN NCmpRef(x, y, n) = 0 - 1 /\ clamp = 0
              ELSE clamp = NCmpRef(x, y, n)
    /\ \A x \in U, y \in U :                                         \* transitive (through the object under test)
         (CmpRef(a, x) <= 0 /\ CmpRef(x, y) <= 0) => CmpRef(a, y) <= 0

\* S: refused => unchanged; accepted => exactly the addressed bytes are replaced
SpliceLaw ==
    \A i \in Idx, c \in Cnt, t \in Texts :
        LET r == SpliceRef(a, i, c, t)  k == Norm(Len(a), i) IN
        /\ (~r.ok) => r.s = a
        /\ (r.ok /\ c >= 0) => /\ k \in 0 .. (Len(a) - 1) /\ c <= Len(a) - k
                               /\ Len(r.s) = Len(a) - c + Len(t)
                               /\ SubSeq(r.s, 1, k) = SubSeq(a, 1, k)
                               /\ SubSeq(r.s, k + 1, k + Len(t)) = t
                               /\ SubSeq(r.s, k + Len(t) + 1, Len(r.s)) = SubSeq(a, k + c + 1, Len(a))
        /\ (k < 0 \/ k >= Len(a)) => ~r.ok                          \* out-of-range positions are refused
\* S/C: subbuff yields a contiguous piece of the buffer, never more than what is there
SubLaw ==
    \A i \in Idx, c \in Cnt :
        LET r == SubRef(a, i, c)  k == Norm(Len(a), i) IN
        /\ (k < 0 \/ k >= Len(a)) => ~r.ok
        /\ r.ok => /\ Len(r.s) <= Len(a) - k
                   /\ r.s = SubSeq(a, k + 1, k + Len(r.s))
                   /\ (c > 0) => Len(r.s) = MinI(c, Len(a) - k)
\* S: extreme arguments - a position beyond either end is refused, a count beyond the end is "everything from here on" for
\* subbuff (C: clamped) and refused for splice, a count of -Huge is refused; Huge is not special: any count >= the length
\* gives the same answer (so a 64-bit value such as INT64_MAX must behave like len+1)
HugeLaw ==
    /\ \A c \in Cnt \cup {Huge, 0 - Huge} :
          /\ ~SubRef(a, Huge, c).ok /\ ~SubRef(a, 0 - Huge, c).ok
          /\ \A t \in Texts : /\ SpliceRef(a, Huge, c, t) = [ok |-> FALSE, s |-> a, def |-> TRUE]
                               /\ SpliceRef(a, 0 - Huge, c, t) = [ok |-> FALSE, s |-> a, def |-> TRUE]
    /\ \A i \in Idx :
          /\ SubRef(a, i, Huge) = SubRef(a, i, MaxLenA + 1)
          /\ SubRef(a, i, Huge).ok <=> (Norm(Len(a), i) \in 0 .. (Len(a) - 1))
          /\ SubRef(a, i, Huge).ok => SubRef(a, i, Huge).s = SubSeq(a, Norm(Len(a), i) + 1, Len(a))
          /\ ~SubRef(a, i, 0 - Huge).ok
          /\ \A t \in Texts : /\ ~SpliceRef(a, i, Huge, t).ok /\ SpliceRef(a, i, Huge, t).def
                               /\ ~SpliceRef(a, i, 0 - Huge, t).ok /\ SpliceRef(a, i, 0 - Huge, t).def
    /\ \A t \in Texts \cup {b} : NCmpRef(a, t, Huge) = CmpRef(a, t)
\* Gap compression (real sizes).  Objects of 2 GiB + k and 4 GiB + k bytes cannot be values of a TLC sequence.  The harness
\* builds them as  head \o <G zero bytes> \o tail  (G = 2^31 or 2^32) and presents them to this specification with the gap
\* compressed to a few zeros, translating positions and lengths: a position before the middle of the gap is itself, a position
\* behind it (second half of the gap, the tail, the length) moves by the difference of the two gap lengths.  That this
\* translation commutes with the rules - so that the expectation for the real object IS the expectation for the compressed
\* one, whatever the gap length beyond the longest needle - is a law of the reference, checked here between two small gaps:
Zeros(g) == [k \in 1 .. g |-> 0]
Gapped(h, g, t) == h \o Zeros(g) \o t
GapMove(p, h, g1, g2) == IF p < Len(h) + g1 \div 2 THEN p ELSE p + (g2 - g1)
GapLaw ==
    \A h \in Texts, t \in Texts :
        LET x1 == Gapped(h, 4, t)  x2 == Gapped(h, 8, t)  mv(p) == GapMove(p, h, 4, 8) IN
        /\ Len(x2) = mv(Len(x1))
        /\ \A c \in Bytes : FirstPos(x2, c) = mv(FirstPos(x1, c)) /\ LastPos(x2, c) = mv(LastPos(x1, c))
        /\ \A n \in Texts : FindRef(x2, n) = mv(FindRef(x1, n))
        /\ RevSeq(x2) = Gapped(RevSeq(t), 8, RevSeq(h))
        /\ \A m \in 0 .. Len(x1) :                      \* prefixes: the order by length survives the translation
              /\ CmpRef(x2, Take(x2, mv(m))) = CmpRef(x1, Take(x1, m))
              /\ CmpRef(Take(x2, mv(m)), x2) = CmpRef(Take(x1, m), x1)
              /\ \A k \in 0 .. Len(x1) : NCmpRef(x2, Take(x2, mv(m)), mv(k)) = NCmpRef(x1, Take(x1, m), k)
        /\ \A i \in 0 .. (Len(x1) - 1), c \in {1, 2, Huge} :   \* pieces that do not span the middle of the gap
              LET r1 == SubRef(x1, i, c)  r2 == SubRef(x2, mv(i), c) IN
              ((i >= Len(h) + 2) \/ (i + c <= Len(h) + 2)) => r2 = r1
\* I: trim leaves no white space at either end and is idempotent; reverse is an involution; clear keeps the length
ShapeLaw ==
    /\ LET t == TrimRef(a) IN
       /\ (t # <<>>) => (~IsSpace(t[1]) /\ ~IsSpace(t[Len(t)]))
       /\ TrimRef(t) = t
       /\ (\A j \in 1 .. Len(a) : IsSpace(a[j])) => t = <<>>
       /\ (t = <<>> \/ FindRef(a, t) < Len(a))                       \* what is left is a piece of the buffer
    /\ RevSeq(RevSeq(a)) = a
    /\ \A c \in Bytes : Len(Fill(a, c)) = Len(a)
\* independence of the two objects: no transition changes both slots (dup / subbuff / b_dup_to_a create one
\* object and leave their source unchanged; everything else touches exactly one object)
Independence == [][ ~((a' # a \/ al' # al) /\ (b' # b \/ bl' # bl)) ]_vars
================================================================================
