SPECIFICATION Spec
CONSTANTS
  H = {1, 2}
  Val <- Val2
  Kind = "seq"
  Sorted = TRUE
  Obs <- ObsEmit
INVARIANTS TypeOK DeletedOwnsNothing
PROPERTIES FreedIsFinal ContFreesOnlyItsOwn
CHECK_DEADLOCK FALSE
