---------------------------- MODULE MC_StrHelpers ----------------------------
(* Bounded model of StrHelpers: alphabets, integer ranges, and the case emitter (one JSON line per argument tuple). *)
EXTENDS StrHelpers
CopyAlpha == {97, 90}                      \* a Z
TextAlpha == {97, 90, 32, 9, 1, 233}       \* a Z space tab 0x01 0xE9
TextAlpha8 == {97, 90, 32, 9, 10, 1, 127, 233}   \* thorough: + newline, DEL
IntsQuick == -6 .. 6
IntsThorough == -8 .. 8
ObsEmit(op, args, ret, post) == PrintT(ToJson([op |-> op, args |-> args, exp |-> ret, lv |-> DebugLevels]))
================================================================================
