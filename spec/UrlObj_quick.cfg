SPECIFICATION Spec
CONSTANTS
  Parts <- PartsQuick
  Texts <- ShapeTexts
  Lookups <- LookupsQuick
  WithBuild = TRUE
  Obs <- ObsEmit
INVARIANTS TypeOK UnparsedIsFixpoint
CHECK_DEADLOCK FALSE
