SPECIFICATION TraceSpec
CONSTANTS
  NK = 8600
  NV = 7
  Shades = 2
  BDepth = 100000
  Obs <- ObsTrace
POSTCONDITION TraceAccepted
CHECK_DEADLOCK FALSE
