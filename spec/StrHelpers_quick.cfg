SPECIFICATION Spec
CONSTANTS
  CopyAlphabet <- CopyAlpha
  MaxSize = 7
  MaxSrc = 5
  TextAlphabet <- TextAlpha
  MaxText = 5
  Ints <- IntsQuick
  Obs <- ObsEmit
INVARIANTS CopyLaws SubstrLaws InPlaceLaws AliasLaws
CHECK_DEADLOCK FALSE
