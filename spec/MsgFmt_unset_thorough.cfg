SPECIFICATION Spec
CONSTANTS
  Names <- NamesOne
  Vers = {}
  Msgs <- MsgsOne
  MacroMsgs <- MacroMsgsQuick
  Levels <- LevelsQuick
  Clocks <- ClocksQuick
  Sites <- SitesQuick
  Macros <- MacrosAll
  D = 4
  Extras = TRUE
  AsBuilt = FALSE
  Obs <- ObsEmit
INVARIANTS TypeOK OwnershipSound NoLeak NoNullDeref NoUseAfterFree NoRecursion SetIdempotent SilentWritesNothing PrefixLaw
CHECK_DEADLOCK FALSE
