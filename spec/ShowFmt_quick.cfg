SPECIFICATION Spec
CONSTANTS
  Values <- ValuesQuick
  Names <- NamesQuick
  Indents <- IndentsAll
  Priors <- PriorsQuick
  BigValues <- BigValuesQuick
  BigNames <- BigNamesAll
  BigIndents <- BigIndentsAll
  Obs <- ObsEmit
INVARIANTS Laws
CHECK_DEADLOCK FALSE
