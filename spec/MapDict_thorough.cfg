SPECIFICATION Spec
CONSTANTS
  NK = 5
  NV = 3
  BDepth = 1
  Obs <- ObsEmit
INVARIANTS TypeOK SortedNoDup GetAfterSet RemoveOnce FillLaw IterLaw
PROPERTIES MutatorsOnly SlotsIndependent DupIsEqual
CHECK_DEADLOCK FALSE
