SPECIFICATION LawSpec
CONSTANTS
  Parts <- PartsQuick
  Texts <- ShapeTexts
  Lookups <- LookupsQuick
  WithBuild = TRUE
  Obs <- ObsNone
INVARIANTS LawAssembleParse LawUnambExact LawUnparseParse LawIdempotent LawDefaultPort AmbiguousReport NonIdempotentReport
CHECK_DEADLOCK FALSE
