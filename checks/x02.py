"""X02 (extension beyond the 20 listed properties, DESIGN.md section 10): the `show` method of the object protocol.
Not registered in MANIFEST.json (the property list is fixed); run with ./vcheck X02 quick|thorough.

spec/ShowFmt.tla is the output grammar as a reference function Lines(value, name, indent) -> line records (pointers
abstracted); TLC checks its laws over a bounded universe of abstract values and emits one case per (value, name, indent,
prior buffer) with the expected line records; this module turns a case into a build program + the expected text and
harness/show_replay.c builds the real object, calls show through the class table and compares."""
import json, re, threading
from vlib import build, x_c12, x_x02
from vlib.core import Broken

x_c12.run_scripts = x_x02.run_scripts      # this process only: deaths without a death record are charged to the announced script

PROPERTY = "X02"
LEVEL = "model_checking"
LEVEL_TEXT = ("TLC checks the laws of the reference grammar ShowFmt.tla (every line starts with at least `indent` blanks and members with "
              "indent+2, braces balance and close at the indentation of their opener, the number of lines is a stated function of the "
              "value, the indent only shifts and the name only labels the first line, appending to a buffer = prior text + text for a "
              "NULL buffer with a NULL-safe first emission) over all values of a bounded universe (str/ustr/mbuff/obj/objpair/regexp/"
              "url/tok/socket, the three containers with 0-3 elements incl. NULL placeholders to nesting depth 2, their iterators, the "
              "NULL object of every class) x names x indents {0,1,2,7} x prior buffers, and emits every case with its expected line "
              "records; every case is built on the real classes (twice: two construction histories), shown through the class table in an "
              "ASan build, pointers normalised, and compared with the expected text; the returned buffer, repeatability, the append law "
              "and per-case heap balance are checked on the implementation.  A second family (names of 0..5000 characters, indents "
              "0..10/4000/4090/4096/5000, 5000-character element texts, nesting depth 20) runs the same comparison for memory safety.")
LEVEL_NOTE = ("extension, not one of the 20 properties: defects are recorded (known_findings.d/X02.json), not repaired.  The text of a line "
              "kind is a fixed template in this module (render_line) - trusted, as are TLC, ASan and harness/show_replay.c.  `size` "
              "(capacity) and pointer values are abstracted.  Names and texts contain no newline; NULL names, pthreads/module classes, "
              "open sockets and non-default tok quote characters are not covered.  Memory safety = no ASan report on what was executed.")
TECHNIQUE = "TLA+ reference grammar + TLC law checking; every emitted case replayed on the implementation under ASan"
DESIGN_REF = "DESIGN.md section 10"
ACTIONS = ["OpShowSmall", "OpShowBig"]
SCRATCH = 4095          # characters one snprintf into a tmp[4096] scratch buffer can deliver


# ---- text tokens (shared with harness/show_replay.c) ---------------------------------------------------------------
def _enc1(c):
    if c == 32:
        return "_"
    if c == 10:
        return "|"
    if 32 < c < 127 and chr(c) not in "_|^%*?":
        return chr(c)
    return "%%%02X" % c


def enc(b):
    """bytes -> token"""
    if not b:
        return "%e"
    out = []
    for m in re.finditer(rb"(?s)(.)\1*", b):
        k = len(m.group(0))
        c = m.group(0)[0]
        out.append("^%s*%d^" % (_enc1(c), k) if k >= 8 else _enc1(c) * k)
    return "".join(out)


def dec(t):
    """token -> bytes"""
    if t == "%e":
        return b""
    out = bytearray()
    i = 0

    def one(i):
        if t[i] == "%":
            return int(t[i + 1:i + 3], 16), i + 3
        return {"_": 32, "|": 10}.get(t[i], ord(t[i])), i + 1
    while i < len(t):
        if t[i] == "^":
            c, i = one(i + 1)
            j = t.index("^", i)
            out += bytes([c]) * int(t[i + 1:j])
            i = j + 1
        else:
            c, i = one(i)
            out.append(c)
    return bytes(out)


# ---- concretisation of the abstract objects of the spec ------------------------------------------------------------------
def name_bytes(n):
    m = re.fullmatch(r"<(\d+)>", n)
    return b"N" * int(m.group(1)) if m else n.encode()


def text_bytes(t, rep=1):
    return bytes(t) * rep


PTR = {"P": "P", "N": "    (nil)"}       # a NULL pointer as glibc prints it through %9p


def render_body(r):
    """The text of one line record without its indentation and newline (bytes)."""
    k = r["k"]
    if k == "null":
        return b"(spif_%s_t) %s:  { ((spif_%s_t) NULL) }" % (r["cls"].encode(), name_bytes(r["name"]), r["cls"].encode())
    if k == "open":
        return b"(spif_%s_t) %s:  P {" % (r["cls"].encode(), name_bytes(r["name"]))
    if k == "close":
        return b"}"
    if k == "str":
        return b'(spif_%s_t) %s:  P { "%s", len %d, size S }' % (r["cls"].encode(), name_bytes(r["name"]), text_bytes(r["t"], r["rep"]), r["n"])
    if k == "obj":
        return b'(spif_%s_t) %s:  P "%s"' % (r["cls"].encode(), name_bytes(r["name"]), r["s"].encode())
    if k == "mbopen":
        return b"(spif_mbuff_t) %s:  P (length %d, size S) {" % (name_bytes(r["name"]), r["n"])
    if k == "dump":
        bs = bytes(r["t"])
        hexs = b"".join(b"%02x " % c for c in bs) + b"   " * (8 - len(bs))
        asc = bytes(46 if (c < 32 or c == 127) else c for c in bs).ljust(8)
        return b"0x%08x  " % r["n"] + hexs + asc
    if k == "chr":
        return b"(spif_char_t) %s:  '%c' (0x%02x)" % (r["name"].encode(), r["n"], r["n"])
    if k == "lit":
        return r["s"].encode()
    if k == "len":
        return b"len:  %d" % r["n"]
    if k == "empty":
        return b"{ ((spif_obj_t *) NULL) }" if r["star"] else b"{ ((spif_obj_t) NULL) }"
    if k == "idx":
        return b"(spif_listidx_t) current_index:  %d" % r["n"]
    if k == "nullobj":
        return b"{ ((spif_obj_t) NULL) }"
    if k == "item":
        p = [PTR[x].encode() for x in r["p"]]
        head = (b"(spif_linked_list_item_t) %s (%s -> %s):  " % (name_bytes(r["name"]), p[0], p[1]) if r["cls"] == "linked_list" else
                b"(spif_dlinked_list_item_t) %s (%s <- %s -> %s):  " % (name_bytes(r["name"]), p[0], p[1], p[2]))
        return head + render_body(r["d"][0])
    raise Broken("unknown line kind %r" % (k,))


def render_line(r):
    return b" " * r["ind"] + render_body(r)


def first_piece_len(r):
    """Length of the longest piece of the line that the implementation must format into one 4096-byte scratch buffer
    (pointers at their real width of 14 characters; the text of a str and what follows it are appended separately)."""
    k = r["k"]
    body = render_body(r)
    if k == "str":
        body = body[:body.index(b' { "') + 4]
    if k == "item":
        d = r["d"][0]
        body = body[:len(body) - len(render_body(d))]
        return max(r["ind"] + len(body) + 13 * body.count(b"P"), first_piece_len(dict(d, ind=0)))
    return r["ind"] + len(body) + 13 * body.count(b"P") + 1


def annotate(recs):
    """For every line: (the class whose show routine produces it, indentation of the nearest enclosing list item whose
    element opened the block the line belongs to or -1, class of that item, index behind the block a line opens or -1)."""
    out, stack = [], []          # stack entries: [class, item_ind, item_cls, index of the opening line]
    ends = {}
    for i, r in enumerate(recs):
        k = r["k"]
        top = stack[-1][0] if stack else "?"
        if k in ("open", "null", "str", "obj"):
            who = r["cls"]
        elif k in ("mbopen", "dump"):
            who = "mbuff"
        elif k == "chr":
            who = "tok"
        elif k == "lit":
            who = "socket"
        elif k == "item":
            who = r["cls"] + "_item"
        else:
            who = top               # len / empty / idx / close: the enclosing object
        if k == "null" and top == "array" and r["cls"] == "obj":
            who = "array"           # a placeholder is rendered by the container
        near = next(((e[1], e[2]) for e in reversed(stack) if e[1] >= 0), (-1, ""))
        out.append([who, near[0], near[1], -1])
        d = r["d"][0] if k == "item" else r
        if d["k"] in ("open", "mbopen"):
            stack.append([d.get("cls", "mbuff"), r["ind"] if k == "item" else -1, r.get("cls", "") + "_item" if k == "item" else "", i])
        elif k == "close" and stack:
            ends[stack.pop()[3]] = i + 1
    for i, e in ends.items():
        out[i][3] = e
    return out


def compile_value(v, out):
    c = v["cls"]
    if v["nul"]:
        out.append(("null", [c]))
    elif c in ("str", "ustr", "mbuff", "regexp"):
        out.append((c, [enc(text_bytes(v["t"], v["rep"]))]))
    elif c == "obj":
        out.append(("obj", []))
    elif c in ("objpair", "url", "socket"):
        for k in v["kids"]:
            compile_value(k, out)
        out.append(({"objpair": "pair"}.get(c, c), []))
    elif c == "tok":
        for k in v["kids"]:
            compile_value(k, out)
        out.append(("tok", [str(v["n"])]))
    elif c in ("array", "linked_list", "dlinked_list"):
        for k in v["kids"]:
            compile_value(k, out)
        out.append(("list", [c, str(len(v["kids"]))]))
    elif c.endswith("_iterator"):
        compile_value(v["kids"][0], out)
        out.append(("iter", [str(v["n"])]))
    else:
        raise Broken("unknown class %r" % c)


def depth(v):
    return 1 + max([depth(k) for k in v.get("kids", [])] or [0])


def vclass(v):
    """value class for finding keys"""
    c = v["cls"]
    if v["nul"]:
        return "NULL"
    if c == "tok":
        return "tokens=NULL" if v["n"] == 0 else "evaluated"
    if c in ("array", "linked_list", "dlinked_list"):
        return "empty" if not v["kids"] else "non-empty"
    if c.endswith("_iterator"):
        return "exhausted" if v["n"] >= len(v["kids"][0]["kids"]) else "in-range"
    return "live"


def argclass(r):
    """big family: the deepest indentation any line of the rendering needs decides whether a 4096-byte scratch buffer can hold it"""
    mi = max(x["ind"] for x in r["lines"])
    nl = len(name_bytes(r["name"]))
    return "indent>=4096" if mi >= 4096 else "indent<4096,name%s" % (">=4000" if nl >= 4000 else "<4000")


def mk_case(sid, r):
    steps = []
    prog = []
    compile_value(r["v"], prog)
    for op, args in prog:
        steps.append((op, args, "T", None))
    exp = (bytes(r["prior"]["s"]) if r["prior"]["some"] else b"") + b"".join(render_line(x) + b"\n" for x in r["lines"])
    steps.append(("show", [enc(name_bytes(r["name"])), str(r["ind"]), enc(bytes(r["prior"]["s"])) if r["prior"]["some"] else "-"], enc(exp), None))
    return x_c12.Case(sid, steps, r)


def asbuilt_dump_row(rec):
    """What mbuff.c:343-357 makes of a dump row: hex column at the FIXED offset 14, text column at 38 (right for indent 0 only).
    Used only to give that known divergence its own key ("fixed-columns"); anything else on a dump row is "text"."""
    tmp = bytearray(b" " * rec["ind"] + b"0x%08x    " % rec["n"] + b"\0" + b"\0" * 64)
    bs = bytes(rec["t"])

    def put(off, data):
        tmp[off:off + len(data) + 1] = data + b"\0"
    for k, c in enumerate(bs):
        put(14 + 3 * k, b"%02x " % c)
    for _ in range(8 - len(bs)):
        end = tmp.index(0, 14)
        put(end, b"   ")
    put(38, bytes(46 if (c < 32 or c == 127) else c for c in bs).ljust(8))
    return bytes(tmp[:tmp.index(0)])


def text_relation(rec, e, g):
    """Names the divergence of one line whose text (not only its indentation / newline) differs.  The as-built forms of the
    recorded findings get their own relation so that any OTHER wrong text on the same kind of line still alarms."""
    k = rec["k"]
    d = rec["d"][0] if k == "item" else rec
    if d["k"] == "str" and d["cls"] == "ustr" and d["n"] > 0:
        if g == e.replace(b'{ "' + text_bytes(d["t"], d["rep"]) + b'", len', b'{ "", len', 1):
            return "text-omitted"
    if d["k"] == "obj":
        q = e.rindex(b' "!spif_')
        if g[:q + 2] == e[:q + 2]:              # right up to the opening quote (the bytes printed may even hold a newline)
            return "classname-bytes"
    if d["k"] == "open" and d["cls"] == "objpair":
        if g[:len(e) - 1] == e[:-1] and g[len(e) - 1:len(e)] == b'"':
            return "one-line-obj-form"
    if k == "dump" and g == re.sub(rb"0x[0-9a-f]{9,}", b"P", asbuilt_dump_row(rec)):      # (the harness's pointer normalisation applies)
        return "fixed-columns"
    return "text"


# ---- classification of a failing case into specific finding keys ---------------------------------------------------
def diff_keys(r, got):
    """Walks the expected line records over the text the implementation produced and names every divergence by the show
    routine that renders the line, the line kind and the relation (text / indentation / missing newline / cut piece), so that
    one defect has one key wherever the object is nested.  Returns [(key, description)]."""
    recs = r["lines"]
    ann = annotate(recs)
    prior = bytes(r["prior"]["s"]) if r["prior"]["some"] else b""
    if not got.startswith(prior):
        return [("show %s prior-text-lost" % r["v"]["cls"], "the text already in the buffer is not in front of the output")]
    cur = len(prior)
    keys = []
    seen = set()

    def add(key, what):
        if key not in seen:
            seen.add(key)
            keys.append((key, what))
    i = 0
    while i < len(recs):
        rec = recs[i]
        who, item_ind, item_cls, end = ann[i]
        kind = rec["k"]
        if kind == "dump":
            kind += "@indent0" if rec["ind"] == 2 else "@indent>0"
        e = render_line(rec)
        rest = got[cur:cur + len(e) + 4200]
        if rest.startswith(e + b"\n"):
            cur += len(e) + 1
            i += 1
            continue
        if first_piece_len(rec) > SCRATCH:
            add("show %s:%s piece>4095 cut" % (who, kind), "line %d needs a piece of %d characters; a 4096-byte scratch buffer cuts it (the rest of the "
                "output is not compared)" % (i, first_piece_len(rec)))
            return keys
        gi = len(rest) - len(rest.lstrip(b" "))
        body = e[rec["ind"]:]
        after = rest[gi:]
        if after.startswith(body):
            nl = after[len(body):len(body) + 1] == b"\n"
            what = "line %d exp=%r got=%r" % (i, e[:160], rest[:gi + len(body) + 1][:160])
            if gi != rec["ind"]:
                if item_ind >= 0 and gi == rec["ind"] - item_ind:
                    add("show %s:continuation element-rendered-at-indent-0" % item_cls, what)
                else:
                    add("show %s:%s %s" % (who, kind, "unindented" if gi == 0 else ("indent%+d" % (gi - rec["ind"]))), what)
            if not nl:
                add("show %s:%s%s no-newline" % (who, kind, "/" + rec["d"][0]["k"] if kind == "item" else ""), what)
            cur += gi + len(body) + (1 if nl else 0)
            i += 1
            continue
        j = rest.find(b"\n")
        if kind == "item":
            d = rec["d"][0]
            head = body[:len(body) - len(render_body(d))]
            if after.startswith(head):          # the item prefix is right: the element's own first line differs
                who, kind = d.get("cls", "mbuff"), d["k"]
            else:
                kind = "item/" + d["k"]
        gline = rest[:j] if j >= 0 else rest
        add("show %s:%s %s" % (who, kind, text_relation(rec, e, gline)), "line %d exp=%r got=%r" % (i, e[:200], gline[:200]))
        # resynchronise at the next expected line behind this line / behind the block this line opens
        nx = end if end > 0 else i + 1
        if nx >= len(recs):
            return keys
        nb = render_line(recs[nx])[recs[nx]["ind"]:]
        pos = got.find(nb, cur)
        while pos >= 0:                       # the next expected line must begin a line of the output
            q = pos
            while q > cur and got[q - 1:q] == b" ":
                q -= 1
            if q > cur and got[q - 1:q] == b"\n":
                break
            pos = got.find(nb, pos + 1)
        if pos < 0:
            # no way to line the rest up; one more thing can still be said: does the rendering end with its closing brace?
            if recs[-1]["k"] == "close" and not got.endswith(b"}\n"):
                add("show %s:close missing" % ann[-1][0], "the output does not end with the closing brace: ...%r" % got[-80:])
            return keys
        cur, i = q, nx
    if cur < len(got):
        add("show %s extra-text" % r["v"]["cls"], "text behind the last expected line: %r" % got[cur:cur + 160])
    return keys or [("show %s undetermined" % r["v"]["cls"], "token mismatch without a differing line")]


_LOCK = threading.Lock()


class Runner:
    def __init__(self, ctx, exe, alt):
        self.ctx, self.alt = ctx, alt
        self.dead = set()
        self.cs = x_c12.CaseStream(ctx, exe, [str(alt)], self.keyfn, "alt%d" % alt, chunk=4000, env={"VH_TOKEN_MAX": str(1 << 20)})

    def keyfn(self, c, at, f):
        return "show %s %s" % (c.meta["v"]["cls"], x_c12.fail_class(f))

    def on_fail(self, c, at, f):
        with _LOCK:
            return self._on_fail(c, at, f)

    def _on_fail(self, c, at, f):
        r = c.meta
        op = c.steps[at][0]
        if c.sid in self.dead:
            return True         # x_c12 re-runs the steps behind a crash as a script of their own: meaningless for a stack program
        if f.kind in ("crash", "hang", "exit"):
            self.dead.add(c.sid)
        rp = {"harness_args": [str(self.alt)], "script_text": c.text(), "failure": repr(f)[:2000], "detail": f.detail[:4000],
              "case": {k: r[k] for k in ("fam", "v", "name", "ind", "prior")}}
        if op != "show":
            self.ctx.report("build %s %s %s" % (r["v"]["cls"], op, x_c12.fail_class(f)),
                            "building the object failed at step %s: %s %s" % (op, f.kind, f.got or f.sig), rp)
            return True
        if f.kind in ("crash", "hang", "exit"):
            cls = "[%s]" % argclass(r) if r["fam"] == "big" else "[%s]" % vclass(r["v"])
            self.ctx.report("show %s %s %s" % (r["v"]["cls"], cls, x_c12.fail_class(f)),
                            "%s.show(name %d chars, indent %d): %s %s" % (r["v"]["cls"], len(name_bytes(r["name"])), r["ind"], f.kind, f.sig), rp)
            return True
        if f.kind == "ret":
            for key, what in diff_keys(r, dec(f.got)):
                self.ctx.report(key, "%s.show(name %r, indent %d): %s" % (r["v"]["cls"], r["name"], r["ind"], what), rp)
            return True
        if f.kind == "heap":
            self.ctx.report("show %s [%s] heap" % (r["v"]["cls"], vclass(r["v"])),
                            "%s.show leaves the heap unbalanced: %s -> %s bytes" % (r["v"]["cls"], f.exp, f.got), rp)
            return True
        return False


def harness(ctx):
    libdir, cflags = build.build_lib(ctx.repo)
    return build.build_harness("show_replay", ["show_replay.c"], libdir, cflags)


def run(ctx):
    exe = harness(ctx)
    cfg = "ShowFmt_quick.cfg" if ctx.tier == "quick" else "ShowFmt_thorough.cfg"
    runners = [Runner(ctx, exe, 0), Runner(ctx, exe, 1)]
    # CaseStream calls x_c12.run_cases without on_fail: give each stream its own bound runner
    for rn in runners:
        _patch(rn)
    n = [0]
    taken = {"OpShowSmall": 0, "OpShowBig": 0}
    nontriv = [0]
    nsteps = [0]
    classes = {}
    best = {}
    want = {("tok", 2, "nm"), ("linked_list", 2, "nm"), ("url", 1, ""), ("mbuff", 7, "nm"), ("dlinked_list_iterator", 0, "nm"), ("objpair", 2, "")}

    def on_case(r):
        n[0] += 1
        taken["OpShowSmall" if r["fam"] == "small" else "OpShowBig"] += 1
        if len(r["lines"]) != r["nlines"]:
            raise Broken("case with %d lines but nlines=%d" % (len(r["lines"]), r["nlines"]))
        for rn in runners:
            case = mk_case(n[0] * 2 + rn.alt, r)
            nsteps[0] += len(case.steps)
            rn.cs.add(case)
        c = r["v"]["cls"]
        classes[c] = classes.get(c, 0) + 1
        if not r["v"]["nul"]:
            nontriv[0] += 1
        key = (c, r["ind"], r["name"])
        if r["fam"] == "small" and key in want and not r["prior"]["some"] and not r["v"]["nul"] and depth(r["v"]) <= 2:
            # chosen by content (the largest value of that class), so the evidence does not depend on TLC's emission order
            rank = (len(r["lines"]), json.dumps(r["v"], sort_keys=True))
            if key not in best or rank > best[key][0]:
                best[key] = (rank, {"class": c, "value": r["v"], "name": r["name"], "indent": r["ind"],
                                    "expected_text": b"".join(render_line(x) + b"\n" for x in r["lines"]).decode("latin-1").split("\n")[:-1]})
    try:
        res = x_c12.tlc_cases(ctx, "MC_ShowFmt.tla", cfg, ACTIONS, on_case, coverage=False, taken=lambda: taken, timeout=1500)
    finally:
        tots = [rn.cs.close() for rn in runners]
    for t in tots:
        if res.ok and t["scripts"] != res.edges:
            raise Broken("emitted %d cases, replayed %d" % (res.edges, t["scripts"]))
    # a harness process that dies inside a step cannot report how many steps it had executed, so the harness's own step count
    # depends on how the cases were spread over processes: the evidence counts the steps of the scripts instead
    ctx.cov["evaluations"] = nsteps[0]
    for t in ctx.cov["replay"].values():
        t["steps"] = nsteps[0] // 2
    for key in sorted(best):
        ctx.sample(best[key][1])
    ctx.add("distinct_nontrivial", nontriv[0])
    ctx.cov["cases_per_class"] = dict(sorted(classes.items()))
    ctx.cov["exhaustive"] = True
    ctx.cov["rule"] = ("every (value, name, indent, prior buffer) of the bounded universe is evaluated by TLC (grammar + laws) and executed on "
                       "the implementation twice (two construction histories); a case is non-trivial when the object is not NULL (cases are "
                       "distinct by construction)")
    ctx.assumptions += ["ASan build of the current tree (clang -O1)", "C locale", "glibc renders a NULL pointer through %p as (nil)"]


def _patch(rn):
    """CaseStream's worker calls x_c12.run_cases(ctx, exe, hargs, part, keyfn, tag, env=...); bind on_fail for this runner."""
    cs = rn.cs

    def work():
        k = 0
        while True:
            part = cs.q.get()
            if part is None:
                return
            k += 1
            try:
                if not cs.err:
                    x_c12.run_cases(cs.ctx, cs.exe, cs.hargs, part, cs.keyfn, "%s#%d" % (cs.tag, k), env=cs.env, on_fail=rn.on_fail)
            except Exception as e:
                cs.err.append(e)
    # the stream's thread was started with the original worker; it has not consumed anything yet, so stop it and start ours
    import threading
    cs.q.put(None)
    cs.th.join()
    cs.th = threading.Thread(target=work, daemon=True)
    cs.th.start()


def replay(ctx, path):
    d = json.load(open(path))
    alt = (d.get("replay") or {}).get("harness_args", ["0"])
    return x_c12.replay_file(harness(ctx), alt, path, ctx.rundir, env={"VH_TOKEN_MAX": str(1 << 20)})
