SPECIFICATION Spec
CONSTANTS
  CompileLevels <- AllCompile
  RunLevels <- AllRun
  Obs <- ObsEmit
INVARIANTS TypeOK NoOutputWhenSilent ArgsNotEvaluatedWhenGatedOff GateExact GateMonotone CompiledOut AssertStops RequireNeverFatal HoldingIsQuiet ContextLaw
PROPERTY BuildConstant
CHECK_DEADLOCK FALSE
