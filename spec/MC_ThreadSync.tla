---------------------------- MODULE MC_ThreadSync ----------------------------
(* Clients of the ThreadSync protocol: 2-3 worker threads using the wrappers in the canonical       *)
(* patterns, as small straight-line programs with one loop counter.  TLC interleaves the threads;   *)
(* every step is one wrapper call (an action of ThreadSync, unchanged) or one client step.          *)
(*                                                                                                  *)
(*   critsec   workers: K x { lock m1; read cnt; write cnt+1; unlock m1 }                           *)
(*   trylock   workers: K x { if lock_nowait m1 { read; write; unlock } }                           *)
(*   order     workers: K x { lock m1; lock m2; read; write; unlock m2; unlock m1 }                 *)
(*   order_bad same, but worker 2 takes m2 before m1          (negative control: TLC must deadlock) *)
(*   prodcons  producers: K x { lock c; put; signal c; unlock c }                                   *)
(*             consumers: Q x { lock c; while (cnt = 0) wait c; take; unlock c }                    *)
(*   prodbc    producer queues K items, then ONE broadcast; prodtw = prodcons with wait_timed       *)
(*   ifwait    consumers use `if' instead of `while'           (negative control: TLC must refute)  *)
(*   life      main: lock m1; run 1; kill0 1; run 1 (refused); run 2; detach 2; unlock m1; join 1   *)
(* main always: run every worker, wait_for (join) every worker, then read the workers' results.     *)
(*                                                                                                  *)
(* Ghost (client-side) state: hold[t] = the lockables t believes it holds, jb = the workers main    *)
(* believes it joined, succ = successful lock_nowait calls.  The client believes lock/wait/join     *)
(* (it does not look at their return value, as C code does not) and looks at the return value of    *)
(* lock_nowait and wait_timed.                                                                      *)
EXTENDS ThreadSync

CONSTANTS Pattern, NW, K, NP, Q

VARIABLES pc, it, ph, hold, jb, succ
gvars == <<pc, it, ph, hold, jb, succ>>
vars == <<lvars, gvars>>

M1 == 1
M2 == 2
C1 == 9
Workers == 1 .. NW

I3(a, b, c) == <<a, b, c>>
MainProg ==
    IF Pattern = "life"
    THEN << I3("lock", M1, 0), I3("kill0", 1, 0), I3("detach", 1, 0), I3("run", 1, 0), I3("kill0", 1, 0), I3("run", 1, 0),
            I3("run", 2, 0), I3("detach", 2, 0), I3("unlock", M1, 0), I3("join", 1, 0), I3("chkres", 1, 0), I3("end", 0, 0) >>
    ELSE [i \in 1 .. NW |-> I3("run", i, 0)] \o [i \in 1 .. NW |-> I3("join", i, 0)]
         \o [i \in 1 .. NW |-> I3("chkres", i, 0)] \o << I3("end", 0, 0) >>

CritProg == << I3("begin", 0, 0), I3("lock", M1, 0), I3("rd", 0, 0), I3("wr", 0, 0), I3("unlock", M1, 0), I3("rep", 2, K),
               I3("setres", 0, 0), I3("exit", 0, 0), I3("end", 0, 0) >>
TryProg == << I3("begin", 0, 0), I3("try", M1, 6), I3("rd", 0, 0), I3("wr", 0, 0), I3("unlock", M1, 0), I3("rep", 2, K),
              I3("setres", 0, 0), I3("exit", 0, 0), I3("end", 0, 0) >>
OrderProg(a, b) == << I3("begin", 0, 0), I3("lock", a, 0), I3("lock", b, 0), I3("rd", 0, 0), I3("wr", 0, 0), I3("unlock", b, 0),
                      I3("unlock", a, 0), I3("rep", 2, K), I3("setres", 0, 0), I3("exit", 0, 0), I3("end", 0, 0) >>
ProdProg(sig) == << I3("begin", 0, 0), I3("lock", C1, 0), I3("put", 0, 0), I3(sig, C1, 0), I3("unlock", C1, 0), I3("rep", 2, K),
                    I3("setres", 0, 0), I3("exit", 0, 0), I3("end", 0, 0) >>
\* prodbc: all K items are queued before ONE broadcast (so that waking a single sleeper is not enough)
ProdBcProg == << I3("begin", 0, 0), I3("lock", C1, 0), I3("put", 0, 0), I3("rep", 3, K), I3("bcast", C1, 0), I3("unlock", C1, 0),
                 I3("setres", 0, 0), I3("exit", 0, 0), I3("end", 0, 0) >>
ConsProg(w) == << I3("begin", 0, 0), I3("lock", C1, 0), I3("chk", 6, 0), I3(w, C1, 3), I3("goto", 3, 0), I3("take", 0, 0),
                  I3("unlock", C1, 0), I3("rep", 2, Q), I3("setres", 0, 0), I3("exit", 0, 0), I3("end", 0, 0) >>
\* `if' instead of `while': after the wait the item is taken without looking again
IfConsProg == << I3("begin", 0, 0), I3("lock", C1, 0), I3("chk", 5, 0), I3("wait", C1, 5), I3("take", 0, 0),
                 I3("unlock", C1, 0), I3("rep", 2, Q), I3("setres", 0, 0), I3("exit", 0, 0), I3("end", 0, 0) >>

Prog(t) ==
    IF t = 0 THEN MainProg
    ELSE CASE Pattern = "critsec" -> CritProg
           [] Pattern = "life" -> CritProg
           [] Pattern = "trylock" -> TryProg
           [] Pattern = "order" -> OrderProg(M1, M2)
           [] Pattern = "order_bad" -> IF t = 2 THEN OrderProg(M2, M1) ELSE OrderProg(M1, M2)
           [] Pattern = "prodcons" -> IF t <= NP THEN ProdProg("signal") ELSE ConsProg("wait")
           [] Pattern = "prodbc" -> IF t <= NP THEN ProdBcProg ELSE ConsProg("wait")
           [] Pattern = "prodtw" -> IF t <= NP THEN ProdProg("signal") ELSE ConsProg("twait")
           [] Pattern = "ifwait" -> IF t <= NP THEN ProdProg("signal") ELSE IfConsProg

Ins(t) == Prog(t)[pc[t]]
\* control instructions are not steps: the program counter is normalised past them
RECURSIVE Norm(_, _, _)
Norm(t, p, i) == LET ins == Prog(t)[p] IN
    IF ins[1] = "goto" THEN Norm(t, ins[2], i)
    ELSE IF ins[1] = "rep" THEN (IF i + 1 < ins[3] THEN Norm(t, ins[2], i + 1) ELSE Norm(t, p + 1, 0))
    ELSE <<p, i>>
Go(t, p) == /\ pc' = [pc EXCEPT ![t] = Norm(t, p, it[t])[1]]
            /\ it' = [it EXCEPT ![t] = Norm(t, p, it[t])[2]]
Nx(t) == Go(t, pc[t] + 1)

\* the state as the edge lines show it (ghost state included: it is what the replayer schedules by)
NextIns == [t \in Thr |-> IF ts[t] = "run" THEN Ins(t) ELSE I3("none", 0, 0)]
FullSt == [own |-> own, wt |-> wt, rdy |-> rdy, tmo |-> tmo, tw |-> tw, ts |-> ts, det |-> det, cnt |-> cnt, tmp |-> tmp,
           res |-> res, pc |-> pc, it |-> it, ph |-> ph, nxt |-> NextIns]
ObsEmit(op, args, ret, post) == PrintT(ToJson([pre |-> FullSt, op |-> op, args |-> args, ret |-> ret, post |-> FullSt']))
ObsNone(op, args, ret, post) == TRUE

MCInit == /\ Init
          /\ pc = [t \in Thr |-> 1] /\ it = [t \in Thr |-> 0] /\ ph = [t \in Thr |-> 0]
          /\ hold = [t \in Thr |-> {}] /\ jb = {} /\ succ = 0

DoLock(t) == /\ Ins(t)[1] = "lock"
             /\ \E r \in BOOLEAN :
                  /\ Nx(t) /\ hold' = [hold EXCEPT ![t] = @ \cup {Ins(t)[2]}] /\ UNCHANGED <<ph, jb, succ>>
                  /\ OpLock(t, Ins(t)[2], r)
DoTry(t) == /\ Ins(t)[1] = "try"
            /\ \E r \in BOOLEAN :
                 /\ IF r THEN Nx(t) ELSE Go(t, Ins(t)[3])
                 /\ hold' = IF r THEN [hold EXCEPT ![t] = @ \cup {Ins(t)[2]}] ELSE hold
                 /\ succ' = succ + B2I(r) /\ UNCHANGED <<ph, jb>>
                 /\ OpTry(t, Ins(t)[2], r)
DoUnlock(t) == /\ Ins(t)[1] = "unlock"
               /\ \E r \in BOOLEAN :
                    /\ Nx(t) /\ hold' = [hold EXCEPT ![t] = @ \ {Ins(t)[2]}] /\ UNCHANGED <<ph, jb, succ>>
                    /\ OpUnlock(t, Ins(t)[2], r)
DoWaitBegin(t) == /\ Ins(t)[1] \in {"wait", "twait"} /\ ph[t] = 0
                  /\ ph' = [ph EXCEPT ![t] = 1] /\ hold' = [hold EXCEPT ![t] = @ \ {Ins(t)[2]}] /\ UNCHANGED <<pc, it, jb, succ>>
                  /\ OpWaitBegin(t, Ins(t)[2], Ins(t)[1] = "twait")
DoWaitEnd(t) == /\ Ins(t)[1] \in {"wait", "twait"} /\ ph[t] = 1
                /\ \E r \in BOOLEAN :
                     /\ IF r \/ Ins(t)[1] = "wait" THEN Nx(t) ELSE Go(t, Ins(t)[3])
                     /\ ph' = [ph EXCEPT ![t] = 0] /\ hold' = [hold EXCEPT ![t] = @ \cup {Ins(t)[2]}] /\ UNCHANGED <<jb, succ>>
                     /\ OpWaitEnd(t, Ins(t)[2], r)
DoWaitEndTmo(t) == /\ Ins(t)[1] = "twait" /\ ph[t] = 1
                   /\ Go(t, Ins(t)[3])
                   /\ ph' = [ph EXCEPT ![t] = 0] /\ hold' = [hold EXCEPT ![t] = @ \cup {Ins(t)[2]}] /\ UNCHANGED <<jb, succ>>
                   /\ OpWaitEndTmo(t, Ins(t)[2], FALSE)
DoTimeout(t) == /\ Ins(t)[1] = "twait" /\ ph[t] = 1
                /\ UNCHANGED gvars
                /\ OpTimeout(t, Ins(t)[2])
DoSpurious(t) == /\ Ins(t)[1] \in {"wait", "twait"} /\ ph[t] = 1
                 /\ UNCHANGED gvars
                 /\ OpSpurious(t, Ins(t)[2])
DoSignal(t) == /\ Ins(t)[1] = "signal"
               /\ \E r \in BOOLEAN : Nx(t) /\ UNCHANGED <<ph, hold, jb, succ>> /\ OpSignal(t, Ins(t)[2], r)
DoBcast(t) == /\ Ins(t)[1] = "bcast"
              /\ \E r \in BOOLEAN : Nx(t) /\ UNCHANGED <<ph, hold, jb, succ>> /\ OpBroadcast(t, Ins(t)[2], r)
DoRun(t) == /\ Ins(t)[1] = "run"
            /\ \E r \in BOOLEAN : Nx(t) /\ UNCHANGED <<ph, hold, jb, succ>> /\ OpRun(t, Ins(t)[2], r)
DoJoin(t) == /\ Ins(t)[1] = "join"
             /\ \E r \in BOOLEAN : Nx(t) /\ jb' = jb \cup {Ins(t)[2]} /\ UNCHANGED <<ph, hold, succ>> /\ OpJoin(t, Ins(t)[2], r)
DoDetach(t) == /\ Ins(t)[1] = "detach"
               /\ \E r \in BOOLEAN : Nx(t) /\ UNCHANGED <<ph, hold, jb, succ>> /\ OpDetach(t, Ins(t)[2], r)
DoKill0(t) == /\ Ins(t)[1] = "kill0"
              /\ \E r \in BOOLEAN : Nx(t) /\ UNCHANGED <<ph, hold, jb, succ>> /\ OpKill0(t, Ins(t)[2], r)
DoBegin(t) == /\ Ins(t)[1] = "begin" /\ Nx(t) /\ UNCHANGED <<ph, hold, jb, succ>> /\ OpBegin(t)
DoExit(t) == /\ Ins(t)[1] = "exit" /\ Nx(t) /\ UNCHANGED <<ph, hold, jb, succ>> /\ OpExit(t)
DoRd(t) == /\ Ins(t)[1] = "rd" /\ Nx(t) /\ UNCHANGED <<ph, hold, jb, succ>> /\ OpRd(t)
DoWr(t) == /\ Ins(t)[1] = "wr" /\ Nx(t) /\ UNCHANGED <<ph, hold, jb, succ>> /\ OpWr(t)
DoPut(t) == /\ Ins(t)[1] = "put" /\ Nx(t) /\ UNCHANGED <<ph, hold, jb, succ>> /\ OpPut(t)
DoTake(t) == /\ Ins(t)[1] = "take" /\ Nx(t) /\ UNCHANGED <<ph, hold, jb, succ>> /\ OpTake(t)
DoChk(t) == /\ Ins(t)[1] = "chk"
            /\ \E r \in BOOLEAN : (IF r THEN Go(t, Ins(t)[2]) ELSE Nx(t)) /\ UNCHANGED <<ph, hold, jb, succ>> /\ OpChk(t, r)
DoSetRes(t) == /\ Ins(t)[1] = "setres" /\ Nx(t) /\ UNCHANGED <<ph, hold, jb, succ>> /\ OpSetRes(t)
DoChkRes(t) == /\ Ins(t)[1] = "chkres"
               /\ \E r \in BOOLEAN : Nx(t) /\ UNCHANGED <<ph, hold, jb, succ>> /\ OpChkRes(t, Ins(t)[2], r)

ThreadStep(t) ==
    \/ DoLock(t) \/ DoTry(t) \/ DoUnlock(t) \/ DoWaitBegin(t) \/ DoWaitEnd(t) \/ DoWaitEndTmo(t) \/ DoSignal(t) \/ DoBcast(t)
    \/ DoRun(t) \/ DoJoin(t) \/ DoDetach(t) \/ DoKill0(t) \/ DoBegin(t) \/ DoExit(t)
    \/ DoRd(t) \/ DoWr(t) \/ DoPut(t) \/ DoTake(t) \/ DoChk(t) \/ DoSetRes(t) \/ DoChkRes(t)
\* the environment: time passing for a timed wait, a spurious wake-up (no fairness: neither need happen)
EnvStep(t) == DoTimeout(t) \/ DoSpurious(t)

AtEnd(t) == Ins(t)[1] = "end"
Terminated == \A t \in Thr : AtEnd(t)
Finished == Terminated /\ UNCHANGED vars
MCNext == (\E t \in Thr : ThreadStep(t) \/ EnvStep(t)) \/ Finished
MCSpec == MCInit /\ [][MCNext]_vars
\* strong fairness per thread: a lock that is free again and again is eventually obtained
FairSpec == MCSpec /\ \A t \in Thr : SF_vars(ThreadStep(t))

----------------------------------------------------------------------------------
MCTypeOK == TypeOK /\ pc \in [Thr -> 1 .. 16] /\ ph \in [Thr -> 0 .. 1]
\* what the client believes about the locks is true
BeliefSound == \A t \in Thr : \A o \in hold[t] : own[o] = t
\* MUTUAL EXCLUSION, stated on the clients: no lockable is believed held by two threads
MutualExclusion == \A t1, t2 \in Thr : t1 # t2 => hold[t1] \cap hold[t2] = {}
\* the read-modify-write and the queue steps happen inside the critical section
InCS(t) == Ins(t)[1] \in {"rd", "wr", "put", "take", "chk"} /\ ts[t] = "run"
OneInCS == \A t1, t2 \in Thr : (t1 # t2 /\ InCS(t1) /\ InCS(t2)) => FALSE
CntNonNeg == cnt >= 0
\* no lost update / every item consumed exactly once, judged when everybody is done
Expected == CASE Pattern \in {"critsec", "order", "order_bad"} -> NW * K
              [] Pattern = "life" -> NW * K
              [] Pattern = "trylock" -> succ
              [] OTHER -> NP * K - (NW - NP) * Q
FinalCount == Terminated => cnt = Expected
\* JOIN: wait_for returned => the worker's function had finished and its result is visible
JoinAfterFinish == \A w \in jb : ts[w] \in {"fin", "joined"} /\ res[w] = TRUE
\* a woken waiter always finds what it was woken for only if it looks again: the wrapper itself re-checks nothing
Termination == <>Terminated
\* NO LOST WAKE-UP: a consumer asleep while an item is there is eventually not asleep any more
NoLostWakeup == \A t \in Workers : \A c \in Cnd : ((t \in wt[c] /\ cnt > 0) ~> (t \notin wt[c]))
================================================================================
