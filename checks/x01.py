"""X01 (extension beyond the 20 listed properties, DESIGN.md section 10): the TLS handle table of the pthreads class.
Not registered in MANIFEST.json (the property list is fixed); run with ./vcheck X01 quick."""
import re
from vlib import build, objcheck
from vlib.core import tok
from vlib.tlc import run_tlc

PROPERTY = "X01"
LEVEL = "model_checking"
LEVEL_TEXT = ("TLC checks HandleStable/NoAlias on TlsTable.tla with the placeholder behaviour the code's comment assumes, finds the "
              "counterexample by itself on the as-built mechanism (the list refuses NULL placeholders), and every transition of the "
              "ideal model is replayed on spif_pthreads_tls_*.")
LEVEL_NOTE = "extension; single-threaded (the table lives in the object); MaxAllocs = 4"
TECHNIQUE = "TLA+ mechanism-level spec + TLC + transition cover replay"
DESIGN_REF = "DESIGN.md section 10"
N = 4


def keyfn(variant, e, f):
    d = re.sub(r"\d+", "N", f.got) if f.kind == "inv" else (f.sig if f.kind in ("crash", "hang", "exit") else "")
    cls = ""
    if e:
        s = e["pre"]["slots"]
        k = e["args"][0] if e["args"] else -1
        cls = "last" if k == len(s) - 1 else ("middle-or-first" if 0 <= k < len(s) else "none")
    return "tls.%s [%s] %s%s" % (e["op"] if e else f.op, cls, f.kind, ("/" + d) if d else "")


def run(ctx):
    libdir, cflags = build.build_lib(ctx.repo)
    exe = build.build_harness("tls_replay", ["tls_replay.c"], libdir, cflags, ldflags=["-lpthread"])
    # the as-built mechanism: TLC itself must find the violation (design-level verdict)
    res = run_tlc("MC_TlsTable.tla", "TlsTable_asbuilt.cfg", ctx.rundir, workers=1, coverage=False)
    ctx.cov["asbuilt_mechanism_refuted_by_tlc"] = bool(res.violation and "HandleStable" in res.violation)
    g, r = objcheck.tlc_graph(ctx, "MC_TlsTable.tla", "TlsTable_ideal.cfg", workers=2)
    init = {"slots": [], "held": [0] * (N + 1), "n": 1}
    # pass 1 with the heap balance postlude (a leak on the very first edge would hide everything behind it, so:)
    # pass 2 without it, to see the functional behaviour of the whole table
    objcheck.replay_cover(ctx, g, [tok(init)], exe, "pthreads+heap", [str(N)], keyfn)
    objcheck.replay_cover(ctx, g, [tok(init)], exe, "pthreads", [str(N)], keyfn, walks=(200, 30), env={"VH_NO_HEAP": "1"})
    ctx.cov["rule"] = "every transition of TlsTable (ideal placeholder rule) on the real functions"
