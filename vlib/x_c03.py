"""Direction (B) helper shared by checks/c03.py and checks/c04.py (maps and vectors): record random histories on one
implementation class in the replay harness' record mode, turn them into NDJSON events and let TLC validate them against
the trace specification.  An event carries the full projected state only when the projection changed; an event without
"post" obliges the specification not to move either (see spec/MapDictTrace.tla)."""
import json, re
from .core import untok
from .replay import run_scripts
from . import trace


def parse_arg(w):
    return True if w == "T" else (False if w == "F" else int(w))


def script_text(sid, lines):
    return "S %d\n%s\nE\n" % (sid, "\n".join("%s = ? ?" % c for c in lines))


def keyfn_free(variant, f):
    d = re.sub(r"\d+", "N", f.got) if f.kind == "inv" else f.sig
    return "%s.%s %s%s" % (variant, f.op, f.kind, ("/" + d) if d else "")


# round 4 (mixed-class elements): trailing class arguments (1 = spif_str, 2 = spif_url with the same text) per operation
CLASS_ARGS = {"set": 2, "set_pair": 2, "set_keep": 2, "set_own_key": 1, "remove": 1, "get": 1, "has_key": 1, "has_value": 1,
              "insert": 1, "find": 1, "contains": 1}
MIX_ARG = {"fill_set", "fill"}        # 1 all strs, 2 all urls, 3 odd numbers urls / even numbers strs


def add_classes(lines, choose):
    """Appends the class arguments to the lines of a generated history.  choose() -> 1 or 2.  While a copy is live
    (between dup and b_del/adopt) every argument is a str: the model offers urls only then (model bound)."""
    out = []
    live = False
    for ln in lines:
        op = ln.split()[0]
        if op == "dup":
            live = True
        elif op in ("b_del", "adopt"):
            live = False
        n = CLASS_ARGS.get(op, 0)
        if n:
            ln += "".join(" %d" % (1 if live else choose()) for _ in range(n))
        elif op in MIX_ARG:
            ln += " %d" % (1 if live else 3)
        out.append(ln)
    return out


def record_validate(ctx, exe, cls, hargs, hist, init, module, cfg, corrupt=None, tag=None, sid0=1, env=None):
    """hist: list of histories (lists of 'op arg..' lines).  Reports violations through ctx.
    Returns (events_validated, max_size_of_a, accepted).  corrupt(events) may damage the events (binding demonstration)."""
    # script ids matter: harnesses started with text family -1 choose the family from the id
    texts = [script_text(k + sid0, h) for k, h in enumerate(hist)]
    fails, recs, ns, nt = run_scripts(exe, hargs, texts, ctx.rundir, jobs=4, env=env, tag="rec-" + (tag or cls))
    bad_sids = set()
    for f in fails:
        bad_sids.add(f.sid)
        ctx.report("trace %s" % keyfn_free(cls, f), "%s: recorded run failed before validation: %r" % (cls, f),
                   {"variant": cls, "harness_args": hargs, "script_text": texts[f.sid - sid0], "failure": repr(f), "detail": f.detail})
    by = {}
    for sid, step, ret, state in recs:
        by.setdefault(sid, []).append((step, ret, state))
    events, index = [], []
    maxsize = 0
    for sid in sorted(by):
        if sid in bad_sids:
            continue
        events.append({"op": "reset", "args": [], "ret": True, "post": init})
        index.append((sid, -1))
        prev = None
        for step, ret, state in sorted(by[sid]):
            w = hist[sid - sid0][step].split()
            ev = {"op": w[0], "args": [parse_arg(x) for x in w[1:]], "ret": untok(ret)}
            if state != prev:
                ev["post"] = untok(state)
                maxsize = max(maxsize, len(ev["post"]["a"]))
            prev = state
            events.append(ev)
            index.append((sid, step))
    if not events:
        return 0, 0, not fails
    if corrupt:
        corrupt(events)
    ok, pos, path = trace.validate(ctx, module, cfg, events, tag=(tag or cls))
    if not ok:
        sid, step = index[pos] if pos < len(index) else (None, None)
        evb = events[pos] if pos < len(events) else None
        ctx.report("trace-rejected %s.%s" % (cls, evb["op"] if evb else "?"),
                   "%s: TLC rejects the recorded execution at event %d = step %s of history %s (%s)" % (
                       cls, pos, step, sid, json.dumps(evb)[:300]),
                   {"variant": cls, "harness_args": hargs, "script_text": texts[sid - sid0] if sid else "", "sid": sid,
                    "history": hist[sid - sid0] if sid else [], "trace_module": module, "trace_cfg": cfg, "init": init,
                    "event": evb, "event_index": pos, "step": step})
    else:
        ctx.sample({"variant": cls, "trace_events": len(events), "max_size_seen": maxsize,
                    "first_events": [json.dumps(e)[:120] for e in events[1:4]]})
    return pos, maxsize, ok and not fails


def replay_trace(ctx, exe, rp):
    """--replay of a 'trace-rejected' file: record the history again and let TLC judge it again."""
    hist = [rp["history"]]
    n0 = len(ctx.violations)
    pos, _, ok = record_validate(ctx, exe, rp["variant"], rp["harness_args"], hist, rp["init"], rp["trace_module"], rp["trace_cfg"],
                                 sid0=rp.get("sid") or 1)
    if ok:
        print("not reproduced: TLC accepts the re-recorded execution (%d events)" % pos)
        return 0
    for k, (what, path, n) in ctx.violations.items():
        print("REPRODUCED", k, "::", what)
    return 1
