/* C20: one function per statement of the debug / assertion family, compiled against the current headers with the
 * compile-time DEBUG of the build under test (shim config.h) and linked with the current msgs.c / debug.c built the
 * same way.  usage: dbg_probe <scriptfile>
 * Script lines:   L <n>          libast_debug_level = n
 *                 S <0|1>        libast_set_silent(flag)              -> "S <flag> <returned>"
 *                 Y <statement>  as X, but one earlier write on stderr has FAILED in that child (fd 2 pointed at a full non-blocking
 *                                pipe for one fputs(), then fd 2 is restored; clearerr() is NOT called): history must not matter
 *                 X <statement>  run the statement in a forked child with fd 2 captured
 *                                -> "X <statement> out=<none|debug|warning|error|fatal> eval=<n> ctl=<falls|returns|exits|signal:N>
 *                                    val=<n> status=<n> bytes=<n> text=<0|1>"
 *   eval  = how often the argument expression (message argument / asserted condition) was evaluated
 *   ctl   = fell through the statement / the enclosing function returned at the statement / the process ended
 *   val   = value returned by the enclosing function (7 = the stated failure value, 1000 = fell through)
 *   bytes = bytes written to the stream; text = the statement's own message is among them - for ASSERT/REQUIRE the marker
 *           AND the text of the failed expression verbatim (the _pct probes use expressions containing "% s" and "%d")
 *   ferr  = (Y only) the failed write did set the stream's error indicator, i.e. the history was really provoked
 */
#include <config.h>
#include <libast.h>
#include <stdio.h>
#include <stdlib.h>
#include <string.h>
#include <unistd.h>
#include <signal.h>
#include <sys/wait.h>

#include <sys/mman.h>
static int *shared;                 /* shared with the parent, so the count survives a statement that ends the process */
#define counter (shared[0])
static int fell;
static int bump(void) { counter++; return 42; }
static int cond_fail(void) { counter++; return 0; }
static int cond_hold(void) { counter++; return 1; }
static int pct_fail(int a, int b) { counter++; (void) a; (void) b; return 0; }
static int total = 7, s = 4, n = 9, d = 2;       /* names chosen so that the expression text reads like printf conversions */

#define GATED(name) static int f_##name(void) { name(("PAYLOAD %d\n", bump())); return 1000; }
GATED(D_OPTIONS) GATED(D_OBJ) GATED(D_CONF) GATED(D_MEM) GATED(D_STRINGS) GATED(D_PARSE)
GATED(DPRINTF1) GATED(DPRINTF2) GATED(DPRINTF3) GATED(DPRINTF4) GATED(DPRINTF5) GATED(DPRINTF6)

static void v_ASSERT_hold(void) { ASSERT(cond_hold()); fell = 1; }
static void v_ASSERT_fail(void) { ASSERT(cond_fail()); fell = 1; }
static void v_REQUIRE_hold(void) { REQUIRE(cond_hold()); fell = 1; }
static void v_REQUIRE_fail(void) { REQUIRE(cond_fail()); fell = 1; }
static int f_ASSERT_hold(void) { fell = 0; v_ASSERT_hold(); return fell ? 1000 : 7; }
static int f_ASSERT_fail(void) { fell = 0; v_ASSERT_fail(); return fell ? 1000 : 7; }
static int f_REQUIRE_hold(void) { fell = 0; v_REQUIRE_hold(); return fell ? 1000 : 7; }
static int f_REQUIRE_fail(void) { fell = 0; v_REQUIRE_fail(); return fell ? 1000 : 7; }
static int f_ASSERT_RVAL_hold(void) { ASSERT_RVAL(cond_hold(), 7); return 1000; }
static int f_ASSERT_RVAL_fail(void) { ASSERT_RVAL(cond_fail(), 7); return 1000; }
static int f_REQUIRE_RVAL_hold(void) { REQUIRE_RVAL(cond_hold(), 7); return 1000; }
static int f_REQUIRE_RVAL_fail(void) { REQUIRE_RVAL(cond_fail(), 7); return 1000; }
static void v_ASSERT_fail_pct(void) { ASSERT(pct_fail(total % s, n %d)); fell = 1; }
static void v_REQUIRE_fail_pct(void) { REQUIRE(pct_fail(total % s, n %d)); fell = 1; }
static int f_ASSERT_fail_pct(void) { fell = 0; v_ASSERT_fail_pct(); return fell ? 1000 : 7; }
static int f_REQUIRE_fail_pct(void) { fell = 0; v_REQUIRE_fail_pct(); return fell ? 1000 : 7; }
static int f_ASSERT_RVAL_fail_pct(void) { ASSERT_RVAL(pct_fail(total % s, n %d), 7); return 1000; }
static int f_REQUIRE_RVAL_fail_pct(void) { REQUIRE_RVAL(pct_fail(total % s, n %d), 7); return 1000; }
static int f_print_warning(void) { libast_print_warning("PAYLOAD %d\n", bump()); return 1000; }
static int f_print_error(void) { libast_print_error("PAYLOAD %d\n", bump()); return 1000; }
static int f_dprintf(void) { libast_dprintf("PAYLOAD %d\n", bump()); return 1000; }
static int f_fatal_error(void) { libast_fatal_error("PAYLOAD %d\n", bump()); return 1000; }

static struct { const char *name; int (*fn)(void); const char *text; const char *expr; } T[] = {
#define E(n, t) { #n, f_##n, t, NULL }
#define X(n, t, e) { #n, f_##n, t, e }
    E(D_OPTIONS, "PAYLOAD 42"), E(D_OBJ, "PAYLOAD 42"), E(D_CONF, "PAYLOAD 42"), E(D_MEM, "PAYLOAD 42"), E(D_STRINGS, "PAYLOAD 42"), E(D_PARSE, "PAYLOAD 42"),
    E(DPRINTF1, "PAYLOAD 42"), E(DPRINTF2, "PAYLOAD 42"), E(DPRINTF3, "PAYLOAD 42"), E(DPRINTF4, "PAYLOAD 42"), E(DPRINTF5, "PAYLOAD 42"), E(DPRINTF6, "PAYLOAD 42"),
    X(ASSERT_hold, "ASSERT failed", "cond_hold()"), X(ASSERT_fail, "ASSERT failed", "cond_fail()"),
    X(ASSERT_RVAL_hold, "ASSERT failed", "cond_hold()"), X(ASSERT_RVAL_fail, "ASSERT failed", "cond_fail()"),
    X(REQUIRE_hold, "REQUIRE failed", "cond_hold()"), X(REQUIRE_fail, "REQUIRE failed", "cond_fail()"),
    X(REQUIRE_RVAL_hold, "REQUIRE failed", "cond_hold()"), X(REQUIRE_RVAL_fail, "REQUIRE failed", "cond_fail()"),
    X(ASSERT_fail_pct, "ASSERT failed", "pct_fail(total % s, n %d)"), X(ASSERT_RVAL_fail_pct, "ASSERT failed", "pct_fail(total % s, n %d)"),
    X(REQUIRE_fail_pct, "REQUIRE failed", "pct_fail(total % s, n %d)"), X(REQUIRE_RVAL_fail_pct, "REQUIRE failed", "pct_fail(total % s, n %d)"),
    E(print_warning, "PAYLOAD 42"), E(print_error, "PAYLOAD 42"), E(dprintf, "PAYLOAD 42"), E(fatal_error, "PAYLOAD 42"),
    { NULL, NULL, NULL }
};

#include <fcntl.h>
#include <errno.h>
/* child side: make exactly one write on stderr fail (EAGAIN on a full non-blocking pipe), then give fd 2 back */
static int provoke_failed_write(int capture_fd) {
    int p[2], fl; char fill[4096];
    if (pipe(p)) return 0;
    fl = fcntl(p[1], F_GETFL); fcntl(p[1], F_SETFL, fl | O_NONBLOCK);
    memset(fill, 'f', sizeof(fill));
    while (write(p[1], fill, sizeof(fill)) > 0) ;
    while (write(p[1], fill, 1) > 0) ;
    dup2(p[1], 2);
    fputs("this write fails\n", stderr); fflush(stderr);
    dup2(capture_fd, 2);
    close(p[0]); close(p[1]);
    return ferror(stderr) != 0;
}

static void run_cell(int k, int hist) {
    int ep[2], rp[2], status = 0, res[2] = { -1, -1 }, got = 0;
    static char buf[1 << 16], tmp[1 << 16]; size_t n = 0, total = 0; ssize_t c; pid_t pid;
    const char *cls, *ctl; char sig[32];
    if (pipe(ep) || pipe(rp)) { perror("pipe"); exit(2); }
    fflush(stdout);
    counter = 0; shared[1] = 0;
    pid = fork();
    if (pid < 0) { perror("fork"); exit(2); }
    if (pid == 0) {
        int v;
        close(ep[0]); close(rp[0]);
        dup2(ep[1], 2);
        setvbuf(stderr, NULL, _IONBF, 0);
        alarm(10);
        if (hist) shared[1] = provoke_failed_write(ep[1]);
        close(ep[1]);
        v = T[k].fn();
        fflush(stderr);
        res[0] = v; res[1] = 0;
        if (write(rp[1], res, sizeof(res)) < 0) { }
        _exit(0);
    }
    close(ep[1]); close(rp[1]);
    while ((c = read(ep[0], tmp, sizeof(tmp))) > 0) {                   /* keep the first 64 KiB, drain the rest */
        size_t room = sizeof(buf) - 1 - n, take = (size_t) c < room ? (size_t) c : room;
        memcpy(buf + n, tmp, take); n += take;
        total += (size_t) c;
        if (total > (64u << 20)) { kill(pid, SIGKILL); break; }
    }
    buf[n] = 0;
    got = (read(rp[0], res, sizeof(res)) == (ssize_t) sizeof(res));
    close(ep[0]); close(rp[0]);
    waitpid(pid, &status, 0);
    if (total == 0) cls = "none";
    else if (strstr(buf, "FATAL:")) cls = "fatal";
    else if (strstr(buf, "Warning:")) cls = "warning";
    else if (strstr(buf, "Error:")) cls = "error";
    else cls = "debug";
    if (WIFSIGNALED(status)) { snprintf(sig, sizeof(sig), "signal:%d", WTERMSIG(status)); ctl = sig; }
    else if (!got) ctl = "exits";
    else ctl = (res[0] == 1000) ? "falls" : "returns";
    printf("%c %s out=%s eval=%d ctl=%s val=%d status=%d bytes=%lu text=%d ferr=%d\n", hist ? 'Y' : 'X', T[k].name, cls,
           counter, ctl, got ? res[0] : -1, WIFEXITED(status) ? WEXITSTATUS(status) : -1, (unsigned long) total,
           strstr(buf, T[k].text) != NULL && (!T[k].expr || strstr(buf, T[k].expr) != NULL), shared[1]);
}

int main(int argc, char **argv) {
    FILE *f; char *text, *line, *save = NULL; long sz;
    if (argc < 2 || !(f = fopen(argv[1], "r"))) { fprintf(stderr, "usage: %s <scriptfile>\n", argv[0]); return 2; }
    /* the whole script is read first: a child that ends through exit() would otherwise rewind the shared file offset */
    fseek(f, 0, SEEK_END); sz = ftell(f); rewind(f);
    text = (char *) malloc((size_t) sz + 1);
    if (fread(text, 1, (size_t) sz, f) != (size_t) sz) { perror("read"); return 2; }
    text[sz] = 0;
    fclose(f);
    shared = (int *) mmap(NULL, 4096, PROT_READ | PROT_WRITE, MAP_SHARED | MAP_ANONYMOUS, -1, 0);
    if (shared == MAP_FAILED) { perror("mmap"); return 2; }
    setvbuf(stdout, NULL, _IOLBF, 0);
    printf("BUILD DEBUG=%d\n", (int) DEBUG);
    for (line = strtok_r(text, "\n", &save); line; line = strtok_r(NULL, "\n", &save)) {
        int k;
        if (line[0] == 'L') { libast_debug_level = (unsigned) atoi(line + 2); printf("L %u\n", libast_debug_level); }
        else if (line[0] == 'S') { int b = atoi(line + 2); printf("S %d %d\n", b, (int) libast_set_silent(b ? TRUE : FALSE)); }
        else if (line[0] == 'X' || line[0] == 'Y') {
            for (k = 0; T[k].name && strcmp(T[k].name, line + 2); k++) ;
            if (!T[k].name) { printf("X %s unknown\n", line + 2); continue; }
            run_cell(k, line[0] == 'Y');
        }
    }
    free(text);
    printf("DONE\n");
    return 0;
}
