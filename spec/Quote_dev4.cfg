SPECIFICATION Spec
CONSTANTS
  Alphabet <- Alpha7
  MaxLen = 4
  DelimSets <- Delims3
  Obs <- ObsEmit
INVARIANTS PosInBounds ScanIsSplit SplitJoinIdentity TokAgreesWithSplitModuloTrim DelimRunsSeparate QuotesGroupAndAreRemoved StatedExamples WordsConsistent
CHECK_DEADLOCK FALSE
