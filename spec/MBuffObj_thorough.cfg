SPECIFICATION Spec
CONSTANTS
  Bytes <- BytesThorough
  Texts <- TextsThorough
  TextsB <- TextsBThorough
  MaxLenA = 4
  MaxLenB = 2
  Idx <- IdxThorough
  Cnt <- CntThorough
  NCnt <- NCntThorough
  Obs <- ObsEmit
INVARIANTS TypeOK QueriesInRange CmpLaw SpliceLaw SubLaw HugeLaw GapLaw ShapeLaw
PROPERTY Independence
CHECK_DEADLOCK FALSE
