SPECIFICATION Spec
CONSTANTS
  Variants = {1, 4, 5}
  Paths = {1, 4, 5}
  Names = {}
  Slots = {1, 2}
  LoadFaults = {"none"}
  UnloadFaults = {"none"}
  RunFaults = {"none"}
  SymFaults = {}
  Levels = {}
  Indents = {}
  Cap = 1
  AsBuilt = TRUE
  Bounded = TRUE
  TrackMain = FALSE
  Obs <- ObsNone
PROPERTY RefusedChangesNothing
VIEW View
CHECK_DEADLOCK FALSE
