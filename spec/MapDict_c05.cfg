SPECIFICATION Spec
CONSTANTS
  NK = 2
  NV = 1
  BDepth = 4
  Obs <- ObsEmit
INVARIANTS TypeOK SortedNoDup GetAfterSet RemoveOnce IterLaw
PROPERTIES MutatorsOnly SlotsIndependent DupIsEqual
CHECK_DEADLOCK FALSE
