"""C15: the debug memory tracker mirrors the live allocation set exactly (MemTrack.tla)."""
import os, re, json, subprocess
from vlib import build, objcheck
from vlib.core import tok, Broken, log, NCPU

PROPERTY = "C15"
LEVEL = "model_checking"
LEVEL_TEXT = ("TLC explores MemTrack.tla exhaustively (all histories of malloc/calloc/strdup/realloc/free over a pool of 3-4 block "
              "addresses incl. NULL, stale and foreign pointers, address reuse, moving and in-place realloc; runtime level below and "
              "at the memory level) checking that the table mechanism mirrors the reference live set; EVERY generated transition is "
              "then executed on spifmem_* of the current tree (ASan build, C allocator under the library interposed at link time so "
              "that the environment choices are forced) and the private table, read through the LIBAST_VERIF accessor, is compared "
              "as a set of records after every call. Configuration half: a DEBUG=5 build runs object workloads (table == ASan's view "
              "of the library's live blocks at every checkpoint, empty at quiescence) and a macro probe compares "
              "MALLOC/CALLOC/REALLOC/FREE/STRDUP at DEBUG 4 and 5 with the reference.")
LEVEL_NOTE = ("Bounded pool (3 addresses, 4 in the thorough tier) and a small set of sizes/call sites for the exhaustive part; random "
              "walks beyond. The C allocator beneath the tracker is simulated for pool blocks (real ASan allocator for everything "
              "else, including the tracker's own array). Pixmap/GC tables (X11) are not covered. Trusted: TLC, harness/mem_replay.c, ASan.")
TECHNIQUE = "TLA+ spec + TLC exhaustive transition cover replayed on the implementation; configuration matrix probes"
DESIGN_REF = "DESIGN.md section 6 C15"

WRAP = ["-Wl,--wrap=malloc,--wrap=calloc,--wrap=realloc,--wrap=free"]


def init_state(level, n):
    return {"after": "ok", "blocks": ["never"] * n, "level": level, "sizes": [0] * n, "table": []}


def argclass(e):
    """Where in the argument/state space an edge lies (specific enough that a different violation still alarms)."""
    op, a, pre = e["op"], e["args"], e["pre"]
    tab = [r["id"] for r in pre["table"]]
    live = [i + 1 for i, s in enumerate(pre["blocks"]) if s == "live"]
    parts = ["active" if pre["level"] >= 5 else "inactive", "live=%d" % len(live)] + (["after-refusal"] if pre.get("after") == "refused" else [])

    def pcls(p):
        if p == 0:
            return "p=NULL"
        if p < 0:
            return "p=foreign"
        s = pre["blocks"][p - 1]
        if s == "live" and p in tab:
            k = tab.index(p)
            pos = "only" if len(tab) == 1 else ("first" if k == 0 else ("last" if k == len(tab) - 1 else "middle"))
            return "p=live/" + pos
        return "p=" + ("stale" if s == "freed" else s)

    def tcls(t):
        if t == 0:
            return "t=none"
        return "t=" + ("reused" if pre["blocks"][t - 1] == "freed" else "fresh")
    if op in ("malloc", "calloc", "strdup"):
        parts.append(tcls(a[0]))
        size = a[1] if op == "malloc" else (a[1] * a[2] if op == "calloc" else a[1] + 1)
        parts.append("size=refused" if a[1] < 0 else ("size=0" if size == 0 else "size>0"))
        fname = a[3] if op == "calloc" else a[2]
        parts.append("file>20" if len(fname) > 20 else "file<=20")
        if op == "strdup" and len(a) > 4 and a[4]:
            parts.append("source=tracked-block" + ("+%d" % a[5] if a[5] else ""))
    elif op == "realloc":
        p, size, t = a[0], a[1], a[2]
        parts.append(pcls(p))
        parts.append("size=refused" if size < 0 else ("size=0" if size == 0 else "size>0"))
        if t:
            parts.append("inplace" if t == p else ("moved/" + tcls(t)))
        parts.append("file>20" if len(a[3]) > 20 else "file<=20")
    elif op == "free":
        parts.append(pcls(a[0]))
    return ",".join(parts)


def keyfn(variant, e, f):
    d = ""
    if f.kind == "inv":
        d = re.sub(r"\d+", "N", f.got)
    elif f.kind in ("crash", "hang", "exit"):
        d = f.sig
    op = e["op"] if e else f.op
    variant = "-".join(variant.split("-")[:2])          # build + runtime level; the cfg tag is not part of a finding's identity
    return "%s %s [%s] %s%s" % (variant, op, argclass(e) if e else "-", f.kind, ("/" + d) if d else "")


def harness(ctx, debug_level=None):
    libdir, cflags = build.build_lib(ctx.repo, debug_level=debug_level)
    return build.build_harness("mem_replay" + ("-d%d" % debug_level if debug_level is not None else ""),
                               ["mem_replay.c"], libdir, cflags, ldflags=WRAP)


OPS = ("malloc", "calloc", "strdup", "realloc", "free", "dump")


def mechanism(ctx):
    """Direction (A): TLC's transition relation of MemTrack replayed on spifmem_*.  Returns the reference NULL-ness table."""
    exe = harness(ctx)
    exe5 = harness(ctx, 5)
    quick = ctx.tier == "quick"
    # (cfg, pool size, runtime levels on the default build, runtime levels on the DEBUG=5 build)
    # MemTrack_sites.cfg: call sites that differ in ONE component only (same line + a name that extends / is a prefix of the other,
    # same name + next line): the record of a reallocation carries the site of the LAST request
    runs = [("MemTrack_quick.cfg", 3, [0, 1, 3, 4, 5], [5]), ("MemTrack_sites.cfg", 2, [0, 5], [5])] if quick else [
        ("MemTrack_quick.cfg", 3, [0, 1, 3, 4, 5], [0, 4, 5]), ("MemTrack_sites.cfg", 2, [0, 5], [5]), ("MemTrack_thorough.cfg", 3, [0, 4, 5], [5]),
        ("MemTrack_levels.cfg", 3, [0, 6], [6]), ("MemTrack_pool4.cfg", 4, [0, 5], [5])]
    walks = (300, 40) if quick else (3000, 80)
    ref = None
    for cfg, n, levels, levels5 in runs:
        g, res = objcheck.tlc_graph(ctx, "MC_MemTrack.tla", cfg, workers=4)
        import gc
        gc.freeze()                     # the graph is long-lived: keep the cyclic collector from re-scanning it
        byop = {}
        for _, _, e in g.edges:
            byop[e["op"]] = byop.get(e["op"], 0) + 1
        ctx.cov["tlc_runs"][-1]["distinct_edges_by_op"] = byop
        missing = [o for o in OPS if not byop.get(o)]
        if missing:
            raise Broken("vacuity: no transition of %s generated by %s" % (missing, cfg))
        if ref is None:
            ref = reference_nullness(g)
        tag = cfg[len("MemTrack_"):-len(".cfg")]
        for lv in levels:
            objcheck.replay_cover(ctx, g, [tok(init_state(lv, n))], exe, "d4-l%d-%s" % (lv, tag), [str(lv), str(n)], keyfn, walks=walks, jobs=4)
        # the same transitions against a library compiled with DEBUG=5 (D_MEM statements live, output discarded)
        for lv in levels5:
            objcheck.replay_cover(ctx, g, [tok(init_state(lv, n))], exe5, "d5-l%d-%s" % (lv, tag), [str(lv), str(n)], keyfn,
                                  walks=walks, jobs=4, env={"MEM_QUIET": "1"})
        cov = ctx.cov["replay"]
        done = sum(cov[v]["edges_verified_on_impl"] + cov[v]["edges_failed"] for v in cov if v.endswith("-" + tag) and v.startswith("d4-"))
        if done != g.n_edges() and not ctx.violations:
            raise Broken("%s: %d distinct edges emitted but %d replayed on the default build" % (cfg, g.n_edges(), done))
        del g
    return ref


def mem_level():
    """DEBUG_MEM as the specification states it (one source for the activation rule used by the configuration half)."""
    txt = open(os.path.join(os.path.dirname(os.path.dirname(os.path.abspath(__file__))), "spec", "MemTrack.tla")).read()
    return int(re.search(r"^MemLevel\s*==\s*(\d+)", txt, re.M).group(1))


def reference_nullness(g):
    """Result NULL-ness per macro shape, read off the transitions TLC generated (ret = 0 is NULL)."""
    ref = {}
    for _, _, e in g.edges:
        op, a = e["op"], e["args"]
        if op in ("malloc", "calloc", "realloc") and a[1] < 0:
            continue                    # refused requests are not one of the macro probe's shapes
        if op == "malloc":
            k = "malloc_0" if a[1] == 0 else "malloc_n"
        elif op == "calloc":
            k = "calloc_0" if a[1] * a[2] == 0 else "calloc_n"
        elif op == "strdup":
            k = "strdup"
        elif op == "realloc" and (a[0] == 0 or e["pre"]["blocks"][a[0] - 1] == "live" if a[0] >= 0 else False):
            k = "realloc_%s_%s" % ("null" if a[0] == 0 else "live", "0" if a[1] == 0 else "n")
        else:
            continue
        ref.setdefault(k, set()).add(e["ret"] == 0)
    amb = [k for k, v in ref.items() if len(v) != 1]
    if amb or len(ref) != 9:
        raise Broken("reference NULL-ness not a function of the shape: %s / %s" % (amb, sorted(ref)))
    return {k: v.pop() for k, v in ref.items()}


def run_exe(ctx, argv, timeout=600):
    from vlib.replay import ASAN_OPTS
    e = dict(os.environ, ASAN_OPTIONS=ASAN_OPTS, LC_ALL="C")
    try:
        r = subprocess.run(argv, capture_output=True, env=e, timeout=timeout, cwd=ctx.rundir)
    except subprocess.TimeoutExpired:
        return -9, "", "timeout"
    return r.returncode, r.stdout.decode("latin-1"), r.stderr.decode("latin-1")


def crash_sig(err):
    from vlib.replay import asan_signature
    return "%s@%s" % asan_signature(err)


def macro_probe(ctx, ref):
    """MALLOC/CALLOC/REALLOC/FREE/STRDUP observed in builds with tracking compiled out and in, at several runtime levels."""
    ml = mem_level()
    builds = [4, 5] if ctx.tier == "quick" else [0, 4, 5]
    levels = [0, 5] if ctx.tier == "quick" else [0, 4, 5, 6]
    shape_of = {"realloc_live_shrink": "realloc_live_n", "realloc_live_grow": "realloc_live_n"}
    cells = 0
    seen_cases = set()
    for dbg in builds:
        libdir, cflags = build.build_lib(ctx.repo, debug_level=dbg)
        exe = build.build_harness("mem_macro_probe-d%d" % dbg, ["mem_macro_probe.c"], libdir, cflags)
        for lv in levels:
            active = dbg >= ml and lv >= ml
            rc, out, err = run_exe(ctx, [exe, str(lv)])
            rp = {"kind": "macro_probe", "debug": dbg, "level": lv}
            if rc != 0:
                ctx.report("macro-probe DEBUG=%d level=%d died/%s" % (dbg, lv, crash_sig(err) if rc > 0 else "rc%s" % rc),
                           "macro probe died (rc=%s) with compile-time DEBUG=%d at runtime level %d: %s" % (rc, dbg, lv, err[-600:]), rp)
                continue
            for line in out.splitlines():
                w = line.split()
                case, f = w[0], dict(x.split("=") for x in w[1:])
                seen_cases.add(case)
                exp = {"table": "0"}
                if case.startswith("free"):
                    exp.update(nulled="1", rec="0")
                    if case == "free_live":
                        exp["released"] = "1"
                else:
                    isnull = ref[shape_of.get(case, case)]
                    exp["null"] = "1" if isnull else "0"
                    if case in ("malloc_n", "calloc_n", "strdup", "realloc_live_shrink", "realloc_live_grow"):
                        exp["keep"] = "1"
                    if case == "realloc_live_0":
                        exp["released"] = "1"
                    if case in ("realloc_live_shrink", "realloc_live_grow") and f["released"] != "-":
                        exp["released"] = "1"
                    if active and not isnull:
                        exp.update(rec="1", size="1", line="1", file="1")
                    else:
                        exp.update(rec="0")
                for k, v in sorted(exp.items()):
                    cells += 1
                    if f.get(k) != v:
                        ctx.report("macro %s %s=%s expected %s [DEBUG%s%d level%s%d]" % (case, k, f.get(k), v, ">=" if dbg >= ml else "<", ml, ">=" if lv >= ml else "<", ml),
                                   "%s with compile-time DEBUG=%d at runtime level %d: observed %s, reference says %s=%s" % (case, dbg, lv, line, k, v),
                                   dict(rp, case=case, observed=line, expected=exp))
            if dbg == builds[-1] and lv == levels[-1]:
                ctx.sample({"macro_probe": {"debug": dbg, "level": lv, "lines": out.splitlines()[:4]}})
    if len(seen_cases) != 12 and not ctx.violations:
        raise Broken("macro probe produced %d cases, expected 12" % len(seen_cases))
    ctx.add("macro_probe_cells", cells)
    ctx.add("evaluations", cells)
    ctx.cov["macro_probe"] = {"builds_DEBUG": builds, "runtime_levels": levels, "cases": len(seen_cases), "fields_compared": cells,
                              "reference_nullness_from_tlc": {k: ("NULL" if v else "non-NULL") for k, v in sorted(ref.items())}}


def object_workloads(ctx):
    """Library with tracking compiled in (DEBUG=5) / out (DEBUG=4) under seeded object workloads."""
    ml = mem_level()
    quick = ctx.tier == "quick"
    nprog, nops = (60, 300) if quick else (600, 400)
    configs = [(5, 5), (5, 4), (4, 5)] if quick else [(5, 5), (5, 6), (5, 4), (5, 0), (4, 5), (0, 5)]
    res = {}
    for dbg, lv in configs:
        active = dbg >= ml and lv >= ml
        libdir, cflags = build.build_lib(ctx.repo, debug_level=dbg)
        exe = build.build_harness("mem_objs-d%d" % dbg, ["mem_objs.c"], libdir, cflags)
        argv = [exe, str(lv), "1" if active else "0", str(ctx.seed % 1000003), str(nprog), str(nops)]
        rc, out, err = run_exe(ctx, argv)
        rp = {"kind": "object_workload", "debug": dbg, "level": lv, "argv_tail": argv[1:]}
        done = None
        for line in out.splitlines():
            w = line.split(" ", 4)
            if w[0] == "X":
                ctx.report("workload DEBUG=%d level=%d %s %s" % (dbg, lv, w[3], re.sub(r"\d+", "N", w[4] if len(w) > 4 else "")),
                           "object workload (DEBUG=%d, runtime level %d) program %s op #%s %s: %s" % (dbg, lv, w[1], w[2], w[3], w[4] if len(w) > 4 else ""),
                           dict(rp, program=int(w[1]), op_index=int(w[2])))
            elif w[0] == "DONE":
                done = [int(x) for x in line.split()[1:]]
        if rc != 0 or done is None:
            ctx.report("workload DEBUG=%d level=%d died/%s" % (dbg, lv, crash_sig(err)),
                       "object workload died (rc=%s): %s" % (rc, err[-800:]), rp)
            continue
        res["DEBUG=%d,level=%d" % (dbg, lv)] = {"tracking_active": active, "programs": done[0], "ops": done[1], "table_checks": done[2],
                                                "max_records_in_table": done[3]}
        ctx.add("evaluations", done[2])
        ctx.add("workload_table_checks", done[2])
        if active and done[3] < 20:
            raise Broken("object workload never filled the table (max %d records): vacuous" % done[3])
    ctx.cov["object_workloads"] = res
    ctx.sample({"object_workload": "mem_objs <level> <active> <seed> <programs> <ops>: random str/list/vector/map/mbuff operations; after every "
                                   "operation table == ASan's live blocks of the library; empty at quiescence", "configs": sorted(res)})


def run(ctx):
    ref = mechanism(ctx)
    macro_probe(ctx, ref)
    object_workloads(ctx)
    ctx.cov["exhaustive"] = True
    ctx.cov["rule"] = ("every transition TLC generates for MemTrack in the bounded scope is executed once per (build, runtime level) "
                       "variant as the last step of a script whose prefix consists of already verified transitions; the tracker's "
                       "table (set of records) and the allocator-side status of every pool block are compared after every call")
    ctx.assumptions += ["ASan build of the current tree (clang -O1), LIBAST_VERIF accessor for the private table",
                        "libc allocator beneath the tracker interposed with -Wl,--wrap for the pool blocks"]


def replay(ctx, path):
    d = json.load(open(path))
    rp = d.get("replay") or {}
    if rp.get("kind") in ("macro_probe", "object_workload"):
        dbg, lv = rp["debug"], rp["level"]
        libdir, cflags = build.build_lib(ctx.repo, debug_level=dbg)
        if rp["kind"] == "macro_probe":
            exe = build.build_harness("mem_macro_probe-d%d" % dbg, ["mem_macro_probe.c"], libdir, cflags)
            rc, out, err = run_exe(ctx, [exe, str(lv)])
            print(out + err[-1500:])
            bad = [l for l in out.splitlines() if l.startswith(rp.get("case", "\0") + " ") and l != rp.get("observed")]
            same = any(l == rp.get("observed") for l in out.splitlines())
            print("REPRODUCED" if (same or rc != 0) else "not reproduced")
            return 1 if (same or rc != 0) else 0
        exe = build.build_harness("mem_objs-d%d" % dbg, ["mem_objs.c"], libdir, cflags)
        argv = [exe] + rp["argv_tail"] + ([str(rp["program"])] if "program" in rp else [])
        rc, out, err = run_exe(ctx, argv)
        xs = [l for l in out.splitlines() if l.startswith("X ")]
        print("\n".join(xs) + err[-1500:])
        print("REPRODUCED" if (xs or rc != 0) else "not reproduced")
        return 1 if (xs or rc != 0) else 0
    dbg = 5 if str(rp.get("variant", "")).startswith("d5") else None
    return objcheck.replay_file(harness(ctx, dbg), [], path, ctx.rundir, env={"MEM_QUIET": "1"} if dbg else None)
