------------------------------ MODULE MC_MapDict ------------------------------
(* Bounded model of MapDict for TLC and the edge emitter: one JSON line per generated transition. *)
EXTENDS MapDict
ObsEmit(op, args, ret, post) ==
    PrintT(ToJson([pre |-> Pre, op |-> op, args |-> args, ret |-> ret, post |-> post]))
================================================================================
