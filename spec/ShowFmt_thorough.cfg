SPECIFICATION Spec
CONSTANTS
  Values <- ValuesThorough
  Names <- NamesThorough
  Indents <- IndentsAll
  Priors <- PriorsThorough
  BigValues <- BigValuesThorough
  BigNames <- BigNamesAll
  BigIndents <- BigIndentsAll
  Obs <- ObsEmit
INVARIANTS Laws
CHECK_DEADLOCK FALSE
