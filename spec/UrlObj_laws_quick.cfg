SPECIFICATION LawSpec
CONSTANTS
  Parts <- PartsLawsQuick
  Texts <- NoTexts
  Lookups <- LookupsQuick
  WithBuild = TRUE
  Obs <- ObsNone
INVARIANTS LawAssembleParse LawUnambExact LawUnparseParse LawIdempotent LawDefaultPort AmbiguousReport NonIdempotentReport
CHECK_DEADLOCK FALSE
