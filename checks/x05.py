"""X05 (extension beyond the 20 listed properties, DESIGN.md section 10): the dynamic-module class spif_module_t
(src/module.c, include/libast/module.h).  Not registered in MANIFEST.json (the property list is fixed); run with
./vcheck X05 quick|thorough.

spec/ModuleLife.tla is the module's life as a state machine over the objects AND the loader as the process sees it
(open count per library, lookup scope, the libraries' own invocation counters, uses of closed handles), one action per
public call including the refused ones.  TLC checks the laws on the ideal mechanism, refutes each of them by itself on the
as-built mechanism, and emits every transition; harness/module_replay.c executes them on real objects with tiny shared
objects built here (harness/module_mod.c), dlopen/dlclose/dlsym/dlerror interposed at link time."""
import os, re, json, random, hashlib, subprocess, shutil, errno
from vlib import build, objcheck, trace
from vlib.core import tok, untok, Broken, log, BUILD, VERIF
from vlib.tlc import run_tlc
from vlib.replay import run_scripts
from vlib.graph import Graph, LevelPlanner

PROPERTY = "X05"
LEVEL = "model_checking"
LEVEL_TEXT = ("TLC explores ModuleLife.tla exhaustively in three bounded scopes (one object x 5 libraries x 8 paths x fault schedules "
              "{dlopen fails, dlsym fails for init/done/run/the looked-up symbol} x NULL-argument calls at debug levels 0/1(/3/5); two "
              "objects incl. dup x 2-3 libraries; the handle on the program itself) checking RefsMatchHolders (no handle leak, no shared "
              "ownership), QuiescenceClosed, NoStaleUse (nothing is looked up or closed through a closed handle), OwnHooksOnly, "
              "HookPairsWithRefs (init only with a new reference, a successful done only with its release), RefusedChangesNothing; the "
              "same laws are REFUTED by TLC on the as-built mechanism (7 counterexamples).  Every transition TLC generates is executed "
              "on real spif_module_t objects (ASan build of the current tree, shared objects built at check time, "
              "dlopen/dlclose/dlsym/dlerror interposed) with the object fields, the interposed open counts and lookup scope, the "
              "libraries' own counters (read through spif_module_getsym) and the sequence of module functions that ran compared after "
              "every step, per-script heap balance net of the loader; random walks at debug levels 0/1/3/5; longer recorded "
              "histories (60+ load/unload cycles, paths of 4094..9000 characters, fault schedules) are validated by TLC against "
              "ModuleLifeTrace.")
LEVEL_NOTE = ("extension, not one of the 20 properties: the contract is written in spec/ModuleLife.tla (rule kinds I/C/X named there); "
              "defects are recorded (known_findings.d/X05.json), not repaired.  Bounded scope for the exhaustive part; five catalogue "
              "libraries; glibc's loader semantics (same file = same handle, RTLD_GLOBAL scope in order of first open) are modelled as the "
              "environment.  Trusted: TLC, harness/module_replay.c (projection, interposers), ASan.  dlclose failing and constructors/"
              "destructors inside the libraries are not modelled.")
TECHNIQUE = "TLA+ spec + TLC (ideal mechanism verified, as-built mechanism refuted) + transition cover replay + TLC trace validation"
DESIGN_REF = "DESIGN.md section 10"

os.environ.setdefault("JAVA_TOOL_OPTIONS", "-XX:ParallelGCThreads=2")
WRAP = ["-Wl,--wrap=dlopen,--wrap=dlclose,--wrap=dlsym,--wrap=dlerror,--wrap=exit", "-Wl,--export-dynamic-symbol=x05_record"]
VARIANTS = {1: ("full", ["-DHAS_INIT", "-DINIT_RET=1", "-DHAS_RUN", "-DHAS_DONE", "-DDONE_RET=1"]),
            2: ("noinit", ["-DHAS_RUN", "-DHAS_DONE", "-DDONE_RET=1"]),
            3: ("initfail", ["-DHAS_INIT", "-DINIT_RET=0", "-DHAS_RUN", "-DHAS_DONE", "-DDONE_RET=1"]),
            4: ("bare", []),
            5: ("veto", ["-DHAS_INIT", "-DINIT_RET=1", "-DHAS_DONE", "-DDONE_RET=0"])}
LONG = {15: 4094, 11: 4095, 12: 4096, 13: 4097, 14: 9000}
NAME_TEXT = {1: "alpha", 2: "omega"}
ASBUILT = [("ModuleLife_asbuilt_refs.cfg", "Invariant RefsMatchHolders is violated"),
           ("ModuleLife_asbuilt_quiesce.cfg", "Invariant QuiescenceClosed is violated"),
           ("ModuleLife_asbuilt_stale.cfg", "Invariant NoStaleUse is violated"),
           ("ModuleLife_asbuilt_hooks.cfg", "Action property OwnHooksOnly is violated"),
           ("ModuleLife_asbuilt_pairs.cfg", "Action property HookPairsWithRefs is violated"),
           ("ModuleLife_asbuilt_refused.cfg", "Action property RefusedChangesNothing is violated"),
           ("ModuleLife_asbuilt_main.cfg", "Invariant MainMatches is violated")]
NILOBJ = {"live": False, "name": 0, "path": 0, "h": 0, "mh": False}
INIT = {"a": NILOBJ, "b": NILOBJ, "refs": [0] * 5, "inst": [[0, 0, 0]] * 5, "g": [], "stale": 0, "main": 0}


# ---------------------------------------------------------------------------------------------- the catalogue on disk
def catalogue(ctx):
    """Builds the shared objects and the path table (content-addressed under .build/); returns (dir, paths-file, {id: text})."""
    src = os.path.join(VERIF, "harness", "module_mod.c")
    key = hashlib.sha256(open(src, "rb").read() + repr((VARIANTS, LONG, 4)).encode()).hexdigest()[:12]
    d = os.path.join(BUILD, "x05mods-" + key)
    pf = os.path.join(d, "paths.txt")
    import fcntl
    os.makedirs(BUILD, exist_ok=True)
    lock = open(os.path.join(BUILD, ".lock-x05mods"), "w")
    fcntl.flock(lock, fcntl.LOCK_EX)
    if not os.path.exists(pf):
        tmp = d + ".tmp%d" % os.getpid()
        shutil.rmtree(tmp, ignore_errors=True)
        os.makedirs(tmp)
        for v, (nm, defs) in VARIANTS.items():
            # -Bsymbolic: every library of the catalogue exports the same names; its OWN references must not be interposed by a
            # library that was opened earlier with RTLD_GLOBAL (that would also make the loader keep the other one mapped)
            cmd = [build.CC, "-shared", "-fPIC", "-O1", "-w", "-Wl,-Bsymbolic", "-DMOD_ID=%d" % v] + defs + [src, "-o", os.path.join(tmp, nm + ".so")]
            r = subprocess.run(cmd, capture_output=True, text=True)
            if r.returncode != 0:
                raise Broken("cannot build module %s: %s" % (nm, r.stderr[-2000:]))
        with open(os.path.join(tmp, "notso.so"), "w") as f:
            f.write("this file is not a shared object\n")
        shutil.rmtree(d, ignore_errors=True)
        os.rename(tmp, d)
        paths = {v: nm + ".so" for v, (nm, _) in VARIANTS.items()}          # no slash: found through LD_LIBRARY_PATH
        paths.update({20 + v: "%s/%s.so" % (d, nm) for v, (nm, _) in VARIANTS.items()})   # the files (harness-internal)
        paths[6] = d + "/missing.so"
        paths[7] = d + "/notso.so"
        paths[8] = d + "/full.so"
        paths[9] = "x05nosuch.so"
        for pid, n in LONG.items():
            fill = n - len(d) - 1 - len("full.so")
            paths[pid] = d + "/" + "./" * (fill // 2) + ("/" if fill % 2 else "") + "full.so"
            assert len(paths[pid]) == n
        with open(pf + ".tmp", "w") as f:
            for pid in sorted(paths):
                f.write("%d %s\n" % (pid, paths[pid]))
        os.replace(pf + ".tmp", pf)
        for old in [x for x in os.listdir(BUILD) if x.startswith("x05mods-") and x != os.path.basename(d) and ".tmp" not in x]:
            shutil.rmtree(os.path.join(BUILD, old), ignore_errors=True)
    fcntl.flock(lock, fcntl.LOCK_UN)
    lock.close()
    paths = {}
    for line in open(pf):
        i, t = line.rstrip("\n").split(" ", 1)
        paths[int(i)] = t
    # the environment must be what the catalogue of the specification says (Lib(p), ranks)
    internal = {i: paths.pop(i) for i in list(paths) if i > 20}
    lib = {8: 1, 11: 1, 15: 1}
    for pid, t in paths.items():
        if "/" not in t:
            continue
        try:
            os.stat(t)
            ok = True
        except OSError:
            ok = False
        if ok != (pid in lib or pid == 7):
            raise Broken("catalogue mismatch: path %d (%d characters) %s on this system" % (pid, len(t), "exists" if ok else "does not exist"))
    prank = {8: 10, 6: 11, 7: 12, 4: 20, 1: 30, 3: 40, 2: 60, 5: 80, 9: 110, 14: 1, 13: 2, 12: 3, 11: 4, 15: 5}
    ids = sorted(paths, key=lambda i: paths[i].encode())
    if any(prank[a] >= prank[b] for a, b in zip(ids, ids[1:])):
        raise Broken("catalogue mismatch: PathRank of the specification is not the order of the path texts")
    base = lambda t: t.rsplit("/", 1)[-1]
    names = dict(NAME_TEXT)
    names.update({200 + p: base(paths[p]) for p in (1, 2, 3, 4, 5, 6, 7, 9)})
    nrank = {1: 10, 2: 90, 204: 20, 201: 30, 203: 40, 206: 50, 202: 60, 207: 70, 205: 95, 209: 96}
    ids = sorted(names, key=lambda i: names[i].encode())
    if any(nrank[a] >= nrank[b] for a, b in zip(ids, ids[1:])):
        raise Broken("catalogue mismatch: NameRank of the specification is not the order of the name texts")
    return d, pf, paths


def harness(ctx):
    libdir, cflags = build.build_lib(ctx.repo)
    return build.build_harness("module_replay", ["module_replay.c"], libdir, cflags, ldflags=WRAP)


# ---------------------------------------------------------------------------------------------- finding keys
LIBNAME = {0: "none", 1: "full", 2: "noinit", 3: "initfail", 4: "bare", 5: "veto"}


def pathclass(p):
    if p == 0:
        return "nopath"
    if p in LONG:
        return "longpath%d" % LONG[p]
    if p == 9:
        return "bare-name-absent"
    if p in (6, 7):
        return "dir/missing" if p == 6 else "dir/not-a-shared-object"
    if p == 8:
        return "dir/full"
    return "bare-name"


def objclass(x, full=False):
    if not x["live"]:
        return "absent"
    c = "loaded:" + LIBNAME.get(x["h"], "?") if x["h"] else "unloaded"
    if full:
        c += ",name=%s,%s" % ("nil" if x["name"] == 0 else "set", pathclass(x["path"]))
    return c


def show_diff(exp, got):
    """Which line records of the reference rendering are missing from the real one (and how many lines there are)."""
    try:
        e, g = untok(exp)["r"], untok(got)["r"]
    except Exception:
        return "?"
    names = ["open", "name", "path", "mh", "main", "close"]
    miss = [names[i] if i < len(names) else "extra" for i, r in enumerate(e) if r not in g]
    return "lines=%d/%d,missing=%s" % (len(g), len(e), "+".join(miss) or "-")


def fields_diff(exp, got, slot=0):
    """Names of the fields that differ; the object the call addressed is `self`, the other one `other`."""
    try:
        e, g = untok(exp), untok(got)
    except Exception:
        return "?"
    who = {"a": "self" if slot == 1 else "other", "b": "self" if slot == 2 else "other"} if slot else {"a": "a", "b": "b"}
    out = []
    for k in sorted(e):
        if isinstance(e[k], dict) and isinstance(g.get(k), dict):
            out += ["%s.%s" % (who.get(k, k), f) for f in sorted(e[k]) if e[k][f] != g[k].get(f)]
        elif e[k] != g.get(k):
            out.append(k)
    return "+".join(sorted(out)) or "?"


def cmpclass(x, y):
    def c(u, v):
        return "both-nil" if (u == 0 and v == 0) else ("left-nil" if u == 0 else ("right-nil" if v == 0 else ("equal" if u == v else "differ")))
    return "names=%s,paths=%s,handles=%s" % (c(x["name"], y["name"]), c(x["path"], y["path"]), c(x["h"], y["h"]))


def argclass(e):
    op, a = e["op"], e["args"]
    if op == "set_path":
        return pathclass(a[1])
    if op == "set_name":
        return "nil" if a[1] == 0 else "given"
    if op == "null_self":
        return "%s,level%s" % (a[0], "0" if a[1] == 0 else ">=1")
    if op in ("null_sym", "null_fname"):
        return "level%s" % ("0" if a[1] == 0 else ">=1")
    if op == "show":
        return "indent%d" % a[1]
    if op == "comp":
        o = {1: e["pre"]["a"], 2: e["pre"]["b"]}
        return cmpclass(o[a[0]], o[a[1]])
    return ",".join(str(x) for x in a[1:] if not isinstance(x, int))


def stateclass(e):
    op, a, pre = e["op"], e["args"], e["pre"]
    if op == "null_self":
        return "-"
    s = a[0]
    me, other = (pre["a"], pre["b"]) if s == 1 else (pre["b"], pre["a"])
    if op == "comp":
        return "-"
    if op == "load" and me["h"]:
        lib = {1: 1, 2: 2, 3: 3, 4: 4, 5: 5, 8: 1, 11: 1, 15: 1}.get(me["path"], 0)
        c = "loaded:%s,path=%s" % (LIBNAME.get(me["h"], "?"), "none" if not me["path"] else ("unloadable" if not lib else ("same-library" if lib == me["h"] else "other-library")))
    else:
        c = objclass(me, full=(op == "load"))
        if op == "dup":
            c += ",name=%s,path=%s" % ("nil" if me["name"] == 0 else "set", "nil" if me["path"] == 0 else "set")
    if other["live"]:
        c += "|other=" + ("same-library" if other["h"] and other["h"] == me["h"] else objclass(other))
    return c


def keyfn(variant, e, f):
    if f.kind == "ret" and (e["op"] if e else f.op) == "show":
        d = show_diff(f.exp, f.got)
    elif f.kind in ("state", "ret"):
        slot = e["args"][0] if (e and e["args"] and isinstance(e["args"][0], int) and e["op"] not in ("null_self",)) else 0
        d = fields_diff(f.exp, f.got, slot)
    elif f.kind == "inv":
        d = re.sub(r"\d+", "N", f.got)
    elif f.kind in ("crash", "hang", "exit"):
        d = f.sig
        m = re.search(r"FATAL:\s+ASSERT failed in (\w+)\(\)", f.detail or "")
        if f.kind == "exit" and m:
            d = "fatal-assert@" + m.group(1)
    else:
        d = ""
    if e is None:
        return "%s %s %s/%s" % (variant.split("@")[0], f.op, f.kind, d)
    return "%s %s(%s) [%s] %s/%s" % (variant.split("@")[0], e["op"], argclass(e), stateclass(e), f.kind, d)


# ---------------------------------------------------------------------------------------------- direction A
def asbuilt_demo(ctx):
    """Each law must be refuted by TLC itself on the as-built mechanism (demonstration that the laws have teeth)."""
    from concurrent.futures import ThreadPoolExecutor

    def one(cl):
        cfg, msg = cl
        res = run_tlc("MC_ModuleLife.tla", cfg, ctx.rundir, timeout=600, workers=1, heap="1g", coverage=False)
        return cfg, msg, bool(res.violation) and msg in res.violation, (res.violation or "no error")[:300]
    with ThreadPoolExecutor(3) as ex:
        out = list(ex.map(one, ASBUILT))
    ctx.cov["asbuilt_mechanism_refuted_by_tlc"] = [{"cfg": c, "law": m.split(" is ")[0], "counterexample_found_by_tlc": ok} for c, m, ok, _ in out]
    for c, m, ok, txt in out:
        if not ok:
            raise Broken("as-built mechanism %s: TLC did not refute the law (%s): %s" % (c, m, txt))


def graph_of(ctx, cfg, need_ops):
    per_op = {}
    g = Graph()

    def on_edge(e):
        per_op[e["op"]] = per_op.get(e["op"], 0) + 1
        g.add(e)
    res = run_tlc("MC_ModuleLife.tla", cfg, ctx.rundir, on_edge=on_edge, timeout=1800, workers=4, heap="4g", coverage=False)
    ctx.add("states", res.distinct)
    ctx.add("transitions", res.generated)
    ctx.add("edges_emitted", res.edges)
    ctx.cov.setdefault("tlc_runs", []).append({"module": "MC_ModuleLife.tla", "cfg": cfg, "distinct_states": res.distinct,
                                               "states_generated": res.generated, "depth": res.depth, "edges_emitted": res.edges,
                                               "distinct_edges": g.n_edges(), "graph_states": len(g.nodes), "wall_s": round(res.wall, 1),
                                               "edges_per_operation": dict(sorted(per_op.items()))})
    if not res.ok:
        ctx.report("spec:%s" % cfg, "TLC reports a violated law of the ideal mechanism: %s" % (res.violation or "")[:600],
                   {"tlc": res.violation, "cfg": cfg})
    missing = sorted(set(need_ops) - set(per_op))
    if missing:
        raise Broken("vacuity: operations never taken in %s: %s" % (cfg, missing))
    return g


ALL_OPS = {"new", "done", "del", "init", "set_name", "set_path", "set_name_same", "set_path_same", "set_mh_same", "set_main_same",
           "load", "unload", "run", "call", "getsym", "null_self", "null_sym", "null_fname", "type", "comp_null", "show"}


def hargs(pf, level, cap, flags="-"):
    return [pf, str(level), str(cap), flags]


def fatal_dup(g, i):
    """dup of an object without name or path: a fatal exit at debug level >= 1 on the pinned tree (known finding)"""
    e = g.edict(i)
    if e["op"] != "dup":
        return False
    src = e["pre"]["a"] if e["args"][0] == 1 else e["pre"]["b"]
    return src["name"] == 0 or src["path"] == 0


def good_walks(g, lp, n, length, seed, avoid=None, free=5):
    """Random walks from the initial state over the transitions that passed (vlib's own walk generator also uses transitions
    that were skipped behind an abandoned chain and failed when they were re-run)."""
    from vlib.graph import Script
    rnd = random.Random(seed)
    ok = lp.verified - lp.bad
    good = {u: [i for i in g.out[u] if i in ok] for u in g.out}
    res = []
    for w in range(n):
        u = tok(INIT)
        steps = []
        for _ in range(length):
            c = good.get(u)
            if c and avoid and w >= free:         # the first `free` walks are unrestricted, the others travel past the known exit
                c = [i for i in c if not avoid(g, i)]
            if not c:
                break
            mv = [i for i in c if not g.is_loop(i)]
            i = rnd.choice(mv) if (mv and rnd.random() < 0.75) else rnd.choice(c)
            steps.append(i)
            u = g.post_key(i)
        lp.sid += 1
        res.append(Script(lp.sid, [], steps))
    return res


def level_walks(ctx, g, lp, exe, tag, pf, cap, env, n, length, levels, flags="-"):
    """Random walks over the verified transitions with the runtime debug level as a dimension: everything but the
    NULL-argument calls (whose level is an argument of the call) must behave identically at every level."""
    for lvl in levels:
        ws = good_walks(g, lp, n, length, ctx.seed + lvl, avoid=fatal_dup if lvl >= 1 else None)
        texts = [s.text(g) for s in ws]
        bysid = {s.sid: s for s in ws}
        fails, _, ns, nt = run_scripts(exe, hargs(pf, lvl, cap, flags), texts, ctx.rundir, jobs=4, env=env, tag="%s-lvl%d" % (tag, lvl))
        seen = set()
        for f in fails:
            s = bysid.get(f.sid)
            if s is None:
                continue
            ix = s.edge_indexes()
            st = min(f.step, len(ix) - 1)
            e = g.edict(ix[st])
            key = "walk " + keyfn(tag, e, f) + (" level>=1" if (lvl >= 1 and f.kind in ("exit", "crash", "hang")) else "")
            if key in seen:
                continue
            seen.add(key)
            ctx.report(key, "%s, debug level %d: random walk over verified transitions failed: %s at step %d (%s) exp=%s got=%s %s" % (
                tag, lvl, f.kind, f.step, g.line(ix[st]), f.exp, f.got, f.sig),
                {"variant": tag, "harness_args": hargs(pf, lvl, cap, flags), "script": s.describe(g, st), "failure": repr(f),
                 "detail": f.detail, "script_text": s.text(g)})
        ctx.cov.setdefault("level_walks", {})["%s@level%d" % (tag, lvl)] = {"walks": len(ws), "steps": nt, "failing_walks": len({f.sid for f in fails})}
        ctx.add("traces_validated_against_impl", ns)
        ctx.add("evaluations", nt)


def cover(ctx, exe, pf, env, cfg, tag, cap, need, flags="-", walks=(0, 0), pairs=0, levels=(), lvl_walks=(0, 0)):
    g = graph_of(ctx, cfg, need)
    lp = objcheck.replay_cover(ctx, g, [tok(INIT)], exe, tag, hargs(pf, 0, cap, flags), keyfn, env=env, jobs=4, max_violation_keys=400)
    rp = ctx.cov["replay"][tag]
    ctx.add("distinct_nontrivial", rp["scripts"])
    lp.verified -= lp.bad
    if ctx.violations:
        return g, lp
    if pairs:
        objcheck.pair_cover(ctx, g, lp, exe, tag, hargs(pf, 0, cap, flags), keyfn, pairs, env=env, jobs=4)
    if walks[0]:
        level_walks(ctx, g, lp, exe, tag, pf, cap, env, walks[0], walks[1], (0,), flags=flags)
    if levels and lvl_walks[0]:
        level_walks(ctx, g, lp, exe, tag, pf, cap, env, lvl_walks[0], lvl_walks[1], levels, flags=flags)
    return g, lp


def phase(ctx, name, t0):
    import time
    ctx.cov.setdefault("phase_wall_s", {})[name] = round(time.time() - t0, 1)
    return time.time()


def run(ctx):
    import time
    t0 = time.time()
    q = ctx.tier == "quick"
    d, pf, paths = catalogue(ctx)
    exe = harness(ctx)
    env = {"LD_LIBRARY_PATH": d, "VH_WATCHDOG": "20"}
    t0 = phase(ctx, "build", t0)
    asbuilt_demo(ctx)
    t0 = phase(ctx, "asbuilt_refutations", t0)
    # one object, the whole catalogue, fault schedules, NULL arguments
    cover(ctx, exe, pf, env, "ModuleLife_solo_quick.cfg" if q else "ModuleLife_solo_thorough.cfg", "solo", 2 if q else 3,
          ALL_OPS, walks=(150, 40) if q else (600, 60), pairs=(3000 if q else 40000),
          levels=(1, 3, 5), lvl_walks=(60, 40) if q else (300, 60))
    t0 = phase(ctx, "solo", t0)
    # two objects: dup then mutation of either side, two libraries in the lookup scope, comp
    cover(ctx, exe, pf, env, "ModuleLife_duo_quick.cfg" if q else "ModuleLife_duo_thorough.cfg", "duo", 1 if q else 2,
          (ALL_OPS | {"dup", "comp"}) - {"null_sym", "null_fname"}, walks=(150, 40) if q else (600, 60), pairs=(3000 if q else 40000),
          levels=(1, 5) if q else (1, 3, 5), lvl_walks=(40, 40) if q else (200, 60))
    if not q:      # the vetoing library beside another object (kept out of the first two-object scope to bound it)
        cover(ctx, exe, pf, env, "ModuleLife_duo_veto.cfg", "duo-veto", 1, (ALL_OPS | {"dup", "comp"}) - {"null_sym", "null_fname"},
              walks=(300, 60), pairs=15000, levels=(1, 5), lvl_walks=(100, 60))
    t0 = phase(ctx, "duo", t0)
    # the handle on the program itself (dlopen(NULL)) through new / init / done / dup / del
    cover(ctx, exe, pf, env, "ModuleLife_main.cfg", "main", 1, {"new", "done", "del", "init", "dup", "load", "unload"}, flags="main",
          walks=(50, 30) if q else (500, 40))
    t0 = phase(ctx, "main", t0)
    # paths around PATH_MAX (4094 / 4095 characters load, 4096 / 4097 / 9000 are refused by the kernel)
    cover(ctx, exe, pf, env, "ModuleLife_long.cfg", "long", 2, ALL_OPS - {"run", "null_self", "null_sym", "null_fname"},
          walks=(30, 30) if q else (300, 40), levels=(1, 5), lvl_walks=(10, 30) if q else (100, 40))
    t0 = phase(ctx, "long", t0)
    traces(ctx, exe, pf, env, paths)
    t0 = phase(ctx, "traces", t0)
    ctx.cov["exhaustive"] = True
    ctx.cov["rule"] = ("every transition TLC generates for ModuleLife in the three bounded scopes is executed once as the last step of a script "
                       "whose prefix consists of already verified transitions; object fields, interposed loader view, the libraries' own "
                       "counters, the module functions called and the return value are compared after every step; plus 2-step cover, random "
                       "walks at debug levels 0/1/3/5 and TLC-validated recorded histories")
    ctx.assumptions += ["glibc loader: one handle per file, RTLD_GLOBAL scope in order of first open, dlsym(NULL) = default scope",
                        "the shared objects are built with the same compiler as the harness (harness/module_mod.c)",
                        "ASan build of the current tree (clang -O1); dlopen/dlclose/dlsym/dlerror/exit interposed with -Wl,--wrap",
                        "run / call / the two handle setters are first executed in a forked child (a fatal signal there is reported as an "
                        "invariant failure of the step instead of costing the harness process); the verdict is reused for the same call "
                        "shape within one harness process",
                        "lookups through an unloaded object while a catalogue library is open run in a forked child (glibc would pin the "
                        "library that answers a default-scope lookup of the program for the life of the process)"]


def replay(ctx, path):
    dd = json.load(open(path))
    rp = dd.get("replay") or {}
    d, pf, paths = catalogue(ctx)
    exe = harness(ctx)
    args = list(rp.get("harness_args") or hargs(pf, 0, 2))
    args[0] = pf
    txt = rp.get("script_text")
    if not txt:
        print("replay file has no script_text (TLC-level finding): %s" % (dd.get("what", "")[:300]))
        return 2
    fails, recs, ns, nt = run_scripts(exe, args, [txt], ctx.rundir, jobs=1, env={"LD_LIBRARY_PATH": d}, tag="replay")
    for f in fails:
        print("REPRODUCED", f)
        if f.detail:
            print(f.detail)
    if rp.get("event") is not None:
        print("recorded run re-executed (%d steps); the rejected event was #%s: %s" % (nt, rp.get("event_index"), json.dumps(rp.get("event"))[:300]))
        for r in recs[-3:]:
            print("R", r)
        return 1
    if not fails:
        print("not reproduced: script passes (%d steps)" % nt)
    return 1 if fails else 0


# ---------------------------------------------------------------------------------------------- direction B
LIB = {1: 1, 2: 2, 3: 3, 4: 4, 5: 5, 8: 1, 11: 1, 15: 1}
SLASH = {6, 7, 8, 11, 12, 13, 14, 15}
HAS = {"init": {1, 3, 5}, "run": {1, 2, 3}, "done": {1, 2, 3, 5}}


def gen_history(rnd, n, level):
    """A random program over the module API.  The mirror below only steers the program AWAY from the histories on which the
    pinned tree is known to diverge (known_findings.d/X05.json) - a rejected trace would hide everything behind it; it is not
    the oracle: TLC evaluating ModuleLifeTrace judges every recorded step."""
    st = {1: None, 2: None}
    out = []

    def open_libs(exc=None):
        return {o["h"] for k, o in st.items() if o and o["h"] and k != exc}

    def foreign(s, fn, fault):
        """would the as-built fallback lend this object another library's hook?"""
        o = st[s]
        own = o["h"]
        if own in HAS[fn] and fault != fn:
            return False
        return any(h in HAS[fn] for h in open_libs(exc=s))
    for _ in range(n):
        s = rnd.choice((1, 1, 2))
        t = 3 - s
        o = st[s]
        if o is None:
            src = st[t]
            if src and not src["h"] and rnd.random() < 0.5 and (level == 0 or (src["name"] and src["path"])):
                out.append("dup %d %d" % (t, s))
                st[s] = {"name": src["name"], "path": src["path"], "h": 0}
            else:
                out.append("new %d" % s)
                st[s] = {"name": 0, "path": 0, "h": 0}
            continue
        r = rnd.random()
        if r < 0.12:
            nm = rnd.choice((0, 1, 2))
            out.append("set_name %d %d" % (s, nm))
            o["name"] = nm
        elif r < 0.30:
            p = rnd.choice((1, 1, 2, 3, 4, 5, 5, 6, 7, 8, 9, 11, 12, 13, 14, 15, 0))
            out.append("set_path %d %d" % (s, p))
            o["path"] = p
        elif r < 0.52:
            f = rnd.choice(("none", "none", "none", "dlopen", "init"))
            p = o["path"]
            if o["h"] or (p and not o["name"] and p in SLASH):
                out.append("getsym %d mod none" % s)
                continue
            lib = LIB.get(p, 0)
            if p and lib and f != "dlopen":
                if (lib not in HAS["init"] or f == "init") and any(h in HAS["init"] for h in open_libs(exc=s)):
                    out.append("type %d" % s)
                    continue
                o["h"] = lib
            if p and not o["name"]:
                o["name"] = 200
            out.append("load %d %s" % (s, f))
        elif r < 0.70:
            f = rnd.choice(("none", "none", "done"))
            if o["h"]:
                if foreign(s, "done", f):
                    out.append("getsym %d ext none" % s)
                    continue
                if not (o["h"] == 5 and f != "done"):
                    o["h"] = 0
            out.append("unload %d %s" % (s, f))
        elif r < 0.78:
            if o["h"] and (o["h"] == 5 or foreign(s, "done", "none")):
                out.append("comp_null %d" % s)
                continue
            if rnd.random() < 0.5:
                out.append("done %d" % s)
                st[s] = {"name": 0, "path": 0, "h": 0}
                if rnd.random() < 0.5:
                    out.append("init %d" % s)
            else:
                out.append("del %d" % s)
                st[s] = None
        elif r < 0.90:
            out.append("getsym %d %s %s" % (s, rnd.choice(("mod", "ext", "nosuch")), rnd.choice(("none", "none", "sym"))))
        elif r < 0.94:
            out.append(rnd.choice(("null_self %s %d" % (rnd.choice(("load", "unload", "getsym", "done", "del", "dup", "init", "type")), rnd.choice((0, 1, 3, 5))),
                                   "null_sym %d %d" % (s, rnd.choice((0, 1, 5))))))
        elif r < 0.97:
            q = st[t]
            if q and not o["h"] and not q["h"] and o["name"] and q["name"] and o["path"] and q["path"]:
                out.append("comp %d %d" % (s, t))
            else:
                out.append("comp_null %d" % s)
        else:
            out.append("type %d" % s)
    return out


def fixed_histories():
    """Deterministic families: 60 load/unload cycles on one object; two objects over two libraries; fault schedules in turn;
    paths around PATH_MAX (4094, 4095 load; 4096, 4097, 9000 are refused by the kernel)."""
    hs = []
    h = ["new 1", "set_path 1 1"]
    for k in range(60):
        h += ["load 1 none", "getsym 1 mod none", "unload 1 none"]
    h += ["unload 1 none", "del 1"]
    hs.append(h)
    h = ["new 1", "new 2", "set_path 1 1", "set_path 2 2"]
    for k in range(30):
        h += ["load 2 none", "load 1 none", "getsym 1 mod none", "getsym 2 mod none", "unload 1 none", "unload 2 none"]
    h += ["del 2", "del 1"]
    hs.append(h)
    h = ["new 1"]
    for k in range(12):
        for p in (1, 2, 3, 4):
            h += ["set_path 1 %d" % p, "load 1 dlopen", "load 1 init", "getsym 1 mod sym", "getsym 1 mod none", "unload 1 done",
                  "load 1 none", "unload 1 none", "unload 1 none"]
    h += ["done 1", "init 1", "del 1"]
    hs.append(h)
    h = ["new 1", "set_name 1 2"]
    for k in range(5):
        for p in (15, 11):
            h += ["set_path 1 %d" % p, "load 1 none", "getsym 1 mod none", "unload 1 none"]
        for p in (12, 13, 14):
            h += ["set_path 1 %d" % p, "load 1 none", "unload 1 none"]
    h += ["new 2", "set_path 2 14", "set_name 2 1", "comp 1 2", "comp 2 1", "del 2", "del 1"]
    hs.append(h)
    return hs


def parse_line(c):
    w = c.split()
    return w[0], [int(x) if re.fullmatch(r"-?\d+", x) else x for x in w[1:]]


def traces(ctx, exe, pf, env, paths):
    rnd = random.Random(ctx.seed)
    q = ctx.tier == "quick"
    nexec, nops = (16, 150) if q else (160, 300)
    per_level = {0: [], 1: [], 3: [], 5: []}
    for k in range(nexec):
        lvl = (0, 1, 3, 5)[k % 4]
        per_level[lvl].append(gen_history(rnd, nops, lvl))
    for k, h in enumerate(fixed_histories()):
        per_level[(0, 5, 1, 3)[k % 4]].append(h)
    allev, index = [], []
    nrec = 0
    for lvl, hists in per_level.items():
        texts = ["S %d\n%s\nE\n" % (k + 1, "\n".join("%s = ? ?" % c for c in h)) for k, h in enumerate(hists)]
        fails, recs, ns, nt = run_scripts(exe, hargs(pf, lvl, 2), texts, ctx.rundir, jobs=4, env=env, tag="rec-l%d" % lvl)
        nrec += ns
        bad = set()
        for f in fails:
            bad.add(f.sid)
            op, args = parse_line(hists[f.sid - 1][min(f.step, len(hists[f.sid - 1]) - 1)]) if f.step >= 0 else (f.op, [])
            d = re.sub(r"\d+", "N", f.got) if f.kind == "inv" else (f.sig if f.kind in ("crash", "hang", "exit") else f.kind)
            ctx.report("trace %s(%s) %s/%s level%d" % (op, ",".join(str(a) for a in args[1:]), f.kind, d, lvl),
                       "recorded run at debug level %d failed before validation: %r" % (lvl, f),
                       {"harness_args": hargs(pf, lvl, 2), "script_text": texts[f.sid - 1], "failure": repr(f), "detail": f.detail})
        by = {}
        for sid, step, ret, state in recs:
            by.setdefault(sid, []).append((step, ret, state))
        for sid in sorted(by):
            if sid in bad:
                continue
            allev.append({"op": "reset", "args": [], "ret": {"r": 1, "calls": []}, "post": INIT})
            index.append((lvl, sid, -1, texts[sid - 1]))
            for step, ret, state in sorted(by[sid]):
                op, args = parse_line(hists[sid - 1][step])
                allev.append({"op": op, "args": args, "ret": untok(ret), "post": untok(state)})
                index.append((lvl, sid, step, texts[sid - 1]))
    if os.environ.get("X05_DEMO_CORRUPT"):
        # binding demonstration only: falsify ONE field of ONE recorded event (the open count of library 1) and expect a rejection
        k = int(os.environ["X05_DEMO_CORRUPT"])
        cand = [i for i, e in enumerate(allev) if e["op"] == "unload"]
        i = cand[k % len(cand)]
        allev[i] = json.loads(json.dumps(allev[i]))
        allev[i]["post"]["refs"][0] += 1
        log("DEMO: corrupted event %d (%s): refs[1] + 1" % (i, allev[i]["op"]))
    total = 0
    rounds = 0
    while allev and rounds < 6:
        rounds += 1
        ok, pos, path = trace.validate(ctx, "ModuleLifeTrace.tla", "ModuleLifeTrace.cfg", allev, tag="x05", heap="4g")
        if ok:
            total += len(allev)
            break
        lvl, sid, step, text = index[pos] if pos < len(index) else (None, None, None, "")
        evb = allev[pos] if pos < len(allev) else None
        ctx.report("trace-rejected %s(%s) level%s" % (evb["op"] if evb else "?", ",".join(str(a) for a in (evb["args"][1:] if evb else [])), lvl),
                   "TLC rejects the recorded execution (debug level %s) at event %d: %s; state before: %s" % (
                       lvl, pos, json.dumps(evb)[:400], json.dumps(allev[pos - 1]["post"])[:300] if pos else "init"),
                   {"harness_args": hargs(pf, lvl if lvl is not None else 0, 2), "script_text": text, "event": evb, "event_index": pos})
        total += pos
        # drop the rejected execution, validate the rest
        a = pos
        while a > 0 and allev[a]["op"] != "reset":
            a -= 1
        b = pos + 1
        while b < len(allev) and allev[b]["op"] != "reset":
            b += 1
        allev, index = allev[:a] + allev[b:], index[:a] + index[b:]
    ctx.add("trace_events_validated", total)
    ctx.add("traces_validated_against_impl", nrec)
    ctx.cov["recorded_executions"] = {"random": nexec, "fixed_families": len(fixed_histories()), "events": total,
                                      "max_cycles_in_one_execution": 60, "path_lengths": sorted(LONG.values())}
    if allev:
        ctx.sample({"trace_events": total, "first_events": [json.dumps(e)[:160] for e in allev[1:4]]})
