/* C04 (+C05/C06 for vectors): replays VecBag.tla scripts on one of the three vector classes.
 * usage: vector_replay <array|linked_list|dlinked_list> <NE> <enc> <kind> <full|compact> <scriptfile> [first]
 * Elements 1..NE; probes 0 and NE+1 lie below / above every storable element.
 * enc:  text family of the str objects (c03_util.h: 0 digits, 1 first byte sweeps 1..255, 2 last byte sweeps 1..255,
 *       -1 chosen per script from its id).
 * kind: 0 an element is a spif_str; 1 an element is objpair(str value, str TAG) with a tag unique per inserted element:
 *       such elements compare EQUAL under comp when their values are equal yet stay distinguishable; -1 per script.
 *       Tags are bookkeeping of the harness (which objects does the vector own), not part of the compared state:
 *       after every step the tags found in a slot must be exactly those inserted and not handed back, remove/find must
 *       hand out a stored element, and a dup must equal the original slot by slot INCLUDING the tags.
 * full: the read-back probes find/contains of EVERY value 0..NE+1 after every step (small universes).
 * compact: (size sweeps) probes at the position classes first / second / middle / next-to-last / last / absent.
 * Equal elements are compared by value, never by object identity.
 * State token: {a=[..],b={live=T|F,s=[..]},it=n}
 */
#include "common.h"
#include "c03_util.h"

static long NE = 3;
static int compact = 0;
static int kind = 0, kind_arg = 0;
static spif_vector_t A, B;
static spif_iterator_t IT;
static int it_count;          /* mirror: number of next() calls that yielded, capped like the spec */

/* tag bookkeeping (kind 1): which tags does each slot own */
#define MAXTAG (1 << 16)
static unsigned char tagA[MAXTAG], tagB[MAXTAG];
static long next_tag;
static long rb_count;         /* read-backs so far in this script: rotates the class of the probe objects */

static spif_vector_t new_vector(void) {
    if (cu_is("array")) return SPIF_VECTOR_NEW(array);
    if (cu_is("linked_list")) return SPIF_VECTOR_NEW(linked_list);
    return SPIF_VECTOR_NEW(dlinked_list);
}
/* an element to store (tag > 0) or a probe (tag 0); cls 1: the value object is a spif_str, 2: a spif_url with the same text */
static spif_obj_t mk_elem(long v, long tag, long cls) {
    spif_obj_t s = cu_mkc(v, cls), t, p;
    char tt[32];
    if (!kind) return s;
    snprintf(tt, sizeof(tt), "%ld", tag);
    t = SPIF_OBJ(spif_str_new_from_ptr((spif_charptr_t) tt));
    p = SPIF_OBJ(spif_objpair_new_from_both(s, t));
    SPIF_OBJ_DEL(s); SPIF_OBJ_DEL(t);
    return p;
}
static long elem_val(spif_obj_t o) {
    if (SPIF_OBJ_ISNULL(o)) return 0;
    if (!kind) return cu_val(o);
    if (!SPIF_OBJ_IS_OBJPAIR(o)) return -1000001;
    return cu_val(SPIF_OBJPAIR(o)->key);
}
static long elem_tag(spif_obj_t o) {
    const char *s;
    if (!kind || SPIF_OBJ_ISNULL(o) || !SPIF_OBJ_IS_OBJPAIR(o) || SPIF_OBJ_ISNULL(SPIF_OBJPAIR(o)->value)) return -1;
    s = (const char *) SPIF_STR_STR(SPIF_STR(SPIF_OBJPAIR(o)->value));
    return s ? atol(s) : -1;
}
static long elem_ordkey(spif_obj_t data, const char **msg) {
    long v = elem_val(data);
    if (v < 1 || v > NE) *msg = "element_outside_the_universe";
    return v;
}

/* full read-back of a vector through the public interface + representation invariants */
static const char *readback(spif_vector_t V, const char *which, unsigned char *tags, vh_sb *out) {
    static long vals[1 << 15];
    static long cnt[1 << 15];
    static unsigned char seen[MAXTAG];
    long n = (long) SPIF_VECTOR_COUNT(V), i, e, npr = 0, q;
    long probes[16];
    long rb = ++rb_count;
    spif_iterator_t it;
    spif_obj_t *arr;
    const char *inv;

    if (n < 0 || n >= (1 << 15)) CU_FAIL("%s:count=%ld", which, n);
    /* a fresh iterator yields count elements and reports exhaustion exactly then */
    it = SPIF_VECTOR_ITERATOR(V);
    if (SPIF_ITERATOR_ISNULL(it)) CU_FAIL("%s:iterator()=NULL", which);
    if (kind) memset(seen, 0, (size_t) (next_tag + 1 < MAXTAG ? next_tag + 1 : MAXTAG));
    for (i = 0; i < n; i++) {
        spif_obj_t o;
        if (!SPIF_ITERATOR_HAS_NEXT(it)) { SPIF_ITERATOR_DEL(it); CU_FAIL("%s:iter_has_next_false_at_%ld_of_%ld", which, i, n); }
        o = SPIF_ITERATOR_NEXT(it);
        if (SPIF_OBJ_ISNULL(o)) { SPIF_ITERATOR_DEL(it); CU_FAIL("%s:iter_next=NULL_at_%ld_of_%ld", which, i, n); }
        vals[i] = elem_val(o);
        if (kind) {
            long t = elem_tag(o);
            if (t < 1 || t >= MAXTAG || !tags[t]) { SPIF_ITERATOR_DEL(it); CU_FAIL("%s:holds_an_element_it_does_not_own(tag)", which); }
            if (seen[t]) { SPIF_ITERATOR_DEL(it); CU_FAIL("%s:holds_the_same_element_twice(tag)", which); }
            seen[t] = 1;
        }
    }
    if (SPIF_ITERATOR_HAS_NEXT(it)) { SPIF_ITERATOR_DEL(it); CU_FAIL("%s:iter_has_next_true_after_%ld", which, n); }
    if (!SPIF_OBJ_ISNULL(SPIF_ITERATOR_NEXT(it))) { SPIF_ITERATOR_DEL(it); CU_FAIL("%s:iter_next_after_end!=NULL", which); }
    SPIF_ITERATOR_DEL(it);
    sb_putc(out, '[');
    for (i = 0; i < n; i++) { if (i) sb_putc(out, ','); sb_int(out, vals[i]); }
    sb_putc(out, ']');
    for (i = 1; i < n; i++) if (vals[i - 1] > vals[i]) CU_FAIL("%s:iteration_not_ascending_at_%ld", which, i);
    if (kind) {
        long t, owned = 0;
        for (t = 1; t <= next_tag && t < MAXTAG; t++) if (tags[t]) owned++;
        if (owned != n) CU_FAIL("%s:lost_an_element_it_owns(tags_owned=%ld_found=%ld)", which, owned, n);
    }
    /* to_array gives the same sequence */
    arr = SPIF_VECTOR_TO_ARRAY(V);
    if (n > 0 && !arr) CU_FAIL("%s:to_array=NULL", which);
    for (i = 0; i < n; i++) {
        if (elem_val(arr[i]) != vals[i]) { FREE(arr); CU_FAIL("%s:to_array_mismatch_at_%ld", which, i); }
    }
    if (arr) FREE(arr);
    /* find / contains */
    if (!compact) {
        /* of every element value, of a probe below the minimum and of one above the maximum */
        memset(cnt, 0, sizeof(long) * (size_t) (NE + 2));
        for (i = 0; i < n; i++) if (vals[i] >= 0 && vals[i] <= NE + 1) cnt[vals[i]]++;
        for (e = 0; e <= NE + 1; e++) {
            spif_obj_t probe = mk_elem(e, 0, 1 + ((e + rb) & 1)), r = SPIF_VECTOR_FIND(V, probe);
            spif_bool_t c = SPIF_VECTOR_CONTAINS(V, probe);
            long rv = elem_val(r);
            SPIF_OBJ_DEL(probe);
            if (cnt[e] && SPIF_OBJ_ISNULL(r)) CU_FAIL("%s:find_misses_a_present_element(%s)", which, e == vals[0] ? "minimum" : (e == vals[n - 1] ? "maximum" : "inner"));
            if (!cnt[e] && !SPIF_OBJ_ISNULL(r)) CU_FAIL("%s:find_returns_something_for_an_absent_probe", which);
            if (cnt[e] && rv != e) CU_FAIL("%s:find_returns_an_unequal_element", which);
            if (cnt[e] && kind && (elem_tag(r) < 1 || !tags[elem_tag(r)])) CU_FAIL("%s:find_returns_an_element_not_stored(tag)", which);
            if ((c ? 1 : 0) != (cnt[e] ? 1 : 0)) CU_FAIL("%s:contains_disagrees_with_iteration", which);
        }
    } else {
        /* at the position classes and at absent probes below / between / above */
        static const char *pc[] = {"minimum", "second", "middle", "next_to_last", "maximum"};
        long pos[5], gap = -1;
        for (i = 1; i < n && gap < 0; i++) if (vals[i] > vals[i - 1] + 1) gap = vals[i - 1] + 1;
        if (n > 0) {
            pos[0] = 0; pos[1] = n > 1 ? 1 : 0; pos[2] = n / 2; pos[3] = n > 1 ? n - 2 : 0; pos[4] = n - 1;
            for (q = 0; q < 5; q++) {
                spif_obj_t probe = mk_elem(vals[pos[q]], 0, 1 + ((q + rb) & 1)), r = SPIF_VECTOR_FIND(V, probe);
                spif_bool_t c = SPIF_VECTOR_CONTAINS(V, probe);
                SPIF_OBJ_DEL(probe);
                if (SPIF_OBJ_ISNULL(r) || !c) CU_FAIL("%s:find_misses_a_present_element(%s)", which, pc[q]);
                if (elem_val(r) != vals[pos[q]]) CU_FAIL("%s:find_returns_an_unequal_element", which);
                if (kind && (elem_tag(r) < 1 || !tags[elem_tag(r)])) CU_FAIL("%s:find_returns_an_element_not_stored(tag)", which);
            }
        }
        probes[npr++] = 0; probes[npr++] = NE + 1;
        if (gap > 0) probes[npr++] = gap;
        if (n > 0 && vals[0] > 1) probes[npr++] = vals[0] - 1;
        if (n > 0 && vals[n - 1] < NE) probes[npr++] = vals[n - 1] + 1;
        for (q = 0; q < npr; q++) {
            spif_obj_t probe = mk_elem(probes[q], 0, 1 + ((q + rb) & 1)), r = SPIF_VECTOR_FIND(V, probe);
            spif_bool_t c = SPIF_VECTOR_CONTAINS(V, probe);
            SPIF_OBJ_DEL(probe);
            if (!SPIF_OBJ_ISNULL(r) || c) CU_FAIL("%s:find_returns_something_for_an_absent_probe", which);
        }
    }
    /* representation */
    if ((inv = cu_walk(V, n, which, elem_ordkey, 0))) return inv;
    return NULL;
}

/* C05: immediately after dup the copy equals the original slot by slot: same values AND (kind 1) copies of the very
 * same elements in the very same slots */
static const char *dup_slots_equal(void) {
    long n = (long) SPIF_VECTOR_COUNT(A), m = (long) SPIF_VECTOR_COUNT(B), i;
    spif_obj_t *x, *y;
    const char *bad = NULL;
    if (n != m) return "dup_count_differs";
    x = SPIF_VECTOR_TO_ARRAY(A); y = SPIF_VECTOR_TO_ARRAY(B);
    for (i = 0; i < n && !bad; i++) {
        if (x[i] == y[i]) bad = "dup_shares_an_element_object_with_the_original";
        else if (elem_val(x[i]) != elem_val(y[i])) bad = "dup_slot_holds_a_different_value";
        else if (SPIF_OBJ_CLASS(x[i]) != SPIF_OBJ_CLASS(y[i])
                 || (kind && SPIF_OBJ_IS_OBJPAIR(x[i]) && SPIF_OBJ_IS_OBJPAIR(y[i])
                     && SPIF_OBJ_CLASS(SPIF_OBJPAIR(x[i])->key) != SPIF_OBJ_CLASS(SPIF_OBJPAIR(y[i])->key)))
            bad = "dup_changed_the_class_of_an_element";
        else if (kind && elem_tag(x[i]) != elem_tag(y[i])) bad = "dup_slot_holds_a_copy_of_a_different_(equal)_element";
    }
    if (x) FREE(x);
    if (y) FREE(y);
    return bad;
}

static void vh_begin(void) {
    cu_begin_script(vh_cur_sid);
    kind = kind_arg >= 0 ? kind_arg : (int) ((vh_cur_sid / 3) % 2);
    A = new_vector(); B = (spif_vector_t) NULL; IT = (spif_iterator_t) NULL; it_count = -1;
    if (kind) { memset(tagA, 0, sizeof(tagA)); memset(tagB, 0, sizeof(tagB)); }
    next_tag = 0;
    rb_count = 0;
}
static void vh_end(void) {
    if (!SPIF_ITERATOR_ISNULL(IT)) { SPIF_ITERATOR_DEL(IT); IT = (spif_iterator_t) NULL; }
    if (!SPIF_VECTOR_ISNULL(B)) { SPIF_VECTOR_DEL(B); B = (spif_vector_t) NULL; }
    if (!SPIF_VECTOR_ISNULL(A)) { SPIF_VECTOR_DEL(A); A = (spif_vector_t) NULL; }
}

static const char *do_insert(spif_vector_t V, unsigned char *tags, long v, long cls, spif_bool_t *res) {
    spif_obj_t e;
    if (next_tag + 1 >= MAXTAG) return "harness:too_many_elements";
    next_tag++;
    e = mk_elem(v, next_tag, cls);
    *res = SPIF_VECTOR_INSERT(V, e);
    if (!*res) SPIF_OBJ_DEL(e);          /* refused: the element is still the caller's */
    else tags[next_tag] = 1;
    return NULL;
}
/* the vector handed an element back to the caller */
static const char *take_back(unsigned char *tags, spif_obj_t r) {
    long t;
    if (!kind || SPIF_OBJ_ISNULL(r)) return NULL;
    t = elem_tag(r);
    if (t < 1 || t >= MAXTAG || !tags[t]) return "remove_returned_an_element_that_was_not_stored(tag)";
    tags[t] = 0;
    return NULL;
}

#define OP(s) (!strcmp(op, s))
static const char *vh_step(const vh_step_t *st, vh_sb *ret, vh_sb *state) {
    const char *op = st->op, *inv;
    spif_vector_t V = A;
    unsigned char *tags = tagA;
    if (op[0] == 'b' && op[1] == '_') { V = B; tags = tagB; op += 2; if (OP("del")) op = "b_del"; }

    if (OP("insert")) {
        spif_bool_t r;
        if ((inv = do_insert(V, tags, vh_int(st->args[0]), cu_clsarg(st, 1), &r))) return inv;
        sb_bool(ret, r);
    } else if (OP("fill")) {
        long lo = vh_int(st->args[0]), hi = vh_int(st->args[1]), stp = vh_int(st->args[2]), v, k = 0, mix = cu_clsarg(st, 3);
        if (stp < 1) return "fill:bad_step";
        for (v = lo; v <= hi; v += stp) {
            spif_bool_t r;
            if ((inv = do_insert(V, tags, v, cu_mixcls(mix, v), &r))) return inv;
            if (r) k++;
        }
        sb_int(ret, k);
    } else if (OP("remove")) {
        spif_obj_t probe = mk_elem(vh_int(st->args[0]), 0, cu_clsarg(st, 1)), r = SPIF_VECTOR_REMOVE(V, probe);
        sb_int(ret, elem_val(r));
        if (r == probe) { SPIF_OBJ_DEL(probe); return "remove_returned_the_probe_object"; }
        inv = take_back(tags, r);
        if (!SPIF_OBJ_ISNULL(r)) SPIF_OBJ_DEL(r);   /* handed back: the caller's to delete */
        SPIF_OBJ_DEL(probe);
        if (inv) return inv;
    } else if (OP("remove_own")) {
        /* aliased argument: the probe IS the stored element */
        spif_obj_t probe = mk_elem(vh_int(st->args[0]), 0, 1), own = SPIF_VECTOR_FIND(V, probe), r;
        SPIF_OBJ_DEL(probe);
        if (SPIF_OBJ_ISNULL(own)) return "remove_own:element_absent";
        r = SPIF_VECTOR_REMOVE(V, own);
        sb_int(ret, elem_val(r));
        inv = take_back(tags, r);
        if (!SPIF_OBJ_ISNULL(r)) SPIF_OBJ_DEL(r);
        if (inv) return inv;
    } else if (OP("done")) {
        sb_bool(ret, SPIF_VECTOR_DONE(V));
        if (kind) memset(tags, 0, MAXTAG);
    } else if (OP("find")) {
        spif_obj_t probe = mk_elem(vh_int(st->args[0]), 0, cu_clsarg(st, 1)), r = SPIF_VECTOR_FIND(V, probe);
        sb_int(ret, elem_val(r));
        if (r == probe) { SPIF_OBJ_DEL(probe); return "find_returned_the_probe_object"; }
        SPIF_OBJ_DEL(probe);
        if (kind && !SPIF_OBJ_ISNULL(r) && (elem_tag(r) < 1 || !tags[elem_tag(r)])) return "find_returned_an_element_not_stored(tag)";
    } else if (OP("contains")) {
        spif_obj_t probe = mk_elem(vh_int(st->args[0]), 0, cu_clsarg(st, 1));
        sb_bool(ret, SPIF_VECTOR_CONTAINS(V, probe));
        SPIF_OBJ_DEL(probe);
    } else if (OP("count")) {
        sb_int(ret, (long) SPIF_VECTOR_COUNT(V));
    } else if (OP("to_array")) {
        long n = (long) SPIF_VECTOR_COUNT(V), i; spif_obj_t *arr = SPIF_VECTOR_TO_ARRAY(V);
        sb_putc(ret, '[');
        for (i = 0; i < n && arr; i++) { if (i) sb_putc(ret, ','); sb_int(ret, elem_val(arr[i])); }
        sb_putc(ret, ']');
        if (arr) FREE(arr);
    } else if (OP("iter_new")) {
        IT = SPIF_VECTOR_ITERATOR(A); it_count = 0;
        sb_bool(ret, !SPIF_ITERATOR_ISNULL(IT));
    } else if (OP("iter_has_next")) {
        sb_bool(ret, SPIF_ITERATOR_HAS_NEXT(IT));
    } else if (OP("iter_next")) {
        long n = (long) SPIF_VECTOR_COUNT(A);
        sb_int(ret, elem_val(SPIF_ITERATOR_NEXT(IT)));
        if (it_count <= n) it_count++;
    } else if (OP("iter_del")) {
        sb_bool(ret, SPIF_ITERATOR_DEL(IT)); IT = (spif_iterator_t) NULL; it_count = -1;
    } else if (OP("dup")) {
        B = SPIF_VECTOR(SPIF_VECTOR_DUP(A));
        if (SPIF_VECTOR_ISNULL(B)) return "dup=NULL";
        if (B == A) return "dup_returned_same_object";
        if (SPIF_OBJ_CLASS(B) != SPIF_OBJ_CLASS(A)) return "dup_class_differs";
        if (strcmp((const char *) SPIF_VECTOR_TYPE(B), (const char *) SPIF_VECTOR_TYPE(A))) return "dup_type_differs";
        if (kind) memcpy(tagB, tagA, MAXTAG);
        if ((inv = dup_slots_equal())) return inv;
        sb_bool(ret, 1);
    } else if (OP("b_del")) {
        sb_bool(ret, SPIF_VECTOR_DEL(B)); B = (spif_vector_t) NULL;
        if (kind) memset(tagB, 0, MAXTAG);
    } else if (OP("adopt")) {
        spif_bool_t r = SPIF_VECTOR_DEL(A); A = B; B = (spif_vector_t) NULL;
        if (kind) { memcpy(tagA, tagB, MAXTAG); memset(tagB, 0, MAXTAG); }
        sb_bool(ret, r);
    } else {
        CU_FAIL("unknown_op_%s", op);
    }

    sb_puts(state, "{a=");
    if ((inv = readback(A, "a", tagA, state))) return inv;
    sb_puts(state, ",b={live=");
    if (SPIF_VECTOR_ISNULL(B)) sb_puts(state, "F,s=[]}");
    else {
        sb_puts(state, "T,s=");
        if ((inv = readback(B, "b", tagB, state))) return inv;
        sb_putc(state, '}');
    }
    sb_printf(state, ",it=%d}", it_count);
    return NULL;
}

int main(int argc, char **argv) {
    if (argc < 7) { fprintf(stderr, "usage: %s <class> <NE> <enc> <kind> <full|compact> <scripts> [first]\n", argv[0]); return 2; }
    cu_cls = argv[1];
    NE = atol(argv[2]);
    cu_enc_arg = atoi(argv[3]);
    kind_arg = atoi(argv[4]);
    compact = !strcmp(argv[5], "compact");
    if (NE < 1 || NE > 32000 || (!compact && NE > 16000)) { fprintf(stderr, "bad NE\n"); return 2; }
    if (cu_enc_arg == 2 && NE > 253) { fprintf(stderr, "family 2 needs NE <= 253\n"); return 2; }
    cu_N = NE;
    cu_warm_libc();
    libast_set_program_name("vector_replay");
    DEBUG_LEVEL = 0;
    return vh_main(argc, argv, 6);
}
