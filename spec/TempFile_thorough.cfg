SPECIFICATION Spec
CONSTANTS
  FaultLen = 9
  Dirs <- DirsThorough
  TmpDirs = {"tb", "no"}
  Templates <- TemplatesThorough
  Lens <- LensThorough
  Faults <- FaultsAll
  Umasks <- UmasksThorough
  Levels <- LevelsThorough
  MaxLive = 1
  D = 4
  Obs <- ObsEmit
INVARIANTS TypeOK EnvPrecedence ModeAndUmask FailureLeavesNothing BufferLaw
PROPERTY LiveLaw
CHECK_DEADLOCK FALSE
