------------------------------- MODULE MC_TokObj -------------------------------
(* Bounded model of TokObj: every pair of evaluations over all sources up to 2 characters (quick) / 3 (thorough) of *)
(* the 7-character alphabet x 3 separators, and every triple over the sources up to 1 character.                    *)
EXTENDS TokObj
Alpha7 == {97, 98, 32, 58, 39, 34, 92}
Delims3 == {<<>>, <<58>>, <<58, 32>>}
Src1 == InputsUpTo(1)
Src2 == UNION {[1 .. k -> Alpha7] : k \in 0 .. 2}
Src3 == UNION {[1 .. k -> {97, 32, 58, 34, 92}] : k \in 0 .. 3}
ObsEmitHist(op, args, ret, post) == PrintT(ToJson([h |-> args, lv |-> DebugLevels]))
================================================================================
