-------------------------------- MODULE ConfLife --------------------------------
(* C11: life cycle of the config subsystem of libast (src/conf.c, src/file.c): initialise, register         *)
(* contexts and built-ins, parse files / expand texts, free - any number of cycles.                          *)
(*                                                                                                           *)
(* State = what the subsystem keeps between calls: the four tables (context table, context-state stack,      *)
(* file-state stack, built-in table) with their 8-bit indices and doubled capacities, the number of %put     *)
(* variables and the head of their list, which temp-file names exist.  One action per API call; what a       *)
(* call may do to its environment is part of the action:                                                     *)
(*   - it may try to create a process only if the text it consumes contains a back-quote, %exec or %preproc  *)
(*     (SpawnEnabled); the harness logs and refuses every such attempt,                                      *)
(*   - every temporary file has mode 0600 and a name that did not exist before (TempOk),                     *)
(*   - parsing leaves the file stack where it was and every descriptor closed.                               *)
(* The capacity rule is the one of ConfParse: `if (++idx == cnt) cnt *= 2` in arithmetic modulo CapMod       *)
(* (256 = pinned code, 65536 = repaired code); ClearOnGrow / ResetVarsOnFree = TRUE is the repaired code,    *)
(* FALSE the pinned one (used only to show that TLC finds the defects of the pinned mechanism by itself).    *)
EXTENDS Integers, Sequences, FiniteSets, TLC

CONSTANTS CapMod, ClearOnGrow, ResetVarsOnFree,
          MaxCtx, MaxBi, MaxVars,        \* model bounds on registrations / variables
          Texts,                         \* classes of consumed text: records [bq, ex, pp] (contains a back-quote / %exec / %preproc)
          Outcomes,                      \* what a model lets a call do: records [ns, tm, dv, d, fds, cwd] (spawn attempts, temp files [mode, fresh],
                                         \* new variables, context depth left open, descriptors left open, working directory as before)
          Progs,                         \* program names a model offers to OpRename
          GrowSteps,                     \* how many doublings one parse may cause (model bound)
          Obs(_, _, _, _)

VARIABLES inited, c_idx, c_cnt, cs_idx, cs_cnt, f_idx, f_cnt, b_idx, b_cnt, zeroTo, nvars, vhead, ntemps,
          cwdok,     \* process-wide: the working directory can still be named (FALSE after it has been removed under the process)
          prog       \* process-wide: the program name (libast_set_program_name), which the magic line of config files must carry
vars == <<inited, c_idx, c_cnt, cs_idx, cs_cnt, f_idx, f_cnt, b_idx, b_cnt, zeroTo, nvars, vhead, ntemps, cwdok, prog>>
UNCH_env == UNCHANGED <<cwdok, prog>>

Inc8(i)       == (i + 1) % 256
Grow(i2, cnt) == IF i2 = cnt THEN (cnt * 2) % CapMod ELSE cnt
RECURSIVE CapChain(_, _)
CapChain(c, k) == IF k = 0 THEN {c} ELSE {c} \cup CapChain((c * 2) % CapMod, k - 1)     \* capacities reachable by doubling
SpawnEnabled(t) == t.bq \/ t.ex \/ t.pp                       \* S: nothing else may cause a process to be created
TempOk(tf)      == tf.mode = 384 /\ tf.fresh                  \* S: mode 0600 (= 384) and a unique name
Snap == [c_idx |-> c_idx', c_cnt |-> c_cnt', cs_idx |-> cs_idx', cs_cnt |-> cs_cnt', f_idx |-> f_idx', f_cnt |-> f_cnt',
         b_idx |-> b_idx', b_cnt |-> b_cnt', nvars |-> nvars', tables |-> IF inited' THEN 15 ELSE 0]

Init == /\ inited = FALSE
        /\ c_idx = 0 /\ c_cnt = 0 /\ cs_idx = 0 /\ cs_cnt = 0 /\ f_idx = 0 /\ f_cnt = 0 /\ b_idx = 0 /\ b_cnt = 0 /\ zeroTo = 0
        /\ nvars = 0 /\ vhead = "null" /\ ntemps = 0
        /\ cwdok = TRUE /\ prog \in Progs

(* spifconf_init_subsystem: fresh tables; the seven standard built-ins are registered by the ordinary rule *)
OpInit ==
    /\ ~inited /\ inited' = TRUE
    /\ c_idx' = 0 /\ c_cnt' = 20 /\ cs_idx' = 0 /\ cs_cnt' = 20 /\ f_idx' = 0 /\ f_cnt' = 10
    /\ b_idx' = 7 /\ b_cnt' = 10 /\ zeroTo' = 10
    /\ UNCHANGED <<nvars, vhead, ntemps>> /\ UNCH_env
    /\ Obs("init", <<>>, TRUE, Snap)

OpRegisterContext(isnull) ==
    /\ inited
    /\ IF isnull THEN UNCHANGED <<c_idx, c_cnt>>                       \* I: "null" replaces slot 0
       ELSE IF c_idx = 255 THEN UNCHANGED <<c_idx, c_cnt>>            \* I: does not fit the 8-bit id: refused, nothing changes
       ELSE /\ c_idx < MaxCtx
            /\ c_idx' = Inc8(c_idx) /\ c_cnt' = Grow(Inc8(c_idx), c_cnt)
    /\ UNCHANGED <<inited, cs_idx, cs_cnt, f_idx, f_cnt, b_idx, b_cnt, zeroTo, nvars, vhead, ntemps>> /\ UNCH_env
    /\ Obs("regctx", <<isnull>>, TRUE, Snap)

(* spifconf_register_builtin: stores at b_idx, then grows; lookups scan for the first NULL name, so the entry at b_idx must be clear *)
OpRegisterBuiltin ==
    /\ inited
    /\ IF b_idx = 255 THEN UNCHANGED <<b_idx, b_cnt, zeroTo>>          \* I: does not fit the 8-bit index: refused, nothing changes
       ELSE /\ b_idx < MaxBi
            /\ b_idx' = Inc8(b_idx) /\ b_cnt' = Grow(Inc8(b_idx), b_cnt)
            /\ zeroTo' = IF Inc8(b_idx) = b_cnt /\ ClearOnGrow THEN b_cnt' ELSE zeroTo
    /\ UNCHANGED <<inited, c_idx, c_cnt, cs_idx, cs_cnt, f_idx, f_cnt, nvars, vhead, ntemps>> /\ UNCH_env
    /\ Obs("regbi", <<>>, TRUE, Snap)

(* what consuming a text may do, whatever the text is *)
Consume(t, o) ==
    /\ o.ns > 0 => SpawnEnabled(t)
    /\ Len(o.tm) > 0 => SpawnEnabled(t)                               \* temp files are made only for commands
    /\ \A i \in 1 .. Len(o.tm) : TempOk(o.tm[i])
    /\ ntemps' = ntemps + Len(o.tm)
    /\ o.dv >= 0 /\ nvars + o.dv <= MaxVars
    /\ nvars' = nvars + o.dv
    /\ vhead' = IF nvars' > 0 THEN "list" ELSE vhead

(* spifconf_parse on any byte string: stacks restored (file stack), descriptors closed, indices below capacity *)
OpParse(t, o) ==
    /\ inited /\ Consume(t, o)
    /\ o.fds = 0                                                        \* S: all files closed (no descriptor of any kind left)
    /\ cwdok => o.cwd                                                   \* S: no state left behind: the working directory is the one
                                                                        \* the call was made in (X: it cannot be named any more)
    /\ f_idx' = f_idx /\ f_cnt' \in CapChain(f_cnt, GrowSteps) /\ f_idx' < f_cnt'
    /\ cs_idx' = o.d /\ cs_idx' >= 0 /\ cs_idx' <= 255                  \* unbalanced input may leave contexts open
    /\ cs_cnt' \in CapChain(cs_cnt, GrowSteps) /\ cs_idx' < cs_cnt'
    /\ UNCHANGED <<inited, c_idx, c_cnt, b_idx, b_cnt, zeroTo>> /\ UNCH_env
    /\ Obs("parse", <<t>>, o, Snap)

OpExpand(t, o) ==
    /\ inited /\ Consume(t, o)
    /\ o.fds = 0 /\ o.d = cs_idx /\ o.cwd
    /\ UNCHANGED <<inited, c_idx, c_cnt, cs_idx, cs_cnt, f_idx, f_cnt, b_idx, b_cnt, zeroTo>> /\ UNCH_env
    /\ Obs("expand", <<t>>, o, Snap)

(* spiftool_temp_file called directly *)
OpTempFile(tf) ==
    /\ TempOk(tf) /\ ntemps' = ntemps + 1
    /\ UNCHANGED <<inited, c_idx, c_cnt, cs_idx, cs_cnt, f_idx, f_cnt, b_idx, b_cnt, zeroTo, nvars, vhead>> /\ UNCH_env
    /\ Obs("temp", <<>>, tf, Snap)

(* spifconf_free_subsystem: S: releases everything and leaves no state behind *)
OpFree(heap) ==
    /\ inited /\ inited' = FALSE
    /\ heap = 0                                                         \* everything allocated since init is released
    /\ nvars' = 0
    /\ vhead' = IF ResetVarsOnFree \/ nvars = 0 THEN "null" ELSE "dangling"
    /\ c_idx' = 0 /\ c_cnt' = 0 /\ cs_idx' = 0 /\ cs_cnt' = 0 /\ f_idx' = 0 /\ f_cnt' = 0 /\ b_idx' = 0 /\ b_cnt' = 0 /\ zeroTo' = 0
    /\ UNCHANGED ntemps /\ UNCH_env
    /\ Obs("free", <<>>, heap, Snap)

(* the environment: process-wide settings the subsystem reads; they may change between any two calls *)
UNCH_sub == UNCHANGED <<inited, c_idx, c_cnt, cs_idx, cs_cnt, f_idx, f_cnt, b_idx, b_cnt, zeroTo, nvars, vhead, ntemps>>
OpRename(p)  == prog' = p /\ UNCHANGED cwdok /\ UNCH_sub /\ Obs("rename", <<p>>, TRUE, Snap)
OpRemoveCwd  == cwdok /\ cwdok' = FALSE /\ UNCHANGED prog /\ UNCH_sub /\ Obs("rmcwd", <<>>, TRUE, Snap)
OpRestoreCwd == ~cwdok /\ cwdok' = TRUE /\ UNCHANGED prog /\ UNCH_sub /\ Obs("backcwd", <<>>, TRUE, Snap)

Next == \/ OpInit \/ OpFree(0)
        \/ \E n \in BOOLEAN : OpRegisterContext(n)
        \/ OpRegisterBuiltin
        \/ \E t \in Texts, o \in Outcomes : OpParse(t, o) \/ OpExpand(t, o)
        \/ OpTempFile([mode |-> 384, fresh |-> TRUE])
        \/ OpRemoveCwd \/ OpRestoreCwd \/ \E p \in Progs : OpRename(p)
Spec == Init /\ [][Next]_vars

IndexBelowCapacity == inited => c_idx < c_cnt /\ cs_idx < cs_cnt /\ f_idx < f_cnt /\ b_idx < b_cnt
BuiltinSentinel    == inited => b_idx < zeroTo                        \* the scan for a built-in name stops inside the table
AfterFreeNoResidue == ~inited => nvars = 0 /\ vhead # "dangling" /\ c_cnt = 0 /\ cs_cnt = 0 /\ f_cnt = 0 /\ b_cnt = 0
FileStackRestored  == f_idx = 0
================================================================================
