SPECIFICATION Spec
CONSTANTS
  CapMod = 65536
  ClearOnGrow = TRUE
  ResetVarsOnFree = FALSE
  MaxCtx = 1
  MaxBi = 8
  MaxVars = 2
  Progs = {1, 2}
  GrowSteps = 1
  Texts <- AllTexts
  Outcomes <- OutcomesMC
  Obs <- ObsNone
INVARIANTS IndexBelowCapacity BuiltinSentinel AfterFreeNoResidue FileStackRestored
CONSTRAINT Bounded
CHECK_DEADLOCK FALSE
