/* Extension X01 (beyond the listed properties): replays TlsTable.tla (ideal placeholder behaviour) on the real
 * spif_pthreads_tls_* functions.  No thread is started: the handle table lives in the pthreads object.
 * State token: {held=[id under handle 0, handle 1, ...],n=<next id>,slots=[id|0 ...]}
 * Each allocation carries its id in its first int, so "which allocation does handle h designate" is observable.
 */
#include "common.h"
#include <libast/pthreads.h>

static spif_pthreads_t T;
static int NH;                 /* MaxAllocs + 1 handles */
static int held[16];           /* ledger: id the program holds under handle h, 0 = none */
static int nextid;

static void vh_begin(void) { T = spif_pthreads_new(); memset(held, 0, sizeof(held)); nextid = 1; }
static void vh_end(void) {
    int h;
    for (h = 0; h < NH; h++) if (held[h]) { spif_pthreads_tls_free(T, (spif_tls_handle_t) h); held[h] = 0; }
    if (T) { spif_pthreads_del(T); T = (spif_pthreads_t) NULL; }
}
static int id_at(int h) {
    int *p = (int *) spif_pthreads_tls_get(T, (spif_tls_handle_t) h);
    return p ? p[0] : 0;
}
#define OP(s) (!strcmp(op, s))
static const char *vh_step(const vh_step_t *st, vh_sb *ret, vh_sb *state) {
    const char *op = st->op; int h = st->nargs ? atoi(st->args[0]) : 0, i, n;
    if (OP("malloc")) {
        spif_tls_handle_t r = spif_pthreads_tls_malloc(T, 16);
        int *p = (int *) spif_pthreads_tls_get(T, r);
        if (r < 0 || r >= NH || !p) return "tls_malloc_failed";
        p[0] = nextid; held[r] = nextid; nextid++;
        sb_int(ret, (long) r);
    } else if (OP("get")) {
        sb_int(ret, id_at(h));
    } else if (OP("realloc")) {
        int before = id_at(h);
        spif_bool_t r = spif_pthreads_tls_realloc(T, (spif_tls_handle_t) h, 64);
        if (r && id_at(h) != before) return "realloc_lost_the_contents";
        sb_bool(ret, r);
    } else if (OP("free")) {
        sb_bool(ret, spif_pthreads_tls_free(T, (spif_tls_handle_t) h)); held[h] = 0;
    } else return "unknown_op";
    sb_puts(state, "{held=[");
    for (i = 0; i < NH; i++) sb_printf(state, "%s%d", i ? "," : "", held[i]);
    sb_printf(state, "],n=%d,slots=[", nextid);
    n = SPIF_LIST_ISNULL(T->tls_keys) ? 0 : (int) SPIF_LIST_COUNT(T->tls_keys);
    for (i = 0; i < n; i++) sb_printf(state, "%s%d", i ? "," : "", id_at(i));
    sb_puts(state, "]}");
    return NULL;
}
int main(int argc, char **argv) {
    if (argc < 3) return 2;
    NH = atoi(argv[1]) + 1;
    libast_set_program_name("tls_replay");
    return vh_main(argc, argv, 2);
}
