#!/bin/sh
# Runs the repository's own test suite with the verification guard (LIBAST_VERIF) OFF, the way the
# baseline was recorded (autotools build in place, test/libast-test), and checks that every test
# listed as stable in /root/.vp/BASELINE.json reports "passed".
set -e
REPO=${VERIF_REPO:-/repo}
cd "$REPO"
make -s -j8 >/dev/null 2>&1 || { echo "build failed"; make 2>&1 | tail -20; exit 1; }
make -s -C test libast-test >/dev/null 2>&1 || { echo "test build failed"; exit 1; }
cd test
OUT=$(mktemp)
( timeout 300 ./libast-test 2>&1 || true ) > "$OUT"
python3 - "$OUT" <<'PY'
import json, re, sys
out = open(sys.argv[1], errors="replace").read()
passed = set(re.findall(r"(Testing [^\n]*?)\.\.\.passed", out))
failed = set(re.findall(r"(Testing [^\n]*?)\.\.\.failed", out))
base = json.load(open("/root/.vp/BASELINE.json"))["stable_pass"]
missing = [t for t in base if t not in passed]
print("baseline: %d stable tests, %d passed now, %d missing/failed" % (len(base), len(base) - len(missing), len(missing)))
for t in missing:
    print("  NOT PASSED:", t, "(failed)" if t in failed else "(not run)")
sys.exit(1 if missing else 0)
PY
RC=$?
rm -f "$OUT"
exit $RC
