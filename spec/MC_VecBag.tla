------------------------------ MODULE MC_VecBag ------------------------------
(* Bounded model of VecBag for TLC and the edge emitter: one JSON line per generated transition. *)
EXTENDS VecBag
ObsEmit(op, args, ret, post) ==
    PrintT(ToJson([pre |-> Pre, op |-> op, args |-> args, ret |-> ret, post |-> post]))
================================================================================
