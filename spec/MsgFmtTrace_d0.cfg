SPECIFICATION TraceSpec
CONSTANTS
  Names = {}
  Vers = {}
  Msgs = {}
  MacroMsgs = {}
  Levels = {}
  Clocks = {}
  Sites = {}
  Macros = {}
  D = 0
  Extras = TRUE
  AsBuilt = FALSE
  Obs <- ObsTrace
POSTCONDITION TraceAccepted
CHECK_DEADLOCK FALSE
