SPECIFICATION Spec
CONSTANTS
  Configs <- ConfigsAsBuilt
  CapMod = 256
  LineMax = 20479
  AlphaOf <- AlphaMC
  Sc <- ScMC
  Obs <- ObsEmit
INVARIANTS IndexBelowCapacity
CHECK_DEADLOCK FALSE
