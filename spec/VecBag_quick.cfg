SPECIFICATION Spec
CONSTANTS
  NE = 3
  MaxLen = 4
  BDepth = 9
  Obs <- ObsEmit
INVARIANTS TypeOK Sorted BagConservation FindIffPresent FillLaw IterLaw
PROPERTIES MutatorsOnly SlotsIndependent DupIsEqual
CHECK_DEADLOCK FALSE
