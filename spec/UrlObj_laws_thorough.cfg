SPECIFICATION LawSpec
CONSTANTS
  Parts <- PartsLaws
  Texts <- NoTexts
  Lookups <- LookupsThorough
  WithBuild = TRUE
  Obs <- ObsNone
INVARIANTS LawAssembleParse LawUnambExact LawUnparseParse LawIdempotent LawDefaultPort AmbiguousReport NonIdempotentReport
CHECK_DEADLOCK FALSE
