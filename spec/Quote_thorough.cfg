SPECIFICATION Spec
CONSTANTS
  Alphabet <- Alpha7
  MaxLen = 6
  DelimSets <- Delims3
  Obs <- ObsEmit
INVARIANTS PosInBounds ScanIsSplit SplitJoinIdentity TokAgreesWithSplitModuloTrim DelimRunsSeparate QuotesGroupAndAreRemoved StatedExamples WordsConsistent RepeatLaw WordsRepeatLaw
CHECK_DEADLOCK FALSE
