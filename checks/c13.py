"""C13: bounded and in-place string helpers stay inside their buffers and are exact (spec/StrHelpers.tla)."""
from vlib import build, x_c12
from vlib.core import tok, Broken

PROPERTY = "C13"
LEVEL = "model_checking"
LEVEL_TEXT = ("TLC enumerates every (size 1..7, source <= 5, destination prefix <= 5) triple for safe_strncpy/safe_strncat, every "
              "(text, idx, cnt) with idx, cnt in -7..7 for substr and every byte string up to length 6 over {a, Z, space, tab, 0x01, 0xE9} "
              "for chomp, condense_whitespace, downcase/upcase, safe_str and strrev (quick: sizes <= 6, lengths <= 4/5, -5..5), checks the "
              "postconditions of the reference (NUL-terminated, longest prefix, TRUE iff nothing cut, never longer, touched bytes within "
              "bounds, slice laws, idempotence) and emits every tuple with its expected result; each is executed on the real function in an "
              "ASan build with the destination inside an exact-size heap block between two 16-byte guard zones, in-place strings in "
              "exact-size blocks, and buffer contents, return values and guard zones compared.")
LEVEL_NOTE = ("Exhaustive only within those bounds and alphabets. safe_strncat with a destination that holds no NUL within size bytes is run "
              "for memory safety only (value not claimed); safe_str is claimed for n <= strlen. condense_whitespace keeping one leading blank "
              "is taken as the as-built convention. Memory safety = no ASan report and intact guard zones on what was executed. Trusted: TLC, "
              "ASan, harness/strhelpers_replay.c.")
TECHNIQUE = "TLA+ reference operators + TLC exhaustive argument enumeration replayed on the implementation"
DESIGN_REF = "DESIGN.md section 6 C13"
ACTIONS = ["EvalCopy", "EvalSubstr", "EvalInPlace"]
SAMPLE_ARGS = [("copy", [4, [97, 90, 97, 97], [90, 0, 126, 126]]), ("copy", [3, [97], [90, 97, 90]]), ("substr", [[97, 98, 99, 100, 101], -3, 2]),
               ("substr", [[97, 98, 99], 1, -5]), ("inplace", [[32, 97, 9, 233, 32]]), ("inplace", [[9, 1, 32, 32, 90]])]


def harness(ctx):
    libdir, cflags = build.build_lib(ctx.repo)
    return build.build_harness("strhelpers_replay", ["strhelpers_replay.c"], libdir, cflags)


def sclass(s):
    if not s:
        return "empty"
    ws = [c in (32, 9, 10, 11, 12, 13) for c in s]
    if all(ws):
        return "all-blank"
    f = []
    if ws[0]:
        f.append("lead-blank")
    if ws[-1]:
        f.append("trail-blank")
    if any(c > 127 for c in s):
        f.append("high-bit")
    return ",".join(f) or "text"


def keyfn(c, at, f):
    op, args, exp, meta = c.steps[at]
    return "%s [%s] %s" % (op, meta, x_c12.fail_class(f))


def mk_case(sid, r):
    op, a, e = r["op"], r["args"], r["exp"]
    if op == "copy":
        size, src, b0 = a
        pre = b0.index(0) if 0 in b0 else size
        room = size - 1 - pre
        cls_cpy = "src<size-1" if len(src) < size - 1 else ("src=size-1" if len(src) == size - 1 else "src>size-1")
        cls_cat = "unterminated-dest" if pre >= size else ("fits" if len(src) < room else ("fits-exactly" if len(src) == room else "cut"))
        cat_exp = tok({"buf": e["cat"]["result"], "ret": e["cat"]["ret"]}) if e["cat"]["claimed"] else "*"
        steps = [("strncpy", [str(size), tok(src), tok(b0)], tok({"buf": e["cpy"]["result"], "ret": e["cpy"]["ret"]}), cls_cpy),
                 ("strncat", [str(size), tok(src), tok(b0)], cat_exp, cls_cat)]
    elif op == "substr":
        s, idx, cnt = a
        n = len(s)
        st = n + idx if idx < 0 else idx
        cls = ("empty," if n == 0 else "") + ("idx<0," if idx < 0 else "") + ("start-out" if st < 0 or st >= n else "start-in") + \
              ("" if cnt > 0 else (",cnt=0" if cnt == 0 else (",cnt<0-beyond" if 0 <= st < n and n - st + cnt < 0 else ",cnt<0"))) + \
              (",cnt>rest" if cnt > 0 and 0 <= st < n and cnt > n - st else "")
        steps = [("substr", [tok(s), str(idx), str(cnt)], tok(e["result"]) if e["ok"] else "-", cls)]
    else:
        s = a[0]
        cls = sclass(s)
        steps = [(k, [tok(s)], tok(e[k]), cls) for k in ("chomp", "condense", "down", "up", "rev", "safe")]
    return x_c12.Case(sid, steps, {"op": op, "args": a})


def run(ctx):
    exe = harness(ctx)
    cfg = "StrHelpers_quick.cfg" if ctx.tier == "quick" else "StrHelpers_thorough.cfg"
    nontriv = [0]
    n = [0]
    cs = x_c12.CaseStream(ctx, exe, [], keyfn, "cases")

    def on_case(r):
        n[0] += 1
        cs.add(mk_case(n[0], r))
        a = r["args"]
        if (r["op"] == "copy" and len(a[1]) > 0) or (r["op"] == "substr" and len(a[0]) > 0) or (r["op"] == "inplace" and len(a[0]) > 0):
            nontriv[0] += 1
        if (r["op"], a) in SAMPLE_ARGS:       # chosen by content, so the evidence does not depend on TLC's emission order
            ctx.sample({"op": r["op"], "args": a, "expected": r["exp"]})
    try:
        res = x_c12.tlc_cases(ctx, "MC_StrHelpers.tla", cfg, ACTIONS, on_case)
    finally:
        tot = cs.close()
    if res.ok and tot["scripts"] != res.edges:
        raise Broken("emitted %d cases, replayed %d" % (res.edges, tot["scripts"]))
    import json
    ctx.cov["samples"].sort(key=lambda s: json.dumps(s, sort_keys=True))
    ctx.add("distinct_nontrivial", nontriv[0])
    ctx.cov["exhaustive"] = True
    ctx.cov["rule"] = ("every argument tuple of the bounded universe is evaluated by TLC (reference + laws) and executed on the implementation; "
                       "a tuple is non-trivial when its source / text is not empty (tuples are distinct by construction)")
    ctx.assumptions += ["ASan build of the current tree (clang -O1)", "C locale"]


def replay(ctx, path):
    return x_c12.replay_file(harness(ctx), [], path, ctx.rundir)
