------------------------------ MODULE MC_SockXfer ------------------------------
EXTENDS SockXfer
LensAll   == {1, 62, 4095, 4096, 4097, 8192, 16385, 20000}
LensSmall == {1, 62, 4097}
ModesAll  == {"eof", "nbio"}
NoPats    == {<<>>}
DefaultPath == {0}
\* path lengths across the kernel limit (sun_path holds 107 characters)
PathSweep == {60, 105, 106, 107, 108, 109, 120}
LensPath  == {62, 4097}
\* long transfers: cyclic patterns for the whole transfer
LensLongQuick    == {1000, 4097}
LensLongThorough == {1000, 4097, 8192, 20000}
WPatsLong == {<<<<"ok", 0>>>>, <<<<"sh", 5>>, <<"ei", 0>>>>, <<<<"sh", 7>>, <<"ea", 0>>, <<"ei", 0>>>>,
              <<<<"sh", 100>>, <<"ei", 0>>>>, <<<<"sh", 37>>, <<"ea", 0>>, <<"ei", 0>>, <<"ei", 0>>>>}
RPatsLong == {<<<<"sh", 5>>, <<"ei", 0>>>>, <<<<"ei", 0>>, <<"ei", 0>>, <<"sh", 7>>>>, <<<<"ei", 0>>, <<"ok", 0>>>>, <<<<"sh", 1>>>>}
ObsEmit(r) == PrintT(ToJson(r))
ObsNone(r) == TRUE
================================================================================
