-------------------------------- MODULE CmpLaws --------------------------------
(* C05, comparison half, bound to the code: the harness evaluates the class's comp method on ALL   *)
(* ordered pairs of a universe of objects and records the table; TLC checks here that each recorded *)
(* table is a consistent order (the laws the property states) and, for the classes whose order is   *)
(* stated, that it IS the reference order of CmpRef.  One JSON line per class:                      *)
(*   {"cls": "str", "kind": "text"|"pair"|"laws", "objs": [obj...], "tbl": [[r..]..]}               *)
(* r = -1/0/1, or 99 when the call did not return normally (crash, watchdog).                       *)
EXTENDS CmpRef, TLC, Json, IOUtils

Tb == ndJsonDeserialize(IOEnv.TRACE)
VARIABLE c
Init == c \in 1 .. Len(Tb)
Next == UNCHANGED c
Spec == Init /\ [][Next]_c

T == Tb[c].tbl
N == Len(Tb[c].objs)
O(i) == Tb[c].objs[i]

Terminates    == \A i, j \in 1 .. N : T[i][j] \in {-1, 0, 1}
Reflexive     == \A i \in 1 .. N : T[i][i] = 0
Antisymmetric == \A i, j \in 1 .. N : T[i][j] = -T[j][i]
Transitive    == \A i, j, k \in 1 .. N : (T[i][j] <= 0 /\ T[j][k] <= 0) => T[i][k] <= 0
NullLeast     == \A i, j \in 1 .. N : (O(i).null /\ ~O(j).null) => (T[i][j] = -1 /\ T[j][i] = 1)
\* STATED order for text / pair kinds
IsReference   == Tb[c].kind \in {"text", "pair"} =>
                     \A i, j \in 1 .. N : T[i][j] = RefCmp(Tb[c].kind, O(i), O(j))
\* a pair compared with a bare key object orders as its key does (recorded as extra rows "keyrows")
PairVsKey     == Tb[c].kind = "pair" =>
                     \A r \in 1 .. Len(Tb[c].keyrows) :
                        LET e == Tb[c].keyrows[r] IN e.r = LexCmp(O(e.i).k, e.key)
================================================================================
