------------------------------ MODULE MC_Ownership ------------------------------
EXTENDS Ownership
ObsEmit(op, args, ret, post) ==
    PrintT(ToJson([pre |-> Pre, op |-> op, args |-> args, ret |-> ret, post |-> post]))
\* value tables: handles carrying EQUAL values (identity vs equality); value 0 is the EMPTY text (an object that is "" yet owns a buffer)
Val2 == <<0, 1>>
Val3 == <<0, 0, 1>>
Val4 == <<0, 0, 1, 1>>
ObsNone(op, args, ret, post) == TRUE
================================================================================
