SPECIFICATION Spec
CONSTANTS
  RawSyms <- RawSymsQuick
  RawMax = 2
  NumVals <- NumValsQuick
  MaxNums = 1
  SuffixWords <- Words8
  SuffixNums <- SufNums
  TransMax = 1
  MaxClaimedRun = 127
  Obs <- ObsEmit
INVARIANTS Reflexive Antisymmetric StatedOrder
CHECK_DEADLOCK FALSE
