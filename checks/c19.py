"""C19: local sockets carry bytes intact under short I/O and never leak descriptors (SockXfer.tla, SockLife.tla)."""
import os, re, json, random
from vlib import build, objcheck
from vlib.core import tok, untok, Broken, log
from vlib.graph import Graph
from vlib.tlc import run_tlc
from vlib.replay import run_scripts

PROPERTY = "C19"
LEVEL = "fault_enumeration"
LEVEL_TEXT = ("Two mechanism-level TLA+ models. SockXfer: the send loop and the descriptor-reader loop, one action per system call; TLC "
              "enumerates EVERY schedule of {complete, short(1|half|all-1), EINTR, EAGAIN} over the first k write calls and {complete, "
              "short, EINTR} over the first k read calls (k=2 quick, 3 thorough) for payload lengths {1,62,4095,4096,4097,8192,16385,20000} "
              "and both ways of ending the read (EOF, EAGAIN), checks CursorInsideBuffer, SizeNeverShrinksBelowData, CursorTracksData, "
              "EofEndsLoop, received = sent, and emits each schedule with its predicted outcome; every schedule is then injected (link-time "
              "interposed read/write/select) into a real transfer over a UNIX-domain socket pair made through spif_socket_new_from_urls "
              "(ASan build), comparing bytes received (payload cycles 1..255), return values, calls consumed and the /proc/self/fd census. "
              "SockLife: descriptor ownership of listener/client/accepted/copy objects under open (fail at socket/bind/listen/connect), "
              "accept (ok/EINTR/refused), send (ok/EPIPE/ECONNRESET/kernel refusals), recv, close (ok/EINTR), dup, delete in any order; TLC "
              "checks FdFieldValidOrMinus1, OneOwnerPerDescriptor, NoOrphanDescriptor, AllDeleted=>AllClosed and every generated transition "
              "is executed on real objects with the descriptor census compared after every step.")
LEVEL_NOTE = ("Schedules are bounded to the first k calls of each side; the sender has finished before the receiver starts (single-threaded "
              "driver). Lifecycle scope: one object per role plus one copy, 4-5 descriptors, 3-4 sockets, 1 message in flight per direction; "
              "open is offered on fresh, closed and failed-open objects and again on open ones (retry after a failure at socket/bind/listen/connect); injected failures replace the system call. The as-built loops are "
              "kept as a second mechanism (cfg *_asbuilt*) only to show that TLC refutes them by itself. Byte VALUES are not enumerated by "
              "TLC (counts are); value integrity is checked by the driver's position-dependent payload.")
TECHNIQUE = "TLA+ mechanism specs + TLC exhaustive schedule/transition enumeration replayed on the implementation by link-time fault injection"
DESIGN_REF = "DESIGN.md section 6 C19"

from vlib.core import NCPU
from vlib.replay import ASAN_OPTS
J = max(2, min(NCPU, 8))      # VERIF_JOBS
RECYCLE_ASAN = ASAN_OPTS.replace("max_malloc_fill_size=4096", "max_malloc_fill_size=0") + ":quarantine_size_mb=0:thread_local_quarantine_size_kb=0"
WRAPS = "read write accept socket bind connect listen close dup select getprotobyname getservbyname".split()
os.environ.setdefault("JAVA_TOOL_OPTIONS", "-XX:ParallelGCThreads=4")
ASBUILT_XFER = [("SockXfer_asbuilt_send.cfg", "SendCompleteMeansAll"), ("SockXfer_asbuilt_recv_cursor.cfg", "CursorInsideBuffer"),
                ("SockXfer_asbuilt_recv_eintr.cfg", "CursorTracksData"), ("SockXfer_asbuilt_recv_spin.cfg", "EofEndsLoop")]
LIFE_OPS = {"new", "open", "accept", "send", "recv", "close", "dup", "del"}


def harness(ctx):
    libdir, cflags = build.build_lib(ctx.repo)
    return build.build_harness("sock_replay", ["sock_replay.c"], libdir, cflags,
                               ldflags=["-Wl," + ",".join("--wrap=" + w for w in WRAPS)])


# ---------------------------------------------------------------------------------------------- transfer schedules
def sched_class(b):
    """Coarse class of a schedule: payload size class, end-of-data mode, the fault kinds it contains (both sides)."""
    w = {"w-" + k for k, n in b["w"] if k != "ok"}
    r = {"r-" + k for k, n in b["r"] if k not in ("ok", "end")}
    sz = "len<=4096" if b["len"] <= 4096 else "len>4096"
    return "%s,%s,faults={%s}" % (sz, b["mode"], "+".join(sorted(w | r)))


def fields_diff(exp, got):
    try:
        e, g = untok(exp), untok(got)
        return "+".join(k for k in sorted(e) if e.get(k) != g.get(k)) or "?"
    except Exception:
        return "?"


def asbuilt_demo(ctx, module, cfgs):
    """The as-built mechanisms must be refuted by TLC itself (demonstration, not an oracle)."""
    out = []
    for cfg, inv in cfgs:
        res = run_tlc(module, cfg, ctx.rundir, timeout=900, workers=2, heap="2g", coverage=False)
        found = bool(res.violation) and ("Invariant %s is violated" % inv) in res.violation
        out.append({"cfg": cfg, "invariant": inv, "counterexample_found_by_tlc": found})
        if not found:
            raise Broken("as-built mechanism %s: TLC did not refute %s (the mechanism model lost its teeth): %s" % (
                cfg, inv, (res.violation or "no error")[:300]))
    ctx.cov.setdefault("asbuilt_mechanisms_refuted_by_tlc", []).extend(out)


def hifd_possible(ctx):
    """The descriptor-threshold prelude needs > 1100 descriptors."""
    import resource
    soft, hard = resource.getrlimit(resource.RLIMIT_NOFILE)
    if hard != resource.RLIM_INFINITY and hard < 1200:
        ctx.notes.append("descriptor-threshold runs skipped: RLIMIT_NOFILE hard limit %d < 1200" % hard)
        return False
    return True


_BEH = {}      # cfg -> (behaviours, TLC result) of this run


def xfer(ctx, exe, cfg, tag, cyc=False, env=None, sample=None):
    """One TLC run of SockXfer (free choice of the first k outcomes, or cyclic patterns over the whole transfer when cyc) and
    the replay of every emitted behaviour.  sample=n: replay only n seeded-randomly chosen behaviours (used for the re-run of
    the schedules under the descriptor-threshold prelude)."""
    if cfg in _BEH:
        beh, res = _BEH[cfg]
    else:
        beh = []
        res = run_tlc("MC_SockXfer.tla", cfg, ctx.rundir, on_edge=beh.append, timeout=1800, workers=J, heap="6g", coverage=False)
        _BEH[cfg] = (beh, res)
    if sample is None:
        ctx.add("states", res.distinct)
        ctx.add("transitions", res.generated)
        ctx.cov.setdefault("tlc_runs", []).append({"module": "MC_SockXfer.tla", "cfg": cfg, "distinct_states": res.distinct,
                                                   "states_generated": res.generated, "depth": res.depth,
                                                   "behaviours_emitted": len(beh), "wall_s": round(res.wall, 1)})
    if not res.ok:
        ctx.report("spec:%s" % cfg, "TLC reports a violated property of the repaired transfer mechanism: %s" % (res.violation or "")[:600],
                   {"tlc": res.violation, "cfg": cfg})
    if not beh:
        raise Broken("no behaviour emitted by %s" % cfg)
    wk, rk = ("wp", "rp") if cyc else ("w", "r")
    # vacuity: every outcome kind must occur in some schedule
    kinds_w = {k for b in beh for k, n in b[wk]}
    kinds_r = {k for b in beh for k, n in b[rk]}
    if not {"ok", "sh", "ei", "ea"} <= kinds_w or not {"ok", "sh", "ei"} <= kinds_r or (tag == "xfer" and "end" not in kinds_r):
        raise Broken("vacuity: outcome kinds missing from the emitted schedules: w=%s r=%s" % (kinds_w, kinds_r))
    if cyc and max(b["retries"] for b in beh) < 150:
        raise Broken("vacuity: no long transfer with more than 150 interrupted writes was generated")
    if cyc and max(b["rcalls"] for b in beh) < 300:
        raise Broken("vacuity: no long transfer with more than 300 read calls was generated")
    seen = set()
    texts, meta = [], []
    for b in beh:
        key = (b["len"], b["mode"], tok(b[wk]), tok(b[rk]), b["plen"])
        if key in seen:
            continue
        seen.add(key)
        meta.append(b)
    rnd = random.Random(ctx.seed)
    if sample is not None and len(meta) > sample:
        meta = rnd.sample(meta, sample)
    for b in meta:
        sid = len(texts) + 1
        st = {"data": True, "len": b["rlen"], "name": b["name"], "open": 0, "send": b["send"]}
        ret = {"rc": b["rcalls"] if cyc else len(b["r"]), "rcalls": b["rcalls"], "retries": b["retries"],
               "wc": b["wcalls"] if cyc else len(b["w"]), "wcalls": b["wcalls"]}
        texts.append("S %d\nxfer %d %s %s %s %d%s = %s %s\nE\n" % (sid, b["len"], b["mode"], tok(b[wk]), tok(b[rk]), b["plen"],
                                                                " cyc" if cyc else "", tok(ret), tok(st)))
    order = list(range(len(texts)))
    rnd.shuffle(order)                      # mix cheap and expensive schedules over the worker processes
    # batches, so that a tree on which (nearly) every transfer dies is reported within the time budget
    fails, ns, nt, hard = [], 0, 0, 0
    BATCH, HARD_LIMIT = 1500, 80
    renv = {"VH_WATCHDOG": "30" if cyc else "10"}
    renv.update(env or {})
    for c0 in range(0, len(order), BATCH):
        f_, _, ns_, nt_ = run_scripts(exe, [], [texts[i] for i in order[c0:c0 + BATCH]], ctx.rundir, jobs=J, tag="%s%d" % (tag, c0), env=renv)
        fails += f_
        ns += ns_
        nt += nt_
        hard += sum(1 for f in f_ if f.kind in ("crash", "hang", "exit"))
        if hard >= HARD_LIMIT and c0 + BATCH < len(order):
            ctx.notes.append("%s replay stopped after %d of %d schedules: %d of them killed or hung the process" % (tag, ns, len(order), hard))
            break
    ctx.add("evaluations", nt)
    ctx.add("schedules_replayed", ns)
    nontrivial = sum(1 for b in meta if any(k != "ok" for k, n in b[wk]) or any(k not in ("ok", "end") for k, n in b[rk]))
    ctx.add("distinct_nontrivial", nontrivial)
    failed_sids = set()
    keys_seen, unlisted = set(), 0
    for f in sorted(fails, key=lambda f: (f.kind not in ("ret", "crash", "hang"), f.sid)):
        b = meta[f.sid - 1]
        failed_sids.add(f.sid)
        if f.kind in ("state", "ret"):
            d = fields_diff(f.exp, f.got)
        elif f.kind == "inv":
            d = re.sub(r"\d+", "N", f.got)
        else:
            d = f.sig
        cls = sched_class(dict(b, w=b[wk], r=b[rk])) + (",cyclic" if cyc else "") + (",path=%d" % b["plen"] if b["plen"] else "")
        key = ("%s %s/%s" % (tag, f.kind, d)) if f.kind in ("crash", "hang", "exit") else "%s [%s] %s/%s" % (tag, cls, f.kind, d)
        if key not in keys_seen and len(keys_seen) >= 40:
            unlisted += 1                   # enough distinct classes listed; the rest is counted
            continue
        keys_seen.add(key)
        ctx.report(key, "transfer of %d bytes, mode %s, write %s %s, read %s %s: %s exp=%s got=%s %s" % (
            b["len"], b["mode"], "pattern" if cyc else "schedule", tok(b[wk]), "pattern" if cyc else "schedule", tok(b[rk]),
            f.kind, f.exp, f.got, f.sig),
            {"harness_args": [], "script_text": texts[f.sid - 1], "failure": repr(f), "detail": f.detail, "env": renv})
    if unlisted:
        ctx.notes.append("%d further failing %s observations in classes beyond the 40 listed" % (unlisted, tag))
    ctx.cov[tag] = {"schedules": len(texts), "nontrivial": nontrivial, "failed": len(failed_sids)}
    for b in rnd.sample(meta, min(2, len(meta))):
        ctx.sample({"family": tag, "len": b["len"], "mode": b["mode"], "path_length": b["plen"], "write": b[wk], "read": b[rk],
                    "predicted": {"wcalls": b["wcalls"], "rcalls": b["rcalls"], "retries": b["retries"], "received": b["rlen"]}})


# ---------------------------------------------------------------------------------------------- lifecycle
def life_keyfn(variant, e, f):
    d = ""
    if f.kind == "inv":
        d = re.sub(r"\d+", "N", f.got)
    elif f.kind == "state":
        try:
            eo, go = untok(f.exp)["o"], untok(f.got)["o"]
            d = "+".join(k for k in sorted(eo) if eo[k] != go.get(k))
        except Exception:
            d = "?"
    elif f.kind in ("crash", "hang", "exit"):
        d = f.sig
    op = e["op"] if e else f.op
    args = ",".join(str(a) for a in e["args"]) if e else "-"
    return "%s.%s(%s) %s%s" % (variant, op, args, f.kind, ("/" + d) if d else "")


def life_graph(ctx, cfg, need):
    g = Graph()
    per_op = {}
    init = []

    def on_edge(e):
        k = e["op"] + ":" + ",".join(str(a) for a in e["args"][-1:]) if e["op"] in ("open", "accept", "send", "close", "dup") else e["op"]
        per_op[k] = per_op.get(k, 0) + 1
        if not init and not any(e["pre"]["o"]["ex"]):
            init.append(tok(e["pre"]))
        g.add(e)
    res = run_tlc("MC_SockLife.tla", cfg, ctx.rundir, on_edge=on_edge, timeout=1800, workers=J, heap="6g", coverage=False)
    ctx.add("states", res.distinct)
    ctx.add("transitions", res.generated)
    ctx.add("edges_emitted", res.edges)
    ctx.cov.setdefault("tlc_runs", []).append({"module": "MC_SockLife.tla", "cfg": cfg, "distinct_states": res.distinct,
                                               "states_generated": res.generated, "depth": res.depth, "edges_emitted": res.edges,
                                               "distinct_edges": g.n_edges(), "wall_s": round(res.wall, 1),
                                               "actions_taken": dict(sorted(per_op.items()))})
    if not res.ok:
        ctx.report("spec:%s" % cfg, "TLC reports a violated property of the repaired lifecycle mechanism: %s" % (res.violation or "")[:600],
                   {"tlc": res.violation, "cfg": cfg})
    missing = sorted(set(need) - set(per_op))
    if missing:
        raise Broken("vacuity: lifecycle actions/outcomes never taken in %s: %s" % (cfg, missing))
    if not init:
        raise Broken("no initial state seen in %s" % cfg)
    return g, init[0]


def life(ctx, exe):
    q = ctx.tier == "quick"
    hifd = hifd_possible(ctx)
    # 1. the full fault alphabet (mode dimension off: recv is the driver's set_nbio ; recv ; clear_nbio)
    need = {"new", "recvt", "dup:ok", "dup:fail", "del", "open:ok", "open:socket", "open:bind", "open:listen", "open:connect",
            "open:nolistener", "open:unbound", "open:isconn", "accept:ok", "accept:eagain", "accept:dupfail", "accept:eintr",
            "accept:bad", "send:ok", "send:epipe", "send:reset", "send:badfd", "send:notconn", "send:peerdead", "close:ok", "close:eintr"}
    g, init = life_graph(ctx, "SockLife_quick.cfg" if q else "SockLife_thorough.cfg", need)
    objcheck.replay_cover(ctx, g, [init], exe, "life", [], life_keyfn, walks=(200, 40) if q else (2000, 60), jobs=J,
                          env={"VH_WATCHDOG": "10"})
    ctx.add("distinct_nontrivial", ctx.cov["replay"]["life"]["scripts"])   # every lifecycle script opens/closes an object or is refused
    # resource threshold: the same transitions with the process holding > 1000 descriptors, so that what the library opens
    # lands at FD_SETSIZE (1024) or above; k = number of slots left free below 1024 (they are taken first)
    if hifd:
        for k in [0]:
            v = "life-hifd%d" % k
            objcheck.replay_cover(ctx, g, [init], exe, v, [], life_keyfn, walks=(100, 40) if q else (500, 60),
                                  jobs=J, env={"VH_WATCHDOG": "20", "VH_HIFD": str(k)}, max_levels=7 if q else 9)
            ctx.add("distinct_nontrivial", ctx.cov["replay"][v]["scripts"])
    del g
    # 2. the mode dimension: the object's NBIO flag beside the descriptor's real O_NONBLOCK mode, set_nbio / clear_nbio on every
    #    object and copy in any order, accept inheriting the listener's flag, dup() failing; fcntl(F_GETFL) compared after every step
    need2 = {"new", "recv", "set_nbio", "clear_nbio", "dup:ok", "dup:fail", "del", "open:ok", "open:isconn", "accept:ok", "accept:eagain",
             "accept:dupfail", "close:ok"}
    g2, init2 = life_graph(ctx, "SockLife_mode_quick.cfg" if q else "SockLife_mode_thorough.cfg", need2)
    objcheck.replay_cover(ctx, g2, [init2], exe, "mode", [], life_keyfn, walks=(300, 40) if q else (3000, 60), jobs=J,
                          env={"VH_WATCHDOG": "10"})
    ctx.add("distinct_nontrivial", ctx.cov["replay"]["mode"]["scripts"])
    if hifd:
        objcheck.replay_cover(ctx, g2, [init2], exe, "mode-hifd0", [], life_keyfn, walks=(100, 40) if q else (500, 60),
                              jobs=J, env={"VH_WATCHDOG": "20", "VH_HIFD": "0"}, max_levels=7 if q else 9)
        ctx.add("distinct_nontrivial", ctx.cov["replay"]["mode-hifd0"]["scripts"])


def run(ctx):
    exe = harness(ctx)
    asbuilt_demo(ctx, "MC_SockXfer.tla", ASBUILT_XFER)
    asbuilt_demo(ctx, "MC_SockLife.tla", [("SockLife_asbuilt.cfg", "NoOrphanDescriptor")])
    q = ctx.tier == "quick"
    xfer(ctx, exe, "SockXfer_quick.cfg" if q else "SockXfer_thorough.cfg", "xfer")
    xfer(ctx, exe, "SockXfer_long_quick.cfg" if q else "SockXfer_long_thorough.cfg", "xfer-long", cyc=True)
    # the environment as input: socket paths across what sun_path holds, with a dirtied heap behind the addresses; the second
    # run lets the allocator hand recycled blocks straight back (no quarantine, no fill) so that stale bytes differ per address
    xfer(ctx, exe, "SockXfer_path.cfg", "xfer-path")
    xfer(ctx, exe, "SockXfer_path.cfg", "xfer-path-recycled", env={"ASAN_OPTIONS": RECYCLE_ASAN}, sample=280 if q else 840)
    if hifd_possible(ctx):
        xfer(ctx, exe, "SockXfer_quick.cfg", "xfer-hifd3", env={"VH_HIFD": "3"}, sample=400 if q else 4000)
        xfer(ctx, exe, "SockXfer_quick.cfg", "xfer-hifd0", env={"VH_HIFD": "0"}, sample=200 if q else 2000)
    life(ctx, exe)
    ctx.cov["exhaustive"] = True
    ctx.cov["rule"] = ("transfer: every schedule TLC generates (all outcome sequences over the first k write and read calls x 8 payload "
                       "lengths x 2 end-of-data modes) is injected into one real transfer; lifecycle: every transition TLC generates in "
                       "the bounded scope is executed once as the last step of a script whose prefix consists of verified transitions, "
                       "plus random walks; descriptor census and heap balance per script")
    ctx.assumptions += ["failures are injected by link-time interposition (the interposed call fails without reaching the kernel)",
                        "UNIX-domain stream sockets on a private path under the run directory; Linux /proc/self/fd census",
                        "ASan build of the current tree (clang -O1)", "SIGPIPE ignored by the driver"]


def replay(ctx, path):
    d = json.load(open(path))
    rp = d.get("replay") or {}
    env = {"VH_WATCHDOG": "30"}
    env.update(rp.get("env") or {})
    m = re.match(r"(?:life|mode)-hifd(\d+)$", str(rp.get("variant", "")))
    if m:
        env["VH_HIFD"] = m.group(1)
    return objcheck.replay_file(harness(ctx), [], path, ctx.rundir, env=env)
