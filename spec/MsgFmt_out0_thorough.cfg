SPECIFICATION Spec
CONSTANTS
  Names <- NamesOne
  Vers = {}
  Msgs <- MsgsQuick
  MacroMsgs <- MacroMsgsQuick
  Levels <- LevelsThorough
  Clocks <- ClocksQuick
  Sites <- SitesQuick
  Macros <- MacrosAll
  D = 0
  Extras = TRUE
  AsBuilt = FALSE
  Obs <- ObsEmit
INVARIANTS TypeOK OwnershipSound NoLeak NoNullDeref NoUseAfterFree NoRecursion SetIdempotent SilentWritesNothing PrefixLaw GateLaw ControlLaw FormatLaws MacroFormats
CHECK_DEADLOCK FALSE
