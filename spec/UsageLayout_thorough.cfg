SPECIFICATION Spec
CONSTANTS
  LongLens = {1, 6}
  DescLens = {0, 5}
  TypeBits = {1, 2176}
  MaxOpts = 3
  Names <- NamesThorough
  Obs <- ObsEmit
CHECK_DEADLOCK FALSE
