#!/usr/bin/env python3
"""Regenerates MANIFEST.json from the check modules (checks/cNN.py) and tools/manifest_static.json."""
import json, os, sys, importlib, glob
V = os.path.dirname(os.path.dirname(os.path.abspath(__file__)))
sys.path.insert(0, V)
static = json.load(open(os.path.join(V, "tools", "manifest_static.json")))
props = [json.loads(l)["id"] for l in open(os.path.join(V, "properties.jsonl"))]
checks, na = [], []
for pid in props:
    path = os.path.join(V, "checks", pid.lower() + ".py")
    if not os.path.exists(path) or pid not in static.get("ready", []):
        na.append({"property_id": pid, "reason": static["pending"].get(pid, "check not built yet (see DESIGN.md section 11 for the order of work)")})
        continue
    m = importlib.import_module("checks." + pid.lower())
    if getattr(m, "NOT_APPLICABLE", None):
        na.append({"property_id": pid, "reason": m.NOT_APPLICABLE})
        continue
    checks.append({
        "property_id": pid,
        "quick_cmd": "./vcheck %s quick" % pid,
        "thorough_cmd": "./vcheck %s thorough" % pid,
        "evidence_file": "/verif/evidence/%s.json" % pid,
        "replay_cmd_template": "./vcheck %s --replay {path}" % pid,
        "engine": "tlc+replay",
        "level_claimed": {"category": m.LEVEL, "text": m.LEVEL_TEXT, "design_ref": getattr(m, "DESIGN_REF", "DESIGN.md section 6")},
        "level_note": m.LEVEL_NOTE,
        "technique": m.TECHNIQUE,
    })
man = dict(static["head"])
man["checks"] = checks
man["not_applicable"] = na
json.dump(man, open(os.path.join(V, "MANIFEST.json"), "w"), indent=1)
print("MANIFEST.json: %d checks, %d not_applicable" % (len(checks), len(na)))
