SPECIFICATION Spec
CONSTANTS
  Names <- NamesLife
  Vers <- VersQuick
  Msgs <- MsgsOne
  MacroMsgs <- MacroMsgsQuick
  Levels <- LevelsTwo
  Clocks <- ClocksQuick
  Sites <- SitesOne
  Macros <- MacrosNone
  D = 4
  Extras = TRUE
  AsBuilt = TRUE
  Obs <- ObsNone
INVARIANTS NoLeak
CHECK_DEADLOCK FALSE
