----------------------------- MODULE ConfLifeTrace -----------------------------
(* Direction B for C11 ("safety mode"): event streams recorded by harness/conf_replay.c (built with          *)
(* CONF_WRAP: process creation logged and refused, temp files observed) are validated against ConfLife.      *)
(* One JSON object per line of the file named by env TRACE:                                                  *)
(*   {op:"reset"}                                   a new execution (script) starts                          *)
(*   {op:"init"|"regbi", snap}   {op:"regctx", isnull, snap}                                                 *)
(*   {op:"parse"|"expand", t:{bq,ex,pp}, o:{ns,tm:[{mode,fresh}],dv,d,fds}, snap}                            *)
(*   {op:"temp", tf:{mode,fresh}}    {op:"free", heap, snap}    {op:"rename", p}  {op:"rmcwd"}  {op:"backcwd"}          *)
(* An event is accepted iff the corresponding action of ConfLife is enabled and leads to the recorded        *)
(* snapshot of the private indices/capacities.  A rejected event is remembered and the rest of its           *)
(* execution skipped, so that one run judges every execution; the verdict is printed at the end.             *)
EXTENDS ConfLife, IOUtils, Json
VARIABLES l, rej
Tr == ndJsonDeserialize(IOEnv.TRACE)
ev == Tr[l]

ObsTrace(op, args, ret, post) ==
    CASE op = "free" -> post.nvars = ev.snap.nvars /\ post.tables = ev.snap.tables    \* the freed tables' stale counters are not state
      [] op \in {"temp", "rename", "rmcwd", "backcwd"} -> TRUE
      [] OTHER       -> post = ev.snap

Reset == /\ inited' = FALSE
         /\ c_idx' = 0 /\ c_cnt' = 0 /\ cs_idx' = 0 /\ cs_cnt' = 0 /\ f_idx' = 0 /\ f_cnt' = 0 /\ b_idx' = 0 /\ b_cnt' = 0 /\ zeroTo' = 0
         /\ nvars' = 0 /\ vhead' = "null" /\ ntemps' = 0
         /\ cwdok' = TRUE /\ UNCHANGED prog                      \* the harness goes back to its private directory between scripts
Accept ==
    \/ ev.op = "reset" /\ Reset
    \/ ev.op = "init" /\ OpInit
    \/ ev.op = "regctx" /\ OpRegisterContext(ev.isnull)
    \/ ev.op = "regbi" /\ OpRegisterBuiltin
    \/ ev.op = "parse" /\ OpParse(ev.t, ev.o)
    \/ ev.op = "expand" /\ OpExpand(ev.t, ev.o)
    \/ ev.op = "temp" /\ OpTempFile(ev.tf)
    \/ ev.op = "free" /\ OpFree(ev.heap)
    \/ ev.op = "rename" /\ OpRename(ev.p)
    \/ ev.op = "rmcwd" /\ OpRemoveCwd
    \/ ev.op = "backcwd" /\ OpRestoreCwd
LaterResets == {k \in (l + 1) .. Len(Tr) : Tr[k].op = "reset"}
NextReset == IF LaterResets = {} THEN Len(Tr) + 1 ELSE CHOOSE k \in LaterResets : \A j \in LaterResets : k <= j

TraceInit == Init /\ l = 1 /\ rej = <<>>
TraceStep ==
    \/ l <= Len(Tr) /\ Accept /\ l' = l + 1 /\ rej' = rej
    \/ l <= Len(Tr) /\ ~ENABLED Accept /\ Reset /\ l' = NextReset /\ rej' = Append(rej, l)
    \/ l = Len(Tr) + 1 /\ PrintT(<<"TRACE_VERDICT", ToJson(rej)>>) /\ l' = l + 1 /\ UNCHANGED <<vars, rej>>
TraceSpec == TraceInit /\ [][TraceStep]_<<vars, l, rej>>
================================================================================
