-------------------------------- MODULE Expand --------------------------------
(* C10: config value expansion (spifconf_shell_expand) as a pure function of the input text, the   *)
(* environment and the %put/%get variable store.                                                     *)
(*                                                                                                   *)
(* A character-level scanner, one action per construct.  State:                                      *)
(*   store  - the user variable store: sequence of <<key, value>> ascending by key (as conf.c keeps) *)
(*   store0 - the store at the start of the running expansion (pre-state of the emitted edge)        *)
(*   phase  - "idle" (between expansions) | "scan"                                                   *)
(*   envid  - the environment of the running expansion                                               *)
(*   reg    - lifecycle state: the built-ins the application has registered between expansions           *)
(*   stack  - frames; the last one is being scanned.  Frame 1 is the text given by the caller, each  *)
(*            further frame is the argument of a %name( ... ) call, expanded innermost first.        *)
(*            frame = [txt, pos (characters consumed), outs (SET of acceptable outputs so far;       *)
(*            a singleton unless an AllowEither point was passed), sq, dq (inside '..' / ".."),      *)
(*            fn (built-in to apply when the frame is finished, "top" for frame 1),                  *)
(*            hi (highest 1-based index examined so far; Len+1 = the terminator), trunc]             *)
(* Texts are sequences of character codes, never containing 0.                                       *)
(*                                                                                                   *)
(* Rule kinds (DESIGN.md 3 / 8a):  S stated, C as-built convention (strict), E AllowEither,          *)
(* X functional result not claimed (the edge is emitted with claimed = FALSE: the implementation is  *)
(* still executed for memory safety, termination, boundedness and purity).                           *)
EXTENDS Integers, Sequences, FiniteSets, TLC, Json

CONSTANTS Starts(_, _),   \* (store, registered built-ins) -> set of <<env id, text>> offered to OpStart (model bound only)
          RegOffer,       \* sequence of [name, kind]: application built-ins the program may register, in this order (model bound)
          EnvGet(_, _),   \* (env id, name) -> value of the environment variable; <<>> when unset or empty
          Limit,          \* longest result (CONFIG_BUFF - 1)
          NameMax,        \* longest $-name (127)
          DirGet(_, _),   \* (env id, path) -> what the file system holds at path: [known, isdir, ents] with ents a sequence of
                          \* [name, kind]; kind is what the entry IS: "file", "dir", "link-to-file", "link-to-dir",
                          \* "dangling-link", "fifo"  (the file system is part of the environment of %dirscan)
          AppName(_), AppVersion(_),   \* env id -> program name / version (libast_set_program_name/version: part of the
                                       \* environment of the built-ins, like the variables)
          Obs(_, _, _, _) \* observation hook (op, args, ret, post)

VARIABLES store, store0, phase, envid, stack,
          reg      \* application built-ins registered so far (spifconf_register_builtin), in table order: [name, kind]
vars == <<store, store0, phase, envid, stack, reg>>

------------------------------------------------------------------------------------------
(* characters *)
TILDE == 126  BSL == 92  PCT == 37  BQ == 96  DOLLAR == 36  DQ == 34  SQ == 39
LBRACE == 123 RBRACE == 125 LPAR == 40 RPAR == 41 SPC == 32 DASH == 45
Special == {TILDE, BSL, PCT, BQ, DOLLAR, DQ, SQ}
Blank   == {9, 10, 11, 12, 13, 32}                       \* isspace() in the C locale
Lower(c) == IF c \in 65 .. 90 THEN c + 32 ELSE c
NameChar(c) == c \in (48 .. 57) \cup (65 .. 90) \cup (97 .. 122) \cup {95}     \* C: bare $-names are [A-Za-z0-9_]*
\* S: backslash escapes become their control characters; C: upper case like lower case, any other character itself
EscMap(d) == LET c == Lower(d) IN
             CASE c = 110 -> 10 [] c = 114 -> 13 [] c = 116 -> 9 [] c = 98 -> 8 [] c = 102 -> 12
               [] c = 97 -> 7 [] c = 118 -> 11 [] c = 101 -> 27 [] OTHER -> d
NmGet == <<103, 101, 116>>  NmPut == <<112, 117, 116>>  NmVersion == <<118, 101, 114, 115, 105, 111, 110>>
NmAppname == <<97, 112, 112, 110, 97, 109, 101>>  NmRandom == <<114, 97, 110, 100, 111, 109>>
NmExec == <<101, 120, 101, 99>>  NmDirscan == <<100, 105, 114, 115, 99, 97, 110>>
NmHome == <<72, 79, 77, 69>>
Claimed == [get |-> NmGet, put |-> NmPut, version |-> NmVersion, appname |-> NmAppname, random |-> NmRandom, dirscan |-> NmDirscan]
FnNames == DOMAIN Claimed

SetMin(S) == CHOOSE x \in S : \A y \in S : x <= y
Min2(a, b) == IF a < b THEN a ELSE b
Max2(a, b) == IF a > b THEN a ELSE b

------------------------------------------------------------------------------------------
(* reference operators on texts *)
\* name nm (lower case) written in any case at t[i..], followed by "("
NameAt(t, i, nm) == /\ i + Len(nm) <= Len(t)
                    /\ \A k \in 1 .. Len(nm) : Lower(t[i + k - 1]) = nm[k]
                    /\ t[i + Len(nm)] = LPAR
\* the same followed by " )" (as-built alternative call syntax; X)
NameAtOdd(t, i, nm) == /\ i + Len(nm) + 1 <= Len(t)
                       /\ \A k \in 1 .. Len(nm) : Lower(t[i + k - 1]) = nm[k]
                       /\ t[i + Len(nm)] = SPC /\ t[i + Len(nm) + 1] = RPAR
\* texts that could spawn a process are not part of C10 (they belong to C11)
Excluded(t) == \E i \in 1 .. Len(t) :
                  \/ t[i] = BQ
                  \/ t[i] = PCT /\ \E nm \in {NmExec} : NameAt(t, i + 1, nm) \/ NameAtOdd(t, i + 1, nm)
\* index of the ")" matching an already open "(" when scanning from i; 0 if there is none.
\* C: the argument of a call extends to the matching parenthesis; quotes and backslashes do not hide parentheses.
\* (Stated without recursion - TLC's recursion costs time quadratic in the depth, and arguments can be 20 000 characters
\* long: the closing parenthesis is the first one at which the ")" seen so far outnumber the "(" by one.)
BalAt(P, R, k) == Cardinality({j \in R : j <= k}) - Cardinality({j \in P \ R : j <= k})
MatchIn(P, R) == LET C == {k \in R : BalAt(P, R, k) = 1} IN IF C = {} THEN 0 ELSE SetMin(C)
MatchWin(t, i, w) == MatchIn({k \in i .. Min2(Len(t), i + w) : t[k] = LPAR \/ t[k] = RPAR}, {k \in i .. Min2(Len(t), i + w) : t[k] = RPAR})
FirstNonZero(a, b) == IF a # 0 THEN a ELSE b          \* b is only evaluated when needed
\* the balance at k depends only on the parentheses up to k, so a match found in a short window is THE match
ParenMatch(t, i) == FirstNonZero(MatchWin(t, i, 40), FirstNonZero(MatchWin(t, i, 320), FirstNonZero(MatchWin(t, i, 2560), MatchWin(t, i, Len(t)))))
\* first index k in i .. i+NameMax with t[k] = c, 0 if none  (C: names are at most NameMax characters)
FindDelim(t, i, c) == LET ks == {k \in i .. Min2(Len(t), i + NameMax) : t[k] = c} IN IF ks = {} THEN 0 ELSE SetMin(ks)
\* number of name characters starting at i (capped at NameMax)
BareLen(t, i) == LET last == Min2(Len(t), i + NameMax - 1)
                     bad  == {k \in i .. last : ~NameChar(t[k])}
                 IN IF bad = {} THEN last - i + 1 ELSE SetMin(bad) - i
\* blank-separated words of a text without quotes and backslashes (the word grammar proper is C12's)
Splittable(t) == \A i \in 1 .. Len(t) : t[i] \notin {SQ, DQ, BSL}
\* (no recursion: arguments can be as long as the line limit)
Words(t) == LET n == Len(t)
                starts == {i \in 1 .. n : t[i] \notin Blank /\ (i = 1 \/ t[i - 1] \in Blank)}
                ends   == {i \in 1 .. n : t[i] \notin Blank /\ (i = n \/ t[i + 1] \in Blank)}
                Kth(S, k) == CHOOSE x \in S : Cardinality({y \in S : y < x}) = k - 1
            IN [k \in 1 .. Cardinality(starts) |-> SubSeq(t, Kth(starts, k), Kth(ends, k))]
AppBuf == 255                                                          \* C: %appname is built in a 256-byte buffer
Cut(s) == IF Len(s) > Limit THEN SubSeq(s, 1, Limit) ELSE s           \* S: never longer than the limit

(* %dirscan(dir): S (round 5): the names of the entries of dir that ARE regular files in the sense of stat() - symbolic links are
   followed, so a link to a regular file is listed and a link to a directory, a dangling link, a fifo or a directory is not;
   C: each name is followed by one blank, dot files are listed; the order is the file system's (E: every order is acceptable).
   Directories with more than 4 listed names are outside the model (X). *)
StatRegular(kind) == kind \in {"file", "link-to-file"}
RegularIn(ents) == {i \in 1 .. Len(ents) : StatRegular(ents[i].kind)}
Orders(S) == {f \in [1 .. Cardinality(S) -> S] : \A i, j \in 1 .. Cardinality(S) : i # j => f[i] # f[j]}
RECURSIVE Listing(_, _, _, _)
Listing(ents, f, k, n) == IF k > n THEN <<>> ELSE ents[f[k]].name \o <<SPC>> \o Listing(ents, f, k + 1, n)
DirListings(ents) == {Listing(ents, f, 1, Cardinality(RegularIn(ents))) : f \in Orders(RegularIn(ents))}

(* the variable store: ideal finite map kept as an ascending association list *)
RECURSIVE SeqLess(_, _)
SeqLess(a, b) == IF b = <<>> THEN FALSE ELSE IF a = <<>> THEN TRUE
                 ELSE IF a[1] # b[1] THEN a[1] < b[1] ELSE SeqLess(Tail(a), Tail(b))
Lookup(st, k) == LET hit == {i \in 1 .. Len(st) : st[i][1] = k} IN IF hit = {} THEN <<>> ELSE st[CHOOSE i \in hit : TRUE][2]
Has(st, k) == \E i \in 1 .. Len(st) : st[i][1] = k
PutVar(st, k, v) == IF Has(st, k) THEN [i \in 1 .. Len(st) |-> IF st[i][1] = k THEN <<k, v>> ELSE st[i]]
                    ELSE LET n == Cardinality({i \in 1 .. Len(st) : SeqLess(st[i][1], k)})
                         IN SubSeq(st, 1, n) \o << <<k, v>> >> \o SubSeq(st, n + 1, Len(st))
Sorted(st) == \A i \in 1 .. Len(st) - 1 : SeqLess(st[i][1], st[i + 1][1])

------------------------------------------------------------------------------------------
(* frames *)
Frame(t, fn, app) == [txt |-> t, pos |-> 0, outs |-> {<<>>}, sq |-> FALSE, dq |-> FALSE, fn |-> fn, app |-> app, hi |-> 0, trunc |-> FALSE]
Depth == Len(stack)
Top == stack[Depth]
Finished(f) == f.pos = Len(f.txt) \/ \E o \in f.outs : Len(o) >= Limit      \* the scan loop's condition
Scanning == phase = "scan" /\ Depth >= 1 /\ ~Finished(Top)
Cur == Top.txt[Top.pos + 1]
Avail(k) == Top.pos + k <= Len(Top.txt)                  \* the k-th next character exists
Nxt(k) == Top.txt[Top.pos + k]
\* consume n characters, append s to every acceptable output, having examined indices up to h
Adv(f, n, s, h) == [f EXCEPT !.pos = f.pos + n,
                             !.outs = {Cut(o \o s) : o \in f.outs},
                             !.trunc = f.trunc \/ \E o \in f.outs : Len(o) + Len(s) > Limit,
                             !.hi = Max2(f.hi, h)]
SetTop(nf) == stack' = [stack EXCEPT ![Depth] = nf]
Keep == /\ store' = store /\ store0' = store0 /\ phase' = phase /\ envid' = envid /\ reg' = reg

\* X: the functional result of this input is not claimed; the expansion ends here as far as the model is concerned
GiveUp(why) == /\ phase' = "idle" /\ stack' = <<>> /\ store' = store0 /\ store0' = store0 /\ envid' = envid /\ reg' = reg
               /\ Obs("expand", <<envid, stack[1].txt>>, [claimed |-> FALSE, why |-> why, outs |-> {}, trunc |-> FALSE], store0)

------------------------------------------------------------------------------------------
(* actions *)
OpStart(e, t) == /\ phase = "idle" /\ ~Excluded(t)
                 /\ phase' = "scan" /\ envid' = e /\ stack' = <<Frame(t, "top", 0)>> /\ store0' = store /\ store' = store /\ reg' = reg

\* a run of ordinary characters is copied (maximal within a 512-character window, cut at the limit)
OpPlain == /\ Scanning /\ Cur \notin Special
           /\ LET f == Top
                  win  == Min2(Len(f.txt), f.pos + 512)
                  stop == {k \in f.pos + 1 .. win : f.txt[k] \in Special}
                  endx == IF stop = {} THEN win ELSE SetMin(stop) - 1
                  room == Limit - SetMin({Len(o) : o \in f.outs})
                  n == Min2(endx - f.pos, Max2(room, 1))
              IN SetTop(Adv(f, n, SubSeq(f.txt, f.pos + 1, f.pos + n), f.pos + n + 1))
           /\ Keep

\* S: a tilde outside quotes becomes the home directory; C: left alone when HOME is unset or empty
OpTilde == /\ Scanning /\ Cur = TILDE
           /\ LET home == EnvGet(envid, NmHome) IN
              SetTop(Adv(Top, 1, IF ~Top.sq /\ ~Top.dq /\ home # <<>> THEN home ELSE <<TILDE>>, Top.pos + 1))
           /\ Keep

\* S/C: outside single quotes a backslash and the next character become EscMap(next)
OpEscape == /\ Scanning /\ Cur = BSL /\ ~Top.sq /\ Avail(2)
            /\ SetTop(Adv(Top, 2, <<EscMap(Nxt(2))>>, Top.pos + 2)) /\ Keep

\* S: inside single quotes only \' is processed; C: any other pair is copied as it stands
OpEscapeInSingle == /\ Scanning /\ Cur = BSL /\ Top.sq /\ Avail(2)
                    /\ SetTop(Adv(Top, 2, IF Nxt(2) = SQ THEN <<SQ>> ELSE <<BSL, Nxt(2)>>, Top.pos + 2)) /\ Keep

\* E: a backslash that is the last character is dropped or kept (the statement only demands that nothing
\* behind the terminator is read).  Inside a call argument the alternatives are not followed: X.
OpEscapeAtEnd == /\ Scanning /\ Cur = BSL /\ ~Avail(2)
                 /\ IF Depth = 1
                    THEN /\ SetTop([Top EXCEPT !.pos = Top.pos + 1, !.hi = Max2(Top.hi, Top.pos + 2),
                                               !.outs = Top.outs \cup {Cut(Append(o, BSL)) : o \in Top.outs}])
                         /\ Keep
                    ELSE GiveUp("escape-at-end-in-argument")

\* S: inside single quotes tildes and environment references are left alone (tilde: see OpTilde)
OpDollarInSingle == /\ Scanning /\ Cur = DOLLAR /\ Top.sq
                    /\ SetTop(Adv(Top, 1, <<DOLLAR>>, Top.pos + 1)) /\ Keep

\* S: $NAME, ${NAME}, $(NAME) are replaced in place by the value (nothing when unset or empty), delimiters consumed
EnvForm == IF Avail(2) /\ Nxt(2) = LBRACE THEN "brace" ELSE IF Avail(2) /\ Nxt(2) = LPAR THEN "paren" ELSE "bare"
CloseOf(form) == IF form = "brace" THEN RBRACE ELSE RPAR
OpEnvRef(form) ==
    /\ Scanning /\ Cur = DOLLAR /\ ~Top.sq /\ form = EnvForm
    /\ IF form = "bare"
       THEN LET n == BareLen(Top.txt, Top.pos + 2)
                nm == SubSeq(Top.txt, Top.pos + 2, Top.pos + 1 + n)
            IN SetTop(Adv(Top, 1 + n, EnvGet(envid, nm), Top.pos + 2 + n))
       ELSE LET c == FindDelim(Top.txt, Top.pos + 3, CloseOf(form))
                nm == SubSeq(Top.txt, Top.pos + 3, c - 1)
            IN /\ c # 0
               /\ SetTop(Adv(Top, c - Top.pos, EnvGet(envid, nm), c))
    /\ Keep
\* X: ${ or $( without the closing delimiter (within NameMax characters): only safety is claimed
OpEnvRefOpen == /\ Scanning /\ Cur = DOLLAR /\ ~Top.sq /\ EnvForm # "bare"
                /\ FindDelim(Top.txt, Top.pos + 3, CloseOf(EnvForm)) = 0
                /\ GiveUp("unterminated-env-ref")

\* C: quote characters are copied through; " toggles only outside single quotes.
\* X: a single quote inside double quotes (the statement does not say whether that is "inside single quotes")
OpQuote(kind) ==
    /\ Scanning
    /\ \/ /\ kind = "double" /\ Cur = DQ
          /\ SetTop([Adv(Top, 1, <<DQ>>, Top.pos + 1) EXCEPT !.dq = IF Top.sq THEN Top.dq ELSE ~Top.dq]) /\ Keep
       \/ /\ kind = "single" /\ Cur = SQ /\ ~Top.dq
          /\ SetTop([Adv(Top, 1, <<SQ>>, Top.pos + 1) EXCEPT !.sq = ~Top.sq]) /\ Keep
OpSingleInDouble == /\ Scanning /\ Cur = SQ /\ Top.dq /\ GiveUp("single-quote-inside-double")

\* S: %name(args): the argument is expanded first (innermost first), then the built-in is applied (OpReturn)
\* The function table: the core built-ins, then the application's in registration order; the first entry whose name (any
\* case) is followed by "(" is called.  Names are distinct (OpRegister), so at most one entry matches.
AppIdx == IF Scanning /\ Cur = PCT THEN {i \in 1 .. Len(reg) : NameAt(Top.txt, Top.pos + 2, reg[i].name)} ELSE {}
CallName == IF Scanning /\ Cur = PCT /\ \E fn \in FnNames : NameAt(Top.txt, Top.pos + 2, Claimed[fn])
            THEN CHOOSE fn \in FnNames : NameAt(Top.txt, Top.pos + 2, Claimed[fn])
            ELSE IF AppIdx # {} THEN "app" ELSE "none"
CallApp == IF CallName = "app" THEN SetMin(AppIdx) ELSE 0
CallLen == IF CallName = "app" THEN Len(reg[CallApp].name) ELSE Len(Claimed[CallName])      \* only used when CallName # "none"
CallPush(fn, app, open, close) ==            \* open = index of "(", close = index of the matching ")" (passed in: evaluated once)
    /\ close # 0
    /\ stack' = [stack EXCEPT ![Depth] = [Top EXCEPT !.pos = close, !.hi = Max2(Top.hi, close)]]
                 \o <<Frame(SubSeq(Top.txt, open + 1, close - 1), fn, app)>>
OpCall(fn) ==
    /\ Scanning /\ Cur = PCT /\ ~Top.sq /\ fn = CallName /\ fn # "none"
    /\ CallPush(fn, CallApp, Top.pos + 2 + CallLen, ParenMatch(Top.txt, Top.pos + 3 + CallLen))
    /\ Keep
\* X: no matching parenthesis
OpCallOpen == /\ Scanning /\ Cur = PCT /\ ~Top.sq /\ CallName # "none"
              /\ ParenMatch(Top.txt, Top.pos + 3 + CallLen) = 0
              /\ GiveUp("unterminated-call")
\* X: a % that does not start a call of a claimed built-in (unknown name, "name )" syntax, % as last character)
OpUnknownPercent == /\ Scanning /\ Cur = PCT /\ ~Top.sq /\ CallName = "none" /\ GiveUp("unknown-percent")
\* X: % inside single quotes (the statement lists what single quotes protect and does not mention calls)
OpPercentInSingle == /\ Scanning /\ Cur = PCT /\ Top.sq /\ GiveUp("percent-inside-single")

\* result of a built-in on its expanded argument a: [ok, res (set of acceptable results), st (store afterwards)]
Builtin(fn, a, st) ==
    LET ws == Words(a) n == Len(ws) IN
    CASE fn = "version" -> [ok |-> TRUE, res |-> {AppVersion(envid)}, st |-> st]
      [] fn = "appname" -> [ok |-> TRUE, st |-> st,                                  \* C: name-version, at most AppBuf characters
                            res |-> {LET full == AppName(envid) \o <<DASH>> \o AppVersion(envid)
                                     IN IF Len(full) > AppBuf THEN SubSeq(full, 1, AppBuf) ELSE full}]
      [] fn = "get"     -> [ok |-> Splittable(a), st |-> st,                         \* S: the stored value; C: 2nd word = default;
                            res |-> {IF n = 1 \/ n = 2                               \* C: wrong word count -> refused, nothing
                                     THEN (IF Has(st, ws[1]) THEN Lookup(st, ws[1]) ELSE IF n = 2 THEN ws[2] ELSE <<>>)
                                     ELSE <<>>}]
      [] fn = "put"     -> [ok |-> Splittable(a), res |-> {<<>>},                    \* S: put; C: wrong word count -> refused
                            st |-> IF n = 2 THEN PutVar(st, ws[1], ws[2]) ELSE st]
      [] fn = "dirscan" -> LET d == DirGet(envid, IF n >= 1 THEN ws[1] ELSE <<>>) IN           \* S: the regular files of the directory
                           [ok |-> Splittable(a) /\ (n = 1 => d.known /\ (d.isdir => Cardinality(RegularIn(d.ents)) <= 4)), st |-> st,
                            res |-> IF n = 1 /\ d.known /\ d.isdir THEN DirListings(d.ents) ELSE {<<>>}]   \* C: not one word / no directory: nothing
      [] fn = "random"  -> [ok |-> Splittable(a), st |-> st,                         \* S: "one of the words"
                            res |-> IF n = 0 THEN {<<>>} ELSE {ws[i] : i \in 1 .. n}]
\* the application's built-ins (the harness registers functions of three kinds): 0 returns a copy of its argument,
\* 1 returns NULL (nothing), 2 returns the constant "R"
AppBuiltin(kind, a, st) == [ok |-> TRUE, st |-> st, res |-> {IF kind = 0 THEN a ELSE IF kind = 1 THEN <<>> ELSE <<82>>}]
OpReturn ==
    /\ phase = "scan" /\ Depth > 1 /\ Finished(Top)
    /\ LET child == Top parent == stack[Depth - 1] IN
       IF Cardinality(child.outs) # 1 \/ child.trunc \/ child.pos < Len(child.txt)
       THEN GiveUp("argument-not-unique")
       ELSE LET a == CHOOSE o \in child.outs : TRUE
                r == IF child.fn = "app" THEN AppBuiltin(reg[child.app].kind, a, store) ELSE Builtin(child.fn, a, store) IN
            IF ~r.ok THEN GiveUp("argument-needs-word-grammar")
            ELSE IF Cardinality(r.res) > 1 /\ Depth > 2 THEN GiveUp("random-inside-argument")
            ELSE /\ stack' = SubSeq(stack, 1, Depth - 2) \o
                              <<[parent EXCEPT !.outs = {Cut(o \o w) : o \in parent.outs, w \in r.res},
                                               !.trunc = parent.trunc \/ \E o \in parent.outs, w \in r.res : Len(o) + Len(w) > Limit]>>
                 /\ store' = r.st /\ store0' = store0 /\ phase' = phase /\ envid' = envid /\ reg' = reg

\* the final step: the edge (store0, env, text) -> (acceptable results, store)
OpFinish ==
    /\ phase = "scan" /\ Depth = 1 /\ Finished(Top)
    /\ LET tr == Top.trunc \/ Top.pos < Len(Top.txt) IN
       IF tr /\ Cardinality(Top.outs) > 1 THEN GiveUp("alternatives-at-limit")
       ELSE /\ phase' = "idle" /\ stack' = <<>> /\ store' = store /\ store0' = store0 /\ envid' = envid /\ reg' = reg
            /\ Obs("expand", <<envid, Top.txt>>, [claimed |-> TRUE, why |-> "", outs |-> Top.outs, trunc |-> tr], store)

\* Lifecycle: between two expansions the application registers one more built-in.  Whatever the implementation keeps about
\* earlier calls (caches, table positions) must survive this: every later expansion is still the function of text, environment,
\* store and the CURRENT table.  C: names are lower-case words, distinct from each other and from the core names.
RegNameOK(nm, rg) == /\ nm # <<>> /\ \A k \in 1 .. Len(nm) : NameChar(nm[k]) /\ Lower(nm[k]) = nm[k]
                 /\ \A fn \in FnNames : Claimed[fn] # nm
                 /\ nm \notin {NmExec, NmDirscan}
                 /\ \A i \in 1 .. Len(rg) : rg[i].name # nm
OpRegister(nm, kind) ==
    /\ phase = "idle" /\ RegNameOK(nm, reg) /\ kind \in 0 .. 2
    /\ reg' = Append(reg, [name |-> nm, kind |-> kind])
    /\ UNCHANGED <<store, store0, phase, envid, stack>>
    /\ Obs("register", <<nm, kind>>, [claimed |-> TRUE, why |-> "", outs |-> {}, trunc |-> FALSE], store)

Init == store = <<>> /\ store0 = <<>> /\ phase = "idle" /\ envid = 0 /\ stack = <<>> /\ reg = <<>>

Scan == \/ OpPlain \/ OpTilde \/ OpEscape \/ OpEscapeInSingle \/ OpEscapeAtEnd \/ OpDollarInSingle
        \/ \E form \in {"bare", "brace", "paren"} : OpEnvRef(form)
        \/ OpEnvRefOpen
        \/ \E kind \in {"double", "single"} : OpQuote(kind)
        \/ OpSingleInDouble
        \/ \E fn \in FnNames \cup {"app"} : OpCall(fn)
        \/ OpCallOpen \/ OpUnknownPercent \/ OpPercentInSingle \/ OpReturn \/ OpFinish
Next == \/ phase = "idle" /\ \E s \in Starts(store, reg) : OpStart(s[1], s[2])
        \/ phase = "idle" /\ Len(reg) < Len(RegOffer) /\ OpRegister(RegOffer[Len(reg) + 1].name, RegOffer[Len(reg) + 1].kind)
        \/ Scan
Spec == Init /\ [][Next]_vars

------------------------------------------------------------------------------------------
(* properties of the reference itself *)
TypeOK == /\ phase \in {"idle", "scan"} /\ (phase = "idle" <=> stack = <<>>)
          /\ \A i \in 1 .. Len(stack) : stack[i].pos \in 0 .. Len(stack[i].txt) /\ stack[i].outs # {}
          /\ Sorted(store)
\* S: the result is never longer than the line-buffer limit (Limit = CONFIG_BUFF - 1)
OutputBounded == \A i \in 1 .. Len(stack) : \A o \in stack[i].outs : Len(o) <= Limit
\* S: never reads past the end of its input: nothing behind the terminator (index Len+1) is examined, in any frame
NeverReadsPastEnd == \A i \in 1 .. Len(stack) : stack[i].pos <= Len(stack[i].txt) /\ stack[i].hi <= Len(stack[i].txt) + 1
\* S: inside single quotes everything except \' is copied as it stands (stated on the step, independent of the actions)
InSingleStep == phase = "scan" /\ phase' = "scan" /\ Len(stack') = Len(stack) /\ Top.sq /\ stack'[Len(stack')].sq
SingleQuoteOpaque == [][ InSingleStep =>
    LET f == Top g == stack'[Len(stack')]
        used == SubSeq(f.txt, f.pos + 1, g.pos)
        lit == IF used = <<BSL, SQ>> THEN <<SQ>> ELSE used
    IN g.pos > f.pos /\ g.txt = f.txt
       /\ \/ g.outs = {Cut(o \o lit) : o \in f.outs}
          \/ used = <<BSL>> /\ g.pos = Len(g.txt) /\ g.outs = f.outs \cup {Cut(Append(o, BSL)) : o \in f.outs} ]_vars

\* S: a $-form is replaced in place by the value: what was produced before it is kept, exactly the form is consumed
\* (so the text after it is scanned next, unchanged), and the value is not scanned again
EnvStep == phase = "scan" /\ phase' = "scan" /\ Len(stack') = Len(stack) /\ Scanning /\ Cur = DOLLAR /\ ~Top.sq
PrefixSuffixPreserved == [][ EnvStep =>
    LET f == Top g == stack'[Len(stack')]
        used == SubSeq(f.txt, f.pos + 1, g.pos) n == Len(used)
        name == IF n >= 3 /\ used[2] = LBRACE /\ used[n] = RBRACE THEN SubSeq(used, 3, n - 1)
                ELSE IF n >= 3 /\ used[2] = LPAR /\ used[n] = RPAR THEN SubSeq(used, 3, n - 1)
                ELSE SubSeq(used, 2, n)
    IN /\ n >= 1 /\ g.txt = f.txt /\ g.sq = f.sq /\ g.dq = f.dq
       /\ (n >= 2 /\ used[2] \notin {LBRACE, LPAR}) => \A k \in 2 .. n : NameChar(used[k])
       /\ (n >= 2 /\ used[2] \notin {LBRACE, LPAR} /\ g.pos < Len(g.txt) /\ n - 1 < NameMax) => ~NameChar(g.txt[g.pos + 1])
       /\ g.outs = {Cut(o \o EnvGet(envid, name)) : o \in f.outs} ]_vars

\* S: %put(k v) followed by %get(k) returns v until k is put again; other keys are untouched; keys stay unique and ordered
PutThenGet == [][ store' # store =>
    \E k \in {store'[i][1] : i \in 1 .. Len(store')} :
        /\ Lookup(store', k) # <<>>
        /\ Builtin("get", k, store').res = {Lookup(store', k)}
        /\ \A i \in 1 .. Len(store) : store[i][1] # k => Lookup(store', store[i][1]) = store[i][2]
        /\ Len(store') = Len(store) + (IF Has(store, k) THEN 0 ELSE 1)
        /\ Sorted(store') ]_vars
\* queries never change the store
\* registering never disturbs what is there: store and earlier table entries (and their positions) are unchanged
RegisterOnlyAppends == [][ reg' # reg => /\ phase = "idle" /\ phase' = "idle" /\ store' = store
                                         /\ Len(reg') = Len(reg) + 1 /\ SubSeq(reg', 1, Len(reg)) = reg
                                         /\ \A i \in 1 .. Len(reg) : reg[i].name # reg'[Len(reg')].name ]_vars
StoreChangesOnlyOnReturn == [][ store' # store => (phase = "scan" /\ Depth > 1 /\ Top.fn = "put") ]_vars
================================================================================
